"""C12: random sequences of public operations on real poses; the invariant is evaluated after every step.
Generation is interleaved with execution (preconditions depend on the current pose) and driven by one seeded PRNG, so a (case, seed, backend) replays exactly.
numpy / torch in-process; `python -m harness.seqexec < cases.jsonl` as a child process when the sequence may convert to tensorflow."""
import io, json, random, sys, warnings
import numpy as np
import numpy.ma as ma
from . import posecase as pc


def kind_of(body):
    n = type(body).__name__
    return "numpy" if n.startswith("NumPy") else ("torch" if n.startswith("Torch") else "tf")


def arrays(body):
    """(data float64, missing bool same shape or None, confidence float64)"""
    be = kind_of(body)
    d = body.data
    if be == "numpy":
        return np.asarray(ma.getdata(d), dtype=np.float64), np.array(np.broadcast_to(ma.getmaskarray(d), d.shape)), np.asarray(body.confidence, dtype=np.float64)
    conv = (lambda x: x.detach().numpy()) if be == "torch" else (lambda x: np.asarray(x))
    conf = conv(body.confidence).astype(np.float64)
    if hasattr(d, "mask"):
        return conv(d.tensor).astype(np.float64), ~conv(d.mask).astype(bool), conf
    return conv(d).astype(np.float64), None, conf


def invariant(pose):
    """→ list of broken clauses (empty = well-formed)"""
    bad = []
    try:
        data, miss, conf = arrays(pose.body)
    except Exception as e:
        return ["the body cannot be inspected: %s" % type(e).__name__]
    N, D = pose.header.total_points(), pose.header.num_dims()
    if data.ndim != 4 or data.shape[2] != N or data.shape[3] != D:
        bad.append("data shape %s is not (frames, people, header points = %d, header dimensions = %d)" % (tuple(data.shape), N, D))
    if conf.ndim != 3 or tuple(conf.shape) != tuple(data.shape[:3]):
        bad.append("confidence shape %s is not (frames, people, points) of data shape %s" % (tuple(conf.shape), tuple(data.shape)))
    if miss is None:
        bad.append("the body carries no missing pattern")
    elif tuple(miss.shape) != tuple(data.shape):
        bad.append("mask shape %s differs from data shape %s" % (tuple(miss.shape), tuple(data.shape)))
    elif not bad:
        want = np.repeat((conf == 0)[..., None], data.shape[3], axis=3)
        if not np.array_equal(miss, want):
            n_extra, n_lack = int((miss & ~want).sum()), int((~miss & want).sum())
            bad.append("a point is marked missing without confidence 0 (%d coordinates) or has confidence 0 without being marked missing (%d)" % (n_extra, n_lack))
    return bad


def roundtrip(pose):
    """numpy body: write, read back, compare up to the float32 conversion → None or a description"""
    from pose_format import Pose
    from pose_format.pose_header import PoseHeaderCache
    buf = io.BytesIO()
    try:
        pose.write(buf)
    except Exception as e:
        return "write raises %s: %s" % (type(e).__name__, str(e)[:100])
    # the header cache is left as the history left it (the pose may itself have come from a read of a file with the same skeleton and other dimensions):
    # what is read back is the file just written, whatever was read before
    try:
        back = Pose.read(buf.getvalue())
    except Exception as e:
        return "the written bytes cannot be read: %s: %s" % (type(e).__name__, str(e)[:100])
    d0, m0, c0 = arrays(pose.body); d1, m1, c1 = arrays(back.body)
    f32 = lambda a: np.asarray(a, dtype=np.float32)
    with np.errstate(all="ignore"):
        if d0.shape != d1.shape or not np.array_equal(f32(c0).view(np.uint32), f32(c1).view(np.uint32)):
            return "confidences / shape differ after write→read"
        if not np.array_equal(m0, m1):
            return "the missing pattern differs after write→read"
        a, b = f32(d0), f32(d1)
        if not np.array_equal(np.where(m0, 0, a).view(np.uint32), np.where(m1, 0, b).view(np.uint32)):
            return "observed coordinates differ after write→read beyond the float32 conversion"
        if np.float32(pose.body.fps) != np.float32(back.body.fps):
            return "fps differs after write→read"
    hv = lambda h: ([h.dimensions.width, h.dimensions.height, h.dimensions.depth], [(c.name, list(c.points), [tuple(l) for l in c.limbs], [tuple(x) for x in c.colors], c.format) for c in h.components])
    try:
        if hv(pose.header) != hv(back.header):
            return "the header differs after write→read"
    except Exception as e:
        return "headers cannot be compared: %s" % type(e).__name__
    return None


def observed_points(pose):
    _, miss, conf = arrays(pose.body)
    return (conf != 0)


def choose_op(rng, pose, allow_tf, want=None):
    """one operation whose precondition holds in the current state, as a JSON-able dict (or None).
    `want`: the kind a planned scenario asks for at this step (used when its precondition holds; a trailing `!` asks for a strict subset of points)"""
    be = kind_of(pose.body)
    data, miss, conf = arrays(pose.body)
    F, P, N, D = data.shape
    obs = conf != 0
    comps = [(c.name, list(c.points)) for c in pose.header.components]
    c = ["copy", "select_frames", "slice_step", "dropout_uniform", "dropout_normal"]
    if be == "numpy":
        c += ["flip", "augment2d", "get_components", "bbox", "zero_filled", "to_torch"] + (["to_tf"] if allow_tf else [])
        if len(comps) > 1: c += ["remove_components"]
        if sum(len(p) for _, p in comps) > 1: c += ["remove_points"]
        if F >= 2: c += ["interpolate", "interpolate"]
        if obs.any(): c += ["focus"]
        if N >= 2: c += ["normalize", "normalize"]
        c += ["normalize_distribution", "normalize_unnormalize"]
    elif be == "torch":
        c += ["augment2d", "get_components", "get_components"]
        if len(comps) > 1: c += ["remove_components"]
        if sum(len(p) for _, p in comps) > 1: c += ["remove_points"]
    else:
        c += ["get_components", "get_components"]
        if P >= 2 or F <= 1:                 # tf.matmul on (F > 1, 1, N, D) aborts the interpreter in this sandbox (DESIGN §9)
            c += ["augment2d"]
        if len(comps) > 1: c += ["remove_components"]
        if sum(len(p) for _, p in comps) > 1: c += ["remove_points"]
        if N >= 2: c += ["normalize"]
        c += ["normalize_distribution"]
    if want == "select_none":
        return {"k": "select_frames", "ixs": []}                     # an empty filter: the pose of no frames
    if F == 0:
        return {"k": rng.choice(["copy", "slice_step"]), "by": 2} if rng.random() < 0.5 else {"k": "copy"}      # nothing else has a frame to work on
    strict = False
    if want is not None:
        strict = want.endswith("!")
        if want.rstrip("!") in c:
            c = [want.rstrip("!")]
    for _ in range(12):
        k = rng.choice(c)
        if k == "select_frames":
            return {"k": k, "ixs": [rng.randrange(F) for _ in range(rng.randint(1, 4))]}
        if k == "slice_step":
            return {"k": k, "by": rng.randint(1, 3)}
        if k in ("dropout_uniform", "dropout_normal"):
            return {"k": k, "seed": rng.randrange(10 ** 6)}
        if k == "flip":
            return {"k": k, "axis": rng.randrange(D)}
        if k == "augment2d":
            return {"k": k, "seed": rng.randrange(10 ** 6), "stds": [rng.choice([0, 0.2]), rng.choice([0, 0.3]), rng.choice([0, 0.1])]}
        if k == "get_components":
            names = [n for n, _ in comps]
            sel = rng.sample(names, rng.randint(1, len(names)))
            if strict:
                sel = [n for n, p in comps if len(p) >= 2] or sel
                pts = {n: rng.sample(p, rng.randint(1, len(p) - 1)) for n, p in comps if n in sel and len(p) >= 2}
            else:
                pts = {n: rng.sample(p, rng.randint(1, len(p))) for n, p in comps if n in sel and p and rng.random() < 0.5}
            return {"k": k, "components": sel, "points": pts or None}
        if k == "remove_components":
            names = [n for n, _ in comps]
            return {"k": k, "components": rng.sample(names, rng.randint(1, len(names) - 1)), "points": None}
        if k == "remove_points":
            n, p = rng.choice([(n, p) for n, p in comps if p])
            if sum(len(q) for _, q in comps) - 1 < 1: continue
            return {"k": "remove_components", "components": [], "points": {n: rng.sample(p, rng.randint(1, max(1, len(p) - 1)))}}
        if k == "interpolate":
            new = rng.choice([10, 12.5, 25, 30, 50, 60])
            cur = float(pose.body.fps)
            if not (cur > 0 and cur < float("inf")) or round(F * new / cur) < 1: continue        # a rate the pose cannot be resampled from
            return {"k": k, "new_fps": new, "kind": rng.choice(["linear", "quadratic", "cubic"])}
        if k == "normalize":
            both = [(a, b) for a in range(N) for b in range(N) if a != b and (obs[:, :, a] & obs[:, :, b]).any()]
            rng.shuffle(both)
            for a, b in both[:6]:
                sel = obs[:, :, a] & obs[:, :, b]
                dist = np.sqrt(((np.where(miss, 0, data)[:, :, a] - np.where(miss, 0, data)[:, :, b]) ** 2).sum(axis=-1))[sel]
                if np.isfinite(dist).all() and dist.mean() > 1e-3:                 # reference points jointly observed and apart
                    return {"k": k, "p1": a, "p2": b, "scale": rng.choice([1, 2, 0.5])}
            continue
        if k in ("normalize_distribution", "normalize_unnormalize"):
            axis = rng.choice([[0, 1], [0, 1, 2]])
            x = ma.array(data, mask=miss)
            with np.errstate(all="ignore"):
                sd = x.std(axis=tuple(axis))
            sdv = np.asarray(ma.getdata(sd)); sdm = np.asarray(ma.getmaskarray(sd))
            if sdm.all() or not np.isfinite(sdv[~sdm]).all() or (np.abs(sdv[~sdm]) < 1e-6).any():   # needs a non-zero deviation wherever one is defined
                continue
            return {"k": k, "axis": axis}
        if k in ("focus", "bbox", "zero_filled", "copy", "to_torch", "to_tf"):
            return {"k": k}
    return {"k": "copy"}


def apply(pose, op):
    from pose_format import Pose
    k = op["k"]
    if k == "copy": return pose.copy()
    if k == "select_frames": return Pose(pose.header, pose.body.select_frames(op["ixs"]))      # body-level API (what the dropouts use)
    if k == "slice_step": return pose.slice_step(op["by"])
    if k in ("dropout_uniform", "dropout_normal"):
        np.random.seed(op["seed"]); random.seed(op["seed"])
        if kind_of(pose.body) == "tf":
            import tensorflow as tf
            tf.random.set_seed(op["seed"])
        return (pose.frame_dropout_uniform() if k == "dropout_uniform" else pose.frame_dropout_normal())[0]
    if k == "flip": return pose.flip(op["axis"])
    if k == "augment2d":
        np.random.seed(op["seed"])
        return pose.augment2d(rotation_std=op["stds"][0], shear_std=op["stds"][1], scale_std=op["stds"][2])
    if k == "get_components": return pose.get_components(op["components"], op["points"])
    if k == "remove_components": return pose.remove_components(op["components"], op["points"])
    if k == "bbox": return pose.bbox()
    if k == "zero_filled": return Pose(pose.header, pose.body.zero_filled())
    if k == "interpolate": return pose.interpolate(op["new_fps"], kind=op["kind"])
    if k == "focus":
        pose.focus(); return pose
    if k == "normalize":
        from pose_format.pose_header import PoseNormalizationInfo
        return pose.normalize(PoseNormalizationInfo(op["p1"], op["p2"]), scale_factor=op["scale"])
    if k == "normalize_distribution":
        pose.normalize_distribution(axis=tuple(op["axis"])); return pose
    if k == "normalize_unnormalize":
        mu, std = pose.normalize_distribution(axis=tuple(op["axis"])); pose.unnormalize_distribution(mu, std); return pose
    if k == "to_torch": return pose.torch()
    if k == "to_tf": return pose.tensorflow()
    raise NotImplementedError(k)


def run_sequence(case, seed, length, start, allow_tf, plan=None):
    """→ {"ops": [...], "steps": [{"op", "backend", "shape", "broken": [...]} | {"op", "error"}], "roundtrip": None | str}"""
    from pose_format import Pose
    rng = random.Random(seed)
    out = {"ops": [], "steps": [], "roundtrip": None}
    with warnings.catch_warnings():
        warnings.simplefilter("ignore")
        with np.errstate(all="ignore"):
            pose = pc.build_pose(case)
            if start == "torch": pose = Pose(pose.header, pose.body.torch())
            if start == "tf": pose = Pose(pose.header, pose.body.tensorflow())
            # a third of the NumPy sequences start from the pose as READ from its own file (first read in a clean cache), the way poses usually come into being
            W0 = built = None
            if start == "numpy" and seed % 3 == 0:
                from pose_format.pose_header import PoseHeaderCache
                try:
                    buf = io.BytesIO(); pose.write(buf)
                    PoseHeaderCache.clear_cache()
                    built, W0 = pose, buf.getvalue()
                    pose = Pose.read(W0)
                    out["via_read"] = True
                except Exception:
                    W0 = built = None
            b0 = invariant(pose)
            out["steps"].append({"op": "construct", "backend": kind_of(pose.body), "shape": list(arrays(pose.body)[0].shape), "broken": b0})
            for step_no in range(max(length, len(plan or []))):
                if b0:
                    break
                op = choose_op(rng, pose, allow_tf, plan[step_no] if plan and step_no < len(plan) else None)
                out["ops"].append(op)
                try:
                    pose = apply(pose, op)
                except Exception as e:
                    out["steps"].append({"op": op, "error": "%s: %s" % (type(e).__name__, str(e)[:160])})
                    return out
                b = invariant(pose)
                st = {"op": op, "backend": kind_of(pose.body), "shape": list(arrays(pose.body)[0].shape), "broken": b}
                if st["backend"] == "numpy" and not b:
                    st["missing"] = [int(x) for x in arrays(pose.body)[1].reshape(-1)]
                    st["conf"] = [float(x) for x in arrays(pose.body)[2].reshape(-1)]
                    st["sizes"] = [len(c.points) for c in pose.header.components]
                    st["names"] = [[c.name, list(c.points)] for c in pose.header.components]
                out["steps"].append(st)
                if b:
                    return out
            if W0 is not None and not b0:
                # the file the sequence started from still reads back as it was written, whatever was done to the pose read from it
                try:
                    again = Pose.read(W0)
                    hv = lambda h: ([h.dimensions.width, h.dimensions.height, h.dimensions.depth], [(c.name, list(c.points), [tuple(l) for l in c.limbs], [tuple(x) for x in c.colors], c.format) for c in h.components])
                    d0, m0, c0 = arrays(built.body); d1, m1, c1 = arrays(again.body)
                    if hv(again.header) != hv(built.header):
                        out["history"] = "the header of the start pose's file reads back differently after operations on the pose read from it"
                    elif d0.shape != d1.shape or not np.array_equal(m0, m1) or not np.array_equal(np.where(m0, 0, d0).astype(np.float32), np.where(m1, 0, d1).astype(np.float32), equal_nan=True):
                        out["history"] = "the body of the start pose's file reads back differently after operations on the pose read from it"
                except Exception as e:
                    out["history"] = "the start pose's file can no longer be read: %s" % type(e).__name__
            if kind_of(pose.body) == "numpy" and not b0:
                out["roundtrip"] = roundtrip(pose)
    return out


if __name__ == "__main__":
    for line in sys.stdin:
        if line.strip():
            c = json.loads(line)
            sys.stdout.write(json.dumps(run_sequence(c["case"], c["seed"], c["length"], c["start"], True, c.get("plan"))) + "\n")
            sys.stdout.flush()
