"""Deterministic, lock-aware, line-level thread scheduler for the real `Pose.read` (C18).

Each worker runs under `sys.settrace`; every `line` event inside the traced files is a possible preemption point: the worker counts its lines
against the budget the scheduler granted and stops when it is used up, so exactly one thread advances at a time and the interleaving is the one
the schedule prescribes. Locks found in the scanned modules are replaced by cooperative re-entrant locks whose failed
acquire yields to the scheduler (a blocking acquire under a one-thread-at-a-time scheduler would deadlock)."""
import sys, threading, _thread

CUR = threading.local()


class SchedLock:
    def __init__(self):
        self.owner = None
        self.count = 0

    def acquire(self, blocking=True, timeout=-1):
        s, tid = getattr(CUR, "sched", None), getattr(CUR, "tid", None)
        while True:
            if self.owner is None or self.owner == tid:
                self.owner = tid
                self.count += 1
                return True
            if not blocking:
                return False                       # a try-lock fails at once, as threading.Lock's does
            if s is None:
                raise RuntimeError("lock held outside the scheduler")
            s.yield_point(tid, ("<blocked>", 0), blocked=True)

    def release(self):
        self.count -= 1
        if self.count == 0:
            self.owner = None

    __enter__ = acquire

    def __exit__(self, *a):
        self.release()


LOCK_TYPES = (type(threading.Lock()), type(threading.RLock()))


def instrument_locks(modules):
    n = 0
    for mod in modules:
        for name, obj in list(vars(mod).items()):
            if isinstance(obj, LOCK_TYPES):
                setattr(mod, name, SchedLock()); n += 1
            if isinstance(obj, type) and getattr(obj, "__module__", None) == mod.__name__:
                for a, v in list(vars(obj).items()):
                    if isinstance(v, LOCK_TYPES):
                        setattr(obj, a, SchedLock()); n += 1
    return n


class Sched:
    """One thread advances at a time. The scheduler grants a thread a BUDGET of line events (a schedule segment); the thread counts its own lines and
    hands control back only when the budget is used up, when it has to wait for a lock, or when it finishes — a handful of hand-overs per schedule
    instead of one per source line."""

    def __init__(self, n, files):
        self.n = n
        self.files = files
        # hand-over by raw locks used as binary semaphores: `sem[t]` lets thread t run, `arrived[t]` tells the scheduler that thread t has stopped
        # (budget used up, waiting for a lock, or finished)
        self.sem = [_thread.allocate_lock() for _ in range(n)]
        self.arrived = [_thread.allocate_lock() for _ in range(n)]
        for l in self.sem + self.arrived:
            l.acquire()
        self.done = [False] * n
        self.at = [None] * n
        self.blocked = [False] * n
        self.budget = [0] * n               # line events thread t may still execute before handing over (None = as many as it takes)
        self.trace = []                     # (thread, line) in the order the lines were executed

    def yield_point(self, tid, where, blocked=False):
        """called by thread `tid` before it executes source line `where` (or, `blocked`, when it cannot get a lock)"""
        if not blocked:
            b = self.budget[tid]
            if b is None or b > 0:
                if b is not None:
                    self.budget[tid] = b - 1
                self.trace.append((tid, where))
                return
        self.at[tid] = where
        self.blocked[tid] = blocked
        self.arrived[tid].release()
        self.sem[tid].acquire()
        if not blocked:                      # resumed with a fresh budget (≥ 1): this line is its first step
            b = self.budget[tid]
            if b is not None:
                self.budget[tid] = b - 1
            self.trace.append((tid, where))

    def make_trace(self, tid):
        files = self.files
        def local(frame, event, arg):
            if event == "line" and frame.f_code.co_filename in files:
                self.yield_point(tid, (frame.f_code.co_name, frame.f_lineno, frame.f_code.co_filename.rsplit("/", 1)[-1]))
            return local
        return lambda frame, event, arg: local if frame.f_code.co_filename in files else None

    def grant(self, tid, b):
        self.budget[tid] = b
        self.blocked[tid] = False
        self.sem[tid].release()
        self.arrived[tid].acquire()

    def run(self, fns, schedule):
        """schedule: list of (thread id, steps) segments — `steps = None` means "until that thread finishes"; after the schedule is exhausted the
        lowest unfinished thread runs. A thread that waits for a lock lets the other threads advance line by line until it gets it.
        Returns (results, trace)."""
        n = self.n
        res = [None] * n
        def worker(tid):
            CUR.sched, CUR.tid = self, tid
            sys.settrace(self.make_trace(tid))
            try:
                res[tid] = ("ok", fns[tid]())
            except BaseException as e:
                res[tid] = ("error", type(e).__name__ + ": " + str(e)[:80])
            finally:
                sys.settrace(None)
                self.done[tid] = True
                self.arrived[tid].release()
        ths = [threading.Thread(target=worker, args=(i,), daemon=True) for i in range(n)]
        for t in ths:
            t.start()
        for k in range(n):
            self.arrived[k].acquire()
        spins = 0
        segs = [[t, k] for t, k in schedule]
        while not all(self.done):
            while segs and (self.done[segs[0][0]] or segs[0][1] == 0):
                segs.pop(0)
            if segs:
                seg = segs[0]
                tid, k = seg
            else:
                seg, tid, k = None, next(j for j in range(n) if not self.done[j]), None
            self.grant(tid, k)
            if seg is not None and k is not None:
                seg[1] = 0 if self.done[tid] else self.budget[tid]
            if not self.done[tid] and self.blocked[tid]:
                # it waits for a lock another thread holds: another live thread takes one step (a waiting one retries), then we look again
                progressed = False
                for j in range(n):
                    if j != tid and not self.done[j]:
                        before = len(self.trace)
                        self.grant(j, 1)
                        if len(self.trace) > before or self.done[j]:
                            progressed = True
                            break
                if seg is not None and seg[1] is not None and seg[1] > 0:
                    seg[1] -= 1                  # the segment's time passes while its thread waits
                spins = 0 if progressed else spins + 1
                if spins > 10 * n:
                    raise RuntimeError("deadlock: all live threads blocked")
        for t in ths:
            t.join()
        return res, self.trace
