"""Deterministic, lock-aware, line-level thread scheduler for the real `Pose.read` (C18).

Each worker runs under `sys.settrace`; every `line` event inside the files that touch the process-global header cache is a yield point:
the worker reports where it is and blocks until the scheduler lets it take the next step, so exactly one thread advances at a time and the
interleaving is the one the schedule prescribes. Locks found in the scanned modules are replaced by cooperative re-entrant locks whose failed
acquire yields to the scheduler (a blocking acquire under a one-thread-at-a-time scheduler would deadlock)."""
import sys, threading

CUR = threading.local()


class SchedLock:
    def __init__(self):
        self.owner = None
        self.count = 0

    def acquire(self, blocking=True, timeout=-1):
        s, tid = getattr(CUR, "sched", None), getattr(CUR, "tid", None)
        while True:
            if self.owner is None or self.owner == tid:
                self.owner = tid
                self.count += 1
                return True
            if s is None:
                raise RuntimeError("lock held outside the scheduler")
            s.yield_point(tid, ("<blocked>", 0), blocked=True)

    def release(self):
        self.count -= 1
        if self.count == 0:
            self.owner = None

    __enter__ = acquire

    def __exit__(self, *a):
        self.release()


LOCK_TYPES = (type(threading.Lock()), type(threading.RLock()))


def instrument_locks(modules):
    n = 0
    for mod in modules:
        for name, obj in list(vars(mod).items()):
            if isinstance(obj, LOCK_TYPES):
                setattr(mod, name, SchedLock()); n += 1
            if isinstance(obj, type) and getattr(obj, "__module__", None) == mod.__name__:
                for a, v in list(vars(obj).items()):
                    if isinstance(v, LOCK_TYPES):
                        setattr(obj, a, SchedLock()); n += 1
    return n


class Sched:
    def __init__(self, n, files):
        self.n = n
        self.files = files
        self.sem = [threading.Semaphore(0) for _ in range(n)]
        self.arrived = threading.Semaphore(0)
        self.done = [False] * n
        self.at = [None] * n
        self.blocked = [False] * n

    def yield_point(self, tid, where, blocked=False):
        self.at[tid] = where
        self.blocked[tid] = blocked
        self.arrived.release()
        self.sem[tid].acquire()

    def make_trace(self, tid):
        files = self.files
        def local(frame, event, arg):
            if event == "line" and frame.f_code.co_filename in files:
                self.yield_point(tid, (frame.f_code.co_name, frame.f_lineno))
            return local
        return lambda frame, event, arg: local if frame.f_code.co_filename in files else None

    def run(self, fns, schedule):
        """schedule: list of (thread id, steps) segments — `steps = None` means "until that thread finishes"; after the schedule is exhausted the
        lowest unfinished thread runs. Returns (results, trace)."""
        n = self.n
        res = [None] * n
        def worker(tid):
            CUR.sched, CUR.tid = self, tid
            sys.settrace(self.make_trace(tid))
            try:
                res[tid] = ("ok", fns[tid]())
            except BaseException as e:
                res[tid] = ("error", type(e).__name__ + ": " + str(e)[:80])
            finally:
                sys.settrace(None)
                self.done[tid] = True
                self.arrived.release()
        ths = [threading.Thread(target=worker, args=(i,), daemon=True) for i in range(n)]
        for t in ths:
            t.start()
        for _ in range(n):
            self.arrived.acquire()
        trace, spins = [], 0
        segs = [[t, k] for t, k in schedule]
        while not all(self.done):
            while segs and (self.done[segs[0][0]] or segs[0][1] == 0):
                segs.pop(0)
            if segs:
                tid = segs[0][0]
                if segs[0][1] is not None:
                    segs[0][1] -= 1
            else:
                tid = next(k for k in range(n) if not self.done[k])
            if self.blocked[tid]:
                alt = [k for k in range(n) if not self.done[k] and not self.blocked[k]]
                if alt:
                    tid = alt[0]
                else:
                    spins += 1
                    if spins > 10 * n:
                        raise RuntimeError("deadlock: all live threads blocked")
            trace.append((tid, self.at[tid]))
            self.sem[tid].release()
            self.arrived.acquire()
        for t in ths:
            t.join()
        return res, trace
