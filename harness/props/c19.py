"""C19 — OpenPose import puts every keypoint where it belongs."""
import json, os, re, shutil
import numpy as np
from .. import core, posecase as pc
from ..mtexec import f64_bits, bits_f64

RULE = ("frame dictionaries with any subset of frame ids in 0..9 (never empty), 0..3 people varying per frame, a distinct value in every cell (so that any index slip shows), zero confidences sprinkled in, "
        "requested frame counts ≥ last id + 1 or none, width/height/depth/fps incl. non-integral fps; loaded with the real load_openpose and compared cell by cell with the JSON (oracle) and with the Lean model; "
        "conforming file names (digit-free and digit-bearing prefixes, several digit groups, unicode) through get_frame_id vs the Lean matcher and Python's re, and through load_openpose_directory in a scratch directory; "
        "non-trivial = distinct frame dictionary / file name")
ASSUMPTIONS = ["a person's component list has 3 numbers per keypoint of the component, or is empty (a part OpenPose was not asked to detect): the shapes OpenPose writes", "conforming file names: no earlier occurrence of '_keypoints' + any char + 'json' directly followed by the digit group"]


TINY = [1e-9, 1e-7, 1e-30, 1e-40, 2e-8]        # confidences that are small but not 0 (all non-zero as binary32): such points are present


def gen_frames(rng, comps):
    ids = sorted(rng.sample(range(10), rng.randint(1, 5)))
    frames, counter = {}, [1.0]
    def val():
        counter[0] += 1.0
        return counter[0]
    for fid in ids:
        people = []
        for _ in range(rng.choice([0, 1, 1, 2, 3])):
            person = {}
            disabled = set()
            if rng.random() < 0.3:                                   # OpenPose run without --face / --hand: those parts are written as empty lists
                disabled = set(rng.sample([name for name, _ in comps[1:]], rng.randint(1, len(comps) - 1)))
            for name, n in comps:
                nums = []
                for _ in range(0 if name in disabled else n):
                    nums += [val(), val(), 0.0 if rng.random() < 0.25 else (rng.choice(TINY) if rng.random() < 0.1 else round(rng.random(), 3) or 0.5)]
                person[name] = nums
            if rng.random() < 0.4:                                   # JSON objects are unordered: the same person with its keys in another order
                keys = list(person); rng.shuffle(keys)
                person = {k: person[k] for k in keys}
            if rng.random() < 0.3:
                person = dict(person, person_id=[-1])                # a key that is not a component
            people.append(person)
        frames[fid] = {"people": people}
    return frames


def run(ctx):
    from pose_format.utils.openpose import load_openpose, get_frame_id, OPENPOSE_FRAME_PATTERN, OpenPose_Components, load_openpose_directory
    rng = ctx.rng
    comps = [(c.name, len(c.points)) for c in OpenPose_Components]
    total = sum(n for _, n in comps)
    cases = []
    for _ in range(ctx.pick(60, 600)):
        frames = gen_frames(rng, comps)
        fps = rng.choice([24, 25, 29.97, 30, 59.94, 0.5])
        extra = rng.choice([None, None, 0, 1, 5])
        nf = None if extra is None else max(frames) + 1 + extra
        dims = (rng.choice([1000, 640]), rng.choice([1000, 480]), rng.choice([0, 3]))
        cases.append((frames, fps, nf, dims))
    reqs = []
    for frames, fps, nf, dims in cases:
        reqs.append({"op": "openpose", "sizes": [n for _, n in comps], "fps": f64_bits(np.float32(fps)), **({"num_frames": nf} if nf is not None else {}),
                     "frames": [{"id": fid, "people": [[[f64_bits(np.float32(x)) for x in person[name]] for name, _ in comps] for person in fr["people"]]} for fid, fr in frames.items()]})
    outs = ctx.driver.run(reqs)
    for (frames, fps, nf, dims), mo in zip(cases, outs):
        info = {"frame_ids": sorted(frames), "people_per_frame": {k: len(v["people"]) for k, v in frames.items()}, "fps": fps, "num_frames": nf, "dims": dims}
        ctx.evaluated(json.dumps([frames, fps, nf])); ctx.count("frames_present:%d" % len(frames))
        if len(ctx.samples) < 2:
            ctx.sample(info)
        try:
            pose = load_openpose(frames, fps=fps, width=dims[0], height=dims[1], depth=dims[2], num_frames=nf)
        except Exception as e:
            ctx.violation("loading a valid frame dictionary raises", info, {"error": type(e).__name__ + ": " + str(e)[:100]}, True, signature={"clause": "raises"}); continue
        data, conf, mask = np.asarray(pose.body.data.data), np.asarray(pose.body.confidence), np.ma.getmaskarray(pose.body.data)
        F = nf if nf is not None else max(frames) + 1
        P = max(len(fr["people"]) for fr in frames.values())
        if data.shape != (F, P, total, 2) or conf.shape != (F, P, total):
            ctx.violation("loaded pose has the wrong shape", info, {"shape": list(data.shape), "want": [F, P, total, 2]}, True, signature={"clause": "shape"}); continue
        hd = pose.header.dimensions
        if (hd.width, hd.height, hd.depth) != dims or float(pose.body.fps) != float(fps):
            ctx.violation("requested size / frame rate is not recorded in the result", info, {"dims": [hd.width, hd.height, hd.depth], "fps": pose.body.fps}, True, signature={"clause": "meta"}); continue
        bad = None
        for f in range(F):
            for p in range(P):
                person = frames[f]["people"][p] if f in frames and p < len(frames[f]["people"]) else None
                k = 0
                for name, n in comps:
                    for j in range(n):
                        if person is None or not person[name]:          # absent person, or a part OpenPose was not asked for
                            want = (0.0, 0.0, 0.0)
                        else:
                            nums = person[name]; want = (nums[3 * j], nums[3 * j + 1], nums[3 * j + 2])
                        got = (float(data[f, p, k, 0]), float(data[f, p, k, 1]), float(conf[f, p, k]))
                        if tuple(np.float32(x) for x in want) != tuple(np.float32(x) for x in got) or bool(mask[f, p, k].all()) != (np.float32(want[2]) == 0) or bool(mask[f, p, k].any()) != (np.float32(want[2]) == 0):
                            bad = bad or {"frame": f, "person": p, "component": name, "keypoint": j, "want": want, "got": got, "missing": mask[f, p, k].tolist()}
                        k += 1
        if bad:
            ctx.violation("a keypoint is not where its frame / person / component says", info, bad, True, signature={"clause": "cell"}); continue
        if not mo["ok"]:
            ctx.violation("openpose: model refuses a dictionary the implementation loads", info, {}, False); continue
        mb = mo["body"]
        mconf = [bits_f64(x) for x in mb["conf"]]
        if mb["shape"][:2] != [F, P] if P > 0 else mb["shape"][0] != F:
            ctx.violation("openpose: model shape differs", info, {"model": mb["shape"]}, False); continue
        if P > 0 and (mconf != [float(x) for x in conf.reshape(-1)] or [bits_f64(x) for x in mb["data"]] != [float(x) for x in data.reshape(-1)] or mb["missing"] != [int(x) for x in mask.reshape(-1)]
                      or bits_f64(mb["fps"]) != float(np.float32(fps))):
            ctx.violation("openpose: loaded values differ from the model's", info, {}, False)
    # ---- file names
    names = []
    for _ in range(ctx.pick(150, 1500)):
        pre = rng.choice(["", "video_", "clip-", "a b_", "cam1_", "2021_05_", "x9y", "take 3 ", "视频_", "v_000_", "1_keypointsXjson", "9_keypoints.json_"])
        digits = rng.choice(["0", "7", "12", "000000000012", "00000", "1234567890123", str(rng.randrange(10 ** 6))])
        names.append(pre + digits + "_keypoints.json")
    names += ["_keypoints.json", "abc_keypoints.json", "12_keypoints_json", "12_keypointsXjson", "١٢_keypoints.json", "12_keypoints\njson", "5_keypoints.json.bak", "a5_keypoints.jsonb7_keypoints.json"]
    mouts = ctx.driver.run([{"op": "frame_id", "name": pc.hx(n)} for n in names])
    for n, mo in zip(names, mouts):
        ctx.evaluated(("name", n)); ctx.count("filename")
        try:
            got = get_frame_id(n, OPENPOSE_FRAME_PATTERN)
        except Exception as e:
            got = None
        conforming = re.fullmatch(r"(.*?)(\d+)_keypoints\.json", n, re.S)
        if conforming and not re.search(r"_keypoints.json", conforming.group(1), re.S) and not (conforming.group(1) and conforming.group(1)[-1].isdigit()):
            want = int(conforming.group(2))
            if got != want:
                ctx.violation("the frame number is not the last digit group before '_keypoints.json'", {"name": n}, {"got": got, "want": want}, True, signature={"clause": "frame_id"})
        ascii_only = all(ord(c) < 128 for c in n)
        if ascii_only and (mo.get("frame") if mo["ok"] else None) != got:
            ctx.violation("get_frame_id differs from the model's matcher", {"name": n}, {"impl": got, "model": mo.get("frame") if mo["ok"] else None}, False)
    # ---- through the directory loader
    scratch = os.path.join(core.SCRATCH, "openpose-%d" % os.getpid())
    try:
        for _ in range(ctx.pick(6, 30)):
            shutil.rmtree(scratch, ignore_errors=True); os.makedirs(scratch)
            frames = gen_frames(rng, comps)
            directed = _ % 3                                         # 0: the last frame has no people; 1: no frame has any; 2: as drawn
            if directed == 0 and len(frames) >= 2:
                frames[max(frames)] = {"people": []}
            elif directed == 1:
                frames = {k: {"people": []} for k in frames}
            prefix = rng.choice(["video_", "", "clip2_"])
            for fid, fr in frames.items():
                with open(os.path.join(scratch, "%s%012d_keypoints.json" % (prefix, fid)), "w") as f:
                    json.dump(fr, f)
            fps, w, h, dp = rng.choice([25, 29.97, 12.5, 0.4, 59.94]), rng.choice([100, 640, 1]), rng.choice([200, 480]), rng.choice([0, 0, 7])
            nf = rng.choice([None, None, max(frames) + 1, max(frames) + 4]) if directed == 2 else None
            kw = dict(fps=fps, width=w, height=h, depth=dp, **({} if nf is None else {"num_frames": nf}))
            b = load_openpose(frames, **kw)
            ctx.evaluated(("dir", json.dumps(frames), json.dumps(kw))); ctx.count("directory")
            try:
                a = load_openpose_directory(scratch, **kw)
            except Exception as e:
                ctx.violation("the directory loader raises on files whose frame dictionary load_openpose loads", {"prefix": prefix, "ids": sorted(frames), "arguments": kw,
                              "people_per_frame": {k: len(v["people"]) for k, v in frames.items()}}, {"error": type(e).__name__ + ": " + str(e)[:100]}, True, signature={"clause": "directory-raises"})
                continue
            if not (np.array_equal(np.asarray(a.body.data.data), np.asarray(b.body.data.data)) and np.array_equal(a.body.confidence, b.body.confidence)
                    and np.array_equal(np.ma.getmaskarray(a.body.data), np.ma.getmaskarray(b.body.data))):
                ctx.violation("the directory loader places frames differently from their file names", {"prefix": prefix, "ids": sorted(frames), "arguments": kw}, {}, True, signature={"clause": "directory"})
            ha = a.header.dimensions
            if (ha.width, ha.height, ha.depth) != (w, h, dp) or float(a.body.fps) != float(fps):
                ctx.violation("requested size / frame rate is not recorded in the result (directory loader)", {"prefix": prefix, "ids": sorted(frames), "arguments": kw},
                              {"dims": [ha.width, ha.height, ha.depth], "fps": float(a.body.fps)}, True, signature={"clause": "meta-directory"})
    finally:
        shutil.rmtree(scratch, ignore_errors=True)


def replay(ctx, rep):
    raise SystemExit("replay: re-run ./check C19 with VERIF_SEED=%s" % rep.get("seed"))
