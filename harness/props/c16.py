"""C16 — frame selection, stepping and dropout return real frames in order."""
import json, math, os, random, subprocess, sys
import numpy as np
from .. import core

RULE = ("bodies with F ∈ {1, 2, 3, 10, 100} frames (distinct values per cell); select_frames with arbitrary index lists (repeats, any order), slice_step with k ∈ {1, 2, 3, 7, F, F+1}; "
        "frame_dropout_given_percent with p ∈ {0, dyadic fractions, 0.5, 0.99, 1, 1.5}, frame_dropout_uniform / frame_dropout_normal with ordinary and degenerate parameters, many seeds each; "
        "NumPy, PyTorch and TensorFlow bodies (tensorflow in a child process); every returned (pose, indexes) pair is compared with fancy-indexing the source by the returned indexes, the index list with the "
        "clauses of the property, and the dropped count with the Lean model; non-trivial = distinct (backend, F, call, arguments, seed)")
ASSUMPTIONS = ["random.sample / tf.random.shuffle return duplicate-free in-range draws (the theorems hold for every such draw)", "int(n·p) and int(n·0.99) are evaluated in binary64 by the code and by the harness alike"]

WORKER = r'''
import json, sys, random, warnings
warnings.filterwarnings("ignore")
import numpy as np
be = sys.argv[1]
def mk(F, fps=30.0):
    data = np.arange(F * 1 * 2 * 2, dtype=np.float32).reshape(F, 1, 2, 2) + 1
    conf = np.ones((F, 1, 2), dtype=np.float32)
    conf[:, 0, 0] = 0.5 + np.arange(F, dtype=np.float32) / 256          # a distinct confidence per frame
    conf[1::2, 0, 1] = 0                                                 # and a missing point in every odd frame
    from pose_format.numpy import NumPyPoseBody
    b = NumPyPoseBody(fps, data, conf)
    b.data[2::3, 0, 0, 1] = np.ma.masked                                # and a mask of its own (a coordinate of an observed point masked after construction) in every third frame
    return b if be == "numpy" else (b.torch() if be == "torch" else b.tensorflow())
def frames_of(body):
    """per frame: [first coordinate, confidence of point 0 (in 1/256), point 1 missing?] — the three things a frame carries"""
    d = body.data
    if be == "numpy":
        raw, miss = np.asarray(d.data), np.asarray(np.ma.getmaskarray(d))
        conf = np.asarray(body.confidence)
    else:
        t, m = d.tensor, d.mask
        raw = np.asarray(t) if be == "tf" else t.numpy()
        miss = ~(np.asarray(m) if be == "tf" else m.numpy()).astype(bool)
        conf = np.asarray(body.confidence) if be == "tf" else body.confidence.numpy()
    return [[int(raw[f, 0, 0, 0]), int(round(float(conf[f, 0, 0]) * 256)), int(bool(miss[f, 0, 1, 0])), int(bool(miss[f, 0, 0, 1]))] for f in range(raw.shape[0])]
for line in sys.stdin:
    if not line.strip(): continue
    c = json.loads(line)
    body = mk(c["F"], c.get("fps", 30.0))
    source0 = frames_of(body)
    random.seed(c["seed"]); np.random.seed(c["seed"])
    if be == "tf":
        import tensorflow as tf
        tf.random.set_seed(c["seed"])
    try:
        if c["call"] == "select_frames":
            r = body.select_frames(c["ixs"]); out = {"frames": frames_of(r), "fps": float(r.fps)}
            out["again"] = frames_of(body.select_frames(c["ixs"]))
        elif c["call"] == "slice_step":
            r = body.slice_step(c["by"]); out = {"frames": frames_of(r), "fps": float(r.fps)}
            out["again"] = frames_of(body.slice_step(c["by"]))
        elif c["call"] == "pose_sequence":
            # the operations through the Pose object (pass-through to its body), before and after the pose's body was replaced
            from pose_format import Pose
            from pose_format.pose_header import PoseHeader, PoseHeaderComponent, PoseHeaderDimensions
            pose = Pose(PoseHeader(0.2, PoseHeaderDimensions(10, 10, 0), [PoseHeaderComponent("c", ["a", "b"], [(0, 1)], [(1, 2, 3)], "XYC")]), body)
            first = pose.slice_step(c["by"])
            pose.body = pose.body.select_frames(c["ixs"])
            r = pose.slice_step(c["by"]).body
            out = {"frames": frames_of(r), "fps": float(r.fps), "first": frames_of(first.body)}
            body = mk(c["F"], c.get("fps", 30.0))                  # (the source check below looks at an untouched body)
        else:
            r, idx = getattr(body, c["call"])(*c["args"])
            idx = [int(x) for x in (np.asarray(idx) if be == "tf" else idx)]
            out = {"frames": frames_of(r), "indexes": idx, "fps": float(r.fps)}
        out["source_after"] = frames_of(body); out["source"] = source0
    except Exception as e:
        out = {"error": type(e).__name__ + ": " + str(e)[:100]}
    sys.stdout.write(json.dumps(out) + "\n"); sys.stdout.flush()
'''


def run_worker(be, cases):
    payload = "".join(json.dumps(c) + "\n" for c in cases)
    r = subprocess.run([sys.executable, "-W", "ignore", "-c", WORKER, be], input=payload, capture_output=True, text=True, timeout=3000, cwd=core.VERIF,
                       env=dict(os.environ, TF_CPP_MIN_LOG_LEVEL="3", CUDA_VISIBLE_DEVICES=""))
    outs = [json.loads(l) for l in r.stdout.splitlines() if l.strip()]
    if r.returncode != 0 or len(outs) != len(cases):
        raise core.InfraError("%s worker died (exit %s, %d of %d answers): %s" % (be, r.returncode, len(outs), len(cases), r.stderr[-800:]))
    return outs


def gen_cases(rng, ctx):
    cases = []
    for F in [1, 2, 3, 10, 100]:
        for _ in range(ctx.pick(3, 20)):
            cases.append({"F": F, "call": "select_frames", "ixs": [rng.randrange(F) for _ in range(rng.randint(1, 6))], "seed": 0})
        cases.append({"F": F, "call": "select_frames", "ixs": [], "seed": 0})                       # the empty request: a pose of no frames
        cases.append({"F": F, "call": "select_frames", "ixs": list(range(F)), "seed": 0})             # every frame, in order (as many indexes as frames)
        cases.append({"F": F, "call": "select_frames", "ixs": [F - 1 - i for i in range(F)], "seed": 0})
        # structured index lists: contiguous blocks in shuffled / reversed / rotated order, repeats whose end points span exactly len − 1
        for _ in range(ctx.pick(6, 30)):
            a = rng.randrange(F); b = rng.randint(a, min(F - 1, a + 5))
            block = list(range(a, b + 1))
            shuffled = block[:]; rng.shuffle(shuffled)
            variants = [block, block[::-1], shuffled, block[1:] + block[:1]]
            if len(block) >= 3:
                rep = [block[0]] + [rng.choice(block) for _ in range(len(block) - 2)] + [block[-1]]
                variants.append(rep)
            for v in variants:
                cases.append({"F": F, "call": "select_frames", "ixs": v, "seed": 0})
        for by in (1, 2, 3):
            ixs = [rng.randrange(F) for _ in range(rng.randint(1, 6))]
            cases.append({"F": F, "call": "pose_sequence", "by": by, "ixs": ixs, "seed": 0})
        for by in sorted({1, 2, 3, 7, F, F + 1}):
            cases.append({"F": F, "call": "slice_step", "by": by, "seed": 0})
            for fps in (25, 30, 29.97, 0.5):                 # a Python int (v0.1 files, interpolate(new_fps=int), user code) and rates no step divides
                cases.append({"F": F, "call": "slice_step", "by": by, "seed": 0, "fps": fps})
        for p in [0.0, 0.25, 0.5, 0.125, 0.3, 0.75, 0.99, 1.0, 1.5]:
            for seed in range(ctx.pick(4, 40)):
                cases.append({"F": F, "call": "frame_dropout_given_percent", "args": [p], "seed": seed})
        for args in [[0.2, 1.0], [0.0, 0.0], [0.5, 0.5], [0.0, 0.3]]:
            for seed in range(ctx.pick(3, 30)):
                cases.append({"F": F, "call": "frame_dropout_uniform", "args": args, "seed": seed})
        for args in [[0.5, 0.1], [0.0, 0.0], [0.2, 0.0], [0.9, 0.3], [0.02, 0.03], [0.0, 0.05], [-0.3, 0.05]]:      # means near / below 0: the drawn fraction is folded back with abs()
            for seed in range(ctx.pick(3, 30)):
                cases.append({"F": F, "call": "frame_dropout_normal", "args": args, "seed": seed})
    return cases


def run(ctx):
    rng = ctx.rng
    cases = gen_cases(rng, ctx)
    reqs, meta = [], []
    for be in ("numpy", "torch", "tf"):
        outs = run_worker(be, cases)
        for c, o in zip(cases, outs):
            F = c["F"]
            info = dict(c, backend=be)
            ctx.evaluated((be, json.dumps(c))); ctx.count(f"{be}:{c['call']}")
            sig = {"backend": be, "call": c["call"]}
            if "error" in o:
                ctx.violation("a frame operation raises", info, {"error": o["error"]}, True, size=F, signature=sig); continue
            # per frame of the source: cell (f, 0, 0, 0), confidence of point 0 in 1/256, point 1 missing?, own mask on point 0's second coordinate? (the last as the
            # backend's own conversion reports it: torch / tensorflow bodies derive their mask on conversion)
            src = o.get("source") or []
            if [x[:3] for x in src] != [[4 * f + 1, 128 + f, f % 2] for f in range(F)] or (be == "numpy" and [x[3] for x in src] != [int(f % 3 == 2) for f in range(F)]):
                ctx.violation("the source body is not what was built", info, {"source": src[:6]}, True, size=F, signature=dict(sig, clause="built")); continue
            if o.get("source_after") != src or ("again" in o and o["again"] != o["frames"]):
                ctx.violation("a frame operation changes the pose it is applied to, or gives another result the second time", info,
                              {"source_changed": o.get("source_after") != src}, True, size=F, signature=dict(sig, clause="source")); continue
            if c["call"] == "select_frames":
                if o["frames"] != [src[i] for i in c["ixs"]] or o["fps"] != c.get("fps", 30.0):
                    ctx.violation("select_frames does not return exactly the requested frames in the requested order", info, {"got": o["frames"]}, True, size=F, signature=sig)
                continue
            if c["call"] == "pose_sequence":
                want = [src[i] for i in c["ixs"]][::c["by"]]
                if o["frames"] != want or abs(o["fps"] - 30.0 / c["by"]) > 1e-6 or o["first"] != src[::c["by"]]:
                    ctx.violation("slice_step through the Pose object does not act on the body the pose holds now", info, {"got": o["frames"], "want": want, "fps": o["fps"]}, True, size=F, signature=dict(sig, clause="pose object"))
                continue
            if c["call"] == "slice_step":
                if o["frames"] != src[::c["by"]] or abs(o["fps"] - c.get("fps", 30.0) / c["by"]) > 1e-6 * max(1.0, c.get("fps", 30.0)):
                    ctx.violation("slice_step does not return frames 0, k, 2k, … at fps / k", info, {"got": o["frames"], "fps": o["fps"]}, True, size=F, signature=sig)
                continue
            idx = o["indexes"]
            if len(ctx.samples) < 3:
                ctx.sample({"backend": be, "call": c["call"], "args": c["args"], "F": F, "kept": idx[:12]})
            if any(b <= a for a, b in zip(idx, idx[1:])) or any(not (0 <= i < F) for i in idx):
                ctx.violation("kept frame indexes are not strictly increasing within range", info, {"indexes": idx[:20]}, True, size=F, signature=sig); continue
            if o["frames"] != [src[i] for i in idx]:
                ctx.violation("the returned pose does not consist of exactly the kept frames", info, {"indexes": idx[:20], "frames": o["frames"][:20]}, True, size=F, signature=sig); continue
            if not idx:
                ctx.violation("dropout returned no frame of a non-empty pose", info, {}, True, size=F, signature=sig); continue
            if c["call"] == "frame_dropout_given_percent":
                p = c["args"][0]
                dropped = F - len(idx)
                if p == 0 and dropped != 0:
                    ctx.violation("a dropout fraction of 0 drops frames", info, {"kept": len(idx)}, True, size=F, signature=sig); continue
                if p <= 0.99 and not (abs(dropped - F * p) < 1 + 1e-9):
                    ctx.violation("dropout does not drop about the requested fraction", info, {"dropped": dropped, "expected_about": F * p}, True, size=F, signature=sig); continue
                if be != "tf":
                    k_req, k_cap = int(F * p), int(F * 0.99)
                    reqs.append({"op": "dropout", "n": F, "dropped": [i for i in range(F) if i not in set(idx)], "k_req": k_req, "k_cap": k_cap})
                    meta.append((info, idx, dropped))
                else:
                    m = max(1, int(np.round(np.float32(F) * np.float32(1.0 - p)))) if p <= 1 else 1
                    shuffle = idx + [i for i in range(F) if i not in set(idx)]
                    reqs.append({"op": "tf_dropout", "n": F, "m": min(max(m, 1), F) if p <= 1 else 1, "shuffle": shuffle})
                    meta.append((info, idx, None))
            elif c["call"] == "frame_dropout_uniform" and c["args"] == [0.0, 0.0] and len(idx) != F:
                ctx.violation("a dropout fraction of 0 drops frames", info, {"kept": len(idx)}, True, size=F, signature=sig)
            elif c["call"] in ("frame_dropout_uniform", "frame_dropout_normal") and be != "tf":
                # the fraction the wrapper draws is replayed from the same numpy seed: uniform(lo, hi) resp. |normal(mean, std)|
                np.random.seed(c["seed"])
                frac = float(np.random.uniform(low=c["args"][0], high=c["args"][1], size=1)[0]) if c["call"] == "frame_dropout_uniform" else float(np.abs(np.random.normal(loc=c["args"][0], scale=c["args"][1], size=1))[0])
                dropped = F - len(idx)
                if frac <= 0.99 and not (abs(dropped - F * frac) < 1 + 1e-9):
                    ctx.violation("dropout does not drop about the drawn fraction", info, {"dropped": dropped, "fraction": frac, "expected_about": F * frac}, True, size=F, signature=sig)
    outs = ctx.driver.run(reqs)
    for (info, idx, dropped), mo in zip(meta, outs):
        if mo["kept"] != idx:
            ctx.violation("kept indexes differ from the model's for the same draw", info, {"impl": idx[:20], "model": mo["kept"][:20]}, False, size=info["F"])
        elif dropped is not None and mo["count"] != dropped:
            ctx.violation("number of dropped frames differs from the model's", info, {"impl": dropped, "model": mo["count"]}, False, size=info["F"])


def replay(ctx, rep):
    raise SystemExit("replay: re-run ./check C16 with VERIF_SEED=%s" % rep.get("seed"))
