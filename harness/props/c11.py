"""C11 — selecting, removing or hiding points by name affects exactly those points."""
import ast, copy, json, os
import numpy as np
from .. import posecase as pc
from ..mtexec import f64_bits, bits_f64
from ..bodyexec import view_of

RULE = ("poses with 1–4 components (unique names), 1–5 uniquely named points each, limbs and colours, 1–2 people, 1–3 frames, distinct values per cell; get_components with every kind of request "
        "(ordered selections of components, sub-lists and permutations of points, a single point), remove_components with present and absent component / point names; compared with the Lean model "
        "(new header and flat source indexes) and, on the implementation alone, point by point with the source point of the same component and name, limb by limb by end-point names, and source unchanged; "
        "helpers pose_hide_legs (hide / remove), correct_wrists on OpenPose headers and reduce_holistic on a Holistic-shaped header (names read from holistic.py with ast): only the named points change; "
        "non-trivial = request that drops or permutes something, distinct by JSON")
ASSUMPTIONS = ["component names are unique and point names unique within a component (the domain in which 'the point with that component and name' is well defined)",
               "mediapipe is not installed: the Holistic-shaped header is built from the name tables in holistic.py (FLIPPED_BODY_POINTS, 468 face points) and the 21 MediaPipe hand landmark names"]

HAND_NAMES = ["WRIST", "THUMB_CMC", "THUMB_MCP", "THUMB_IP", "THUMB_TIP", "INDEX_FINGER_MCP", "INDEX_FINGER_PIP", "INDEX_FINGER_DIP", "INDEX_FINGER_TIP", "MIDDLE_FINGER_MCP", "MIDDLE_FINGER_PIP",
              "MIDDLE_FINGER_DIP", "MIDDLE_FINGER_TIP", "RING_FINGER_MCP", "RING_FINGER_PIP", "RING_FINGER_DIP", "RING_FINGER_TIP", "PINKY_MCP", "PINKY_PIP", "PINKY_DIP", "PINKY_TIP"]


def gen_pose(rng):
    ncomps = rng.randint(1, 4)
    comps = []
    for i in range(ncomps):
        n = rng.randint(1, 5)
        pts = ["%s%d" % (rng.choice(["p", "é", "pt_"]), j) for j in range(n)]
        limbs = [[rng.randrange(n), rng.randrange(n)] for _ in range(rng.randint(0, 4))]
        comps.append({"name": pc.hx("comp%d%s" % (i, rng.choice(["", "é", "_x"]))), "format": pc.hx("XYC"), "points": [pc.hx(p) for p in pts], "limbs": limbs,
                      "colors": [[rng.randrange(256) for _ in range(3)] for _ in range(rng.randint(0, 2))]})
    h = {"version": pc.V02, "width": 100, "height": 100, "depth": 0, "components": comps}
    F, P, N = rng.randint(1, 3), rng.randint(1, 2), pc.total_points(h)
    data = np.arange(F * P * N * 2, dtype=np.float32) + 1
    conf = [rng.choice([0x3F800000] * 9 + [0x3089705F, 0x0DA24260]) if rng.random() < 0.8 else 0 for _ in range(F * P * N)]      # 1, sometimes 1e-9 / 1e-30 (observed all the same)
    body = {"fps": {"f32": 0x41C80000}, "frames": F, "people": P, "points": N, "dims": 2, "data": pc.f32_to_bits(data), "conf": conf}
    return {"header": h, "body": body}


def gen_request(rng, case):
    comps = case["header"]["components"]
    names = [pc.unhx(c["name"]) for c in comps]
    mode = rng.choice(["get", "get", "remove"])
    if mode == "get":
        req = rng.sample(names, rng.randint(1, len(names)))
        if rng.random() < 0.1:
            req.append("no_such_component")
        points = None
        if rng.random() < 0.7:
            points = {}
            for c in comps:
                nm = pc.unhx(c["name"])
                if nm in req and rng.random() < 0.7:
                    pts = [pc.unhx(p) for p in c["points"]]
                    sel = rng.sample(pts, rng.randint(1, len(pts)))
                    if rng.random() < 0.05:
                        sel.append("no_such_point")
                    points[nm] = sel
        return mode, req, points
    rm = rng.sample(names, rng.randint(0, len(names) - 1)) + (["absent_component"] if rng.random() < 0.3 else [])
    points = None
    if rng.random() < 0.6:
        points = {}
        for c in comps:
            if rng.random() < 0.6:
                pts = [pc.unhx(p) for p in c["points"]]
                sel = rng.sample(pts, rng.randint(0, max(0, len(pts) - 1))) + (["absent_point"] if rng.random() < 0.3 else [])
                points[pc.unhx(c["name"])] = sel
    return mode, rm, points


TF_WORKER = r"""
import json, sys, warnings
warnings.filterwarnings("ignore")
sys.path.insert(0, sys.argv[1])
from harness import posecase as pc
from harness.bodyexec import view_of
from pose_format import Pose
for line in sys.stdin:
    if not line.strip(): continue
    c = json.loads(line)
    try:
        p = pc.build_pose(c["case"])
        p = Pose(p.header, p.body.tensorflow())
        r = p.get_components(c["req"], c["points"]) if c["mode"] == "get" else p.remove_components(c["req"], c["points"])
        out = {"view": view_of(r.body, "tf"), "header": pc.canon_header(r.header)}
    except Exception as e:
        out = {"error": type(e).__name__ + ": " + str(e)[:100]}
    sys.stdout.write(json.dumps(out) + "\n"); sys.stdout.flush()
"""


def run_tf_selection(jobs):
    import subprocess, sys
    from .. import core
    payload = "".join(json.dumps(j) + "\n" for j in jobs)
    r = subprocess.run([sys.executable, "-W", "ignore", "-c", TF_WORKER, core.VERIF], input=payload, capture_output=True, text=True, timeout=3000, cwd=core.VERIF,
                       env=dict(os.environ, TF_CPP_MIN_LOG_LEVEL="3", CUDA_VISIBLE_DEVICES=""))
    outs = [json.loads(l) for l in r.stdout.splitlines() if l.strip()]
    if r.returncode != 0 or len(outs) != len(jobs):
        raise core.InfraError("tensorflow worker died (exit %s, %d of %d answers): %s" % (r.returncode, len(outs), len(jobs), r.stderr[-800:]))
    return outs


def run(ctx):
    rng = ctx.rng
    tf_jobs, tf_meta = [], []
    cases = []
    for it in range(ctx.pick(300, 3000)):
        case = gen_pose(rng)
        if it < 6:
            case["body"]["conf"] = [0] * len(case["body"]["conf"])          # planned: nobody detected — every point of every frame and person missing
        elif rng.random() < 0.15:
            for _ in range(rng.randint(1, 3)):                              # a NaN / ±inf coordinate (at an observed or a missing point): a value like any other
                case["body"]["data"][rng.randrange(len(case["body"]["data"]))] = rng.choice([0x7FC00000, 0x7F800000, 0xFF800000])
        cases.append((case,) + gen_request(rng, case))
    reqs = [{"op": "select", "mode": mode, "components": case["header"]["components"], "request": [pc.hx(r) for r in req],
             "points": None if points is None else [[pc.hx(k), [pc.hx(p) for p in v]] for k, v in points.items()]} for case, mode, req, points in cases]
    outs = ctx.driver.run(reqs)
    for (case, mode, req, points), mo in zip(cases, outs):
        info = {"case": case, "mode": mode, "request": req, "points": points}
        ctx.evaluated(json.dumps([case, mode, req, points]), nontrivial=True); ctx.count("mode:" + mode)
        if len(ctx.samples) < 2:
            ctx.sample({"mode": mode, "request": req, "points": points, "components": [pc.unhx(c["name"]) for c in case["header"]["components"]]})
        pose = pc.build_pose(case)
        # a fifth of the poses carry a mask of their own on top of "confidence 0" (an observation masked after the body was built: ma.masked assigned to a cell,
        # masked_invalid …): the selected point carries the missing flag of the source point, not one re-derived from the confidences
        extra = []
        if rng.random() < 0.2:
            b_ = case["body"]
            for _ in range(rng.randint(1, 3)):
                cell = (rng.randrange(b_["frames"]), rng.randrange(b_["people"]), rng.randrange(b_["points"]))
                pose.body.data[cell] = np.ma.masked; extra.append(cell)
            ctx.count("source with a mask of its own")
        before = pc.canon_pose(pose)
        try:
            res = pose.get_components(req, points) if mode == "get" else pose.remove_components(req, points)
        except Exception as e:
            res = None; err = type(e).__name__
        if pc.diff(before, pc.canon_pose(pose)):
            ctx.violation("the source pose is changed by a selection", info, {"d": pc.diff(before, pc.canon_pose(pose))}, True, signature={"clause": "source"}); continue
        if (res is not None) != bool(mo["ok"]):
            ctx.violation("selection: implementation and model disagree on success", info, {"impl": "ok" if res is not None else err, "model_ok": mo["ok"]}, False); continue
        if res is None:
            continue
        got = pc.canon_pose(res)
        # ---- the property, on the implementation alone: every new point carries the values of the source point with the same component and name
        src_comps = {pc.unhx(c["name"]): (c, off) for c, off in zip(case["header"]["components"], np.cumsum([0] + [len(c["points"]) for c in case["header"]["components"]]))}
        b0, b1 = before["body"], got["body"]
        N0, N1, D = b0["points"], b1["points"], b0["dims"]
        d0 = np.array(b0["data"], dtype=np.uint64).reshape(b0["frames"], b0["people"], N0, D); c0 = np.array(b0["conf"], dtype=np.uint64).reshape(b0["frames"], b0["people"], N0)
        m0 = np.array(b0["missing"]).reshape(b0["frames"], b0["people"], N0)
        d1 = np.array(b1["data"], dtype=np.uint64).reshape(b1["frames"], b1["people"], N1, D); c1 = np.array(b1["conf"], dtype=np.uint64).reshape(b1["frames"], b1["people"], N1)
        m1 = np.array(b1["missing"]).reshape(b1["frames"], b1["people"], N1)
        i = 0; bad = None
        for nc in got["header"]["components"]:
            sc, off = src_comps[pc.unhx(nc["name"])]
            if nc["format"] != sc["format"] or nc["colors"] != sc["colors"]:
                bad = bad or ("format / colours of a component changed", pc.unhx(nc["name"]))
            names_new = [pc.unhx(p) for p in nc["points"]]; names_old = [pc.unhx(p) for p in sc["points"]]
            for p in names_new:
                j = off + names_old.index(p)
                if not (np.array_equal(d1[:, :, i], d0[:, :, j]) and np.array_equal(c1[:, :, i], c0[:, :, j]) and np.array_equal(m1[:, :, i], m0[:, :, j])):
                    bad = bad or ("a selected point does not carry the values of the source point with that component and name", (pc.unhx(nc["name"]), p))
                i += 1
            want_limbs = sorted((names_old[a], names_old[b]) for a, b in sc["limbs"] if names_old[a] in names_new and names_old[b] in names_new)
            got_limbs = sorted((names_new[a], names_new[b]) for a, b in nc["limbs"])
            if want_limbs != got_limbs:
                bad = bad or ("limbs do not connect the same named points as before", (pc.unhx(nc["name"]), got_limbs, want_limbs))
        if mode == "remove":
            kept = [n for n in (pc.unhx(c["name"]) for c in case["header"]["components"]) if n not in req]
            if [pc.unhx(c["name"]) for c in got["header"]["components"]] != kept:
                bad = bad or ("removing components is not selecting the complement", kept)
            for nc in got["header"]["components"]:
                sc, _ = src_comps[pc.unhx(nc["name"])]
                rm = (points or {}).get(pc.unhx(nc["name"]), [])
                if [pc.unhx(p) for p in nc["points"]] != [pc.unhx(p) for p in sc["points"] if pc.unhx(p) not in rm]:
                    bad = bad or ("removing points is not selecting the complement", pc.unhx(nc["name"]))
        if bad:
            ctx.violation(bad[0], info, {"where": bad[1]}, True, signature={"clause": bad[0]}); continue
        # ---- the same request on the same pose with a torch body: the selection is by name, so the result may not depend on the body class
        if b0["frames"] > 0 and b0["people"] > 0 and not extra:
            try:
                pt = pc.build_pose(case).torch()
                rt = pt.get_components(req, points) if mode == "get" else pt.remove_components(req, points)
                vt, vn = view_of(rt.body, "torch"), view_of(res.body, "numpy")
                hd = pc.diff(got["header"], pc.canon_header(rt.header))
                what = "header" if hd else next((k for k in ("shape", "conf", "missing", "zf") if vt.get(k) != vn.get(k)), None)
                if not what:
                    # the same pose object after its coordinates were re-bound (`pose.body.data = …`, as normalize_distribution, focus and cuda() do): the selection
                    # reads the body as it is now
                    case2 = dict(case, body=dict(case["body"], data=pc.f32_to_bits(pc.bits_to_f32(case["body"]["data"], (-1,)) * np.float32(2.0) + np.float32(1.0))))
                    pn2 = pc.build_pose(case2)
                    pt.body.data = pn2.torch().body.data
                    rt2 = pt.get_components(req, points) if mode == "get" else pt.remove_components(req, points)
                    rn2 = pn2.get_components(req, points) if mode == "get" else pn2.remove_components(req, points)
                    v2t, v2n = view_of(rt2.body, "torch"), view_of(rn2.body, "numpy")
                    what = next(("after re-binding body.data: " + k for k in ("shape", "conf", "missing", "zf") if v2t.get(k) != v2n.get(k)), None)
            except Exception as e:
                what = "raises " + type(e).__name__
            ctx.count("torch body")
            if what:
                ctx.violation("a selected point does not carry the values of the source point with that component and name (torch body: result differs from the NumPy body's)", info,
                              {"what": what}, True, signature={"clause": "torch body"}); continue
        # ---- and on a tensorflow body (child process; a sample of the cases)
        if b0["frames"] > 0 and b0["people"] > 0 and not extra and len(tf_jobs) < ctx.pick(60, 400) and not any(pc.is_zero_bits(w) and w != 0 for w in case["body"]["conf"]):
            tf_jobs.append({"case": case, "mode": mode, "req": req, "points": points}); tf_meta.append((info, got["header"], view_of(res.body, "numpy")))
        # ---- correspondence with the model
        if pc.diff(mo["components"], got["header"]["components"]):
            ctx.violation("selection: new header differs from the model's", info, {"d": pc.diff(mo["components"], got["header"]["components"])}, False); continue
        ix = mo["indexes"]
        if len(ix) != N1 or not (np.array_equal(d1, d0[:, :, ix]) and np.array_equal(c1, c0[:, :, ix])):
            ctx.violation("selection: body is not the gather of the model's source indexes", info, {"indexes": ix}, False)
    for (info, hdr, vn), o in zip(tf_meta, run_tf_selection(tf_jobs) if tf_jobs else []):
        ctx.count("tensorflow body")
        what = o.get("error") or ("header" if pc.diff(hdr, o["header"]) else next((k for k in ("shape", "conf", "missing", "zf") if o["view"].get(k) != vn.get(k)), None))
        if what:
            ctx.violation("a selected point does not carry the values of the source point with that component and name (tensorflow body: result differs from the NumPy body's)", info,
                          {"what": what}, True, signature={"clause": "tf body"})
    helpers(ctx)


def holistic_header():
    from pose_format.pose_header import PoseHeader, PoseHeaderComponent, PoseHeaderDimensions
    import pose_format
    src = open(os.path.join(os.path.dirname(pose_format.__file__), "utils", "holistic.py")).read()
    body_points = None
    for node in ast.walk(ast.parse(src)):
        if isinstance(node, ast.Assign) and getattr(node.targets[0], "id", None) == "FLIPPED_BODY_POINTS":
            body_points = ast.literal_eval(node.value)
    face = [str(i) for i in range(468)]
    mk = lambda name, pts: PoseHeaderComponent(name, list(pts), [(0, 1)], [(255, 0, 0)], "XYZC")
    comps = [mk("POSE_LANDMARKS", body_points), mk("FACE_LANDMARKS", face), mk("LEFT_HAND_LANDMARKS", HAND_NAMES), mk("RIGHT_HAND_LANDMARKS", HAND_NAMES), mk("POSE_WORLD_LANDMARKS", body_points)]
    return PoseHeader(0.2, PoseHeaderDimensions(100, 100, 100), comps)


_RT = []


def reduce_tables():
    """(ignore_names, face_contours) as written in reduce_holistic's source (read with ast: the tables are part of what the helper 'names')"""
    if not _RT:
        import pose_format
        src = open(os.path.join(os.path.dirname(pose_format.__file__), "utils", "generic.py")).read()
        t = {}
        for n in ast.walk(ast.parse(src)):                     # wherever the tables live in the module
            if isinstance(n, ast.Assign) and getattr(n.targets[0], "id", None) in ("ignore_names", "face_contours") and n.targets[0].id not in t:
                try:
                    t[n.targets[0].id] = ast.literal_eval(n.value)
                except Exception:
                    pass
        _RT.append((t.get("ignore_names"), t.get("face_contours")))
    return _RT[0]


def helpers(ctx):
    from pose_format import Pose
    from pose_format.numpy import NumPyPoseBody
    from pose_format.pose_header import PoseHeader, PoseHeaderDimensions
    from pose_format.utils.generic import pose_hide_legs, correct_wrists, correct_wrist, reduce_holistic
    from pose_format.utils.openpose import OpenPose_Components
    rng = ctx.rng
    def make(header, dims):
        N = header.total_points()
        F = 3
        data = (np.arange(F * 1 * N * dims, dtype=np.float32) + 1).reshape(F, 1, N, dims)
        conf = np.array([[[0.0 if rng.random() < 0.3 else 1.0 for _ in range(N)]] for _ in range(F)], dtype=np.float32)
        return Pose(header, NumPyPoseBody(25.0, data, conf))
    def named(header, pairs):
        out = []                                        # flat indexes from the component tables themselves, not from the library's lookup
        offs, o = {}, 0
        for c in header.components:
            offs[c.name] = (o, list(c.points)); o += len(c.points)
        for c, p in pairs:
            if c in offs and p in offs[c][1]:
                out.append(offs[c][0] + offs[c][1].index(p))
        return out
    model_reqs, model_meta = [], []
    for rep in range(ctx.pick(4, 30)):
        op_header = PoseHeader(0.2, PoseHeaderDimensions(100, 100, 0), copy.deepcopy(OpenPose_Components))
        hol = holistic_header()
        variants = [("openpose", op_header, 2), ("holistic", hol, 3)]
        # the same formats with a different point layout, in the same process: some points dropped in front of the named ones
        for kind, header, dims in list(variants):
            comp = header.components[0]
            drop = rng.sample([p for p in comp.points if "rist" not in p and "RIST" not in p], rng.randint(1, 3))
            variants.append((kind, make(header, dims).remove_components([], {comp.name: drop}).header, dims))
        # … and the layout pose_hide_legs(remove=True) leaves (no hips): helpers that remember a layout from an earlier pose of the same format go wrong on the next one,
        # in whichever order the two come — the order is drawn per repetition
        variants.append(("holistic", make(hol, 3).remove_components([], {"POSE_LANDMARKS": ["LEFT_HIP", "RIGHT_HIP"]}).header, 3))
        rng.shuffle(variants)
        for kind, header, dims in variants:
            pose = make(header, dims)
            src = pc.canon_pose(pose)
            N = header.total_points()
            ctx.evaluated(("helper", kind, rep)); ctx.count("helper:" + kind)
            try:
                # hide legs: only the leg points change (become zero / missing)
                hidden = pose_hide_legs(copy.deepcopy(pose), remove=False)
                legs = [(c.name, p) for c in header.components for p in c.points if (kind == "openpose" and c.name == "pose_keypoints_2d" and any(w in p for w in ["Hip", "Knee", "Ankle", "BigToe", "SmallToe", "Heel"]))
                        or (kind == "holistic" and c.name in ("POSE_LANDMARKS", "POSE_WORLD_LANDMARKS") and any(p == s + "_" + w for s in ("LEFT", "RIGHT") for w in ["KNEE", "ANKLE", "HEEL", "FOOT_INDEX", "HIP"]))]
                leg_idx = set(named(header, legs))
                a, b = np.asarray(pose.body.data.data), np.asarray(hidden.body.data.data)
                others = [i for i in range(N) if i not in leg_idx]
                if not (np.array_equal(a[:, :, others], b[:, :, others]) and np.array_equal(pose.body.confidence[:, :, others], hidden.body.confidence[:, :, others]) and (hidden.body.confidence[:, :, sorted(leg_idx)] == 0).all()):
                    ctx.violation("pose_hide_legs changes points it does not name, or leaves a leg point visible", {"format": kind}, {}, True, signature={"clause": "hide_legs"})
                removed = pose_hide_legs(copy.deepcopy(pose), remove=True)
                if removed.header.total_points() != N - len(leg_idx) or not np.array_equal(np.asarray(removed.body.data.data), a[:, :, others]):
                    ctx.violation("pose_hide_legs(remove=True) is not the selection of the other points", {"format": kind}, {"points": removed.header.total_points(), "want": N - len(leg_idx)}, True, signature={"clause": "remove_legs"})
                # wrist correction: only the two body wrist points may change, and only where the hand wrist is observed... (the body wrist takes its own value where the hand wrist is missing)
                fixed = correct_wrists(pose)
                if pc.diff(src, pc.canon_pose(pose)):
                    ctx.violation("correct_wrists modifies its input", {"format": kind}, {}, True, signature={"clause": "wrists_input"})
                wr = set(named(header, [("pose_keypoints_2d", "LWrist"), ("pose_keypoints_2d", "RWrist")] if kind == "openpose" else [("POSE_LANDMARKS", "LEFT_WRIST"), ("POSE_LANDMARKS", "RIGHT_WRIST")]))
                oth = [i for i in range(N) if i not in wr]
                if not (np.array_equal(np.asarray(fixed.body.data.data)[:, :, oth], a[:, :, oth]) and np.array_equal(fixed.body.confidence[:, :, oth], pose.body.confidence[:, :, oth])):
                    ctx.violation("correct_wrists changes points other than the body wrists", {"format": kind}, {}, True, signature={"clause": "wrists"})
                # the same two helpers through the Lean model (Model/Helpers.lean: hidePoints, correctWrist)
                hands = named(header, [("hand_left_keypoints_2d", "BASE"), ("hand_right_keypoints_2d", "BASE")] if kind == "openpose" else [("LEFT_HAND_LANDMARKS", "WRIST"), ("RIGHT_HAND_LANDMARKS", "WRIST")])
                bodyw = named(header, [("pose_keypoints_2d", "LWrist"), ("pose_keypoints_2d", "RWrist")] if kind == "openpose" else [("POSE_LANDMARKS", "LEFT_WRIST"), ("POSE_LANDMARKS", "RIGHT_WRIST")])
                mb = {"fps": f64_bits(25.0), "shape": list(a.shape), "data": [f64_bits(float(x)) for x in a.reshape(-1)], "conf": [f64_bits(float(x)) for x in np.asarray(pose.body.confidence).reshape(-1)]}
                model_reqs.append({"op": "body_ops", "backend": "numpy", "body": mb, "ops": [{"k": "hide_points", "ixs": sorted(leg_idx)}]}); model_meta.append((kind, "pose_hide_legs", hidden))
                if len(hands) == 2 and len(bodyw) == 2:
                    model_reqs.append({"op": "body_ops", "backend": "numpy", "body": mb, "ops": [{"k": "correct_wrist", "hand": hands[0], "body": bodyw[0]}, {"k": "correct_wrist", "hand": hands[1], "body": bodyw[1]}]})
                    model_meta.append((kind, "correct_wrists", fixed))
                # … and on the pose pose_hide_legs (hide mode) leaves: points with confidence 0 that are NOT masked — correcting the wrists changes nothing about them
                hid2 = pose_hide_legs(copy.deepcopy(pose), remove=False)
                fx2 = correct_wrists(hid2)
                mh, mf = np.asarray(np.ma.getmaskarray(hid2.body.data)), np.asarray(np.ma.getmaskarray(fx2.body.data))
                if not (np.array_equal(mf[:, :, oth], mh[:, :, oth]) and np.array_equal(np.asarray(fx2.body.data.data)[:, :, oth], np.asarray(hid2.body.data.data)[:, :, oth])
                        and np.array_equal(fx2.body.confidence[:, :, oth], hid2.body.confidence[:, :, oth])):
                    ctx.violation("correct_wrists changes points other than the body wrists", {"format": kind, "after": "pose_hide_legs (hide mode)"}, {"mask_differs": int((mf[:, :, oth] != mh[:, :, oth]).sum())}, True, signature={"clause": "wrists after hide"})
                mfx = np.asarray(np.ma.getmaskarray(fixed.body.data)); mpo = np.asarray(np.ma.getmaskarray(pose.body.data))
                if not np.array_equal(mfx[:, :, oth], mpo[:, :, oth]):
                    ctx.violation("correct_wrists changes points other than the body wrists", {"format": kind}, {"what": "missing flags"}, True, signature={"clause": "wrists mask"})
                # one hand at a time, its name spelled as callers spell it (the helpers normalise the case themselves): compared with the model's single correction
                if len(hands) == 2 and len(bodyw) == 2:
                    for spelled in rng.sample(["LEFT", "RIGHT", "left", "right", "Left", "Right"], 3):
                        side = 0 if spelled.upper() == "LEFT" else 1
                        one = correct_wrist(pose, spelled)
                        od, oc = np.asarray(one.body.data.data), np.asarray(one.body.confidence)
                        rest = [i for i in range(N) if i != bodyw[side]]
                        seen = np.asarray(pose.body.confidence)[:, :, hands[side]] != 0
                        if not (np.array_equal(od[:, :, rest], a[:, :, rest]) and np.array_equal(oc[:, :, rest], np.asarray(pose.body.confidence)[:, :, rest])
                                and np.array_equal(od[:, :, bodyw[side]][seen], a[:, :, hands[side]][seen]) and np.array_equal(od[:, :, bodyw[side]][~seen], a[:, :, bodyw[side]][~seen])):
                            ctx.violation("correct_wrist changes a point other than the named hand's body wrist, or does not give it that hand's wrist", {"format": kind, "hand": spelled}, {}, True, signature={"clause": "wrist_one"})
                        model_reqs.append({"op": "body_ops", "backend": "numpy", "body": mb, "ops": [{"k": "correct_wrist", "hand": hands[side], "body": bodyw[side]}]})
                        model_meta.append((kind, "correct_wrist(%s)" % spelled, one))
                if kind == "holistic":
                    red = reduce_holistic(pose)
                    names = [(c.name, p) for c in red.header.components for p in c.points]
                    idx = named(header, names)
                    if len(idx) != red.header.total_points() or not np.array_equal(np.asarray(red.body.data.data), a[:, :, idx]) or any(c.name == "POSE_WORLD_LANDMARKS" for c in red.header.components):
                        ctx.violation("reduce_holistic does not keep exactly the named points with their values", {"format": kind}, {}, True, signature={"clause": "reduce_holistic"})
                    # the same reduction through the Lean model (Model/Helpers.lean `reduceHolistic`: one get_components call with the helper's two name tables)
                    ig, co = reduce_tables()
                    if ig and co:
                        model_reqs.append({"op": "reduce_holistic", "components": pc.canon_header(header)["components"], "ignore": [pc.hx(x) for x in ig], "contours": [pc.hx(x) for x in co]})
                        model_meta.append((kind, "reduce_holistic", (pc.canon_header(red.header)["components"], idx)))
                    # exactly the points it names are dropped: face points off the contours, face / finger / foot points of the body, the world landmarks — nothing else
                    ignore, contours = reduce_tables()
                    want = []
                    ctx.count("reduce_holistic set check" if ignore and contours else "reduce_holistic tables not found in the source")
                    for c in (header.components if ignore and contours else []):
                        if c.name == "POSE_WORLD_LANDMARKS": continue
                        keep = [p for p in c.points if not any(w in p for w in ignore)] if c.name == "POSE_LANDMARKS" else ([p for p in contours if p in c.points] if c.name == "FACE_LANDMARKS" else list(c.points))
                        want += [(c.name, p) for p in keep]
                    if ignore and contours and sorted(names) != sorted(want):
                        ctx.violation("reduce_holistic drops a point it does not name, or keeps one it names", {"format": kind},
                                      {"lost": sorted(set(want) - set(names))[:6], "extra": sorted(set(names) - set(want))[:6]}, True, signature={"clause": "reduce_holistic_set"})
            except Exception as e:
                ctx.violation("a known-format helper fails on a pose of its format", {"format": kind, "points": N}, {"error": "%s: %s" % (type(e).__name__, e)}, True, signature={"clause": "helper_raises"})
    for (kind, what, got), mo in zip(model_meta, ctx.driver.run(model_reqs) if model_reqs else []):
        ctx.count("helper_model:" + what)
        if what == "reduce_holistic":
            comps_got, idx_got = got
            if not mo.get("ok") or pc.diff(mo["components"], comps_got) or mo["indexes"] != idx_got:
                ctx.violation("reduce_holistic differs from its model (the selection the helper's name tables describe)", {"format": kind, "helper": what},
                              {"model_ok": mo.get("ok"), "d": pc.diff(mo.get("components"), comps_got) if mo.get("ok") else None}, False)
            continue
        st = mo["steps"][-1]
        if "error" in st:
            ctx.violation("the model refuses a helper the implementation performs", {"format": kind, "helper": what}, {}, False); continue
        gd, gm, gc = np.asarray(got.body.data.data, dtype=np.float64), np.asarray(np.ma.getmaskarray(got.body.data)), np.asarray(got.body.confidence, dtype=np.float64)
        md = np.array([bits_f64(x) for x in st["zf"]]).reshape(gd.shape); mc = np.array([bits_f64(x) for x in st["conf"]]).reshape(gc.shape); mm = np.array(st["missing"], dtype=bool).reshape(gm.shape)
        if not (np.array_equal(mm, gm) and np.array_equal(mc, gc) and np.array_equal(md, np.where(gm, 0.0, gd))):
            ctx.violation("a known-format helper's result differs from its model", {"format": kind, "helper": what},
                          {"mask_differs": int((mm != gm).sum()), "conf_differs": int((mc != gc).sum()), "data_differs": int((md != np.where(gm, 0.0, gd)).sum())}, False)


def replay(ctx, rep):
    raise SystemExit("replay: re-run ./check C11 with VERIF_SEED=%s" % rep.get("seed"))
