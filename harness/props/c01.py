"""C01 — write → read returns the same pose, or the write fails loudly."""
import io, json, struct
import numpy as np
from .. import posecase as pc

RULE = ("poses generated from one PRNG over the boundary pools of harness/posecase.py (string classes incl. multi-byte and 32767/32768/65535-byte names, "
        "u16 boundary values in limbs/colours/dimensions incl. 65536, float32 classes incl. NaN payloads/±inf/−0/subnormals, zero-sized axes, "
        "mixed point formats, float64 inputs, non-integral dimensions, negative values); a case is non-trivial when it has ≥1 component and is "
        "distinct by its full canonical JSON; compared: implementation write bytes vs model write bytes, implementation read-back vs model read-back, "
        "and the property oracle read(write(p)) == canon(p) evaluated on the implementation alone; body arrays are handed to the writer in five memory layouts (C, Fortran, transposed view, "
        "reversed strides, strided slice of a wider buffer) and 30 % of the read-backs happen after a read of a sibling file with the same component table but other dimensions")
ASSUMPTIONS = ["float64→float32 narrowing is numpy's/struct's (the model receives already narrowed bit patterns; the harness checks the implementation's output bits against np.float32)",
               "poses whose body shape disagrees with their header are outside the property's domain"]


def boundary_cases(rng):
    out = []
    def mk(comps, frames=1, people=1, **hd):
        h = {"version": pc.V02, "width": hd.get("width", 10), "height": hd.get("height", 20), "depth": hd.get("depth", 0), "components": comps}
        return {"header": h, "body": pc.gen_body(rng, h, frames=frames, people=people)}
    def comp(name, pts, fmt="XYC", limbs=(), colors=()):
        return {"name": pc.hx(name), "format": pc.hx(fmt), "points": [pc.hx(p) for p in pts], "limbs": [list(l) for l in limbs], "colors": [list(c) for c in colors]}
    out.append(mk([comp("é", ["a"])]))
    out.append(mk([comp("éa", ["a", "b"])]))
    out.append(mk([comp("手", ["右", "𝔘𝔫𝔦", "é"], limbs=[(0, 1), (1, 2)], colors=[(255, 0, 0), (0, 65535, 256)])], frames=2, people=2))
    out.append(mk([comp("A", []), comp("B", ["x"])]))
    out.append(mk([comp("A", ["p"] * 3, "XYZC"), comp("B", ["q"], "XYC")]))           # mixed formats: dims = 3
    out.append(mk([comp("A", ["p"])], frames=0))
    out.append(mk([comp("A", ["p"])], people=0))
    out.append(mk([comp("A", ["p"], limbs=[(65535, 0)], colors=[(65535, 65535, 65535)])], width=65535, height=65535, depth=65535))
    for bad in ([(65536, 0)], [(0, 65536)]):
        out.append(mk([comp("A", ["p"], limbs=bad)]))
    out.append(mk([comp("A", ["p"], colors=[(0, 0, 65536)])]))
    out.append(mk([comp("A", ["p"])], width=65536))
    out.append(mk([comp("A", ["p"])], depth=70000))
    for n, ch in ((65535, "x"), (65536, "x"), (65535, "é"), (65534, "é"), (65535, "手"), (65536, "𝔘"), (40000, "é")):
        w = len(ch.encode())
        s = ch * (n // w) + "x" * (n % w)
        out.append(mk([comp(s, ["p"])]))
        out.append(mk([comp("A", [s])]))
    out.append(mk([comp("A", ["p"], fmt="C")]))                                          # zero coordinate dimensions
    out.append(mk([comp("A", ["p"], fmt="")]))
    out.append(mk([]))
    return out


def sibling_bytes(case, rng):
    """a file with the same component table but other dimensions (or version): what an earlier read in the same process may have left in the header cache"""
    from .. import refenc
    sib = {"header": dict(case["header"]), "body": case["body"]}
    if rng.random() < 0.35:
        # the same length and the same byte SUMS (three consecutive bytes of a name changed by +1, −2, +1 — invisible to additive checksums such as Adler-32 — or two
        # adjacent bytes swapped — invisible to a plain sum): whatever identifies a header must tell such headers apart
        import copy as _c
        comps = _c.deepcopy(case["header"]["components"])
        done = False
        for c in comps:
            for key in ["name"] + list(range(len(c["points"]))):
                raw = bytearray(bytes.fromhex(c["name"] if key == "name" else c["points"][key]))
                i = next((i for i in range(len(raw) - 2) if all(0x41 <= b <= 0x79 for b in raw[i:i + 3]) and raw[i + 1] >= 0x43), None)
                if i is not None:
                    if rng.random() < 0.6:
                        raw[i] += 1; raw[i + 1] -= 2; raw[i + 2] += 1
                    elif raw[i] != raw[i + 1]:
                        raw[i], raw[i + 1] = raw[i + 1], raw[i]
                    else:
                        continue
                    if key == "name": c["name"] = raw.hex()
                    else: c["points"][key] = raw.hex()
                    done = True; break
            if done: break
        if done:
            sib["header"]["components"] = comps
            try:
                return refenc.v02(sib)
            except Exception:
                return None
    if rng.random() < 0.7:
        sib["header"]["width"] = (case["header"]["width"] + 1 + rng.randrange(500)) % 65536
        sib["header"]["height"] = (case["header"]["height"] + 7) % 65536
    else:
        sib["header"]["depth"] = (case["header"]["depth"] + 3) % 65536
    try:
        return refenc.v02(sib)
    except Exception:
        return None


def impl_roundtrip(case, pose=None, layout="C", sibling=None, edit_then_reread=False):
    """(write result, read-back result) on the implementation; results are ('ok', value) or ('error', type name).
    `layout`: memory layout of the body arrays handed to the writer; `sibling`: bytes of a near-identical file read first, without clearing the header cache in between"""
    from pose_format import Pose
    from pose_format.pose_header import PoseHeaderCache
    try:
        pose = pose or pc.build_pose(case, layout)
    except Exception as e:
        return ("error", "build:" + type(e).__name__), None
    buf = io.BytesIO()
    try:
        pose.write(buf)
    except Exception as e:
        return ("error", type(e).__name__), None
    raw = buf.getvalue()
    PoseHeaderCache.clear_cache()
    if sibling is not None:
        try:
            Pose.read(sibling)
        except Exception:
            PoseHeaderCache.clear_cache()
    try:
        got = Pose.read(raw)
        back = pc.canon_pose(got)
    except Exception as e:
        return ("ok", raw), ("error", type(e).__name__)
    if edit_then_reread:
        # the written bytes decode to the same pose every time — also right after the pose just read was edited in place (dimensions, names, limbs)
        try:
            got.header.dimensions.width = (got.header.dimensions.width + 5) % 65536
            for comp in got.header.components:
                comp.name = comp.name + "_edited"
                if comp.points:
                    comp.points[0] = comp.points[0] + "_edited"
                if len(comp.limbs):
                    comp.limbs[0] = (0, 0)
            again = pc.canon_pose(Pose.read(raw))
        except Exception as e:
            return ("ok", raw), ("error", "reread:" + type(e).__name__)
        if pc.diff(back, again):
            return ("ok", raw), ("ok", again)          # reported against the expected read-back by the caller
    return ("ok", raw), ("ok", back)


def check_case(ctx, case, w, r, mw, mr, tag):
    rep = pc.representable(case)
    size = pc.case_size(case)
    slim = case if size < 3000 else {"note": "large case", "tag": tag, "header_dims": [case["header"][k] for k in ("width", "height", "depth")]}
    # --- property oracle on the implementation alone
    if w[0] == "ok":
        exp = pc.expected_readback(case)
        if r[0] != "ok":
            ctx.violation("written bytes cannot be decoded", slim, {"read_error": r[1], "hex": w[1].hex()[:4000]}, True, size=size)
        else:
            d = pc.diff(exp, r[1])
            if d:
                ctx.violation("written bytes decode to a different pose", slim, {"first_difference": d}, True, size=size)
        if not rep:
            ctx.violation("unrepresentable pose was written without an error", slim, {"hex": w[1].hex()[:400]}, True, size=size)
    # --- correspondence with the model
    if w[0] == "error" and w[1].startswith("build:"):
        ctx.count("not constructible:" + w[1])
        return                                  # the library refuses to construct the object: not a pose
    if mw is not None:
        if (w[0] == "ok") != bool(mw["ok"]):
            ctx.violation("write: implementation and model disagree on success", slim, {"impl": w[0] if w[0] != "ok" else "ok", "impl_error": w[1] if w[0] != "ok" else None, "model_ok": mw["ok"]}, False, size=size)
        elif w[0] == "ok" and w[1].hex() != mw["hex"]:
            ctx.violation("write: bytes differ from the model's", slim, {"impl": w[1].hex()[:2000], "model": mw["hex"][:2000]}, False, size=size)
    if mr is not None and r is not None:
        if (r[0] == "ok") != bool(mr["ok"]):
            ctx.violation("read-back: implementation and model disagree on success", slim, {"impl": r[0], "model_ok": mr["ok"]}, False, size=size)
        elif r[0] == "ok":
            d = pc.diff(mr["pose"], r[1])
            if d:
                ctx.violation("read-back: result differs from the model's", slim, {"first_difference": d}, False, size=size)


def run(ctx):
    rng = ctx.rng
    cases = [(c, "boundary") for c in boundary_cases(rng)]
    n = ctx.pick(400, 6000)
    for i in range(n):
        big = rng.random() < (0.02 if not ctx.thorough() else 0.03)
        cases.append((pc.gen_pose(rng, big=big), "generated"))
    # implementation
    results = []
    for case, tag in cases:
        layout = "C" if tag == "boundary" else rng.choice(["C", "C", "F", "T", "R", "S"])
        sibling = sibling_bytes(case, rng) if (tag == "generated" and pc.representable(case) and rng.random() < 0.3) else None
        ctx.count("layout:" + layout); ctx.count("history:" + ("sibling file read first" if sibling else "cold cache"))
        edit = rng.random() < 0.3
        ctx.count("re-read after editing the pose just read" if edit else "single read-back")
        w, r = impl_roundtrip(case, layout=layout, sibling=sibling, edit_then_reread=edit)
        results.append((w, r))
    # model
    reqs = [{"op": "write", "pose": case} for case, _ in cases]
    mws = ctx.driver.run(reqs)
    reads = [(i, w[1].hex()) for i, (w, r) in enumerate(results) if w[0] == "ok"]
    mrs = dict(zip([i for i, _ in reads], ctx.driver.run([{"op": "read", "hex": h} for _, h in reads])))
    for i, ((case, tag), (w, r)) in enumerate(zip(cases, results)):
        check_case(ctx, case, w, r, mws[i], mrs.get(i), tag)
        ctx.evaluated(case, nontrivial=len(case["header"]["components"]) > 0)
        ctx.count("source:" + tag)
        ctx.count("write:" + ("ok" if w[0] == "ok" else "error:" + w[1]))
        ctx.count("frames:%d" % min(case["body"]["frames"], 3))
        ctx.count("people:%d" % min(case["body"]["people"], 3))
        ctx.count("dims:%s" % case["body"]["dims"])
        if any(len(c["name"]) // 2 != len(pc.unhx(c["name"])) for c in case["header"]["components"]):
            ctx.count("multibyte-name")
        if i in (0, 2) or (tag == "generated" and len(ctx.samples) < 4):
            ctx.sample(case if pc.case_size(case) < 400 else {"tag": tag, "size": pc.case_size(case)})
    rewrite_after_edit(ctx, [c for c, t in cases if t == "generated" and pc.representable(c) and c["header"]["components"]][:ctx.pick(40, 400)])
    extras(ctx)


def rewrite_after_edit(ctx, cases):
    """write a pose, edit its header in place (names, a limb, a colour, the dimensions), write it again: the second file decodes to the pose as it is NOW
    (a writer may not remember what it emitted for the same objects before)"""
    from pose_format import Pose
    from pose_format.pose_header import PoseHeaderCache
    import copy as _copy
    for idx, case in enumerate(cases):
        try:
            pose = pc.build_pose(case)
            pose.write(io.BytesIO())
        except Exception:
            continue
        edited = _copy.deepcopy(case)
        eh = edited["header"]
        eh["width"] = (eh["width"] + 3) % 65536
        pose.header.dimensions.width = eh["width"]
        for comp, ec in zip(pose.header.components, eh["components"]):
            nm = pc.unhx(ec["name"])
            if len(nm.encode()) < 65000:
                ec["name"] = pc.hx(nm + "′"); comp.name = nm + "′"
            if ec["points"] and len(pc.unhx(ec["points"][-1]).encode()) < 65000:
                q = pc.unhx(ec["points"][-1]) + "₂"; ec["points"][-1] = pc.hx(q); comp.points[-1] = q
            if ec["limbs"]:
                ec["limbs"][0] = [ec["limbs"][0][1], ec["limbs"][0][0]]; comp.limbs[0] = (ec["limbs"][0][0], ec["limbs"][0][1])
            if ec["colors"]:
                ec["colors"][0] = [(ec["colors"][0][0] + 1) % 65536, ec["colors"][0][1], ec["colors"][0][2]]; comp.colors[0] = tuple(ec["colors"][0])
        toggled = [("XYZC" if pc.unhx(c["format"]) == "XYC" else "XYC") for c in eh["components"]]
        if idx % 3 == 0 and all(pc.unhx(c["format"]) in ("XYC", "XYZC") for c in eh["components"]) and max(len(f) for f in toggled) - 1 != case["body"]["dims"]:
            # … or the edit changes the number of coordinate dimensions under an unchanged body: the pose is no longer representable and the writer has to say so
            for comp in pose.header.components:
                comp.format = "XYZC" if comp.format == "XYC" else "XYC"
            ctx.evaluated(("rewrite-dims", json.dumps(edited["header"]))); ctx.count("write → change the point format in place → write again")
            buf = io.BytesIO()
            try:
                pose.write(buf)
            except Exception:
                continue
            if case["body"]["frames"] * case["body"]["people"] * case["body"]["points"] > 0:
                ctx.violation("unrepresentable pose was written without an error", edited if pc.case_size(edited) < 3000 else {"note": "large case"},
                              {"after": "the point formats of a pose that had been written before were changed in place (header dimensions ≠ body dimensions)", "hex": buf.getvalue().hex()[:400]}, True, size=pc.case_size(edited))
            continue
        ctx.evaluated(("rewrite", json.dumps(edited["header"]))); ctx.count("write → edit in place → write again")
        if not pc.representable(edited):
            continue
        buf = io.BytesIO()
        try:
            pose.write(buf)
            PoseHeaderCache.clear_cache()
            back = pc.canon_pose(Pose.read(buf.getvalue()))
        except Exception as e:
            ctx.violation("written bytes cannot be decoded", edited if pc.case_size(edited) < 3000 else {"note": "large case"}, {"after": "an in-place edit of a pose that had been written before", "error": type(e).__name__}, True, size=pc.case_size(edited))
            continue
        d = pc.diff(pc.expected_readback(edited), back)
        if d:
            ctx.violation("written bytes decode to a different pose", edited if pc.case_size(edited) < 3000 else {"note": "large case"},
                          {"first_difference": d, "after": "an in-place edit of a pose that had been written before (the second file describes the pose as first written)"}, True, size=pc.case_size(edited))


def extras(ctx):
    """inputs the model's types cannot express: negative fields, non-integral dimensions, float64 data, fps needing narrowing"""
    from pose_format import Pose
    from pose_format.numpy import NumPyPoseBody
    from pose_format.pose_header import PoseHeader, PoseHeaderComponent, PoseHeaderDimensions, PoseHeaderCache
    rng = ctx.rng
    def pose(limbs=(), colors=(), dims=(10, 20, 0), fps=25.0, data=None, conf=None, name="A"):
        c = PoseHeaderComponent(name, ["p", "q"], list(limbs), list(colors), "XYC")
        d = data if data is not None else np.zeros((2, 1, 2, 2), np.float32)
        cf = conf if conf is not None else np.ones((2, 1, 2), np.float32)
        return Pose(PoseHeader(0.2, PoseHeaderDimensions(*dims), [c]), NumPyPoseBody(fps, d, cf))
    def written(p):
        b = io.BytesIO()
        try:
            p.write(b)
        except Exception as e:
            return None
        return b.getvalue()
    for label, p in [("negative limb", pose(limbs=[(-1, 0)])), ("negative colour", pose(colors=[(0, -5, 0)])),
                     ("negative width", pose(dims=(-1, 5, 0))), ("lone surrogate name", pose(name="\ud800"))]:
        ctx.evaluated(("extra", label))
        ctx.count("extra:" + label)
        raw = written(p)
        if raw is not None:
            ctx.violation("unrepresentable pose was written without an error", {"extra": label}, {"hex": raw.hex()[:400]}, True, signature={"extra": label})
    for dims in [(10.2, 19.000001, 0.5), (65534.5, 1e-9, 3.0)]:
        ctx.evaluated(("extra-dims", dims)); ctx.count("extra:non-integral dims")
        raw = written(pose(dims=dims))
        PoseHeaderCache.clear_cache()
        got = Pose.read(raw).header.dimensions if raw is not None else None
        want = tuple(int(np.ceil(x)) for x in dims)
        if got is None or (got.width, got.height, got.depth) != want:
            ctx.violation("written bytes decode to a different pose", {"extra": "dims", "dims": dims}, {"want": want, "got": None if got is None else (got.width, got.height, got.depth)}, True)
    for k in range(ctx.pick(20, 200)):
        d64 = np.array([rng.choice([rng.uniform(-1e3, 1e3), 1e39, -1e39, 1e-46, 0.1, float("nan"), float("inf"), -0.0, 1.0000000596046448]) for _ in range(8)]).reshape(2, 1, 2, 2)
        c64 = np.array([rng.choice([0.0, -0.0, 1e-50, 0.5, 1.0, float("nan")]) for _ in range(4)]).reshape(2, 1, 2)
        fps = rng.choice([29.97, 24.0, 1e39, 0.1, float("nan"), 30])
        ctx.evaluated(("extra-f64", d64.tobytes(), c64.tobytes(), repr(fps))); ctx.count("extra:float64 input")
        raw = written(pose(data=d64, conf=c64, fps=fps))
        if raw is None:
            try:
                struct.pack("<f", fps)
            except OverflowError:
                continue                                                   # a finite double beyond float32 range: refusing is "failing loudly"
            ctx.violation("representable pose refused", {"extra": "float64", "fps": repr(fps)}, {}, False)
            continue
        PoseHeaderCache.clear_cache()
        try:
            back = Pose.read(raw)
        except Exception as e:
            ctx.violation("written bytes cannot be decoded", {"extra": "float64", "data": d64.tolist(), "conf": c64.tolist(), "fps": repr(fps)}, {"read_error": type(e).__name__ + ": " + str(e)[:100]}, True)
            continue
        with np.errstate(all="ignore"):
            want_d, want_c = d64.astype(np.float32), c64.astype(np.float32)
        ok = (np.asarray(back.body.data.data).view(np.uint32) == want_d.view(np.uint32)).all() and \
             (np.asarray(back.body.confidence).view(np.uint32) == want_c.view(np.uint32)).all() and \
             (np.asarray(back.body.data.mask) == np.stack([want_c == 0] * 2, axis=3)).all() and \
             struct.pack("<f", back.body.fps) == struct.pack("<f", fps)
        if not ok:
            ctx.violation("written bytes decode to a different pose", {"extra": "float64", "data": d64.tolist(), "conf": c64.tolist(), "fps": repr(fps)}, {}, True)


def replay(ctx, rep):
    case = rep["case"]
    if "header" not in case:
        return extras(ctx)
    w, r = impl_roundtrip(case)
    mw = ctx.driver.run([{"op": "write", "pose": case}])[0]
    mr = ctx.driver.run([{"op": "read", "hex": w[1].hex()}])[0] if w[0] == "ok" else None
    check_case(ctx, case, w, r, mw, mr, "replay")
    ctx.evaluated(case)
