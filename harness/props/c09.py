"""C09 — missing points never influence results (two-run non-interference) and zero-filling is exact."""
import json, math, os, subprocess, sys
import numpy as np
from .. import core, posecase as pc, niexec
from ..mtexec import f64_bits, bits_f64

LEAN_MODULES = ["PoseVerif.Props.C09", "PoseVerif.Props.C09Norm", "PoseVerif.Props.C09Repr", "PoseVerif.Props.C09Ser"]
RULE = ("poses (2-D and 3-D, 1–3 components, 1–2 people, 1–6 frames) with arbitrary missing patterns incl. whole frames, whole components and never-observed points; TWO fillings of the coordinates stored at "
        "missing points drawn from {zeros, small finite, ±3e38, NaN, +inf, −inf, mixtures}; the same random operation sequence (1–4 steps) on both: selection (get_components / remove_components / get_points / "
        "select_frames / slice_step / dropout with a fixed seed), flip, matmul, augment2d with a fixed seed, focus, bbox, interpolate (linear, quadratic, cubic), normalize, normalize_distribution "
        "(and back), 3-D plane normaliser, zero_filled, copy, flatten, points_perspective, write→read, torch() / tensorflow() conversion — on NumPy, torch and tensorflow bodies for the operations each implements; "
        "after every step the visible result (confidences, missing pattern, zero-filled coordinates, frame rate, header) of the two runs is compared exactly (NaNs identified), and zero_filled must leave exactly 0 "
        "at missing points; masked representations (torch: distance, angle, inner angle, point–line, points; numpy: distance) are run on two fillings of masked point sets; the modelled operations are also run "
        "through the Lean model on both fillings; non-trivial = case with ≥ 1 missing and ≥ 1 observed point whose fillings differ, distinct by JSON")
ASSUMPTIONS = ["random draws inside operations (augment2d, dropout) are fixed by re-seeding before each run",
               "tensorflow runs in a child process; tf.matmul on (F > 1, 1, N, D) is avoided (native crash in this sandbox)",
               "an operation that raises must raise in both runs (same exception type)"]

SPECIAL = {"zeros": [0], "finite": None, "huge": [0x7F7FFFFF, 0xFF7FFFFF, 0x7F000000], "nan": [0x7FC00000], "inf": [0x7F800000], "ninf": [0xFF800000],
           "mixed": [0x7FC00000, 0x7F800000, 0xFF800000, 0x7F7FFFFF, 0x42F60000, 0x80000000, 0xC1200000]}


def gen_fill(rng):
    kind = rng.choice(list(SPECIAL))
    if kind == "finite":
        return kind, pc.f32_to_bits(np.array([rng.randint(-400, 400) / 8 for _ in range(7)], dtype=np.float32))
    return kind, list(SPECIAL[kind])


def gen_case(rng, dims=None):
    dims = dims or rng.choice([2, 2, 3])
    fmt = {2: "XYC", 3: "XYZC"}[dims]
    comps = [pc.gen_comp(rng, fmt=fmt, npoints=rng.choice([1, 2, 3, 4])) for _ in range(rng.randint(1, 3))]
    for i, c in enumerate(comps):
        c["name"] = pc.hx("c%d" % i)
        c["points"] = [pc.hx("p%d" % j) for j in range(len(c["points"]))]
        c["limbs"] = [[a % len(c["points"]), b % len(c["points"])] for a, b in c["limbs"]]
    h = {"version": pc.V02, "width": 50, "height": 60, "depth": 0, "components": comps}
    F, P, N = rng.randint(1, 8), rng.randint(1, 2), pc.total_points(h)
    data = np.array([rng.randint(-40, 40) / 4 for _ in range(F * P * N * dims)], dtype=np.float32)
    # confidences: mostly in (0, 1]; some tiny ones next to large ones (a cubic resampling then undershoots below 0), a few negative ones (the v0.0 reader
    # and test fixtures produce them): "missing" is confidence == 0, nothing else
    conf = np.array([0.0 if rng.random() < 0.35 else rng.choice([1.0, 0.5, 0.25, 0.9, 0.05, 0.05, -0.5, 1e-9]) for _ in range(F * P * N)], dtype=np.float32).reshape(F, P, N)
    r = rng.random()
    if r < 0.2 and len(comps) > 1:                       # a whole component missing
        off = 0; k = rng.randrange(len(comps))
        for i, c in enumerate(comps):
            if i == k: conf[:, :, off:off + len(c["points"])] = 0
            off += len(c["points"])
    elif r < 0.35 and F > 1:
        conf[rng.randrange(F)] = 0                       # a whole frame missing
    elif r < 0.5:
        conf[:, :, rng.randrange(N)] = 0                 # a point never observed
    elif r < 0.6:
        conf[:, :, :] = 1.0; conf[rng.randrange(F), rng.randrange(P), rng.randrange(N)] = 0
    body = {"fps": {"f32": 0x41C80000}, "frames": F, "people": P, "points": N, "dims": dims, "data": pc.f32_to_bits(data), "conf": pc.f32_to_bits(conf)}
    return {"header": h, "body": body}


class State:
    def __init__(self, case):
        b = case["body"]
        self.F, self.P, self.D = b["frames"], b["people"], b["dims"]
        self.comps = [(pc.unhx(c["name"]), [pc.unhx(p) for p in c["points"]]) for c in case["header"]["components"]]
        self.fps = 25.0
        self.header_ok = True
        self.frames_known = True
    @property
    def N(self): return sum(len(p) for _, p in self.comps)


def gen_ops(rng, case, be):
    st = State(case)
    ops = []
    cur = "numpy" if be == "numpy_with_tf" else be
    for _ in range(rng.randint(1, 4)):
        cands = ["zero_filled", "copy", "points_perspective"]
        if st.frames_known and st.F > 0:
            cands += ["select_frames", "slice_step"]
        if st.N > 0 and st.F > 0:
            cands += ["get_points_last"]
            if not (cur == "tf" and st.P == 1 and st.F > 1):
                cands += ["matmul", "matmul"]
        if cur in ("numpy", "torch") and st.F > 0:
            cands += ["flatten"]
        if cur == "numpy":
            cands += ["rejoin"]
        if cur == "numpy" and st.header_ok:
            cands += ["flip", "flip", "bbox", "focus", "write_read", "get_components", "remove_components", "normalize", "normalize", "normalize_distribution", "normalize_unnormalize", "augment2d", "to_torch", "to_tf_last"]
            if st.F >= 2 and st.frames_known:
                cands += ["interpolate", "interpolate", "interpolate"]
            if st.F >= 1 and st.frames_known:
                cands += ["dropout"]
            if st.D == 3 and st.N >= 3:
                cands += ["normalize_3d"]
        if cur == "tf" and st.header_ok and st.N >= 2:
            cands += ["normalize", "normalize_distribution"]
        k = rng.choice(cands)
        if k == "select_frames":
            ixs = [rng.randrange(st.F) for _ in range(rng.randint(1, 4))]
            ops.append({"k": k, "ixs": ixs}); st.F = len(ixs)
        elif k == "slice_step":
            by = rng.randint(1, 3); ops.append({"k": k, "by": by}); st.F = (st.F + by - 1) // by; st.fps /= by
        elif k == "get_points_last":
            ops.append({"k": "get_points", "ixs": [rng.randrange(st.N) for _ in range(rng.randint(1, 4))]}); break
        elif k == "matmul":
            ops.append({"k": k, "m": [[float(rng.randint(-2, 2)) for _ in range(st.D)] for _ in range(st.D)]})
        elif k == "flip":
            ops.append({"k": k, "axis": rng.randrange(st.D)})
        elif k == "bbox":
            ops.append({"k": k}); st.comps = [(n, ["TOP_LEFT", "BOTTOM_RIGHT"]) for n, _ in st.comps]
        elif k == "interpolate":
            new = rng.choice([10, 12.5, 25, 30, 50, 60]); kind = rng.choice(["linear", "quadratic", "cubic"])
            nf = round(st.F * new / st.fps)
            if nf < 1: continue
            ops.append({"k": k, "new_fps": new, "kind": kind}); st.F = nf; st.fps = new
        elif k == "normalize":
            if st.N < 2: continue
            p1, p2 = rng.sample(range(st.N), 2)
            ops.append({"k": k, "p1": p1, "p2": p2, "scale": rng.choice([1, 2, 0.5])})
        elif k in ("normalize_distribution", "normalize_unnormalize"):
            ops.append({"k": k, "axis": rng.choice([[0, 1], [0, 1, 2], [0]])})
        elif k == "augment2d":
            ops.append({"k": k, "seed": rng.randrange(10 ** 6), "stds": [rng.choice([0, 0.2]), rng.choice([0, 0.3]), rng.choice([0, 0.1])]})
        elif k == "dropout":
            ops.append({"k": k, "seed": rng.randrange(10 ** 6), "lo": 0.2, "hi": 0.8}); st.frames_known = False
        elif k in ("get_components", "remove_components"):
            names = [n for n, _ in st.comps]
            if k == "get_components":
                sel = rng.sample(names, rng.randint(1, len(names)))
                pts = {}
                for n, p in st.comps:
                    if n in sel and rng.random() < 0.5:
                        pts[n] = rng.sample(p, rng.randint(1, len(p)))
                ops.append({"k": k, "components": sel, "points": pts or None})
                st.comps = [(n, pts.get(n, dict(st.comps)[n])) for n in sel]
            else:
                if len(names) < 2: continue
                rm = rng.sample(names, rng.randint(0, len(names) - 1))
                ops.append({"k": k, "components": rm, "points": None})
                st.comps = [(n, p) for n, p in st.comps if n not in rm]
        elif k == "to_torch":
            ops.append({"k": k}); cur = "torch"
        elif k == "to_tf_last":
            if be == "numpy_with_tf":
                ops.append({"k": "to_tf"}); cur = "tf"
            else:
                continue
        elif k == "normalize_3d":
            a, b, c = rng.sample(range(st.N), 3)
            ops.append({"k": k, "plane": [a, b, c], "line": [a, b]}); break
        elif k == "zero_filled" and cur in ("torch", "tf"):
            ops.append({"k": k}); break                                   # leaves a plain tensor in the body: nothing else is defined on it
        else:
            ops.append({"k": k})
    if be in ("numpy", "numpy_with_tf") and rng.random() < 0.12:
        ops = [{"k": "rejoin"}, {"k": "zero_filled"}] + ops            # planned opening: a body whose array did not come out of the constructor, zero-filled at once
    return ops


def first_diff(r1, r2):
    for i, (a, b) in enumerate(zip(r1, r2)):
        if ("error" in a) != ("error" in b):
            return i, "one run raises, the other does not", {"run1": a.get("error"), "run2": b.get("error")}
        if "error" in a:
            if a["error"].split(":")[0] != b["error"].split(":")[0]:
                return i, "the two runs raise different errors", {"run1": a["error"], "run2": b["error"]}
            return None
        for key in ("header", "extra"):
            if a.get(key) != b.get(key):
                return i, "the %s differs between the two runs" % {"header": "header", "extra": "returned value"}[key], {"run1": str(a.get(key))[:300], "run2": str(b.get(key))[:300]}
        va, vb = a["body"], b["body"]
        if "error" in va or "error" in vb:
            if va.get("error") != vb.get("error"):
                return i, "the body view differs between the two runs", {"run1": va.get("error"), "run2": vb.get("error")}
            continue
        for key, what in (("shape", "shape"), ("fps", "frame rate"), ("conf", "confidences"), ("missing", "missing pattern"), ("zf", "zero-filled coordinates")):
            if va[key] != vb[key]:
                where = [j for j, (x, y) in enumerate(zip(va[key], vb[key])) if x != y][:4] if isinstance(va[key], list) else None
                return i, "the %s differ between the two runs" % what, {"at": where}
    if len(r1) != len(r2):
        return min(len(r1), len(r2)), "the two runs have different lengths", {}
    return None


def run_tf(cases):
    if not cases:
        return []
    payload = "".join(json.dumps(c) + "\n" for c in cases)
    env = dict(os.environ, PYTHONPATH=os.environ.get("PYTHONPATH", ""), TF_CPP_MIN_LOG_LEVEL="3")
    r = subprocess.run([sys.executable, "-W", "ignore", "-m", "harness.niexec", "tf"], input=payload, capture_output=True, text=True, timeout=3000, cwd=core.VERIF, env=env)
    lines = [l for l in r.stdout.splitlines() if l.startswith("{")]
    if len(lines) != len(cases):
        raise core.InfraError("tensorflow child returned %d of %d results: %s" % (len(lines), len(cases), r.stderr[-400:]))
    return [json.loads(l) for l in lines]


def model_body(case):
    b = case["body"]
    f64 = lambda bits: [f64_bits(float(x)) for x in np.array(bits, dtype=np.uint32).view(np.float32)]
    return {"fps": f64([b["fps"]["f32"]])[0], "shape": [b["frames"], b["people"], b["points"], b["dims"]], "data": f64(b["data"]), "conf": f64(b["conf"])}


MODELLED = {"select_frames", "slice_step", "get_points", "zero_filled", "copy", "rejoin", "matmul", "flip", "bbox", "focus", "interpolate", "normalize", "normalize_distribution", "normalize_unnormalize"}


def to_model_ops(case, ops):
    """the prefix of `ops` that the Lean model implements (numpy backend), in the driver's vocabulary"""
    out = []
    F, fps = case["body"]["frames"], 25.0
    comps = [len(c["points"]) for c in case["header"]["components"]]
    for op in ops:
        k = op["k"]
        if k not in MODELLED:
            break
        if k == "rejoin":
            out.append({"k": "copy"}); continue                    # the same body, assembled another way
        if k == "interpolate":
            if op["kind"] != "linear": break
            nf = round(F * op["new_fps"] / fps)
            out.append({"k": k, "new_fps": f64_bits(float(op["new_fps"])), "new_frames": nf}); F = nf; fps = op["new_fps"]
        elif k == "matmul":
            out.append({"k": k, "m": [[f64_bits(x) for x in r] for r in op["m"]]})
        elif k == "bbox":
            out.append({"k": k, "sizes": comps}); comps = [2] * len(comps)
        elif k == "select_frames":
            out.append(op); F = len(op["ixs"])
        elif k == "slice_step":
            out.append(op); F = (F + op["by"] - 1) // op["by"]; fps /= op["by"]
        elif k == "get_points":
            out.append(op); break
        elif k == "normalize":
            out.append({"k": k, "p1": op["p1"], "p2": op["p2"], "scale": f64_bits(float(op.get("scale", 1)))})
        elif k in ("normalize_distribution", "normalize_unnormalize"):
            if op["axis"] not in ([0, 1], [0, 1, 2]): break
            out.append({"k": "normalize_distribution", "all_points": op["axis"] == [0, 1, 2], "unnormalize": k == "normalize_unnormalize"})
        else:
            out.append(op)
    return out


def k4_witness():
    """known finding K4, run first on every run: frame 1 lacks plane point 2; its OBSERVED points then depend on what is stored there"""
    pts = [[0, 0, 0], [1, 0, 0], [0, 1, 0], [1, 1, 1]]
    data = np.array([pts, pts], dtype=np.float32).reshape(-1)
    conf = np.array([1, 1, 1, 1, 1, 1, 0, 1], dtype=np.float32)
    comp = {"name": pc.hx("c0"), "format": pc.hx("XYZC"), "points": [pc.hx("p%d" % j) for j in range(4)], "limbs": [[0, 1]], "colors": [[255, 0, 0]]}
    h = {"version": pc.V02, "width": 50, "height": 60, "depth": 10, "components": [comp]}
    body = {"fps": {"f32": 0x41C80000}, "frames": 2, "people": 1, "points": 4, "dims": 3, "data": pc.f32_to_bits(data), "conf": pc.f32_to_bits(conf)}
    return {"header": h, "body": body, "fill1": pc.f32_to_bits(np.array([5.0], dtype=np.float32)), "fill2": pc.f32_to_bits(np.array([-7.0], dtype=np.float32)),
            "fills": ["finite", "finite"], "ops": [{"k": "normalize_3d", "plane": [0, 1, 2], "line": [0, 1]}], "backend": "numpy"}


def run(ctx):
    rng = ctx.rng
    n_cases = ctx.pick(260, 3000)
    plan = {"numpy": [], "torch": [], "tf": []}
    for it in range(n_cases):
        be = rng.choice(["numpy", "numpy", "numpy", "numpy_with_tf", "torch", "tf"])
        case = gen_case(rng)
        k1, f1 = gen_fill(rng); k2, f2 = gen_fill(rng)
        if rng.random() < 0.3:
            k1, f1 = "zeros", [0]
        case["fill1"], case["fill2"] = f1, f2
        case["fills"] = [k1, k2]
        case["ops"] = gen_ops(rng, case, be)
        case["backend"] = be
        case["masked_input"] = rng.choice([None, None, None, "none", "partial"])        # the constructor is handed a MaskedArray with no / a partial mask of its own
        if be == "numpy" and case["masked_input"] is None and rng.random() < 0.2:
            case["wide"] = True                                                          # a binary64 body; run 1 stores values beyond the binary32 range at the missing points
            ctx.count("binary64 body with out-of-range values at missing points")
        plan["tf" if be in ("tf", "numpy_with_tf") else be].append(case)
    # planned cases, every run: normalize / normalize_distribution on each backend that offers them, with a reference point that is missing in one frame and
    # observed (together with the other) in another — the statistic must come from the observed frames only, whatever is stored at the missing one
    for be in ("tf", "numpy", "tf", "numpy_with_tf"):
        for opk in ("normalize", "normalize_distribution"):
            case = gen_case(rng)
            b = case["body"]
            tries = 0
            while (b["frames"] < 2 or b["points"] < 2) and tries < 50:
                case = gen_case(rng); b = case["body"]; tries += 1
            if b["frames"] < 2 or b["points"] < 2:
                continue
            F, P, N = b["frames"], b["people"], b["points"]
            conf = pc.bits_to_f32(b["conf"], (F, P, N)).copy()
            p1, p2 = rng.sample(range(N), 2)
            conf[:, :, [p1, p2]] = 1.0
            conf[rng.randrange(F - 1), rng.randrange(P), rng.choice([p1, p2])] = 0.0      # missing in one of the first F−1 frames; the last frame keeps both
            b["conf"] = pc.f32_to_bits(conf)
            data = pc.bits_to_f32(b["data"], (F, P, N, b["dims"])).copy()
            data[:, :, p2, 0] += 3.0                                                      # the two reference points are apart
            b["data"] = pc.f32_to_bits(data)
            k1, f1 = rng.choice([(k, list(SPECIAL[k])) for k in SPECIAL if k not in ("finite", "zeros")])
            k2, f2 = "finite", pc.f32_to_bits(np.array([rng.randint(-400, 400) / 8 for _ in range(7)], dtype=np.float32))
            case["fill1"], case["fill2"], case["fills"] = f1, f2, [k1, k2]
            op = {"k": "normalize", "p1": p1, "p2": p2, "scale": 1} if opk == "normalize" else {"k": opk, "axis": [0, 1]}
            case["ops"] = ([{"k": "to_tf"}] if be == "numpy_with_tf" else []) + [op]
            case["backend"] = be
            case["masked_input"] = None
            case["planned"] = "reference point missing in one frame"
            plan["tf" if be in ("tf", "numpy_with_tf") else be].append(case)
    # planned, every run: single COORDINATES of observed points marked missing (a mask that is not uniform over the coordinate axis — user code masking a depth, a
    # representation masking an undefined angle): the statistics of the normalisers must leave such frames out like any other missing slot
    for be in ("tf", "tf", "torch", "numpy", "tf", "numpy"):
        for opk in ("normalize", "normalize_distribution", "zero_filled", "get_points", "select_frames", "copy", "matmul"):
            case = gen_case(rng)
            tries = 0
            while (case["body"]["frames"] < 3 or case["body"]["points"] < 2) and tries < 80:
                case = gen_case(rng); tries += 1
            b = case["body"]
            if b["frames"] < 3 or b["points"] < 2:
                continue
            F, P, N, D = b["frames"], b["people"], b["points"], b["dims"]
            conf = pc.bits_to_f32(b["conf"], (F, P, N)).copy()
            p1, p2 = rng.sample(range(N), 2)
            conf[:, :, [p1, p2]] = 1.0
            b["conf"] = pc.f32_to_bits(conf)
            data = pc.bits_to_f32(b["data"], (F, P, N, D)).copy(); data[:, :, p2, 0] += 3.0
            b["data"] = pc.f32_to_bits(data)
            f0 = rng.randrange(F - 1)
            case["extra_mask"] = [[f0, rng.randrange(P), rng.choice([p1, p2]), rng.randrange(D)]]
            k1, f1 = rng.choice([(k, list(SPECIAL[k])) for k in SPECIAL if k not in ("finite", "zeros")])
            k2, f2 = "finite", pc.f32_to_bits(np.array([rng.randint(-400, 400) / 8 for _ in range(7)], dtype=np.float32))
            case["fill1"], case["fill2"], case["fills"] = f1, f2, [k1, k2]
            if opk == "zero_filled":
                op = {"k": "zero_filled"}
            elif opk == "get_points":
                op = {"k": "get_points", "ixs": [case["extra_mask"][0][2], p1, p2]}          # the point that carries the mask of its own is among the selected ones
            elif opk == "select_frames":
                op = {"k": "select_frames", "ixs": [f0, F - 1, f0]}
            elif opk == "copy":
                op = {"k": "copy"}
            elif opk == "matmul":
                if be == "tf" and P == 1:
                    continue                               # tf.matmul on (F > 1, 1, N, D) aborts the interpreter in this sandbox
                # a WHOLE observed point hidden by a mask of its own (a linear map mixes the coordinates of a point, so the slot is the point)
                f_, p_, n_, _d = case["extra_mask"][0]
                case["extra_mask"] = [[f_, p_, n_, d] for d in range(D)]
                op = {"k": "matmul", "m": [[float(rng.randint(-2, 2)) for _ in range(D)] for _ in range(D)]}
            elif opk == "normalize":
                if be == "torch":
                    continue                               # torch poses offer no normalize
                op = {"k": "normalize", "p1": p1, "p2": p2, "scale": 1}
            else:
                if be == "torch":
                    continue
                op = {"k": opk, "axis": [0, 1]}
            case["ops"] = [op]
            case["backend"] = be
            case["masked_input"] = None
            case["planned"] = "a single coordinate of an observed reference point marked missing"
            case["no_model"] = True
            plan["tf" if be == "tf" else be].append(case)
    # planned, every run: the 3-D hand normaliser of the known formats (`normalize_hands_3d`) on a Holistic-shaped pose whose hand REFERENCE points are observed
    # (known finding K4 is about missing reference points) and whose other points are missing here and there
    try:
        from .c11 import holistic_header, HAND_NAMES
        hol = pc.canon_header(holistic_header())
        for _ in range(2):
            Np = sum(len(c["points"]) for c in hol["components"])
            F = 2
            conf = np.array([0.0 if rng.random() < 0.3 else 1.0 for _ in range(F * Np)], dtype=np.float32).reshape(F, 1, Np)
            off = 0
            for c in hol["components"]:
                if pc.unhx(c["name"]) in ("LEFT_HAND_LANDMARKS", "RIGHT_HAND_LANDMARKS"):
                    for nm in ("WRIST", "PINKY_MCP", "INDEX_FINGER_MCP", "MIDDLE_FINGER_MCP"):
                        conf[:, :, off + HAND_NAMES.index(nm)] = 1.0
                off += len(c["points"])
            data = np.array([rng.randint(-40, 40) / 4 for _ in range(F * Np * 3)], dtype=np.float32)
            case = {"header": hol, "body": {"fps": {"f32": 0x41C80000}, "frames": F, "people": 1, "points": Np, "dims": 3, "data": pc.f32_to_bits(data), "conf": pc.f32_to_bits(conf)}}
            k1, f1 = rng.choice([(k, list(SPECIAL[k])) for k in SPECIAL if k not in ("finite", "zeros")])
            case["fill1"], case["fill2"], case["fills"] = f1, pc.f32_to_bits(np.array([rng.randint(-400, 400) / 8 for _ in range(7)], dtype=np.float32)), [k1, "finite"]
            case["ops"] = [{"k": "normalize_hands_3d"}, {"k": "zero_filled"}]
            case["backend"], case["masked_input"], case["no_model"], case["planned"] = "numpy", None, True, "normalize_hands_3d"
            plan["numpy"].append(case)
    except Exception as e:
        ctx.notes.append("normalize_hands_3d planned case not built: %s" % e)
    plan["numpy"].insert(0, k4_witness())
    results = []
    for be in ("numpy", "torch"):
        for c in plan[be]:
            results.append((c, niexec.run_case(c, be)))
    tf_cases = plan["tf"]
    tf_out = run_tf([dict(c) for c in tf_cases]) if tf_cases else []
    # the child is started per backend of the FIRST conversion: "numpy_with_tf" cases start as numpy bodies inside the tf child
    results += list(zip(tf_cases, tf_out))
    model_reqs, model_meta = [], []
    for c, res in results:
        be = c["backend"]
        conf = np.array(c["body"]["conf"], dtype=np.uint32)
        nmiss = int((conf == 0).sum() + (conf == 0x80000000).sum())
        nontrivial = 0 < nmiss < len(conf) and c["fill1"] != c["fill2"]
        ctx.evaluated(json.dumps([c["header"], c["body"], c["fill1"], c["fill2"], c["ops"], be]), nontrivial=nontrivial)
        ctx.count("backend:" + be); ctx.count("fill:%s/%s" % tuple(c["fills"]))
        for op in c["ops"]:
            ctx.count("op:" + op["k"])
        if len(ctx.samples) < 3:
            ctx.sample({"backend": be, "fills": c["fills"], "ops": [o["k"] for o in c["ops"]], "shape": [c["body"][k] for k in ("frames", "people", "points", "dims")], "missing_points": nmiss})
        info = {"case": {k: c.get(k) for k in ("header", "body", "fill1", "fill2", "ops", "backend", "masked_input")}}
        ctx.count("constructor_input:" + str(c.get("masked_input") or "plain"))
        for i, stp in enumerate(res["run1"]):
            if "error" in stp:
                ctx.count("raises:%s:%s:%s" % (be, c["ops"][i - 1]["k"] if i else "construct", stp["error"].split(":")[0]))
        d = first_diff(res["run1"], res["run2"])
        if d:
            step, what, detail = d
            opname = c["ops"][step - 1]["k"] if step >= 1 and step - 1 < len(c["ops"]) else "construct"
            sig = {"clause": "non-interference", "op": opname, "backend": be}
            if opname == "normalize_3d":
                # where do the runs differ? (known finding K4: only in frames / people whose plane or line reference points are missing)
                op = c["ops"][step - 1]
                prev = res["run1"][step - 1]["body"]
                F_, P_, N_, D_ = prev["shape"]
                miss = np.array(prev["missing"], dtype=bool).reshape(F_, P_, N_, D_)
                ref_missing = miss[:, :, sorted(set(op["plane"] + op["line"]))].any(axis=(2, 3))
                e1, e2 = res["run1"][step].get("extra"), res["run2"][step].get("extra")
                confined = False
                if e1 and e2 and e1["shape"] == e2["shape"] == [F_, P_, N_, D_]:
                    differs = np.array([x != y for x, y in zip(e1["zf"], e2["zf"])]).reshape(F_, P_, N_, D_) | (np.array(e1["missing"]).reshape(F_, P_, N_, D_) != np.array(e2["missing"]).reshape(F_, P_, N_, D_))
                    confined = bool((differs.any(axis=(2, 3)) <= ref_missing).all())
                sig["reference_missing"] = confined
                detail = dict(detail, differences_confined_to_frames_without_reference=confined)
            ctx.violation("replacing the coordinates stored at missing points changes the visible result: " + what, info, dict(detail, step=step, op=opname, fills=c["fills"]), True,
                          size=len(c["body"]["data"]), signature=sig)
            continue
        # zero-filling is exact
        for run in (res["run1"], res["run2"]):
            for i, stp in enumerate(run[1:]):
                if "error" in stp or i >= len(c["ops"]):
                    break
                if c["ops"][i]["k"] == "zero_filled" and "error" not in stp["body"] and not stp["body"]["raw_at_missing_zero"]:
                    ctx.violation("zero_filled leaves a value other than 0 at a missing point", info, {"step": i + 1, "fills": c["fills"]}, True, signature={"clause": "zero_filled", "backend": be})
        # the Lean model on both fillings (numpy prefix)
        if be == "numpy" and not c.get("no_model"):
            mops = to_model_ops(c, c["ops"])
            if mops:
                for tag in ("fill1", "fill2"):
                    model_reqs.append({"op": "body_ops", "backend": "numpy", "body": model_body(niexec.filled_case(c, c[tag])), "ops": mops})
                model_meta.append((c, mops, res))
    outs = ctx.driver.run(model_reqs) if model_reqs else []
    for j, (c, mops, res) in enumerate(model_meta):
        m1, m2 = outs[2 * j], outs[2 * j + 1]
        info = {"case": {k: c[k] for k in ("header", "body", "fill1", "fill2", "ops", "backend")}, "model_ops": mops}
        ctx.count("model_pairs")
        def mview(st):
            if "error" in st: return ("error",)
            tok = lambda bits: ["nan" if (x != x) else int(np.float64(x).view(np.uint64)) for x in [bits_f64(b) for b in bits]]
            return (st.get("shape"), tok(st["conf"]), st["missing"], tok(st["zf"]), st.get("dimensions"))
        def merged(steps):
            out, dims = [], None
            for st in steps:
                if set(st) == {"dimensions"}:
                    dims = st["dimensions"]; continue
                if "zf" not in st and "error" not in st:                 # statistics reported by a normaliser: not a body view
                    continue
                st = dict(st)
                if dims is not None:
                    st["dimensions"] = dims; dims = None
                out.append(st)
            return out
        s1, s2 = merged(m1["steps"]), merged(m2["steps"])
        if [mview(s) for s in s1] != [mview(s) for s in s2]:
            ctx.violation("the model's visible results differ between the two fillings (theorem run_ni would be false)", info, {}, False); continue
        # model view = implementation view, step by step (run 2: the garbage filling)
        impl = res["run2"]
        for i, st in enumerate(s2):
            if i >= len(impl) or "error" in impl[i]:
                if "error" not in st:
                    ctx.violation("the implementation raises where the model does not", info, {"step": i, "error": impl[i].get("error") if i < len(impl) else None}, False)
                break
            if "error" in st:
                if i >= 1 and mops[i - 1]["k"].startswith("normalize"):           # reference points never jointly observed: outside the model (C13 owns the preconditions)
                    ctx.count("model_precondition_skips"); break
                ctx.violation("the model refuses an operation the implementation performs", info, {"step": i}, False); break
            iv = impl[i]["body"]
            mv = mview(st)
            if "error" in iv:
                break
            ishape = iv["shape"]
            if 0 in ishape:
                continue
            num = lambda toks: np.array([np.nan if x == "nan" else np.uint64(x).view(np.float64) for x in toks], dtype=np.float64)
            same = iv["missing"] == mv[2] and len(iv["conf"]) == len(mv[1]) and np.allclose(num(iv["conf"]), num(mv[1]), rtol=1e-9, atol=1e-12, equal_nan=True)
            if same:
                a = np.array([np.nan if x == "nan" else np.uint64(x).view(np.float64) for x in iv["zf"]], dtype=np.float64)
                b = np.array([np.nan if x == "nan" else np.uint64(x).view(np.float64) for x in mv[3]], dtype=np.float64)
                loose = any(o["k"].startswith("normalize") for o in mops[:i])
                same = a.shape == b.shape and np.allclose(a, b, rtol=5e-4 if loose else 1e-5, atol=5e-4 if loose else 1e-6, equal_nan=True)
            if not same and len(iv["conf"]) == len(mv[1]) and rounding_zero_only(iv["missing"], mv[2], num(iv["conf"]), num(mv[1]), ishape):
                ctx.count("rounding_zero_confidence_skips"); break
            if not same and any(o["k"].startswith("normalize") for o in mops[:i]):   # zero deviation / degenerate references: numpy masks, the model divides
                ctx.count("model_precondition_skips"); break
            if not same:
                ctx.violation("an operation's visible result differs from its model", info, {"step": i, "op": mops[i - 1]["k"] if i else "construct"}, False); break
    representations(ctx)


def rounding_zero_only(impl_missing, model_missing, impl_conf, model_conf, shape):
    """the two missing patterns differ only at points whose (interpolated) confidence is 0 up to rounding on one side:
    a mixed-sign pair of confidences can interpolate to exactly 0 in one evaluation order and to ±1e-17 in the other, and
    `confidence == 0` then decides differently. Neither is wrong; the comparison of this sequence stops there."""
    F, P, N, D = shape
    try:
        a = np.array(impl_missing, dtype=bool).reshape(F, P, N, D); b = np.array(model_missing, dtype=bool).reshape(F, P, N, D)
        ci = np.asarray(impl_conf, dtype=np.float64).reshape(F, P, N); cm = np.asarray(model_conf, dtype=np.float64).reshape(F, P, N)
    except ValueError:
        return False
    diff = (a != b).any(axis=3)
    if not diff.any():
        return False
    with np.errstate(all="ignore"):
        tiny = (np.abs(ci) <= 1e-12) & (np.abs(cm) <= 1e-12)
    return bool((tiny | ~diff).all())


def representations(ctx):
    rng = ctx.rng
    for it in range(ctx.pick(60, 600)):
        dims = rng.choice([2, 3])
        shape = [rng.randint(1, 3), rng.randint(1, 2), rng.randint(1, 3), dims]
        n = int(np.prod(shape))
        sets = []
        for _ in range(3):
            data = np.array([rng.randint(-20, 20) / 4 for _ in range(n)], dtype=np.float32)
            valid = [0 if rng.random() < 0.35 else 1 for _ in range(n // dims)]
            sets.append({"data": pc.f32_to_bits(data), "valid": valid})
        if rng.random() < 0.3:                                         # degenerate geometry next to missing points
            sets[1]["data"] = list(sets[0]["data"])
        k1, f1 = gen_fill(rng); k2, f2 = gen_fill(rng)
        case = {"shape": shape, "sets": sets, "fill1": f1, "fill2": f2}
        for be in ("torch", "numpy"):
            res = niexec.representation_case(case, be)
            ctx.evaluated(json.dumps([case, be]), nontrivial=any(0 in s["valid"] for s in sets) and f1 != f2); ctx.count("representation:" + be)
            a, b = res["fill1"], res["fill2"]
            info = {"case": case, "backend": be, "fills": [k1, k2]}
            if ("error" in a) != ("error" in b):
                ctx.violation("a representation raises for one filling only", info, {"run1": a.get("error"), "run2": b.get("error")}, True, signature={"clause": "representation", "backend": be}); continue
            if "error" in a:                                               # the same failure for both fillings: not an interference (C17 owns the representations' totality)
                ctx.count("representation_raises:" + a["error"].split(":")[0]); continue
            for name in a:
                if a[name] != b[name]:
                    ctx.violation("replacing the coordinates stored at missing points changes a representation", info, {"representation": name}, True,
                                  signature={"clause": "representation", "name": name, "backend": be}); break
                any_missing = None
                if name != "points":
                    nsets = 3 if name in ("inner_angle", "point_line") else 2
                    allv = np.ones(n // dims, dtype=bool)
                    for s in sets[:nsets]:
                        allv &= np.array(s["valid"], dtype=bool)
                    vals = a[name]
                    bad = [i for i, v in enumerate(vals) if (not allv[i]) and v not in (0, int(np.float64(-0.0).view(np.uint64)))]
                    nonfinite = [i for i, v in enumerate(vals) if v == "nan" or not math.isfinite(float(np.uint64(v).view(np.float64)))]
                    if bad or nonfinite:
                        ctx.violation("a masked representation is not exactly 0 where an input point is missing, or is not finite", info, {"representation": name, "not_zero_at": bad[:4], "non_finite_at": nonfinite[:4]}, True,
                                      signature={"clause": "representation_zero", "name": name, "backend": be}); break


def replay(ctx, rep):
    c = (rep.get("case") or rep.get("input") or {}).get("case")
    if not isinstance(c, dict) or "backend" not in c:
        raise SystemExit("replay: re-run ./check C09 with VERIF_SEED=%s" % rep.get("seed"))
    be = c["backend"]
    if be in ("tf", "numpy_with_tf"):
        res = run_tf([c])[0]
    else:
        res = niexec.run_case(c, be)
    d = first_diff(res["run1"], res["run2"])
    print("replay:", "difference at step %d: %s %s" % d if d else "no difference between the two runs")
    return 1 if d else 0
