"""C13 — normalisation removes exactly the variation it is meant to remove."""
import json, math
import numpy as np
import numpy.ma as ma
from .. import posecase as pc, niexec
from ..mtexec import f64_bits, bits_f64
from . import c09

LEAN_MODULES = ["PoseVerif.Props.C13"]
RULE = ("poses (2-D and 3-D, 1–3 components, 1–2 people, 1–5 frames, dyadic coordinates, arbitrary missing patterns) with reference points that are jointly observed and apart; normalize(info, scale) on NumPy and tensorflow "
        "bodies: mean reference distance = scale, mean midpoint = 0, missing pattern and confidences unchanged, output unchanged under x ↦ a·x + t (a ∈ {½, 2, 4}, dyadic t); normalize_distribution over (0, 1) and (0, 1, 2): "
        "masked mean 0 and deviation 1 wherever the deviation is defined and not 0, unnormalize_distribution restores the input; 3-D plane / line normaliser on fully observed reference points, non-collinear planes, all "
        "reference choices: first line point at the origin, plane points at z = 0, line on the negative Y half-plane with 3-D length = size, each frame / person independent of the others, output unchanged under translation "
        "and uniform scaling (and rotation: known finding K2); every call compared with the Lean model at binary64; non-trivial = case with ≥ 1 missing point, distinct by JSON")
ASSUMPTIONS = ["float32 arithmetic of the implementation vs. binary64 of the model and of the reference formulas: tolerances 1e-4 relative (2e-3 for the deviation, which squares the error)",
               "arctan2 / Rotation.from_euler are modelled by cos θ = −v_y / r, sin θ = v_x / r", "tensorflow runs in a child process"]

TOL = 2e-4


def gen(rng, dims):
    case = c09.gen_case(rng, dims=dims)
    b = case["body"]
    # spread the points so that reference distances are not tiny
    data = np.array([rng.randint(-64, 64) / 4 for _ in range(len(b["data"]))], dtype=np.float32)
    b["data"] = pc.f32_to_bits(data)
    return case


def arr(case):
    b = case["body"]
    F, P, N, D = b["frames"], b["people"], b["points"], b["dims"]
    data = np.array(b["data"], dtype=np.uint32).view(np.float32).astype(np.float64).reshape(F, P, N, D)
    conf = np.array(b["conf"], dtype=np.uint32).view(np.float32).astype(np.float64).reshape(F, P, N)
    return data, conf


def with_data(case, data):
    c = {"header": case["header"], "body": dict(case["body"])}
    c["body"]["data"] = pc.f32_to_bits(np.asarray(data, dtype=np.float32).reshape(-1))
    return c


def view_np(st):
    num = lambda toks: np.array([np.nan if x == "nan" else np.uint64(x).view(np.float64) for x in toks], dtype=np.float64)
    v = st["body"]
    sh = v["shape"]
    return num(v["zf"]).reshape(sh), np.array(v["missing"], dtype=bool).reshape(sh), num(v["conf"]).reshape(sh[:3])


def run_ops(case, ops, be, tf_queue):
    c = dict(case, fill1=[0], fill2=[0], ops=ops, backend=be)
    if be == "tf":
        tf_queue.append(c); return None
    return niexec.run_case(c, be)["run1"]


def ref_pairs(data, conf, p1, p2):
    sel = (conf[:, :, p1] != 0) & (conf[:, :, p2] != 0)
    return data[:, :, p1][sel], data[:, :, p2][sel]


def model_body(case):
    return c09.model_body(case)


FILLS = [[0], [0], [0x7FC00000], [0x7F800000, 0xFF800000], [0x7149F2CA], [0x40F00000, 0x7FC00000]]   # what sits under the mask: 0, NaN, ±inf, 1e30, 7.5 / NaN


def run(ctx):
    rng = ctx.rng
    tf_queue, tf_meta = [], []
    model_reqs, model_meta = [], []
    def bad(clause, info, detail, sig=None, size=0):
        ctx.violation(clause, info, detail, True, size=size, signature=dict({"clause": clause}, **(sig or {})))
    # ------------------------------------------------------------------ normalize
    for it in range(ctx.pick(90, 900)):
        dims = rng.choice([2, 3])
        case = gen(rng, dims)
        data, conf = arr(case)
        F, P, N, D = data.shape
        if N < 2: continue
        cands = []
        for a in range(N):
            for b in range(N):
                if a != b:
                    x, y = ref_pairs(data, conf, a, b)
                    if len(x) and np.sqrt(((x - y) ** 2).sum(-1)).mean() > 0.5:
                        cands.append((a, b))
        if not cands: continue
        p1, p2 = rng.choice(cands)
        scale = rng.choice([1, 2, 0.5, 100])
        be = rng.choice(["numpy", "numpy", "tf"])
        op = {"k": "normalize", "p1": p1, "p2": p2, "scale": scale}
        # a third of the time the pose has been normalised before (another scale, the same object): normalising is not a one-shot operation
        first = [{"k": "normalize", "p1": p1, "p2": p2, "scale": rng.choice([3, 0.25, 7])}] if rng.random() < 0.33 else []
        ctx.count("normalize on a pose normalised before" if first else "normalize once")
        a_, t_ = rng.choice([2.0, 0.5, 4.0, 1 / 256, 256.0]), np.array([rng.randint(-32, 32) / 4 for _ in range(D)])
        moved = with_data(case, data * a_ + t_)
        fill = rng.choice(FILLS)
        info = {"case": case, "op": op, "backend": be, "similarity": [a_, t_.tolist()], "under_the_mask": fill, "normalised_before": first}
        ctx.count("under the mask:" + ("zero" if fill == [0] else "garbage"))
        nontrivial = bool((conf == 0).any())
        ctx.evaluated(json.dumps([case, op, be]), nontrivial=nontrivial); ctx.count("normalize:" + be)
        if be == "tf":
            tf_queue.append(dict(case, fill1=fill, fill2=[0], ops=first + [op], backend="tf")); tf_queue.append(dict(moved, fill1=fill, fill2=[0], ops=first + [op], backend="tf"))
            tf_meta.append(("normalize", info, case, (p1, p2, scale)))
        else:
            check_normalize(ctx, bad, info, case, niexec.run_case(dict(case, fill1=fill, fill2=[0], ops=first + [op], backend=be), be)["run1"],
                            niexec.run_case(dict(moved, fill1=fill, fill2=[0], ops=first + [op], backend=be), be)["run1"], p1, p2, scale)
            model_reqs.append({"op": "body_ops", "backend": "numpy", "body": model_body(case), "ops": [{"k": "normalize", "p1": o["p1"], "p2": o["p2"], "scale": f64_bits(float(o["scale"]))} for o in first + [op]]})
            model_meta.append((info, case, first + [op]))
    # ------------------------------------------------------------------ distribution
    for it in range(ctx.pick(90, 900)):
        dims = rng.choice([2, 3])
        case = gen(rng, dims)
        data, conf = arr(case)
        F, P, N, D = data.shape
        axis = rng.choice([[0, 1], [0, 1, 2]])
        usc = 2.0 ** -17 if rng.random() < 0.25 else 1.0          # a quarter of the poses in small units (image-relative coordinates of a hardly moving point): deviations ≈ 1e-5
        if usc != 1.0:
            data = data * usc; case = with_data(case, data)
        ctx.count("distribution units:%g" % usc)
        x = ma.array(data, mask=np.repeat((conf == 0)[..., None], D, axis=3))
        with np.errstate(all="ignore"):
            sd = x.std(axis=tuple(axis))
        sdv, sdm = np.asarray(ma.getdata(sd)), np.asarray(ma.getmaskarray(sd))
        if sdm.all() or (np.abs(sdv[~sdm]) < 1e-3 * usc).any():
            continue                                                   # precondition: non-zero deviation
        be = rng.choice(["numpy", "numpy", "tf"])
        back = rng.random() < 0.4
        op = {"k": "normalize_unnormalize" if back else "normalize_distribution", "axis": axis}
        fill = rng.choice(FILLS)
        info = {"case": case, "op": op, "backend": be, "under_the_mask": fill}
        ctx.evaluated(json.dumps([case, op, be]), nontrivial=bool((conf == 0).any())); ctx.count("distribution:%s:%s" % (be, "back" if back else "forward"))
        if be == "tf" and not back:
            tf_queue.append(dict(case, fill1=fill, fill2=[0], ops=[op], backend="tf")); tf_meta.append(("distribution", info, case, (axis, back)))
        elif be != "tf":
            check_distribution(ctx, bad, info, case, niexec.run_case(dict(case, fill1=fill, fill2=[0], ops=[op], backend="numpy"), "numpy")["run1"], axis, back)
            model_reqs.append({"op": "body_ops", "backend": "numpy", "body": model_body(case), "ops": [{"k": "normalize_distribution", "all_points": axis == [0, 1, 2], "unnormalize": back}]})
            model_meta.append((info, case, [op]))
    # ------------------------------------------------------------------ normalize() with the default reference points of a known format
    default_reference(ctx, bad)
    # ------------------------------------------------------------------ 3-D
    norm3d(ctx, bad, model_reqs, model_meta)
    # ------------------------------------------------------------------ tensorflow
    outs = c09.run_tf(tf_queue) if tf_queue else []
    i = 0
    for kind, info, case, par in tf_meta:
        if kind == "normalize":
            check_normalize(ctx, bad, info, case, outs[i]["run1"], outs[i + 1]["run1"], *par); i += 2
        else:
            check_distribution(ctx, bad, info, case, outs[i]["run1"], *par); i += 1
    # ------------------------------------------------------------------ model
    mouts = ctx.driver.run(model_reqs) if model_reqs else []
    for (info, case, ops), mo in zip(model_meta, mouts):
        ctx.count("model_cases")
        steps = [s for s in mo["steps"] if "zf" in s or "error" in s]
        if ops[0]["k"] == "normalize_3d":
            d, m = info.pop("_out")
            d = np.where(m, 0.0, d)
        else:
            res = niexec.run_case(dict(case, fill1=[0], fill2=[0], ops=ops, backend="numpy"), "numpy")["run1"]
            if "error" in res[-1]:
                continue
            d, m, c = view_np(res[len(ops)])
        if len(steps) <= len(ops) or "error" in steps[len(ops)]:
            ctx.violation("the model refuses a normalisation the implementation performs", info, {}, False); continue
        md = np.array([bits_f64(x) for x in steps[len(ops)]["zf"]]).reshape(d.shape)
        mm = np.array(steps[len(ops)]["missing"], dtype=bool).reshape(d.shape)
        if not np.array_equal(m, mm) or not np.allclose(d, md, rtol=5e-4, atol=5e-4 * max(1.0, float(np.nanmax(np.abs(md))) if md.size else 1.0), equal_nan=True):
            ctx.violation("a normalisation differs from its model", info, {"max_abs": float(np.nanmax(np.abs(d - md))) if d.size else 0, "rel": float(np.nanmax(np.abs(d - md)) / max(1e-9, np.nanmax(np.abs(md)))) if d.size else 0}, False)


def default_reference(ctx, bad):
    """`pose.normalize()` without an explicit reference on OpenPose-shaped headers: the shoulders of THIS header, wherever its layout puts them — two layouts of the
    same format in one process (points removed in front of the shoulders, components re-ordered), in a drawn order"""
    import copy
    from pose_format import Pose
    from pose_format.numpy import NumPyPoseBody
    from pose_format.pose_header import PoseHeader, PoseHeaderDimensions
    from pose_format.utils.openpose import OpenPose_Components
    rng = ctx.rng
    for rep in range(ctx.pick(3, 12)):
        header = PoseHeader(0.2, PoseHeaderDimensions(100, 100, 0), copy.deepcopy(OpenPose_Components))
        N, F = header.total_points(), rng.randint(2, 4)
        data = np.array([rng.randint(-64, 64) / 4 for _ in range(F * N * 2)], dtype=np.float32).reshape(F, 1, N, 2)
        full = Pose(header, NumPyPoseBody(25.0, data, np.ones((F, 1, N), dtype=np.float32)))
        variants = [("full", full), ("without Nose", full.remove_components([], {"pose_keypoints_2d": ["Nose"]})),
                    ("face first", full.get_components(["face_keypoints_2d", "pose_keypoints_2d", "hand_left_keypoints_2d", "hand_right_keypoints_2d"]))]
        rng.shuffle(variants)
        for name, pose in variants:
            p = pose.copy()
            ctx.evaluated(("default-reference", rep, name)); ctx.count("normalize() with the format's default reference: " + name)
            try:
                p.normalize()
                i1, i2 = p.header.get_point_index("pose_keypoints_2d", "RShoulder"), p.header.get_point_index("pose_keypoints_2d", "LShoulder")
                d = np.asarray(p.body.data.data, dtype=np.float64)
                a, b = d[:, :, i1], d[:, :, i2]
                md = np.sqrt(((a - b) ** 2).sum(-1)).mean(); mid = ((a + b) / 2).mean(axis=(0, 1))
                if not math.isclose(md, 1.0, rel_tol=TOL * 5) or np.abs(mid).max() > TOL * 5:
                    bad("after normalize the mean reference distance is not the requested scale or the mean midpoint is not the origin", {"header_layout": name, "reference": "the format's shoulders (default)"},
                        {"mean_distance": float(md), "mean_midpoint": mid.tolist()}, {"what": "default reference"})
            except Exception as e:
                bad("normalize raises although its reference points are jointly observed", {"header_layout": name, "reference": "default"}, {"error": type(e).__name__ + ": " + str(e)[:100]}, {"what": "default reference"})


def check_normalize(ctx, bad, info, case, r1, r2, p1, p2, scale):
    if "error" in r1[-1] or "error" in r2[-1]:
        bad("normalize raises although its reference points are jointly observed", info, {"error": r1[-1].get("error") or r2[-1].get("error")}); return
    data, conf = arr(case)
    d, m, c = view_np(r1[-1])
    D = data.shape[3]
    if not np.array_equal(m, np.repeat((conf == 0)[..., None], D, axis=3)) or not np.array_equal(c, conf):
        bad("normalize changes the missing pattern or the confidences", info, {}); return
    x, y = ref_pairs(d, conf, p1, p2)
    md = np.sqrt(((x - y) ** 2).sum(-1)).mean(); mid = ((x + y) / 2).mean(axis=0)
    if not math.isclose(md, scale, rel_tol=TOL * 5) or np.abs(mid).max() > TOL * 5 * max(1, scale):
        bad("after normalize the mean reference distance is not the requested scale or the mean midpoint is not the origin", info, {"mean_distance": float(md), "scale": scale, "mean_midpoint": mid.tolist()}); return
    d2, m2, _ = view_np(r2[-1])
    if not np.array_equal(m, m2) or not np.allclose(d, d2, rtol=TOL * 5, atol=TOL * 5 * max(1, scale)):
        bad("normalize is not invariant under translating and uniformly scaling the input", info, {"max_abs": float(np.abs(d - d2).max())})


def check_distribution(ctx, bad, info, case, r, axis, back):
    if "error" in r[-1]:
        bad("normalize_distribution raises although the deviations are non-zero", info, {"error": r[-1]["error"]}); return
    data, conf = arr(case)
    D = data.shape[3]
    miss0 = np.repeat((conf == 0)[..., None], D, axis=3)
    d, m, c = view_np(r[1])
    if not np.array_equal(m, miss0) or not np.array_equal(c, conf):
        bad("normalize_distribution changes the missing pattern or the confidences", info, {"extra_masked": int((m & ~miss0).sum())}); return
    if back:
        if not np.allclose(d, np.where(miss0, 0, data), rtol=TOL * 5, atol=TOL * 20 * max(1e-30, float(np.abs(data).max()) / 16)):
            bad("unnormalize_distribution with the returned statistics does not restore the original", info, {"max_abs": float(np.abs(d - np.where(miss0, 0, data)).max())})
        return
    x = ma.array(d, mask=m)
    with np.errstate(all="ignore"):
        mu = x.mean(axis=tuple(axis)); sd = x.std(axis=tuple(axis))
    muv, sdv, ok = np.asarray(ma.getdata(mu)), np.asarray(ma.getdata(sd)), ~np.asarray(ma.getmaskarray(mu))
    if (np.abs(muv[ok]) > 1e-3).any() or (np.abs(sdv[ok] - 1) > 5e-3).any():
        bad("after normalize_distribution the mean is not 0 or the deviation is not 1 over the chosen axes", info, {"mean": muv[ok].tolist()[:6], "std": sdv[ok].tolist()[:6]})


# ---------------------------------------------------------------------- the 3-D normaliser

def rot(axis, deg):
    a = math.radians(deg); c, s = math.cos(a), math.sin(a)
    return {"x": np.array([[1, 0, 0], [0, c, -s], [0, s, c]]), "y": np.array([[c, 0, s], [0, 1, 0], [-s, 0, c]]), "z": np.array([[c, -s, 0], [s, c, 0], [0, 0, 1]])}[axis]


def run3d(data, mask, plane, line, size):
    from pose_format.pose_header import PoseNormalizationInfo
    from pose_format.utils.normalization_3d import PoseNormalizer
    import warnings
    with warnings.catch_warnings():
        warnings.simplefilter("ignore")
        with np.errstate(all="ignore"):
            out = PoseNormalizer(PoseNormalizationInfo(*plane), PoseNormalizationInfo(*line), size)(ma.array(np.asarray(data, dtype=np.float32).copy(), mask=mask.copy()))
    return np.asarray(ma.getdata(out), dtype=np.float64), np.array(np.broadcast_to(ma.getmaskarray(out), out.shape))


def norm3d(ctx, bad, model_reqs, model_meta):
    rng = ctx.rng
    # flat input on a grid (2-D key points lifted with a constant z): the reference line exactly parallel to an image axis, in each of the four directions, for both
    # windings of the plane triangle — the exact zeros such data produce in the rotated line (x == 0.0, y == 0.0) are where sign / atan2 conventions differ
    aligned = []
    for direction in [(0, -5, 0), (0, 5, 0), (5, 0, 0), (-5, 0, 0)]:
        for side in [(3, 1, 0), (-3, 1, 0), (1, 3, 0), (1, -3, 0)]:
            if direction[0] * side[1] - direction[1] * side[0] != 0:
                aligned.append((direction, side))
    cases = [("k2-witness", None), ("k3-witness", None)] + [("aligned", a) for a in aligned] + [("random", None)] * ctx.pick(70, 700)
    for tag, cfg in cases:
        F, P, N = rng.randint(1, 3), rng.randint(1, 2), rng.randint(4, 7)
        if tag != "random":
            F, P, N = 1, 1, 5
        data = np.array([rng.randint(-40, 40) / 4 for _ in range(F * P * N * 3)], dtype=np.float64).reshape(F, P, N, 3)
        if tag != "random":
            data = np.array([[0, 0, 0], [4, 0, 1], [1, 3, 0], [2, 2, 5], [-3, 1, 2]], dtype=np.float64).reshape(1, 1, 5, 3)
        if tag == "aligned":
            w = np.array([10.0, 20.0, float(rng.choice([0, 0, 3]))]); d_, s_ = np.array(cfg[0], dtype=np.float64), np.array(cfg[1], dtype=np.float64)
            data = np.array([w, w + d_, w + s_, (w + w + d_) / 2 + [0, 0, 7], w + s_ + [3, 5, -2]]).reshape(1, 1, 5, 3)
        plane = rng.sample(range(N), 3)
        line = rng.sample(range(N), 2) if rng.random() < 0.4 else rng.sample(plane, 2)
        size = rng.choice([1, 100, 200])
        if tag == "k2-witness": plane, line, size = [0, 1, 2], [0, 1], 100
        if tag == "k3-witness": plane, line, size = [0, 1, 2], [4, 3], 200
        if tag == "aligned": plane, line, size = [0, 1, 2], [0, 1], rng.choice([1, 100])
        # preconditions: non-collinear plane, distinct line points whose direction is not along the plane normal
        ok = True
        for f in range(F):
            for p in range(P):
                t = data[f, p, plane]
                nrm = np.cross(t[1] - t[0], t[2] - t[0])
                v = data[f, p, line[1]] - data[f, p, line[0]]
                if np.linalg.norm(nrm) < 0.5 or np.linalg.norm(v) < 0.5 or np.linalg.norm(np.cross(v, nrm)) < 0.2 * np.linalg.norm(v) * np.linalg.norm(nrm):
                    ok = False
                # the library builds its basis from (1, 0, 0) × normal: a plane whose normal is (nearly) the X axis has no such basis (the extreme of known finding K2:
                # the basis vector shrinks to 0 and the frame collapses onto one axis; the model divides 0 by 0 there) — outside the cases compared
                if np.linalg.norm(nrm[1:]) < 0.2 * np.linalg.norm(nrm):
                    ok = False
        if not ok:
            continue
        mask = np.zeros(data.shape, dtype=bool)
        ref = set(plane + line)
        for n in range(N):
            if n not in ref and rng.random() < 0.3:
                mask[rng.randrange(F), rng.randrange(P), n] = True
        info = {"data": data.tolist(), "mask_points": np.argwhere(mask.any(axis=3)).tolist(), "plane": plane, "line": line, "size": size}
        in_plane = line[0] in plane
        ctx.evaluated(json.dumps(info), nontrivial=True); ctx.count("norm3d:" + ("line_p1_in_plane" if in_plane else "line_p1_off_plane"))
        out, om = run3d(data, mask, plane, line, size)
        tol = 1e-3 * max(1, size)
        if not np.array_equal(om, mask):
            bad("the 3-D normaliser changes the missing pattern", info, {}); continue
        for f in range(F):
            for p in range(P):
                o = out[f, p]
                if np.abs(o[line[0]]).max() > tol:
                    bad("3-D normaliser: the first line point is not at the origin", info, {"got": o[line[0]].tolist()}); break
                if np.abs(o[plane, 2]).max() > tol:
                    bad("3-D normaliser: the plane points are not at z = 0", info, {"z": o[plane, 2].tolist()}, {"line_p1_in_plane": in_plane}); break
                l2 = o[line[1]]
                if abs(l2[0]) > tol or l2[1] > tol or abs(np.linalg.norm(l2) - size) > tol:
                    bad("3-D normaliser: the line is not on the negative Y half-plane with the requested length", info, {"line_p2": l2.tolist(), "size": size}); break
                one, _ = run3d(data[f:f + 1, p:p + 1], mask[f:f + 1, p:p + 1], plane, line, size)
                if not np.allclose(np.where(mask[f, p], 0, one[0, 0]), np.where(mask[f, p], 0, o), atol=tol):
                    bad("3-D normaliser: a frame / person is not normalised independently of the others", info, {"frame": f, "person": p}); break
        vis = lambda a: np.where(mask, 0, a)
        t = np.array([rng.randint(-20, 20) / 2 for _ in range(3)]); a_ = rng.choice([0.5, 2.0, 4.0, 1 / 256, 1 / 1024, 512.0])
        o2, _ = run3d(data + t, mask, plane, line, size)
        if not np.allclose(vis(out), vis(o2), atol=tol):
            bad("3-D normaliser: the output changes when the input is translated", info, {"t": t.tolist(), "max_abs": float(np.abs(vis(out) - vis(o2)).max())})
        o3, _ = run3d(data * a_, mask, plane, line, size)
        if not np.allclose(vis(out), vis(o3), atol=tol):
            bad("3-D normaliser: the output changes when the input is uniformly scaled", info, {"a": a_, "max_abs": float(np.abs(vis(out) - vis(o3)).max())})
        R = rot(rng.choice("xyz"), rng.choice([30, 40, 90, 137])) if tag != "k2-witness" else rot("z", 40)
        o4, _ = run3d(data @ R.T, mask, plane, line, size)
        if not np.allclose(vis(out), vis(o4), atol=tol):
            bad("3-D normaliser: the output changes when the input is rotated", info, {"max_abs": float(np.abs(vis(out) - vis(o4)).max())}, {"transform": "rotation"})
        # model (binary64)
        f64 = lambda a: [f64_bits(float(x)) for x in np.asarray(a, dtype=np.float32).astype(np.float64).reshape(-1)]
        conf = np.where(mask.any(axis=3), 0.0, 1.0)
        model_reqs.append({"op": "body_ops", "backend": "numpy", "body": {"fps": f64_bits(25.0), "shape": [F, P, N, 3], "data": f64(data), "conf": f64(conf)},
                           "ops": [{"k": "normalize_3d", "plane": plane, "line": line, "size": f64_bits(float(size))}]})
        comp = {"name": pc.hx("c0"), "format": pc.hx("XYZC"), "points": [pc.hx("p%d" % j) for j in range(N)], "limbs": [[0, 1]], "colors": [[255, 0, 0]]}
        case = {"header": {"version": pc.V02, "width": 10, "height": 10, "depth": 10, "components": [comp]},
                "body": {"fps": {"f32": 0x41C80000}, "frames": F, "people": P, "points": N, "dims": 3, "data": pc.f32_to_bits(np.asarray(data, dtype=np.float32).reshape(-1)), "conf": pc.f32_to_bits(np.asarray(conf, dtype=np.float32).reshape(-1))}}
        model_meta.append((dict(info, op="normalize_3d", _out=(out, om)), case, [{"k": "normalize_3d", "plane": plane, "line": line, "size": size}]))


def replay(ctx, rep):
    raise SystemExit("replay: re-run ./check C13 with VERIF_SEED=%s" % rep.get("seed"))
