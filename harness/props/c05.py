"""C05 — the JavaScript reader and the Python reader agree on every file."""
import io, json, os, subprocess
import numpy as np
from .. import posecase as pc, refenc, core
from .c03 import impl_read
from .c04 import gen_v01, gen_v00, v00_expected

RULE = ("files written by the Python writer (v0.2) and by the reference encoders (v0.0, v0.1 with the frame count in the 16-bit field, v0.2) over the C01/C04 space with unique component names "
        "and standard point formats (X, Y, Z, C letters), 0–3 people, several components, mixed formats, multi-byte names, every float32 class; the REAL parser.ts of the working tree is type-stripped "
        "(module.stripTypeScriptTypes) and executed under Node 22 on every file; compared: JavaScript dump vs Pose.read field by field and value by value (oracle), and vs the Lean model of parser.ts "
        "(v0.1/v0.2: header, header length, info fields, flat arrays; v0.0: header, header length, fps, every listed person with id and points); version patterns at the rounding-band edges are compared with the model's Math.round classification; every float32 pattern within 150 (thorough: 4000, plus strides through the whole bands) "
        "patterns of the four edges of the version bands (0.0995, 0.1005, 0.1995, 0.2005) as the version field of a v0.1- and a v0.2-bodied file through both real readers and both model classifiers (the hypothesis hcls of the theorems); non-trivial = distinct file")
ASSUMPTIONS = ["the npm package binary-parser 2.2.1 is not installed and cannot be fetched: it is replaced by harness/js/node_modules/binary-parser (the documented behaviour of exactly the calls parser.ts makes)",
               "NaN payloads are compared as a class (a JS Number cannot carry a signalling NaN through Float32Array unchanged)",
               "component names are unique and format letters distinct (the JavaScript frame objects are keyed by them)"]
TRUSTED_EXTRA = ["Node's module.stripTypeScriptTypes; the binary-parser stand-in"]


def node_bin():
    root = "/root/.nvm/versions/node"
    vs = sorted((d for d in os.listdir(root) if d.startswith("v22")), key=lambda s: [int(x) for x in s[1:].split(".")])
    if not vs:
        raise core.InfraError("Node 22 (module.stripTypeScriptTypes) not found under " + root)
    return os.path.join(root, vs[-1], "bin", "node")


def _run_js_batch(raws, tag):
    scratch = os.path.join(core.SCRATCH, "js-%d-%s" % (os.getpid(), tag))
    os.makedirs(scratch, exist_ok=True)
    inp = os.path.join(scratch, "in.jsonl")
    with open(inp, "w") as f:
        for r in raws:
            f.write(json.dumps({"hex": r.hex()}) + "\n")
    here = os.path.join(core.VERIF, "harness", "js")
    import shutil
    try:
        r = subprocess.run([node_bin(), "--no-warnings", "--max-old-space-size=512", os.path.join(here, "runner.mjs"), os.path.join(os.environ.get("POSE_REPO", "/repo"), "src/js/pose_format/src/parser.ts"), scratch, inp],
                           capture_output=True, text=True, timeout=600)
        err, code = r.stderr, r.returncode
        outs = [json.loads(l) for l in r.stdout.splitlines() if l.strip().startswith("{")] if code == 0 else []
    except subprocess.TimeoutExpired:
        err, code, outs = "timeout", -1, []
    shutil.rmtree(scratch, ignore_errors=True)
    if code == 0 and len(outs) == len(raws):
        return outs, None
    return None, (err or "")[-600:]


def run_js(raws):
    """every file through the real parser.ts; a file on which the node process dies (out of memory, abort, hang) is isolated by bisection and answered {"ok": False, "crash": …}"""
    budget = [3]                                             # at most this many crashing files are isolated; the rest of a failing half is marked as not run
    def go(lo, hi, tag):
        outs, err = _run_js_batch(raws[lo:hi], tag)
        if outs is not None:
            return outs
        if "stripTypeScriptTypes" in err or "Cannot find module" in err or "SyntaxError" in err and hi - lo == len(raws):
            raise core.InfraError("node runner failed: " + err)
        if hi - lo == 1:
            budget[0] -= 1
            return [{"ok": False, "crash": err[-300:]}]
        if budget[0] <= 0:
            return [{"ok": False, "crash": "not isolated (too many crashing files)"} for _ in range(lo, hi)]
        mid = (lo + hi) // 2
        return go(lo, mid, tag + "l") + go(mid, hi, tag + "r")
    return go(0, len(raws), "b")


def nan_class(b):
    return 0x7FC00000 if (b & 0x7F800000) == 0x7F800000 and (b & 0x007FFFFF) else b


def unique_names(case):
    """component names made unique; a LEADING U+FEFF is taken off every name: whether the JavaScript side keeps it is decided inside the `binary-parser` package
    (its string fields are decoded with `TextDecoder`, which drops a leading byte-order mark by default, as the stand-in does), not in parser.ts — that package is not
    installed here, so names that begin with a BOM are outside what this check can decide (DESIGN §9)"""
    for i, c in enumerate(case["header"]["components"]):
        c["points"] = [pc.hx(pc.unhx(p).lstrip("\ufeff")) for p in c["points"]]
        c["name"] = pc.hx("%s#%d" % (pc.unhx(c["name"]).lstrip("\ufeff")[:40], i))
        c["format"] = pc.hx({1: "C", 2: "XC", 3: "XYC", 4: "XYZC"}.get(len(pc.unhx(c["format"])), "XYC"))
    return case


def python_view(py):
    """Python's result as {header, fps bits / int, frames, people, and value(f, q, comp, point) → ({letter: bits}, conf bits)}"""
    h, b = py["header"], py["body"]
    D, P, N = b["dims"], b["people"], b["points"]
    return h, b, D, P, N


def compare(ctx, tag, raw, js, py, hlen, first_person_only=False):
    info = {"layout": tag, "file_bytes": len(raw), "hex": raw.hex() if len(raw) < 3000 else None}
    def bad(what, detail):
        ctx.violation("the JavaScript reader and the Python reader disagree: " + what, info, detail, True, size=len(raw), signature={"layout": tag})
    if py[0] != "ok":
        return                                              # outside the property's domain (Python refuses the file)
    if not js["ok"]:
        return bad("JavaScript raises on a file Python reads", {"error": js.get("error")})
    h, b, D, P, N = python_view(py[1])
    jh = js["header"]
    for k in ("width", "height", "depth"):
        if jh[k] != h[k]:
            return bad("header " + k, {"js": jh[k], "python": h[k]})
    if nan_class(jh["version"]) != nan_class(h["version"]):
        return bad("header version", {"js": jh["version"], "python": h["version"]})
    if jh["headerLength"] != hlen:
        return bad("header length", {"js": jh["headerLength"], "python": hlen})
    d = pc.diff(h["components"], jh["components"])
    if d:
        return bad("header components", {"first_difference": d})
    # body metadata
    fps_py = b["fps"]
    if "int" in fps_py:
        if js["fps"] != fps_py["int"]:
            return bad("fps", {"js": js["fps"], "python": fps_py})
    elif nan_class(js["fps_bits"]) != nan_class(fps_py["f32"]):
        return bad("fps", {"js": js["fps_bits"], "python": fps_py})
    if js["frames_count"] != b["frames"]:
        return bad("frame count", {"js": js["frames_count"], "python": b["frames"]})
    if not first_person_only and js["people"] != P:
        return bad("people count", {"js": js["people"], "python": P})
    # every frame, person, component, point
    data = np.array(b["data"], dtype=np.uint64).reshape(b["frames"], P, N, D) if b["frames"] * P * N * D else np.zeros((b["frames"], P, N, D), dtype=np.uint64)
    conf = np.array(b["conf"], dtype=np.uint64).reshape(b["frames"], P, N) if b["frames"] * P * N else np.zeros((b["frames"], P, N), dtype=np.uint64)
    for f in range(b["frames"]):
        people = js["frames"][f]
        if first_person_only:
            if not people:
                if conf[f].any() and any((int(x) & 0x7FFFFFFF) for x in conf[f].reshape(-1)):
                    return bad("a frame without people is not empty in Python", {"frame": f})
                continue
            people = people[:1]
        if len(people) != P:
            return bad("people in a frame", {"frame": f, "js": len(people), "python": P})
        for q, person in enumerate(people):
            off = 0
            for ci, comp in enumerate(h["components"]):
                fmt = pc.unhx(comp["format"])
                pts = person[ci]
                if len(pts) != len(comp["points"]):
                    return bad("points of a component", {"frame": f, "component": ci, "js": len(pts), "python": len(comp["points"])})
                for l, pt in enumerate(pts):
                    if nan_class(pt.get("C", -1)) != nan_class(int(conf[f, q, off + l])):
                        return bad("a confidence", {"frame": f, "person": q, "component": ci, "point": l, "js": pt.get("C"), "python": int(conf[f, q, off + l])})
                    for di, letter in enumerate(fmt):
                        if letter != "C" and nan_class(pt.get(letter, -1)) != nan_class(int(data[f, q, off + l, di])):
                            return bad("a coordinate", {"frame": f, "person": q, "component": ci, "point": l, "dim": letter, "js": pt.get(letter), "python": int(data[f, q, off + l, di])})
                off += len(comp["points"])


def run(ctx):
    from pose_format import Pose
    rng = ctx.rng
    files = []          # (tag, raw, header_len)
    for _ in range(ctx.pick(120, 1200)):
        c = unique_names(pc.gen_pose(rng))
        c["body"] = pc.gen_body(rng, c["header"], people=rng.choice([0, 1, 1, 2, 3]))
        if not pc.representable(c):
            continue
        if rng.random() < 0.5:
            buf = io.BytesIO()
            try:
                pc.build_pose(c).write(buf)
            except Exception:
                continue
            files.append(("v0.2 python-written", buf.getvalue(), len(refenc.header(c["header"], pc.V02))))
        else:
            files.append(("v0.2 reference", refenc.v02(c), len(refenc.header(c["header"], pc.V02))))
    for _ in range(ctx.pick(50, 500)):
        c = gen_v01(rng, rng.choice([1, 2, 3, 5]))
        unique_names(c)
        c["body"] = dict(pc.gen_body(rng, c["header"], frames=c["body"]["frames"], people=c["body"]["people"]), fps=c["body"]["fps"])
        files.append(("v0.1 reference", refenc.v01(c), len(refenc.header(c["header"], pc.V01))))
    v00 = []
    for _ in range(ctx.pick(50, 500)):
        h, fps, frames = gen_v00(rng, True)
        for comp in h["components"]:
            comp["points"] = [pc.hx(pc.unhx(p).lstrip("\ufeff")) for p in comp["points"]]        # see unique_names: a leading BOM is decided inside binary-parser
        for i, comp in enumerate(h["components"]):
            comp["name"] = pc.hx("c%d" % i)
        files.append(("v0.0 reference", refenc.v00(h, fps, frames), len(refenc.header(h, 0))))
    # version patterns at the band edges (correspondence with the model's Math.round classification only)
    base = unique_names(pc.gen_pose(rng, frames=1, people=1, ncomps=1))
    while not pc.representable(base):
        base = unique_names(pc.gen_pose(rng, frames=1, people=1, ncomps=1))
    body02 = refenc.v02(base)[len(refenc.header(base["header"], pc.V02)):]
    edge = [0x3E4CCCCD, 0x3E4CCCCC, 0x3E4D35A8, 0x3E4C6A7F, 0x3E4C49BA, 0x3E4D4FDF, 0x3DCBC6A8, 0x3DCDD2F2, 0x3DCB4396, 0x3DCE5604, 0x3E99999A, 0x7FC00000, 0x80000000, 1, 0x3A83126F, 0x3A03126F, 0xBA03126F]
    edge += [int(np.float32(rng.uniform(0.0, 0.3)).view(np.uint32)) for _ in range(ctx.pick(30, 300))]
    for bits in edge:
        files.append(("version-edge", refenc.header(base["header"], bits) + body02, None))
    raws = [r for _, r, _ in files]
    js = run_js(raws)
    model = ctx.driver.run([{"op": "js_parse", "hex": r.hex()} for r in raws])
    for (tag, raw, hlen), j, m in zip(files, js, model):
        ctx.evaluated(raw); ctx.count(tag + (":js-ok" if j["ok"] else (":js-crash" if "crash" in j else ":js-error")))
        if "crash" in j:
            if tag != "version-edge":
                ctx.violation("the JavaScript reader dies (out of memory / abort / hang) on a file the Python reader reads", {"layout": tag, "file_bytes": len(raw), "hex": raw.hex() if len(raw) < 3000 else None},
                              {"node": j["crash"]}, True, size=len(raw), signature={"clause": "js-crash"})
            continue
        if tag != "version-edge":
            py = impl_read(raw, "bytes", {}, None)
            compare(ctx, tag, raw, j, py, hlen, first_person_only=tag.startswith("v0.0"))
            if len(ctx.samples) < 3 and tag.startswith("v0.2"):
                ctx.sample({"layout": tag, "file_bytes": len(raw), "js_frames": j.get("frames_count"), "js_people": j.get("people")})
        # JavaScript vs its Lean model
        info = {"layout": tag, "file_bytes": len(raw), "hex": raw.hex() if len(raw) < 3000 else None}
        if tag.startswith("v0.0") and m.get("class") == "v00":
            # v0.0: parser.ts against its model (Model/JS.lean jsParseV00) — header, header length, fps and every listed person of every frame
            if j["ok"] != bool(m["ok"]):
                ctx.violation("parser.ts and its model disagree on success (v0.0)", info, {"js": j.get("error", "ok"), "model_ok": m["ok"]}, False, size=len(raw)); continue
            if not j["ok"]:
                continue
            ctx.count("v0.0 model:compared")
            jh = dict(j["header"]); hl = jh.pop("headerLength"); mh = dict(m["header"])
            jh["version"], mh["version"] = nan_class(jh["version"]), nan_class(mh["version"])
            fmts = [pc.unhx(c["format"]) for c in m["header"]["components"]]
            jsf = [[{"id": (pid if pid is not None else 0) % 65536,
                     "comps": [[[nan_class(pt[ch]) for ch in fmts[ci]] for pt in comp] for ci, comp in enumerate(person)]} for person, pid in zip(fr, ids)]
                   for fr, ids in zip(j["frames"], j["ids"])]
            mf = [[{"id": pr["id"], "comps": [[[nan_class(x) for x in pt] for pt in comp] for comp in pr["comps"]]} for pr in fr] for fr in m["frames"]]
            if pc.diff(mh, jh) or hl != m["headerLength"] or j["fps"] != m["fps"] or jsf != mf:
                ctx.violation("parser.ts and its model disagree on a v0.0 file", info, {"header": pc.diff(mh, jh), "js_frames": len(jsf), "model_frames": len(mf)}, False, size=len(raw))
            continue
        if tag.startswith("v0.0") or m.get("class") == "v00":
            continue
        if j["ok"] != bool(m["ok"]):
            ctx.violation("parser.ts and its model disagree on success", info, {"js": j.get("error", "ok"), "model_ok": m["ok"], "model_class": m.get("class")}, False, size=len(raw)); continue
        if not j["ok"]:
            continue
        jh = dict(j["header"]); hl = jh.pop("headerLength")
        mh = dict(m["header"])
        jh["version"], mh["version"] = nan_class(jh["version"]), nan_class(mh["version"])
        d = pc.diff(mh, jh)
        if d or hl != m["headerLength"] or j["frames_count"] != m["frames"] or j["people"] != m["people"]:
            ctx.violation("parser.ts and its model disagree on header / info fields", info, {"d": d, "js": [hl, j["frames_count"], j["people"]], "model": [m["headerLength"], m["frames"], m["people"]]}, False, size=len(raw)); continue
        # flat arrays: rebuild from the JS frame objects
        fl_d, fl_c = [], []
        comps = m["header"]["components"]
        for fr in j["frames"]:
            for person in fr:
                for ci, comp in enumerate(comps):
                    fmt = pc.unhx(comp["format"])
                    for pt in person[ci]:
                        fl_c.append(nan_class(pt["C"]))
                        fl_d += [nan_class(pt.get(fmt[di], 0)) if di < len(fmt) and fmt[di] != "C" else None for di in range(m["dims"])]
        md = [nan_class(x) for x in m["data"]]
        if fl_c != [nan_class(x) for x in m["conf"]] or any(a is not None and a != b for a, b in zip(fl_d, md)) or len(fl_d) != len(md):
            ctx.violation("parser.ts and its model disagree on values", info, {}, False, size=len(raw))
    version_bands(ctx)


def version_bands(ctx):
    """The only place where the two version switches could part: the rounding bands around 0.1 and 0.2 (Python: round(v, 3) == 0.1 / 0.2 on the float32's exact value;
    JavaScript: Math.round(v * 1000) / 1000 in binary64). Every float32 pattern within K patterns of the four band edges (thorough: the two whole bands, and a stride
    through everything between) goes through BOTH real readers as the version field of a v0.1-bodied and a v0.2-bodied file, and through both model classifiers."""
    rng = ctx.rng
    f32 = lambda x: int(np.float32(x).view(np.uint32))
    base = unique_names(pc.gen_pose(rng, frames=1, people=1, ncomps=1, same_format="XYC"))
    while not pc.representable(base) or pc.total_points(base["header"]) == 0:
        base = unique_names(pc.gen_pose(rng, frames=1, people=1, ncomps=1, same_format="XYC"))
    base["body"]["fps"] = {"f32": 0x41C80000}
    # the first coordinate is 0: when the band edges make a reader take the v0.1 body for a v0.2 one, the bytes of the people count and of that coordinate are read as the
    # 32-bit frame count, and parser.ts allocates its arrays from the counts before it reads — a large count costs tens of milliseconds per file, and 70 000 files are evaluated
    if base["body"]["data"]:
        base["body"]["data"][0] = 0
    b02 = refenc.v02(base)[len(refenc.header(base["header"], pc.V02)):]
    c01 = {"header": base["header"], "body": dict(base["body"], fps={"int": 25})}
    b01 = refenc.v01(c01)[len(refenc.header(base["header"], pc.V01)):]
    K = ctx.pick(150, 4000)
    pats = set()
    for edge in (0.0995, 0.1005, 0.1995, 0.2005):
        e = f32(edge)
        pats.update(range(e - K, e + K + 1))
    if ctx.thorough():
        pats.update(range(f32(0.0995), f32(0.1005), 7)); pats.update(range(f32(0.1995), f32(0.2005), 5)); pats.update(range(f32(0.05), f32(0.3), 4099))
    pats.update([0, 0x80000000, f32(0.1), f32(0.2), f32(0.0005), f32(0.00049), 1])
    pats = sorted(pats)
    files = [refenc.header(base["header"], w) + body for w in pats for body in (b01, b02)]
    js = run_js(files)
    # the models, in runs of consecutive patterns
    runs, start = [], pats[0]
    for a, b in zip(pats, pats[1:] + [None]):
        if b != a + 1:
            runs.append((start, a)); start = b
    mo = ctx.driver.run([{"op": "version_class", "lo": lo, "hi": hi} for lo, hi in runs])
    mpy = "".join(m["py"] for m in mo); mjs = "".join(m["js"] for m in mo)
    def cls(ok01, ok02):
        return "1" if ok01 and not ok02 else "2" if ok02 and not ok01 else "x" if not ok01 and not ok02 else "?"
    for i, w in enumerate(pats):
        ctx.evaluated(("version", w)); ctx.count("version_band_patterns")
        p01, p02 = impl_read(files[2 * i], "bytes", {}, None), impl_read(files[2 * i + 1], "bytes", {}, None)
        py = cls(p01[0] == "ok" and p01[1]["body"]["fps"] == {"int": 25}, p02[0] == "ok" and p02[1]["body"]["fps"] == {"f32": 0x41C80000})
        j01, j02 = js[2 * i], js[2 * i + 1]
        jv = cls(bool(j01.get("ok")) and j01.get("fps") == 25 and j01.get("frames_count") == 1, bool(j02.get("ok")) and j02.get("fps") == 25 and j02.get("frames_count") == 1)
        info = {"version_bits": w, "version": float(np.array([w], np.uint32).view(np.float32)[0])}
        if py in "12" and jv != py:
            ctx.violation("the JavaScript reader and the Python reader disagree: a file Python reads as v0.%s is not read as that version by parser.ts" % py, info, {"python": py, "js": jv, "js_error": (j01 if py == "1" else j02).get("error")}, True, size=1, signature={"clause": "version"})
        if w not in (0, 0x80000000):
            if mpy[i] not in "0" and (mpy[i] if mpy[i] in "12" else "x") != py:
                ctx.violation("version switch: the Python reader and its model classify a version pattern differently", info, {"impl": py, "model": mpy[i]}, False)
            if (mjs[i] if mjs[i] in "12" else "x") != jv and mjs[i] != "0":
                ctx.violation("version switch: parser.ts and its model classify a version pattern differently", info, {"impl": jv, "model": mjs[i]}, False)
        # the hypothesis of js_agrees_v01 / js_agrees_v02 (`hcls`): wherever Python sees v0.1 / v0.2 the JavaScript switch sees the same
        if mpy[i] in "12" and mjs[i] != mpy[i]:
            ctx.violation("version switch: the two model classifiers differ on a pattern Python accepts (hypothesis hcls of js_agrees_v01 / v02 fails)", info, {"py_model": mpy[i], "js_model": mjs[i]}, False)
    ctx.extra["version_band"] = {"patterns": len(pats), "per_edge_radius": K, "python_v01": mpy.count("1"), "python_v02": mpy.count("2")}


def replay(ctx, rep):
    raise SystemExit("replay: re-run ./check C05 with VERIF_SEED=%s" % rep.get("seed"))
