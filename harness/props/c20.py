"""C20 — batch collation pads without altering or unmasking anything."""
import json
import numpy as np
from .. import mtexec

RULE = ("batches of size 1..5 of examples (dicts with masked-tensor, plain-tensor, int, string and nested-dict fields; tuples; bare masked tensors) with first-axis lengths drawn from {0, 1, 2, 5} in every "
        "combination incl. all-equal, {1, 0}, all 0; trailing shapes (), (2,), (3, 2); collated by the real zero_pad_collator; compared with the Lean model structurally (shapes, values, masks, ints, strings), "
        "and row by row against the examples on the implementation alone (prefix unchanged, padding = 0 / invalid); non-trivial = batch with ≥ 2 distinct lengths, distinct by JSON")
ASSUMPTIONS = ["torch.cat / torch.stack along axis 0 are list append / concatenation of rows (primitive semantics)", "0-d tensors are outside the domain (len() is undefined)"]


def gen_tensor(rng, length, trail, masked):
    shape = [length] + list(trail)
    n = int(np.prod(shape)) if shape else 1
    data = [float(rng.randint(-9, 9)) for _ in range(n)]
    if masked:
        return {"masked": {"shape": shape, "data": data, "mask": [int(rng.random() < 0.7) for _ in range(n)]}}
    return {"plain": {"shape": shape, "data": data}}


def gen_batch(rng):
    bs = rng.randint(1, 5)
    kind = rng.choice(["dict", "dict", "tuple", "masked"])
    lens_pool = rng.choice([[0, 1, 2, 5], [1, 0], [1], [0], [2, 5], [5], [1, 2]])
    lens = [rng.choice(lens_pool) for _ in range(bs)]
    trail = rng.choice([(), (2,), (3, 2)])
    def example(i):
        pose = gen_tensor(rng, lens[i], trail, True)
        if kind == "masked":
            return pose
        if kind == "tuple":
            return {"tuple": [pose, gen_tensor(rng, lens[bs - 1 - i], (2,), False), {"int": rng.choice([rng.randint(-5, 5), 16777217, 2 ** 40 + 3])}]}
        fields = [["pose", pose], ["x", gen_tensor(rng, lens[i], (1,), False)], ["id", {"int": rng.choice([i * 7 - 3, 2 ** 24 + 1 + 2 * i, -(2 ** 31) + i, 2 ** 53 + 1, 1_700_000_000_123 + i])}], ["text", {"str": rng.choice(["a", "bé", ""])}]]
        if nested:
            fields.append(["inner", {"dict": [["m", gen_tensor(rng, lens[(i + 1) % bs], trail, True)], ["n", {"int": i}]]}])
        if with_tuple:
            fields.append(["pair", {"tuple": [{"int": 1}, {"int": 2}]}])
        if reorder and i > 0:
            rng.shuffle(fields)                            # the same fields, inserted in another order than in the first example: fields are matched by key
        return {"dict": fields}
    nested, with_tuple = rng.random() < 0.5, rng.random() < 0.2
    reorder = rng.random() < 0.3
    return [example(i) for i in range(bs)], lens


def to_impl(d, late_mask=False):
    """`late_mask`: the masked tensors are built without a mask (all valid) and invalidated afterwards by editing the public `.mask` in place — the same content, another history"""
    import torch
    from pose_format.torch.masked import MaskedTensor
    if "masked" in d:
        m = d["masked"]
        t, mk = torch.tensor(np.array(m["data"], dtype=np.float32).reshape(m["shape"])), torch.tensor(np.array(m["mask"], dtype=bool).reshape(m["shape"]))
        if late_mask:
            mt = MaskedTensor(t)
            mt.mask[...] = mk
            return mt
        return MaskedTensor(t, mk)
    if "plain" in d:
        return torch.tensor(np.array(d["plain"]["data"], dtype=np.float32).reshape(d["plain"]["shape"]))
    if "int" in d: return d["int"]
    if "str" in d: return d["str"]
    if "dict" in d: return {k: to_impl(v, late_mask) for k, v in d["dict"]}
    if "tuple" in d: return tuple(to_impl(v, late_mask) for v in d["tuple"])
    raise ValueError(d)


def canon(x):
    """implementation result → the model's JSON"""
    import torch
    from pose_format.torch.masked import MaskedTensor
    if isinstance(x, MaskedTensor):
        return {"masked": {"shape": list(x.tensor.shape), "data": [float(v) for v in x.tensor.reshape(-1)], "mask_shape": list(x.mask.shape), "mask": [int(bool(v)) for v in x.mask.reshape(-1)]}}
    if isinstance(x, torch.Tensor):
        if x.dtype in (torch.int64, torch.int32):
            return {"ints": [int(v) for v in x.reshape(-1)]}
        return {"plain": {"shape": list(x.shape), "data": [float(v) for v in x.reshape(-1)]}}
    if isinstance(x, dict):
        return {"dict": [[k, canon(v)] for k, v in x.items()]}
    if isinstance(x, tuple):
        return {"tuple": [canon(v) for v in x]}
    if isinstance(x, list):
        return {"list": [canon_datum(v) for v in x]}
    raise ValueError(type(x))


def canon_datum(x):
    import torch
    from pose_format.torch.masked import MaskedTensor
    if isinstance(x, MaskedTensor):
        return {"masked": {"shape": list(x.tensor.shape), "data": [float(v) for v in x.tensor.reshape(-1)], "mask_shape": list(x.mask.shape), "mask": [int(bool(v)) for v in x.mask.reshape(-1)]}}
    if isinstance(x, torch.Tensor): return {"plain": {"shape": list(x.shape), "data": [float(v) for v in x.reshape(-1)]}}
    if isinstance(x, bool): raise ValueError
    if isinstance(x, int): return {"int": x}
    if isinstance(x, str): return {"str": x}
    if isinstance(x, dict): return {"dict": [[k, canon_datum(v)] for k, v in x.items()]}
    if isinstance(x, tuple): return {"tuple": [canon_datum(v) for v in x]}
    raise ValueError(type(x))


def model_json(d):
    """float data → bit patterns for the driver"""
    if "masked" in d:
        m = d["masked"]; return {"masked": {"shape": m["shape"], "data": [mtexec.f64_bits(v) for v in m["data"]], "mask": m["mask"]}}
    if "plain" in d:
        return {"plain": {"shape": d["plain"]["shape"], "data": [mtexec.f64_bits(v) for v in d["plain"]["data"]]}}
    if "dict" in d: return {"dict": [[k, model_json(v)] for k, v in d["dict"]]}
    if "tuple" in d: return {"tuple": [model_json(v) for v in d["tuple"]]}
    return d


def unbits(c):
    if "masked" in c:
        m = c["masked"]; return {"masked": dict(m, data=[mtexec.bits_f64(v) for v in m["data"]])}
    if "plain" in c:
        return {"plain": dict(c["plain"], data=[mtexec.bits_f64(v) for v in c["plain"]["data"]])}
    if "dict" in c: return {"dict": [[k, unbits(v)] for k, v in c["dict"]]}
    if "tuple" in c: return {"tuple": [unbits(v) for v in c["tuple"]]}
    if "list" in c: return {"list": [unbits(v) for v in c["list"]]}
    return c


def check_rows(ctx, info, examples, result, path):
    """the property on the implementation alone, for one tensor field"""
    key = "masked" if "masked" in examples[0] else "plain"
    if key not in result:
        ctx.violation("a tensor field is not collated into one tensor", info, {"field": path}, True, signature={"clause": "type"}); return
    r = result[key]
    lens = [e[key]["shape"][0] for e in examples]
    trail = examples[0][key]["shape"][1:]
    inner = int(np.prod(trail)) if trail else 1
    want_shape = [len(examples), max(lens)] + trail
    if r["shape"] != want_shape or (key == "masked" and r["mask_shape"] != want_shape):
        ctx.violation("collated field has the wrong shape", info, {"field": path, "shape": r["shape"], "want": want_shape}, True, signature={"clause": "shape"}); return
    row = max(lens) * inner
    for e, ex in enumerate(examples):
        seg = r["data"][e * row:(e + 1) * row]
        if seg[:lens[e] * inner] != ex[key]["data"] or any(v != 0 for v in seg[lens[e] * inner:]):
            ctx.violation("an example's values are altered, or padding is not the pad value", info, {"field": path, "example": e}, True, signature={"clause": "values"}); return
        if key == "masked":
            ms = r["mask"][e * row:(e + 1) * row]
            if ms[:lens[e] * inner] != ex[key]["mask"] or any(ms[lens[e] * inner:]):
                ctx.violation("validity is altered, or a padded position is marked valid", info, {"field": path, "example": e}, True, signature={"clause": "mask"}); return


def oracle(ctx, info, batch, res, path=""):
    first = batch[0]
    if "masked" in first or "plain" in first:
        check_rows(ctx, info, batch, res, path)
    elif "int" in first:
        if res.get("ints") != [b["int"] for b in batch]:
            ctx.violation("integers are not collated into one integer tensor in order", info, {"field": path, "got": res}, True, signature={"clause": "ints"})
    elif "str" in first:
        if res.get("list") != batch:
            ctx.violation("strings are not passed through in order", info, {"field": path}, True, signature={"clause": "strings"})
    elif "dict" in first:
        got = dict((k, v) for k, v in res.get("dict", []))
        for k, _ in first["dict"]:
            col = [dict(b["dict"])[k] for b in batch]
            if k not in got:
                ctx.violation("a dictionary field is missing from the collated batch", info, {"field": path + "." + k}, True, signature={"clause": "dict"}); return
            oracle(ctx, info, col, got[k], path + "." + k)
    elif "tuple" in first and path == "":
        for i in range(len(first["tuple"])):
            oracle(ctx, info, [b["tuple"][i] for b in batch], res["tuple"][i], path + "[%d]" % i)


def run(ctx):
    from pose_format.torch.masked.collator import zero_pad_collator
    rng = ctx.rng
    cases = [gen_batch(rng) for _ in range(ctx.pick(300, 4000))]
    outs = ctx.driver.run([{"op": "collate", "batch": [model_json(d) for d in batch]} for batch, _ in cases])
    for (batch, lens), mo in zip(cases, outs):
        info = {"batch": batch if len(json.dumps(batch)) < 3000 else None, "lengths": lens}
        ctx.evaluated(json.dumps(batch), nontrivial=len(set(lens)) >= 2)
        ctx.count("lengths:" + ",".join(map(str, sorted(set(lens))))); ctx.count("batch_size:%d" % len(batch))
        if len(ctx.samples) < 2:
            ctx.sample({"lengths": lens, "kind": next(iter(batch[0]))})
        late = rng.random() < 0.3
        ctx.count("masks set after construction" if late else "masks given to the constructor")
        objs = [to_impl(d, late) for d in batch]
        before = [canon_datum(o) for o in objs]
        try:
            res = ("ok", canon(zero_pad_collator(objs)))
        except Exception as e:
            res = ("error", type(e).__name__ + ": " + str(e)[:100])
        if res[0] == "ok":
            # collation is a function of the batch: it leaves the examples it was given as they were, and collating the same objects again
            # (a dataset kept in memory and batched every epoch) gives the same batch
            try:
                after = [canon_datum(o) for o in objs]
                again = canon(zero_pad_collator(objs))
            except Exception as e:
                after, again = None, type(e).__name__
            if after != before or again != res[1]:
                ctx.violation("collation changes the examples it was given, or collating the same examples again gives another batch", info,
                              {"examples_changed": after != before, "second_result_differs": again != res[1]}, True, size=len(batch), signature={"clause": "inputs"})
            else:
                # the same example OBJECTS with new contents (a dataset that re-crops its clips: `.tensor` / `.mask` replaced by longer ones): collated like fresh objects
                import torch
                from pose_format.torch.masked import MaskedTensor
                def grow(o, k):
                    if isinstance(o, MaskedTensor):
                        extra_t = torch.full((k,) + tuple(o.tensor.shape[1:]), 3.0, dtype=o.tensor.dtype)
                        o.tensor = torch.cat([o.tensor, extra_t], dim=0); o.mask = torch.cat([o.mask, torch.ones_like(extra_t, dtype=torch.bool)], dim=0)
                    elif isinstance(o, dict):
                        for v in o.values(): grow(v, k)
                    elif isinstance(o, tuple):
                        for v in o: grow(v, k)
                def fresh(o):
                    if isinstance(o, MaskedTensor): return MaskedTensor(o.tensor.clone(), o.mask.clone())
                    if isinstance(o, dict): return {k: fresh(v) for k, v in o.items()}
                    if isinstance(o, tuple): return tuple(fresh(v) for v in o)
                    return o
                try:
                    for i, o in enumerate(objs):
                        grow(o, 1 + (i % 2))
                    grown, want = canon(zero_pad_collator(objs)), canon(zero_pad_collator([fresh(o) for o in objs]))
                    ok2 = grown == want
                except Exception as e:
                    ok2 = False
                if not ok2:
                    ctx.violation("examples whose tensors were replaced by longer ones are not collated like fresh examples with the same contents", info, {}, True, size=len(batch), signature={"clause": "regrown"})
            oracle(ctx, info, batch, res[1])
        else:
            ctx.violation("collating a valid batch raises", info, {"error": res[1]}, True, size=len(batch), signature={"clause": "raises", "lengths": sorted(set(lens))})
        if (res[0] == "ok") != bool(mo["ok"]):
            ctx.violation("collation: implementation and model disagree on success", info, {"impl": res[1] if res[0] != "ok" else "ok", "model_ok": mo["ok"]}, False, size=len(batch))
        elif res[0] == "ok" and unbits(mo["result"]) != res[1]:
            ctx.violation("collation: result differs from the model's", info, {"impl": str(res[1])[:300], "model": str(unbits(mo["result"]))[:300]}, False, size=len(batch))
    run_padvalues(ctx)


def nanfree(x):
    """NaN → the string "nan" (so that equal structures compare equal)"""
    if isinstance(x, float): return "nan" if x != x else x
    if isinstance(x, list): return [nanfree(v) for v in x]
    if isinstance(x, dict): return {k: nanfree(v) for k, v in x.items()}
    return x


def run_padvalues(ctx):
    """`collate_tensors(batch, pad_value=v)` with non-default pad values, masked and plain tensors"""
    from pose_format.torch.masked.collator import collate_tensors
    rng = ctx.rng
    cases = []
    for _ in range(ctx.pick(80, 800)):
        bs = rng.randint(1, 4)
        lens = [rng.choice([0, 1, 2, 3]) for _ in range(bs)]
        trail = rng.choice([(), (2,)])
        masked = rng.random() < 0.6
        pad = rng.choice([-1.0, 255.0, 7.5, 0.0, float("nan"), float("inf")])
        cases.append(([gen_tensor(rng, l, trail, masked) for l in lens], lens, pad))
    outs = ctx.driver.run([{"op": "collate", "batch": [model_json(d) for d in batch], "pad": mtexec.f64_bits(pad)} for batch, _, pad in cases])
    for (batch, lens, pad), mo in zip(cases, outs):
        info = {"batch": batch, "lengths": lens, "pad_value": pad, "entry": "collate_tensors"}
        ctx.evaluated(json.dumps([batch, pad]), nontrivial=len(set(lens)) >= 2); ctx.count("pad_value:%s" % pad)
        try:
            res = ("ok", canon(collate_tensors([to_impl(d) for d in batch], pad_value=pad)))
        except Exception as e:
            res = ("error", type(e).__name__ + ": " + str(e)[:100])
        if res[0] != "ok":
            ctx.violation("collating a valid batch raises", info, {"error": res[1]}, True, size=len(batch), signature={"clause": "raises"}); continue
        key = "masked" if "masked" in batch[0] else "plain"
        r = res[1].get(key)
        trail = batch[0][key]["shape"][1:]
        inner = int(np.prod(trail)) if trail else 1
        row = max(lens) * inner
        if r is not None:
            for e, ex in enumerate(batch):
                seg = r["data"][e * row:(e + 1) * row]
                same = lambda v, w: v == w or (v != v and w != w)                       # NaN is a pad value like any other
                if seg[:lens[e] * inner] != ex[key]["data"] or any(not same(v, pad) for v in seg[lens[e] * inner:]):
                    ctx.violation("an example's values are altered, or padding is not the pad value", info, {"example": e, "row": seg}, True, size=len(batch), signature={"clause": "values"}); break
                if key == "masked" and (r["mask"][e * row:(e + 1) * row][:lens[e] * inner] != ex[key]["mask"] or any(r["mask"][e * row:(e + 1) * row][lens[e] * inner:])):
                    ctx.violation("validity is altered, or a padded position is marked valid", info, {"example": e}, True, size=len(batch), signature={"clause": "mask"}); break
        if not mo["ok"] or nanfree(unbits(mo["result"])) != nanfree(res[1]):
            ctx.violation("collation with a pad value: result differs from the model's", info, {"impl": str(res[1])[:300], "model": str(unbits(mo["result"]) if mo["ok"] else None)[:300]}, False, size=len(batch))


def replay(ctx, rep):
    raise SystemExit("replay: re-run ./check C20 with VERIF_SEED=%s" % rep.get("seed"))
