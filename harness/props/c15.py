"""C15 — spatial transforms obey their algebra and extents are tight."""
import json, warnings, math
import numpy as np
import numpy.ma as ma
from .. import posecase as pc
from ..mtexec import f64_bits, bits_f64

RULE = ("NumPy poses, 2-D and 3-D, 1–3 components, 1–2 people, 1–4 frames, dyadic coordinates, arbitrary missing patterns incl. whole components and whole frames; flip on every axis (and twice), matmul with integer matrices "
        "(identity, products, linear combinations), augment2d with the three random draws replayed from the seeded generator and with all deviations 0, focus(), bbox(); checked on the implementation against the "
        "algebraic clauses (exactly, the data being dyadic) and compared with the Lean model (flip, focus, bbox); non-trivial = pose with ≥ 1 observed point, distinct by JSON")
ASSUMPTIONS = ["np.random.normal draws are replayed by re-seeding (the theorems take the draws as parameters)", "cos / sin of the drawn angle are numpy's", "float32 rounding: data are dyadic so that + − × and min / max are exact; augment2d is compared within 1e-5"]


def gen(rng, dims=None):
    dims = dims or rng.choice([2, 2, 3])
    fmt = {2: "XYC", 3: "XYZC"}[dims]
    comps = [pc.gen_comp(rng, fmt=fmt, npoints=rng.choice([1, 2, 3])) for _ in range(rng.randint(1, 3))]
    for i, c in enumerate(comps):
        c["name"] = pc.hx("c%d" % i)
    h = {"version": pc.V02, "width": 50, "height": 60, "depth": 0, "components": comps}
    F, P, N = rng.randint(1, 4), rng.randint(1, 2), pc.total_points(h)
    data = np.array([rng.randint(-40, 40) / 4 for _ in range(F * P * N * dims)], dtype=np.float32)
    # observed points mostly with confidence 1, some with a tiny one (1e-9, 1e-30: not 0, hence observed)
    conf = np.array([0.0 if rng.random() < 0.35 else rng.choice([1.0] * 8 + [1e-9, 1e-30, 0.5]) for _ in range(F * P * N)], dtype=np.float32).reshape(F, P, N)
    if rng.random() < 0.3:                               # a whole component missing
        off = 0; k = rng.randrange(len(comps))
        for i, c in enumerate(comps):
            if i == k: conf[:, :, off:off + len(c["points"])] = 0
            off += len(c["points"])
    if rng.random() < 0.2:
        conf[rng.randrange(F)] = 0
    if rng.random() < 0.35:                              # one axis whose smallest observed coordinate is already exactly 0 (the others are not)
        d4 = data.reshape(F, P, N, dims); ax = rng.randrange(dims)
        obs = conf != 0
        if obs.any():
            d4[..., ax] -= d4[..., ax][obs].min()
        data = d4.reshape(-1)
    body = {"fps": {"f32": 0x41C80000}, "frames": F, "people": P, "points": N, "dims": dims, "data": pc.f32_to_bits(data), "conf": pc.f32_to_bits(conf)}
    return {"header": h, "body": body}


def build(case):
    """the pose of a case; `extra_mask` lists (frame, person, point) cells that are masked although their confidence is not 0 (a body built from a masked array)"""
    pose = pc.build_pose(case)
    for f, p, n in case.get("extra_mask", []):
        pose.body.data[f, p, n] = ma.masked
    return pose


def arrays(pose):
    d = pose.body.data
    return np.asarray(d.data, dtype=np.float64), np.asarray(ma.getmaskarray(d)), np.asarray(pose.body.confidence, dtype=np.float64)


class _P:
    """a body wrapped like a pose (matmul is offered by the body only)"""
    def __init__(self, body): self.body = body
    def matmul(self, m): return _P(self.body.matmul(m))


def same_view(a, b, tol=0.0):
    da, ma_, ca = a; db, mb, cb = b
    if da.shape != db.shape or not np.array_equal(ma_, mb) or not np.array_equal(ca, cb):
        return False
    x, y = np.where(ma_, 0.0, da), np.where(mb, 0.0, db)
    return np.allclose(x, y, rtol=tol, atol=tol) if tol else np.array_equal(x, y)


def model_body(case):
    b = case["body"]
    f64 = lambda bits: [f64_bits(float(x)) for x in np.array(bits, dtype=np.uint32).view(np.float32)]
    return {"fps": f64([b["fps"]["f32"]])[0], "shape": [b["frames"], b["people"], b["points"], b["dims"]], "data": f64(b["data"]), "conf": f64(b["conf"])}


def run(ctx):
    rng = ctx.rng
    reqs, meta = [], []
    for it in range(ctx.pick(120, 1500)):
        case = gen(rng)
        if rng.random() < 0.25:                              # a mask of its own on top of confidence == 0
            b_ = case["body"]
            case["extra_mask"] = [[rng.randrange(b_["frames"]), rng.randrange(b_["people"]), rng.randrange(b_["points"])] for _ in range(rng.randint(1, 3))]
        pose = build(case)
        src = arrays(pose)
        D = case["body"]["dims"]
        sizes = [len(c["points"]) for c in case["header"]["components"]]
        info = {"case": case}
        observed = (~src[1]).any()
        ctx.evaluated(json.dumps(case), nontrivial=bool(observed)); ctx.count("dims:%d" % D)
        if len(ctx.samples) < 2:
            ctx.sample({"shape": list(src[0].shape), "components": sizes, "missing_fraction": float(src[1].mean())})
        def bad(clause, detail, sig=None):
            ctx.violation(clause, info, detail, True, size=src[0].size, signature=dict({"clause": clause}, **(sig or {})))
        # ---- which points are missing is decided by the confidences alone (exactly 0), before and after every transform
        if not case.get("extra_mask"):
            rule = np.repeat((src[2] == 0)[..., None], D, axis=-1)
            for name, view in (("the pose as built", src), ("flip", arrays(pose.flip(0))), ("matmul", arrays(_P(pose.body).matmul(np.eye(D, dtype=np.float32)))),
                               ("augment2d", arrays(pose.augment2d(rotation_std=0, shear_std=0, scale_std=0)))):
                if not np.array_equal(view[1], rule):
                    bad("a point with a non-zero confidence is missing (or one with confidence 0 is not) after a transform", {"after": name, "confidences": sorted(set(np.asarray(src[2]).reshape(-1).tolist()))[:6]}, {"what": "missing rule"})
                    break
        # ---- flip
        for axis in range(D):
            fl = arrays(pose.flip(axis))
            want = src[0].copy(); want[..., axis] = -want[..., axis]
            if not same_view(fl, (want, src[1], src[2])):
                bad("flip does not negate exactly that coordinate (or changes confidences / missing)", {"axis": axis})
            if not same_view(arrays(pose.flip(axis).flip(axis)), src):
                bad("flip is not its own inverse", {"axis": axis})
        for a in range(D):                                       # Props/C15.flip_comm: the order of two flips does not matter
            for b in range(a + 1, D):
                if not same_view(arrays(pose.flip(a).flip(b)), arrays(pose.flip(b).flip(a))):
                    bad("flips of two axes do not commute", {"axes": [a, b]})
        # ---- matmul
        eye = np.eye(D, dtype=np.float32)
        if not same_view(arrays(_P(pose.body).matmul(eye)), src):
            bad("multiplying by the identity matrix changes the pose", {})
        M1 = np.array([[rng.randint(-2, 2) for _ in range(D)] for _ in range(D)], dtype=np.float32)
        M2 = np.array([[rng.randint(-2, 2) for _ in range(D)] for _ in range(D)], dtype=np.float32)
        r12 = arrays(_P(pose.body).matmul(M1).matmul(M2)); rp = arrays(_P(pose.body).matmul(M1 @ M2))
        if not same_view(r12, rp):
            bad("matmul is not linear: (x·M1)·M2 differs from x·(M1·M2)", {"M1": M1.tolist(), "M2": M2.tolist()})
        rsum = arrays(_P(pose.body).matmul(M1 + M2))
        x1, x2 = arrays(_P(pose.body).matmul(M1)), arrays(_P(pose.body).matmul(M2))
        if not same_view(rsum, (x1[0] + x2[0], x1[1], x1[2])):
            bad("matmul is not linear: x·(M1+M2) differs from x·M1 + x·M2", {})
        want = np.where(src[1], 0.0, src[0]) @ M1.astype(np.float64)
        if not same_view(x1, (want, src[1], src[2])):
            bad("matmul does not multiply every observed point by the matrix (or changes confidences / missing)", {"M": M1.tolist()})
        # ---- the same body with integer coordinates (pixel positions) or binary64 ones, and a fractional matrix: the map applied is the matrix that was asked for
        from pose_format.numpy import NumPyPoseBody
        Mf = np.diag([0.5, 1.5, 2.25, 0.75][:D]).astype(np.float64); Mf[0, D - 1] += 0.25
        for dt in (np.int32, np.float64):
            ints = np.round(src[0] * 4).astype(dt)
            ib = NumPyPoseBody(25.0, ma.masked_array(ints, mask=src[1].copy()), np.asarray(pose.body.confidence).copy())
            try:
                got = arrays(_P(ib).matmul(Mf))
                want = np.where(src[1], 0.0, ints.astype(np.float64)) @ Mf
                if not same_view(got, (want, src[1], src[2])):
                    bad("matmul does not multiply every observed point by the matrix (or changes confidences / missing)", {"M": Mf.tolist(), "body_dtype": np.dtype(dt).name}, {"what": "dtype"})
            except Exception as e:
                bad("matmul raises on a body with integer / binary64 coordinates", {"error": type(e).__name__ + ": " + str(e)[:80], "body_dtype": np.dtype(dt).name}, {"what": "dtype"})
        # ---- the torch body of the same pose: matmul (incl. projections: a zero column / row) gives the NumPy result — values, confidences and which points are missing
        if not case.get("extra_mask") and src[0].size:
            try:
                tb = pose.body.torch()
                for Mt in (M1, np.diag([1.0] + [0.0] * (D - 1)).astype(np.float32), np.zeros((D, D), dtype=np.float32)):
                    r = tb.matmul(Mt)
                    got = (r.data.tensor.numpy().astype(np.float64), ~r.data.mask.numpy().astype(bool), r.confidence.numpy().astype(np.float64))
                    ref = arrays(_P(pose.body).matmul(Mt))
                    if not same_view(got, ref, tol=1e-5):
                        bad("matmul on the torch body differs from the NumPy body (values, confidences or missing points)", {"M": Mt.tolist()}, {"what": "torch matmul"}); break
            except Exception as e:
                bad("matmul raises on the torch body", {"error": type(e).__name__ + ": " + str(e)[:80]}, {"what": "torch matmul"})
        # ---- augment2d
        a0 = arrays(pose.augment2d(rotation_std=0, shear_std=0, scale_std=0))
        if not same_view(a0, src):
            bad("augment2d with all deviations 0 is not the identity", {})
        seed = rng.randrange(10 ** 6)
        stds = (rng.choice([0, 0.2]), rng.choice([0, 0.3]), rng.choice([0, 0.1]))
        np.random.seed(seed)
        aug = arrays(pose.augment2d(rotation_std=stds[0], shear_std=stds[1], scale_std=stds[2]))
        np.random.seed(seed)
        m = np.eye(2)
        if stds[1] > 0:
            sh = np.eye(2); sh[0][1] = np.random.normal(loc=0, scale=stds[1], size=1)[0]; m = m @ sh
        if stds[0] > 0:
            ang = np.random.normal(loc=0, scale=stds[0], size=1)[0]; m = m @ np.array([[np.cos(ang), -np.sin(ang)], [np.sin(ang), np.cos(ang)]])
        if stds[2] > 0:
            sm = np.eye(2); sm[1][1] += np.random.normal(loc=0, scale=stds[2], size=1)[0]; m = m @ sm
        dm = np.eye(D); dm[0:2, 0:2] = m
        want = np.where(src[1], 0.0, src[0]) @ dm.astype(np.float32).astype(np.float64)
        if not same_view(aug, (want, src[1], src[2]), tol=1e-5):
            bad("augment2d does not apply one common linear map of the first two coordinates", {"seed": seed, "stds": stds})
        # ---- the same Pose object after its body was replaced (utils/holistic.py and user code assign `pose.body = …`): the operations act on the pose as it is now
        try:
            q = build(case)
            first = q.flip(0)
            q.body = first.body                                  # the pose now holds the flipped body …
            back = arrays(q.flip(0))                             # … so flipping it again gives the original
            q.body = q.body.matmul(M1) if hasattr(q.body, "matmul") else q.body
            cur = arrays(q)
            a_id = arrays(q.augment2d(rotation_std=0, shear_std=0, scale_std=0))
            if not same_view(back, src) or not same_view(a_id, cur):
                bad("after the pose's body was replaced, flip / augment2d act on the body it had before", {"flip_again_ok": bool(same_view(back, src)), "augment_identity_ok": bool(same_view(a_id, cur))}, {"what": "replaced body"})
        except Exception as e:
            bad("flip / augment2d raise after the pose's body was replaced", {"error": type(e).__name__ + ": " + str(e)[:80]}, {"what": "replaced body"})
        # ---- focus (also on the same pose at another scale: extents beyond 65 535, below 1 and below 0.001; the data stay dyadic, hence exact)
        for fscale in ((1.0, 8192.0, 65536.0, 1 / 64, 1 / 16384) if observed else ()):
            fcase = case if fscale == 1.0 else dict(case, body=dict(case["body"], data=pc.f32_to_bits(pc.bits_to_f32(case["body"]["data"], (-1,)) * np.float32(fscale))))
            fsrc = src if fscale == 1.0 else arrays(build(fcase))
            ctx.count("focus scale:%g" % fscale)
            p2 = build(fcase)
            try:
                p2.focus()
                ok = True
            except Exception as e:
                ok = False
                bad("focus raises on a pose with observed points", {"error": type(e).__name__ + ": " + str(e)[:80], "scale": fscale})
            if ok:
                f = arrays(p2)
                obs = np.where(f[1], np.nan, f[0])
                mins = np.nanmin(obs.reshape(-1, D), axis=0); maxs = np.nanmax(obs.reshape(-1, D), axis=0)
                hd = p2.header.dimensions
                dims_got = [hd.width, hd.height, hd.depth][:D]
                obs0 = np.where(fsrc[1], np.nan, fsrc[0]).reshape(-1, D)
                ext = np.nanmax(obs0, axis=0) - np.nanmin(obs0, axis=0)
                if not (mins == 0).all() or dims_got != [math.ceil(x) for x in ext] or not np.array_equal(f[1], fsrc[1]) or not np.array_equal(f[2], fsrc[2]):
                    bad("focus does not put the smallest observed coordinate of every axis at 0 with dimensions = extent rounded up", {"mins": mins.tolist(), "dims": dims_got, "extent": ext.tolist(), "scale": fscale})
                if not same_view((f[0] - mins + np.nanmin(obs0, axis=0), f[1], f[2]), fsrc):
                    bad("focus is not a translation of the observed points", {"scale": fscale})
        # ---- bbox
        try:
            bb = build(case).bbox()
            bbv = arrays(bb)
        except Exception as e:
            bb = None
            bad("bbox raises", {"error": type(e).__name__ + ": " + str(e)[:100]}, {"dims": D})
        if bb is not None:
            off = 0; okb = True
            for ci, n in enumerate(sizes):
                seg = np.where(src[1][:, :, off:off + n], np.nan, src[0][:, :, off:off + n])
                with np.errstate(all="ignore"):
                    import warnings
                    with warnings.catch_warnings():
                        warnings.simplefilter("ignore")
                        lo, hi = np.nanmin(seg, axis=2), np.nanmax(seg, axis=2)
                none = np.isnan(lo)
                got_lo, got_hi = bbv[0][:, :, 2 * ci], bbv[0][:, :, 2 * ci + 1]
                mlo, mhi = bbv[1][:, :, 2 * ci], bbv[1][:, :, 2 * ci + 1]
                if not (np.array_equal(mlo, none) and np.array_equal(mhi, none) and np.array_equal(np.where(none, 0, got_lo), np.where(none, 0, lo)) and np.array_equal(np.where(none, 0, got_hi), np.where(none, 0, hi))
                        and np.array_equal(bbv[2][:, :, 2 * ci] == 0, none.all(axis=-1)) and np.array_equal(bbv[2][:, :, 2 * ci + 1] == 0, none.all(axis=-1))):
                    okb = False
                off += n
            names_ok = all(c.points == ["TOP_LEFT", "BOTTOM_RIGHT"] for c in bb.header.components) and [c.name for c in bb.header.components] == [pc.unhx(c["name"]) for c in case["header"]["components"]]
            if not okb or not names_ok:
                bad("a bounding box is not the smallest axis-aligned box of its component's observed points (missing when there is none)", {}, {"dims": D})
        # ---- bbox of the same pose with binary64 coordinates that binary32 cannot represent (thirds: what interpolate / normalize / a binary64 matrix leave behind):
        # the box is exactly the extreme coordinates, not their nearest binary32 values
        if bb is not None and src[0].size:
            try:
                from pose_format import Pose
                d64 = ma.masked_array(src[0].astype(np.float64) / 3.0 + 0.1, mask=src[1].copy())
                p64 = build(case)
                p64 = Pose(p64.header, NumPyPoseBody(25.0, d64, np.asarray(p64.body.confidence).copy()))
                b64 = arrays(p64.bbox())
                off = 0; ok64 = True
                for ci, n in enumerate(sizes):
                    seg = np.where(src[1][:, :, off:off + n], np.nan, np.asarray(d64.data)[:, :, off:off + n])
                    with np.errstate(all="ignore"), warnings.catch_warnings():
                        warnings.simplefilter("ignore")
                        lo, hi = np.nanmin(seg, axis=2), np.nanmax(seg, axis=2)
                    none = np.isnan(lo)
                    if not (np.array_equal(np.where(none, 0, b64[0][:, :, 2 * ci]), np.where(none, 0, lo)) and np.array_equal(np.where(none, 0, b64[0][:, :, 2 * ci + 1]), np.where(none, 0, hi))):
                        ok64 = False
                    off += n
                if not ok64:
                    bad("a bounding box is not the smallest axis-aligned box of its component's observed points (missing when there is none)", {"body": "binary64 coordinates (thirds)"}, {"dims": D, "what": "binary64"})
            except Exception as e:
                bad("bbox raises", {"error": type(e).__name__ + ": " + str(e)[:100], "body": "binary64"}, {"dims": D, "what": "binary64"})
        # ---- model
        ops = [{"k": "flip", "axis": rng.randrange(D)}, {"k": "bbox", "sizes": sizes}]
        if observed:
            ops.insert(1, {"k": "focus"})
        if not case.get("extra_mask"):                      # the driver builds its body from the confidences alone
            reqs.append({"op": "body_ops", "backend": "numpy", "body": model_body(case), "ops": ops})
            meta.append((case, ops))
    outs = ctx.driver.run(reqs)
    for (case, ops), mo in zip(meta, outs):
        pose = pc.build_pose(case)
        steps = mo["steps"][1:]
        i = 0
        for op in ops:
            info = {"case": case, "op": op}
            if op["k"] == "flip":
                pose = pose.flip(op["axis"])
            elif op["k"] == "focus":
                pose.focus()
                hd = pose.header.dimensions
                dims = steps[i].get("dimensions"); i += 1
                D = case["body"]["dims"]
                if dims is None or dims[:D] != [hd.width, hd.height, hd.depth][:D]:
                    ctx.violation("focus: header dimensions differ from the model's", info, {"impl": [hd.width, hd.height, hd.depth], "model": dims}, False); break
            else:
                pose = pose.bbox()
            m = steps[i]; i += 1
            a = arrays(pose)
            if "error" in m:
                ctx.violation("model refuses a transform the implementation performs", info, {}, False); break
            mm = np.array(m["missing"], dtype=bool).reshape(a[1].shape) if a[1].size else a[1]
            md = np.array([bits_f64(x) for x in m["zf"]]).reshape(a[0].shape) if a[0].size else a[0]
            mc = np.array([bits_f64(x) for x in m["conf"]]).reshape(a[2].shape) if a[2].size else a[2]
            if not same_view(a, (md, mm, mc)):
                ctx.violation("a transform differs from its model", info, {}, False); break


def replay(ctx, rep):
    raise SystemExit("replay: re-run ./check C15 with VERIF_SEED=%s" % rep.get("seed"))
