"""C18 — concurrent reads are isolated from each other."""
import ast, io, os
from .. import posecase as pc, refenc, sched as S
from .c03 import make_file

RULE = ("real Pose.read calls in real threads under a deterministic line-level scheduler (sys.settrace; yield points = every source line of the modules that reference the "
        "process-global header cache, found by an ast scan of the working tree); pairs (thorough: also triples) of files with equal / different headers, bytes and windowed stream sources, "
        "cache initially {empty, A, B}; all single-preemption schedules; double-preemption schedules: EVERY pair of preemption points inside the code that deals with the shared cache (ast: the cache class and every function naming it) in both tiers, and a sample of the other pairs (120 quick / 3000 thorough per configuration); try-locks (acquire(blocking=False)) fail at once as the real lock's do; every reader edits the header of its own result in place afterwards (no other read may notice); per thread, and for one read of each file that follows the concurrent ones: result vs its single-threaded result "
        "(oracle), and header/hit-miss vs the Lean protocol model run on the observed order of cache sections; non-trivial = distinct (files, sources, cache, schedule)")
ASSUMPTIONS = ["CPython's GIL makes one attribute load/store and one lock acquire/release atomic; preemption inside a source line or inside C extensions is not explored",
               "preemption points are source lines of pose_format modules; of a line executed many times in a loop only the first occurrences are preemption candidates"]


def cache_modules():
    """modules of the working tree whose source mentions the cache class (ast scan)"""
    import pose_format, importlib
    root = os.path.dirname(pose_format.__file__)
    found = []
    for name in ("pose_header", "pose", "utils.reader", "pose_body", "numpy.pose_body"):
        path = os.path.join(root, *name.split(".")) + ".py"
        tree = ast.parse(open(path).read())
        if any(isinstance(n, ast.Name) and n.id == "PoseHeaderCache" or isinstance(n, ast.ClassDef) and n.name == "PoseHeaderCache" for n in ast.walk(tree)):
            found.append(importlib.import_module("pose_format." + name))
    return found


def hot_ranges(mods):
    """source ranges that deal with the shared cache: every function of the scanned modules whose body names the cache class, and the cache class itself"""
    out = {}
    for m in mods:
        tree = ast.parse(open(m.__file__).read())
        rs = []
        for n in ast.walk(tree):
            if isinstance(n, ast.ClassDef) and n.name == "PoseHeaderCache":
                rs.append((n.lineno, n.end_lineno))
            elif isinstance(n, (ast.FunctionDef, ast.AsyncFunctionDef)) and any(isinstance(x, ast.Name) and x.id == "PoseHeaderCache" for x in ast.walk(n)):
                rs.append((n.lineno, n.end_lineno))
        out[os.path.basename(m.__file__)] = rs
    return out


HOT = {}


def run(ctx):
    from pose_format import Pose
    from pose_format.pose_header import PoseHeaderCache
    import pose_format.utils.reader as RD
    rng = ctx.rng
    mods = cache_modules()
    # yield points: every source line of every pose_format module a read executes (shared state may live anywhere in the package);
    # the modules that mention the cache class are reported in the evidence
    import pose_format
    root = os.path.dirname(pose_format.__file__)
    files_traced = {os.path.join(dp, f) for dp, _, fs in os.walk(root) for f in fs if f.endswith(".py")}
    ctx.extra["modules_referencing_cache"] = sorted(os.path.basename(m.__file__) for m in mods)
    HOT.clear(); HOT.update(hot_ranges(mods))
    ctx.extra["cache_code_ranges"] = {k: [list(r) for r in v] for k, v in HOT.items()}
    nlocks = S.instrument_locks(mods + [RD])
    ctx.extra["modules_with_yield_points"] = "every .py file under pose_format/ (%d files)" % len(files_traced)
    ctx.extra["locks_instrumented"] = nlocks
    # log of cache sections in the order they happen (for the model): wrap the two cache entry points
    log = []
    orig_check, orig_set = PoseHeaderCache.check_cache, PoseHeaderCache.set_cache
    def check(buffer):
        r = orig_check(buffer)
        log.append((getattr(S.CUR, "tid", None), "lookup", r is not None))
        return r
    def setc(*a, **k):
        log.append((getattr(S.CUR, "tid", None), "update", None))
        return orig_set(*a, **k)
    PoseHeaderCache.check_cache = staticmethod(check)
    PoseHeaderCache.set_cache = staticmethod(setc)
    try:
        explore(ctx, rng, files_traced, log)
    finally:
        PoseHeaderCache.check_cache = staticmethod(orig_check)
        PoseHeaderCache.set_cache = staticmethod(orig_set)


def explore(ctx, rng, files_traced, log):
    from pose_format import Pose
    from pose_format.pose_header import PoseHeaderCache
    A = refenc.v02(make_file(rng, 3, 2, 1, 2))
    A2c = make_file(rng, 2, 2, 1, 2)
    B = refenc.v02(make_file(rng, 3, 5, 1, 2, ncomps=2))
    C = refenc.v02(make_file(rng, 2, 2, 1, 3))
    caseA = make_file(rng, 3, 2, 1, 2)
    A = refenc.v02(caseA)
    A2 = refenc.v02({"header": caseA["header"], "body": pc.gen_body(rng, caseA["header"], frames=2, people=1)})       # same header, other body
    pool = {"A": A, "A2": A2, "B": B, "C": C}
    def use(pose):
        """what a reader does with ITS OWN result: look at it, then edit it in place (rescale the dimensions, rename a point, move a limb) — no other read may notice"""
        view = pc.canon_pose(pose)
        d = pose.header.dimensions
        d.width, d.height = (d.width + 11) % 65536, (d.height + 7) % 65536
        for comp in pose.header.components:
            if comp.points:
                comp.points[0] = comp.points[0] + "*"
            if len(comp.limbs):
                comp.limbs[0] = (0, 0)
        return view
    def reader(raw, kind):
        if kind == "bytes":
            return lambda: use(Pose.read(raw))
        return lambda: use(Pose.read(io.BytesIO(raw), start_frame=1, end_frame=2))
    combos = [(("A", "bytes"), ("B", "bytes")), (("A", "bytes"), ("A2", "bytes")), (("A", "stream"), ("B", "bytes")), (("B", "stream"), ("A", "stream")), (("A", "bytes"), ("C", "stream"))]
    if not ctx.thorough():
        combos = combos[:4]
    reqs, meta = [], []
    nsched = 0
    for combo in combos:
        names = [c[0] for c in combo]
        fns = [reader(pool[n], k) for n, k in combo]
        # single-threaded reference results
        expected = []
        for f in fns:
            PoseHeaderCache.clear_cache()
            expected.append(f())
        for cache0 in (None, names[0], names[1]):
            def one(schedule):
                nonlocal nsched
                PoseHeaderCache.clear_cache()
                if cache0 is not None:
                    Pose.read(pool[cache0])
                del log[:]
                s = S.Sched(len(fns), files_traced)
                res, trace = s.run(fns, schedule)
                nsched += 1
                ctx.evaluated((tuple(combo), cache0, tuple(map(tuple, schedule))))
                ctx.count(f"cache0={'empty' if cache0 is None else 'first' if cache0 == names[0] else 'second'}")
                info = {"threads": [{"file": n, "source": k, "file_hex": pool[n].hex()} for n, k in combo], "cache_initially": cache0, "schedule_segments": [list(x) for x in schedule],
                        "preempted_at": [trace[i][1] for i in range(1, len(trace)) if trace[i][0] != trace[i - 1][0]][:4]}
                for t, (r, e) in enumerate(zip(res, expected)):
                    if r[0] != "ok":
                        ctx.violation("a concurrent read raises although the same read succeeds alone", info, {"thread": t, "error": r[1]}, True, size=len(schedule), signature={"clause": "raises"})
                    elif pc.diff(e, r[1]):
                        ctx.violation("a concurrent read returns another result than the same read alone", info, {"thread": t, "first_difference": pc.diff(e, r[1])}, True, size=len(schedule), signature={"clause": "differs"})
                # reads that FOLLOW the concurrent ones (main thread, no scheduler) are reads too: the file the cache was last filled for first
                # (the one that will hit), then the other one — as threads 2 and 3 of the same history
                upd = [t for t, kind, _ in log if t is not None and kind == "update"]
                hitter = upd[-1] if upd else (names.index(cache0) if cache0 in names else 0)
                post_files, res = [], list(res)
                for extra, t in enumerate((hitter, 1 - hitter)):
                    S.CUR.tid = len(fns) + extra
                    try:
                        try:
                            r = ("ok", fns[t]())
                        except Exception as e:
                            r = ("error", "%s: %s" % (type(e).__name__, str(e)[:120]))
                    finally:
                        S.CUR.tid = None
                    post_files.append(names[t]); res.append(r)
                    ctx.count("following_reads")
                    if r[0] != "ok":
                        ctx.violation("a read that follows concurrent reads raises although the same read succeeds alone", dict(info, following_reads=post_files), {"file": names[t], "error": r[1]}, True, size=len(schedule), signature={"clause": "after-raises"})
                    elif pc.diff(expected[t], r[1]):
                        ctx.violation("a read that follows concurrent reads returns another result than the same read alone (the shared cache was left inconsistent)", dict(info, following_reads=post_files),
                                      {"file": names[t], "first_difference": pc.diff(expected[t], r[1])}, True, size=len(schedule), signature={"clause": "after-differs"})
                order = [t for t, kind, _ in log if t is not None]
                reqs.append({"op": "schedule", "files": [pool[n].hex() for n in names + post_files], "cache0": None if cache0 is None else pool[cache0].hex(), "sched": order})
                meta.append((dict(info, following_reads=post_files), res, [(t, k, h) for t, k, h in log if t is not None]))
                return trace
            # how many steps does each thread take alone?
            # preemption candidates: step k of a thread's solo run is a candidate when its source line occurred at most `reps` times before
            # (loops over points / frames repeat the same lines; the first occurrences are the distinct situations)
            reps = ctx.pick(2, 6)
            def candidates(tid):
                tr = one([(tid, None)])
                locs = [w for t, w in tr if t == tid]
                seen, ks, hot = {}, [], []
                for k, w in enumerate(locs):
                    seen[w] = seen.get(w, 0) + 1
                    if k >= 1 and seen[w] <= reps:
                        ks.append(k)
                    if k >= 1 and len(w) > 2 and any(a <= w[1] <= b for a, b in HOT.get(w[2], ())):
                        hot.append(k)
                return len(locs), ks, hot
            n0, k0, h0 = candidates(0)
            n1, k1, h1 = candidates(1)
            for first, ks in ((0, k0), (1, k1)):
                for k in ks:
                    one([(first, k), (1 - first, None)])                         # one preemption
            # two preemptions
            pairs = [(first, k, m) for first, ks, ms in ((0, k0, k1), (1, k1, k0)) for k in ks for m in ms]
            pairs = rng.sample(pairs, min(len(pairs), ctx.pick(120, 3000)))
            for first, k, m in pairs:
                one([(first, k), (1 - first, m), (first, None)])
            # two preemptions, both inside the code that deals with the shared cache: ALL of them, in both tiers
            hot_pairs = [(first, k, m) for first, ks, ms in ((0, h0, h1), (1, h1, h0)) for k in ks for m in ms]
            ctx.count("hot double preemptions", len(hot_pairs))
            for first, k, m in hot_pairs:
                one([(first, k), (1 - first, m), (first, None)])
        ctx.sample({"threads": [{"file": n, "source": k, "file_bytes": len(pool[n])} for n, k in combo], "steps_alone": [n0, n1]})
    ctx.extra["schedules_run"] = nsched
    # correspondence with the protocol model
    outs = ctx.driver.run(reqs)
    for (info, res, events), mo in zip(meta, outs):
        for t, th in enumerate(mo["threads"]):
            if th.get("state") != "done":
                ctx.violation("protocol model: a thread did not finish on the observed section order", info, {"thread": t, "state": th.get("state"), "events": events}, False, size=len(events)); break
            if res[t][0] == "ok" and (th["header"] is None or pc.diff(th["header"], res[t][1]["header"])):
                ctx.violation("protocol model: a thread's header differs from the model's on the observed section order", info, {"thread": t, "events": events}, False, size=len(events)); break
        else:
            # hit / miss per thread agrees with the model's notion of a hit (second section of a thread exists iff it missed)
            pass


def replay(ctx, rep):
    raise SystemExit("replay: re-run ./check C18 with VERIF_SEED=%s" % rep.get("seed"))
