"""C12 — every pose reachable through the API stays well-formed and serialisable."""
import json, os, subprocess, sys
import numpy as np
from .. import core, posecase as pc, seqexec
from ..mtexec import f64_bits, bits_f64
from . import c09

LEAN_MODULES = ["PoseVerif.Props.C12"]
RULE = ("well-formed start poses (2-D and 3-D, 1–3 components, 1–2 people, 2–6 frames, arbitrary missing patterns); random sequences of 1–8 (thorough: up to 20) public operations generated while executing, each "
        "chosen among those whose stated precondition holds in the current pose: get / remove components and points, bbox, interpolate (three kinds), slice_step, select_frames, uniform / normal frame dropout, flip, "
        "augment2d, normalize (reference points jointly observed and apart), normalize_distribution and back (non-zero deviation), focus (one observed point), zero_filled, copy, torch() / tensorflow() conversion and the "
        "operations those bodies offer; after every step: data shape = (frames, people, header points, header dimensions), confidence shape = (frames, people, points), mask shape = data shape, point missing in all "
        "dimensions ⇔ confidence 0; NumPy sequences end with write → read → compare (up to float32); the modelled prefix of NumPy sequences is run through the Lean model and shapes / missing patterns compared step by step; "
        "a third of the NumPy sequences start from the pose as read from its own file, which must still read back as written at the end; 30 % of the NumPy sequences open with one of 14 planned compositions (bbox → strict point selection → bbox, interpolate → torch → selection, …); non-trivial = sequence with ≥ 2 executed steps, distinct by JSON of (pose, operations)")
ASSUMPTIONS = ["an operation that raises ends the sequence and is counted (distribution: raises:*), not reported: the property constrains the poses that are returned",
               "tensorflow sequences run in a child process; augment2d (tf.matmul) is not chosen on tensorflow bodies of shape (F > 1, 1, N, D): native crash in this sandbox",
               "preconditions are evaluated by the harness on the current pose exactly as the property words them"]


def run_child(cases):
    if not cases:
        return []
    payload = "".join(json.dumps(c) + "\n" for c in cases)
    env = dict(os.environ, TF_CPP_MIN_LOG_LEVEL="3")
    r = subprocess.run([sys.executable, "-W", "ignore", "-m", "harness.seqexec"], input=payload, capture_output=True, text=True, timeout=3000, cwd=core.VERIF, env=env)
    lines = [l for l in r.stdout.splitlines() if l.startswith("{")]
    if len(lines) != len(cases):
        raise core.InfraError("tensorflow child returned %d of %d results: %s" % (len(lines), len(cases), r.stderr[-400:]))
    return [json.loads(l) for l in lines]


def clause_of(text):
    for key, name in (("data shape", "data shape ≠ (frames, people, header points, header dimensions)"), ("confidence shape", "confidence shape ≠ (frames, people, points)"),
                      ("mask shape", "mask shape ≠ data shape"), ("marked missing", "missing ⇎ confidence 0"), ("no missing pattern", "no missing pattern")):
        if key in text:
            return name
    return text[:60]


# planned openings (the rest of a sequence stays random): compositions in which one operation's output is a less usual input of the next
PLANS = [["bbox", "get_components!", "bbox"], ["bbox", "remove_points", "bbox"], ["get_components!", "bbox", "get_components!", "bbox"], ["bbox", "bbox"],
         ["bbox", "to_torch", "get_components!"], ["interpolate", "to_torch", "get_components"], ["interpolate", "bbox", "remove_points"], ["focus", "bbox", "flip", "interpolate"],
         ["normalize", "bbox", "get_components!", "bbox"], ["remove_components", "bbox", "interpolate"], ["get_components!", "interpolate", "bbox", "zero_filled"],
         ["bbox", "interpolate", "get_components!", "bbox"], ["slice_step", "interpolate", "slice_step"], ["to_torch", "get_components!", "remove_points"],
         ["focus", "flip", "focus"], ["focus", "flip", "focus", "bbox"], ["focus", "focus"], ["select_none"], ["flip", "select_none", "copy"]]      # a second focus finds the smallest coordinate already at 0 on some axes only


READ_PLANS = [["focus"], ["focus", "bbox"], ["copy", "focus"], ["normalize_distribution", "focus"], ["focus", "get_components!"], ["flip", "focus", "interpolate"], ["focus", "flip", "focus"]]


def run(ctx):
    rng = ctx.rng
    jobs = []
    for it in range(ctx.pick(220, 2500)):
        case = c09.gen_case(rng)
        if case["body"]["frames"] < 2 and rng.random() < 0.7:
            continue
        start = rng.choice(["numpy"] * 6 + ["torch", "tf"])
        if rng.random() < 0.15:
            case["header"] = dict(case["header"], version=rng.choice([pc.V01, 0, 0x3F800000]))     # a pose that came from a legacy file (or a fixture) carries that version; what is written is v0.2
        if start == "numpy" and rng.random() < 0.2:
            case["masked_input"] = rng.choice(["none", "partial"])      # the constructor is handed a MaskedArray with no / a partial mask of its own (fake_pose, user code)
        allow_tf = start == "tf" or rng.random() < 0.15
        plan = rng.choice(PLANS) if start == "numpy" and rng.random() < 0.3 else None
        seed = rng.randrange(10 ** 9)
        if start == "numpy" and seed % 3 == 0 and plan is None and rng.random() < 0.6:
            plan = rng.choice(READ_PLANS)                         # the pose comes from a read: in-place operations early on (they edit the object the reader handed out)
        jobs.append({"case": case, "seed": seed, "length": rng.randint(1, ctx.pick(8, 20)), "start": start, "allow_tf": allow_tf, "plan": plan})
    # planned, every run: degenerate extents — one observed point, all observed points on one horizontal / vertical line (focus then sets a dimension to 0),
    # and a header that declares 0 × 0 from the start; such poses are well-formed and must stay serialisable
    for kind in ("one point", "one point (read)", "same x", "same y", "declared 0x0"):
        case = c09.gen_case(rng)
        while case["body"]["frames"] < 2 or case["body"]["points"] < 2:
            case = c09.gen_case(rng)
        b = case["body"]; F, P, N, D = b["frames"], b["people"], b["points"], b["dims"]
        conf = pc.bits_to_f32(b["conf"], (F, P, N)).copy(); data = pc.bits_to_f32(b["data"], (F, P, N, D)).copy()
        if kind.startswith("one point"):
            conf[:] = 0; conf[rng.randrange(F), rng.randrange(P), rng.randrange(N)] = 1.0
        elif kind == "same x":
            data[..., 0] = 2.5
        elif kind == "same y":
            data[..., 1] = -1.25
        else:
            case["header"] = dict(case["header"], width=0, height=0)
        b["conf"], b["data"] = pc.f32_to_bits(conf), pc.f32_to_bits(data)
        seed = rng.randrange(10 ** 9)
        seed -= seed % 3 if kind == "one point (read)" else 0
        jobs.append({"case": case, "seed": seed, "length": 3, "start": "numpy", "allow_tf": False, "plan": None if kind == "declared 0x0" else (["focus"] if kind.startswith("one") else ["focus", "flip"]), "planned_case": kind})
    # planned, every run: an empty filter — the pose of no frames is well-formed and serialisable
    for plan_ in (["select_none"], ["flip", "select_none", "copy"], ["select_none", "slice_step"]):
        jobs.append({"case": c09.gen_case(rng), "seed": rng.randrange(10 ** 9), "length": len(plan_), "start": "numpy", "allow_tf": False, "plan": plan_, "planned_case": "no frames"})
    # planned, every run: a non-finite coordinate (+inf, NaN) at ONE observed point — such a pose is well-formed (missing is decided by the confidences), and
    # stays so through the normalisers (an arithmetic that masks non-finite results would mark an observed coordinate missing)
    for bits in (0x7F800000, 0x7FC00000, 0xFF800000):
        case = c09.gen_case(rng)
        while case["body"]["frames"] < 2 or case["body"]["points"] < 3:
            case = c09.gen_case(rng)
        b = case["body"]; F, P, N, D = b["frames"], b["people"], b["points"], b["dims"]
        conf = pc.bits_to_f32(b["conf"], (F, P, N)).copy(); conf[:] = 1.0
        b["conf"] = pc.f32_to_bits(conf)
        cell = (rng.randrange(F) * P * N + rng.randrange(P) * N + rng.randrange(N)) * D + rng.randrange(D)
        b["data"][cell] = bits
        jobs.append({"case": case, "seed": rng.randrange(10 ** 9), "length": 3, "start": "numpy", "allow_tf": False, "plan": rng.choice([["normalize"], ["normalize", "flip"], ["normalize_distribution"]]),
                     "planned_case": "non-finite coordinate", "no_model": True})
    local = [j for j in jobs if not j["allow_tf"]]
    child = [j for j in jobs if j["allow_tf"]]
    results = [(j, seqexec.run_sequence(j["case"], j["seed"], j["length"], j["start"], False, j.get("plan"))) for j in local]
    results += list(zip(child, run_child(child)))
    model_reqs, model_meta = [], []
    for j, res in results:
        steps = res["steps"]
        executed = [s for s in steps[1:] if "error" not in s]
        ctx.evaluated(json.dumps([j["case"], res["ops"], j["start"]]), nontrivial=len(executed) >= 2)
        ctx.count("start:" + j["start"]); ctx.count("length:%d" % len(executed))
        for s in steps[1:]:
            k = s["op"]["k"]
            ctx.count("op:" + k)
            if "error" in s:
                ctx.count("raises:%s:%s" % (k, s["error"].split(":")[0]))
        if len(ctx.samples) < 3:
            ctx.sample({"start": j["start"], "ops": [s["op"]["k"] if isinstance(s["op"], dict) else s["op"] for s in steps], "shapes": [s.get("shape") for s in steps]})
        info = {"case": j["case"], "seed": j["seed"], "length": j["length"], "start": j["start"], "allow_tf": j["allow_tf"], "plan": j.get("plan"), "ops": res["ops"]}
        if j.get("plan"):
            ctx.count("planned_openings")
        if res.get("via_read"):
            ctx.count("started_from_a_read_pose")
        for i, s in enumerate(steps):
            if s.get("broken"):
                k = s["op"]["k"] if isinstance(s["op"], dict) else s["op"]
                ctx.violation("after '%s' the pose is no longer well-formed: %s" % (k, clause_of(s["broken"][0])), info, {"step": i, "broken": s["broken"], "backend": s.get("backend"), "previous": [x["op"]["k"] if isinstance(x["op"], dict) else x["op"] for x in steps[:i]]}, True,
                              size=len(j["case"]["body"]["data"]) + 50 * i, signature={"clause": clause_of(s["broken"][0]), "op": k, "backend": s.get("backend")})
                break
        else:
            if res.get("history"):
                ctx.violation("write → read does not reproduce a pose: " + res["history"], info, {"what": res["history"], "ops": [o["k"] for o in res["ops"]]}, True,
                              size=len(j["case"]["body"]["data"]) + 50 * len(steps), signature={"clause": "history"})
            elif res.get("roundtrip"):
                ctx.violation("a reachable NumPy pose does not survive write → read: " + res["roundtrip"].split(":")[0], info, {"what": res["roundtrip"], "ops": [o["k"] for o in res["ops"]]}, True,
                              size=len(j["case"]["body"]["data"]) + 50 * len(steps), signature={"clause": "roundtrip", "what": res["roundtrip"].split(":")[0]})
            elif steps and "error" not in steps[-1] and steps[-1].get("backend") == "numpy":
                ctx.count("roundtrips_ok")
        # ---- the Lean model on the modelled prefix (numpy start only)
        if j["start"] == "numpy" and not j.get("no_model"):
            mops, names = [], [[pc.unhx(c["name"]), [pc.unhx(p) for p in c["points"]]] for c in j["case"]["header"]["components"]]
            F, fps = j["case"]["body"]["frames"], 25.0
            for s in steps[1:]:
                if "error" in s or s.get("backend") != "numpy" or "missing" not in s:
                    break
                op = s["op"]; k = op["k"]
                if k in ("select_frames", "flip", "zero_filled", "copy", "focus"):
                    mops.append(op if k != "slice_step" else op)
                elif k == "slice_step":
                    mops.append(op); fps /= op["by"]
                elif k == "bbox":
                    mops.append({"k": k, "sizes": [len(p) for _, p in names]})
                elif k == "interpolate" and op["kind"] == "linear":
                    mops.append({"k": k, "new_fps": f64_bits(float(op["new_fps"])), "new_frames": s["shape"][0]}); fps = op["new_fps"]
                elif k in ("get_components", "remove_components"):
                    offs, o = {}, 0
                    for n, p in names:
                        offs[n] = (o, p); o += len(p)
                    ixs = []
                    for n, p in s["names"]:
                        ixs += [offs[n][0] + offs[n][1].index(q) for q in p]
                    mops.append({"k": "get_points", "ixs": ixs})
                else:
                    break
                names = s["names"]
            if mops:
                model_reqs.append({"op": "body_ops", "backend": "numpy", "body": c09.model_body(j["case"]), "ops": mops})
                model_meta.append((info, mops, steps))
    outs = ctx.driver.run(model_reqs) if model_reqs else []
    for (info, mops, steps), mo in zip(model_meta, outs):
        ms = [s for s in mo["steps"] if set(s) != {"dimensions"}]
        ctx.count("model_sequences")
        for i in range(1, len(mops) + 1):
            if i >= len(ms) or "error" in ms[i]:
                ctx.violation("the model refuses an operation the implementation performs", dict(info, model_ops=mops), {"step": i}, False); break
            impl = steps[i]
            if 0 in impl["shape"]:
                break
            if ms[i]["shape"] == impl["shape"] and "conf" in impl and c09.rounding_zero_only(impl["missing"], ms[i]["missing"], impl["conf"], [bits_f64(x) for x in ms[i]["conf"]], impl["shape"]):
                ctx.count("rounding_zero_confidence_skips"); break
            if ms[i]["shape"] != impl["shape"] or ms[i]["missing"] != impl["missing"]:
                ctx.violation("shape / missing pattern after an operation differs from the model's", dict(info, model_ops=mops), {"step": i, "op": mops[i - 1]["k"], "impl_shape": impl["shape"], "model_shape": ms[i]["shape"]}, False); break


def replay(ctx, rep):
    c = rep.get("case") or rep.get("input")
    if not isinstance(c, dict) or "start" not in c:
        raise SystemExit("replay: re-run ./check C12 with VERIF_SEED=%s" % rep.get("seed"))
    res = run_child([c])[0] if c.get("allow_tf") else seqexec.run_sequence(c["case"], c["seed"], c["length"], c["start"], False, c.get("plan"))
    bad = [s for s in res["steps"] if s.get("broken")]
    print("replay:", bad[0]["broken"] if bad else (res.get("history") or res.get("roundtrip") or "well-formed after every step"))
    return 1 if bad or res.get("roundtrip") or res.get("history") else 0
