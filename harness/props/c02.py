"""C02 — written files follow the published v0.2 byte layout exactly."""
import copy, io
from .. import posecase as pc, refenc
from .c01 import impl_roundtrip, boundary_cases

RULE = ("representable poses from the C01 generator, body arrays in five memory layouts; writer direction: implementation bytes vs the Lean model's bytes vs an independent Python encoder written from docs/specs/v0.2.md "
        "(harness/refenc.py); reader direction: the reference-encoded file is read by the implementation and compared field by field with the encoded content, then re-written and "
        "compared byte for byte; non-trivial = representable, ≥1 component, distinct by canonical JSON")
ASSUMPTIONS = ["the two reference encoders (Lean specFile/Pose.write? and harness/refenc.py) are written from docs/specs, independently of pose_format"]


def run(ctx):
    from pose_format import Pose
    from pose_format.pose_header import PoseHeaderCache
    rng = ctx.rng
    cases = [c for c in boundary_cases(rng) if pc.representable(c) and pc.num_dims(c["header"]) and pc.num_dims(c["header"]) == c["body"]["dims"] and c["body"]["dims"] > 0]
    for _ in range(ctx.pick(400, 5000)):
        c = pc.gen_pose(rng, big=rng.random() < 0.02)
        if pc.representable(c):
            cases.append(c)
    # planned, every run: headers beyond the 10 KiB prefetch (many points / one very long name), each read right after a file whose header differs from it in the
    # last bytes only (`force_tail`)
    forced = set()
    for npts, longname in ((1300, 0), (3, 12000), (700, 6000)):
        big = pc.gen_pose(rng)
        comp = {"name": pc.hx("big"), "format": pc.hx("XYC"), "points": [pc.hx("p%04d" % j) for j in range(npts)], "limbs": [[0, 1]], "colors": [[1, 2, 3], [4, 5, 6]]}
        if longname:
            comp["points"][0] = pc.hx("n" * longname)
        big["header"] = dict(big["header"], components=[comp])
        big["body"] = pc.gen_body(rng, big["header"], frames=2, people=1)
        forced.add(len(cases)); cases.append(big)
    mws = ctx.driver.run([{"op": "write", "pose": c} for c in cases])
    refs = [refenc.v02(c) for c in cases]
    mrs = ctx.driver.run([{"op": "read", "hex": r.hex()} for r in refs])
    # the Lean reference encoder the theorems are about (Model/SpecEnc.lean `specFile`) against the independent Python encoder
    with_f32 = [(c, r) for c, r in zip(cases, refs) if "f32" in c["body"]["fps"]]
    for (c, r), ms in zip(with_f32, ctx.driver.run([{"op": "spec_file", "version": "v02", "pose": c, "fps_bits": c["body"]["fps"]["f32"]} for c, _ in with_f32])):
        ctx.count("spec_encoder:v0.2")
        if not ms.get("ok") or ms["hex"] != r.hex():
            ctx.violation("the Lean reference encoder (specFile) and the independent Python encoder produce different files", c if pc.case_size(c) < 3000 else {"note": "large case"}, {"model_hex": (ms.get("hex") or "")[:400], "python_hex": r.hex()[:400]}, False, size=pc.case_size(c))
    for ci, (case, mw, ref, mr) in enumerate(zip(cases, mws, refs, mrs)):
        force_tail = ci in forced
        size = pc.case_size(case)
        slim = case if size < 3000 else {"note": "large case", "size": size}
        ctx.evaluated(case, nontrivial=len(case["header"]["components"]) > 0)
        ctx.count("frames:%d" % min(case["body"]["frames"], 3)); ctx.count("dims:%d" % case["body"]["dims"])
        ctx.sample(slim)
        # the two independent encoders agree (sanity of the oracle itself)
        if not mw["ok"] or mw["hex"] != ref.hex():
            raise RuntimeError("reference encoders disagree: " + str(slim)[:500])
        # writer direction
        layout = rng.choice(["C", "C", "F", "T", "R", "S"])            # memory layout of the arrays handed to the writer: the file's order is the index order, whatever the memory order
        ctx.count("layout:" + layout)
        w, r = impl_roundtrip(case, layout=layout)
        if w[0] != "ok":
            ctx.violation("writer refuses a representable pose", slim, {"error": w[1]}, False, size=size)
        elif w[1] != ref:
            k = next(i for i in range(min(len(ref), len(w[1])) + 1) if i >= min(len(ref), len(w[1])) or ref[i] != w[1][i])
            ctx.violation("written bytes differ from the documented layout", slim,
                          {"first_differing_offset": k, "impl": w[1][max(0, k - 8):k + 24].hex(), "reference": ref[max(0, k - 8):k + 24].hex(),
                           "impl_len": len(w[1]), "reference_len": len(ref)}, True, size=size)
        # reader direction — in a fresh cache state, or right after a file that differs only in its dimensions / version field
        PoseHeaderCache.clear_cache()
        if rng.random() < 0.5 or force_tail:
            near = dict(case, header=dict(case["header"], width=(case["header"]["width"] + 1) % 65536, height=3))
            comps = case["header"]["components"]
            if comps and (rng.random() < 0.5 or force_tail):
                # … or only in the LAST bytes of the header (the last colour, limb or point name of the last component): whatever identifies a header has to cover all of it,
                # however long it is (headers beyond the 10 KiB prefetch included)
                last = copy.deepcopy(comps[-1])
                if last["colors"]:
                    last["colors"][-1][2] = (last["colors"][-1][2] + 1) % 65536
                elif last["limbs"]:
                    last["limbs"][-1][1] = (last["limbs"][-1][1] + 1) % 65536
                elif last["points"]:
                    nm = pc.unhx(last["points"][-1])
                    last["points"][-1] = pc.hx(nm[:-1] + ("y" if not nm.endswith("y") else "z") if nm else "y")
                near = dict(case, header=dict(case["header"], components=comps[:-1] + [last]))
                ctx.count("reader direction after a header differing in its last bytes")
            try:
                Pose.read(refenc.v02(near) if (rng.random() < 0.7 or force_tail) else refenc.header(case["header"], 0x3DCCCCCD) + b"\x19\x00\x00\x00\x01\x00")
            except Exception:
                pass
            ctx.count("reader direction after a near-identical header")
        try:
            got = Pose.read(ref)
        except Exception as e:
            ctx.violation("reference-encoded file is not read", slim, {"error": type(e).__name__, "hex": ref.hex()[:2000]}, True, size=size)
            continue
        d = pc.diff(pc.expected_readback(case), pc.canon_pose(got))
        if d:
            ctx.violation("reference-encoded file is read to different content", slim, {"first_difference": d}, True, size=size)
        # … and once more after the pose just returned was edited in place (dimensions, a point name): the file still reads to the content it encodes
        if rng.random() < 0.3:
            try:
                got.header.dimensions.width = (got.header.dimensions.width + 5) % 65536
                for comp in got.header.components:
                    if comp.points:
                        comp.points[0] = comp.points[0] + "_edited"; break
                again = Pose.read(ref)
                d2 = pc.diff(pc.expected_readback(case), pc.canon_pose(again))
                if d2:
                    ctx.violation("reference-encoded file is read to different content", slim, {"first_difference": d2, "after": "an in-place edit of the header of the pose read from the same file"}, True, size=size)
                ctx.count("reader direction after editing the previous result")
                got = again
            except Exception as e:
                ctx.violation("reference-encoded file is not read", slim, {"error": type(e).__name__, "after": "an in-place edit of the previous result"}, True, size=size)
                continue
        if not mr["ok"] or pc.diff(mr["pose"], pc.canon_pose(got)):
            ctx.violation("reader: implementation and model differ on a reference-encoded file", slim, {"d": pc.diff(mr.get("pose"), pc.canon_pose(got))}, False, size=size)
        buf = io.BytesIO()
        try:
            got.write(buf)
        except Exception as e:
            ctx.violation("re-writing what was read fails", slim, {"error": type(e).__name__}, True, size=size)
            continue
        if buf.getvalue() != ref:
            ctx.violation("re-writing what was read does not reproduce the file", slim, {"impl_len": len(buf.getvalue()), "reference_len": len(ref)}, True, size=size)


def replay(ctx, rep):
    raise SystemExit("replay: re-run ./check C02 with VERIF_SEED=%s" % rep.get("seed"))
