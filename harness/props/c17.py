"""C17 — feature representations equal their geometric definition on every backend."""
import json, math, os, subprocess, sys
import numpy as np
from .. import core, posecase as pc, reprexec
from ..mtexec import f64_bits, bits_f64

LEAN_MODULES = ["PoseVerif.Props.C17"]
RULE = ("point sets of shape (points 1–3, batch 1–2, length 1–3, 2 | 3 coordinates) with quarter-integer coordinates; (A) non-degenerate, unmasked: distance, X/Y angle, inner angle, point–line distance on torch, tensorflow and "
        "(distance) numpy against binary64 textbook formulas (‖p1−p2‖, atan(Δy/Δx), acos of the normalised dot product at p2, distance from p1 to the line p2p3) and against each other; (B) masked (torch, numpy): exactly 0 "
        "wherever any input point is missing, never NaN / ±inf, also with coincident points, vertical limbs and collinear triples placed next to and under the mask; points representation = (point·dims + dim, batch, len) "
        "transposition with 0 at missing points; (C) assembled representation on torch and tensorflow for random headers (1–3 components, limbs with at least one chain), input with one channel per format letter: output "
        "shape (batch, len, advertised size), advertised size = Σ modules × block size, limb / triple index lists = the header's limbs with component offsets / all chains (a,b),(b,c) in loop order, every block equal to "
        "its module applied to the gathered points; all compared with the Lean model (binary64); non-trivial = case with ≥ 1 masked point or ≥ 1 degenerate tuple, distinct by JSON")
ASSUMPTIONS = ["float32 results vs binary64 references: 2e-4 relative + 2e-4 absolute (point–line: Heron's formula, 2e-3)", "atan / acos are the platform's (the model takes them as parameters)",
               "tensorflow runs in a child process and has no masked variants: only clause (A) and the assembled layout apply to it"]


def run_tf(cases):
    if not cases:
        return []
    payload = "".join(json.dumps(c) + "\n" for c in cases)
    env = dict(os.environ, TF_CPP_MIN_LOG_LEVEL="3")
    r = subprocess.run([sys.executable, "-W", "ignore", "-m", "harness.reprexec"], input=payload, capture_output=True, text=True, timeout=3000, cwd=core.VERIF, env=env)
    lines = [l for l in r.stdout.splitlines() if l.startswith("{")]
    if len(lines) != len(cases):
        raise core.InfraError("tensorflow child returned %d of %d results: %s" % (len(lines), len(cases), r.stderr[-400:]))
    return [json.loads(l) for l in lines]


def gen_sets(rng, degenerate, masked):
    dims = rng.choice([2, 3])
    shape = [rng.randint(1, 3), rng.randint(1, 2), rng.randint(1, 3), dims]
    n = int(np.prod(shape[:-1]))
    while True:
        p = [np.array([rng.randint(-24, 24) / 4 for _ in range(n * dims)], dtype=np.float32).reshape(n, dims) for _ in range(3)]
        kinds = []
        for i in range(n):
            k = "regular"
            if degenerate and rng.random() < 0.5:
                k = rng.choice(["coincident12", "coincident23", "all_equal", "vertical", "collinear", "collinear_reversed"])
                if k == "coincident12": p[1][i] = p[0][i]
                elif k == "coincident23": p[2][i] = p[1][i]
                elif k == "all_equal": p[1][i] = p[0][i]; p[2][i] = p[0][i]
                elif k == "vertical": p[1][i][0] = p[0][i][0]
                elif k == "collinear": p[2][i] = p[1][i] + 2 * (p[1][i] - p[0][i])
                elif k == "collinear_reversed": p[2][i] = p[1][i] - 0.5 * (p[0][i] - p[1][i]) if False else p[0][i] + 0.5 * (p[1][i] - p[0][i])
            kinds.append(k)
        if degenerate:
            break
        # non-degenerate: distinct points, no vertical limb, not (nearly) collinear
        ok = True
        for i in range(n):
            a, b, c = p[0][i].astype(np.float64), p[1][i].astype(np.float64), p[2][i].astype(np.float64)
            u, w = a - b, c - b
            if np.linalg.norm(u) < 1 or np.linalg.norm(w) < 1 or np.linalg.norm(a - c) < 1 or abs(b[0] - a[0]) < 0.5:
                ok = False
            cr = np.linalg.norm(u) ** 2 * np.linalg.norm(w) ** 2 - float(u @ w) ** 2
            if cr < 0.25 * np.linalg.norm(u) ** 2 * np.linalg.norm(w) ** 2:
                ok = False
        if ok:
            break
    valid = [[(0 if (masked and rng.random() < 0.35) else 1) for _ in range(n)] for _ in range(3)]
    scale = 1.0
    if not degenerate and rng.random() < 0.4:                    # the same geometry at another scale (an exact power of two): lengths scale, angles do not
        scale = rng.choice([2.0 ** -7, 2.0 ** -10, 2.0 ** -13, 2.0 ** 6])
        p = [(q * np.float32(scale)).astype(np.float32) for q in p]
    return {"shape": shape, "masked": masked, "kinds": kinds, "scale": scale,
            "sets": [{"data": pc.f32_to_bits(p[j].reshape(-1)), "valid": valid[j]} for j in range(3)]}


def reference(case):
    sh = case["shape"]; D = sh[-1]
    P = [np.array(s["data"], dtype=np.uint32).view(np.float32).astype(np.float64).reshape(-1, D) for s in case["sets"]]
    a, b, c = P
    with np.errstate(all="ignore"):
        dist = np.sqrt(((a - b) ** 2).sum(-1))
        d = b - a
        angle = np.arctan(d[:, 1] / d[:, 0])
        u, w = a - b, c - b
        cosv = (u * w).sum(-1) / (np.sqrt((u * u).sum(-1)) * np.sqrt((w * w).sum(-1)))
        inner = np.arccos(np.clip(cosv, -1, 1))
        num = (u * u).sum(-1) * (w * w).sum(-1) - (u * w).sum(-1) ** 2
        pl = np.sqrt(np.maximum(num, 0)) / np.sqrt((w * w).sum(-1))
    return {"distance": dist, "angle": angle, "inner_angle": inner, "point_line": pl}


TOLS = {"distance": 2e-4, "angle": 2e-4, "inner_angle": 5e-4, "point_line": 2e-3}


def atol_of(name, case):
    """absolute tolerance: lengths are compared relative to the scale of the geometry, angles are scale-free"""
    return TOLS[name] * (case.get("scale", 1.0) if name in ("distance", "point_line") else 1.0)


def run(ctx):
    rng = ctx.rng
    tf_cases, tf_meta = [], []
    model_reqs, model_meta = [], []
    def bad(clause, info, detail, sig=None):
        ctx.violation(clause, info, detail, True, size=len(json.dumps(info)), signature=dict({"clause": clause}, **(sig or {})))
    # ---- (A) formulas, unmasked, non-degenerate; (B) masked / degenerate totality
    for it in range(ctx.pick(160, 1600)):
        mode = rng.choice(["formula", "formula", "masked", "degenerate_masked", "degenerate"])
        case = gen_sets(rng, degenerate=mode.startswith("degenerate"), masked=mode in ("masked", "degenerate_masked"))
        n = int(np.prod(case["shape"][:-1])); D = case["shape"][-1]
        ref = reference(case)
        allv = np.ones(n, dtype=bool)
        info = {"case": case, "mode": mode}
        nontrivial = mode != "formula"
        ctx.evaluated(json.dumps(case), nontrivial=True); ctx.count("mode:" + mode); ctx.count("dims:%d" % D); ctx.count("scale:%g" % case.get("scale", 1.0))
        for k in case["kinds"]:
            ctx.count("tuple:" + k)
        results = {"torch": reprexec.run_modules(case, "torch"), "numpy": reprexec.run_modules(case, "numpy")}
        P = [np.array(s_["data"], dtype=np.uint32).view(np.float32).astype(np.float64).reshape(-1, D) for s_ in case["sets"]]
        V = [np.array(s_["valid"], dtype=bool) if case["masked"] else np.ones(n, dtype=bool) for s_ in case["sets"]]
        model_reqs.append({"op": "represent", "tuples": [[{"v": [f64_bits(float(x)) for x in P[j][i]], "ok": bool(V[j][i])} for j in range(3)] for i in range(n)]})
        model_meta.append((info, results["torch"]))
        if mode == "formula":
            tf_cases.append(case); tf_meta.append((info, ref))
        for be, res in results.items():
            mod = res.pop("_inputs_modified", None)
            if mod is not None:
                bad("a representation modifies the points it is given (values or mask): the same points give another result the next time they are used", dict(info, backend=be), {"modified_inputs": mod}, {"clause": "inputs_modified", "backend": be})
            for name, r in res.items():
                sig = {"representation": name, "backend": be}
                if "error" in r:
                    bad("a representation raises on a well-shaped input", dict(info, backend=be), {"representation": name, "error": r["error"]}, sig); continue
                vals = reprexec.unb(r["values"])
                if name == "points":
                    pts = np.array(case["sets"][0]["data"], dtype=np.uint32).view(np.float32).astype(np.float64).reshape(case["shape"])
                    v0 = np.array(case["sets"][0]["valid"], dtype=bool).reshape(case["shape"][:-1])
                    want = np.where(v0[..., None], pts, 0.0) if case["masked"] else pts
                    want = want.transpose(0, 3, 1, 2).reshape(-1, case["shape"][1], case["shape"][2])
                    if r["shape"] != list(want.shape) or not np.array_equal(vals.reshape(want.shape), want):
                        bad("the points representation is not the (point·dims + dim, batch, len) arrangement of the zero-filled coordinates", dict(info, backend=be), {"shape": r["shape"], "want_shape": list(want.shape)}, sig)
                    continue
                nsets = 3 if name in ("inner_angle", "point_line") else 2
                valid = np.ones(n, dtype=bool)
                if case["masked"]:
                    for s in case["sets"][:nsets]:
                        valid &= np.array(s["valid"], dtype=bool)
                if r["shape"] != case["shape"][:-1]:
                    bad("a representation has the wrong output shape", dict(info, backend=be), {"representation": name, "shape": r["shape"]}, sig); continue
                if not np.isfinite(vals).all():
                    bad("a representation returns NaN or infinity", dict(info, backend=be), {"representation": name, "at": np.argwhere(~np.isfinite(vals)).reshape(-1)[:4].tolist(),
                                                                                           "kinds": [case["kinds"][i] for i in np.argwhere(~np.isfinite(vals)).reshape(-1)[:4]]}, sig); continue
                if (vals[~valid] != 0).any():
                    bad("a masked representation is not exactly 0 where an input point is missing", dict(info, backend=be), {"representation": name, "values": vals[~valid][:4].tolist()}, sig); continue
                if not mode.startswith("degenerate"):
                    w = ref[name]
                    okv = valid
                    if not np.allclose(vals[okv], w[okv], rtol=TOLS[name], atol=atol_of(name, case)):
                        i = int(np.argmax(np.abs(vals - w) * okv))
                        bad("a representation differs from its textbook formula", dict(info, backend=be), {"representation": name, "got": float(vals[i]), "want": float(w[i]), "index": i}, sig)
    # ---- tensorflow, and agreement between the backends on the same unmasked input
    outs = run_tf(tf_cases)
    for (info, ref), res in zip(tf_meta, outs):
        case = info["case"]
        tor = reprexec.run_modules(case, "torch")
        for name, r in res.items():
            sig = {"representation": name, "backend": "tf"}
            if "error" in r:
                bad("a representation raises on a well-shaped input", dict(info, backend="tf"), {"representation": name, "error": r["error"]}, sig); continue
            vals = reprexec.unb(r["values"])
            if not np.allclose(vals, ref[name], rtol=TOLS[name], atol=atol_of(name, case)):
                bad("a representation differs from its textbook formula", dict(info, backend="tf"), {"representation": name, "got": vals[:4].tolist(), "want": ref[name][:4].tolist()}, sig); continue
            if name in tor and "values" in tor[name] and not np.allclose(vals, reprexec.unb(tor[name]["values"]), rtol=TOLS[name], atol=atol_of(name, case)):
                bad("torch and tensorflow disagree on a representation", info, {"representation": name}, {"representation": name})
    mouts = ctx.driver.run(model_reqs) if model_reqs else []
    for (info, tor), mo in zip(model_meta, mouts):
        case = info["case"]
        ctx.count("model_cases")
        for name in ("distance", "angle", "inner_angle", "point_line"):
            if name not in tor or "values" not in tor[name]:
                continue
            got = reprexec.unb(tor[name]["values"])
            mv = np.array([bits_f64(t[name]) for t in mo["values"]])
            nsets = 3 if name in ("inner_angle", "point_line") else 2
            regular = np.array([k == "regular" for k in case["kinds"]])
            valid = np.ones(len(got), dtype=bool)
            if case["masked"]:
                for s_ in case["sets"][:nsets]:
                    valid &= np.array(s_["valid"], dtype=bool)
            cmp = regular | ~valid                                     # degenerate tuples: NaN → 0 decisions depend on float32 rounding
            if not np.allclose(got[cmp], mv[cmp], rtol=TOLS[name], atol=atol_of(name, case), equal_nan=True) or (mv[~valid] != 0).any():
                ctx.violation("a representation differs from its model", dict(info, representation=name), {"got": got[cmp][:4].tolist(), "model": mv[cmp][:4].tolist()}, False); break
    assembled(ctx, bad)


def gen_header(rng):
    ncomps = rng.randint(1, 3)
    fmt = rng.choice(["XYC", "XYZC"])
    comps = []
    for ci in range(ncomps):
        n = rng.randint(2, 5)
        limbs = []
        for _ in range(rng.randint(1, 5)):
            a, b = rng.sample(range(n), 2)
            limbs.append([a, b])
        comps.append({"name": "c%d" % ci, "points": ["p%d" % j for j in range(n)], "limbs": limbs, "format": fmt})
    # make sure there is at least one chain (a, b), (b, c)
    c0 = comps[0]
    n0 = len(c0["points"])
    if n0 >= 3:
        c0["limbs"] += [[0, 1], [1, 2]]
    else:
        c0["limbs"] += [[0, 1], [1, 0]]
    return {"components": comps}


def expected_indexes(h):
    l1, l2, off = [], [], 0
    for c in h["components"]:
        for a, b in c["limbs"]:
            l1.append(a + off); l2.append(b + off)
        off += len(c["points"])
    tri = [(p1, p2, p4) for p1, p2 in zip(l1, l2) for p3, p4 in zip(l1, l2) if p2 == p3]
    return l1, l2, [t[0] for t in tri], [t[1] for t in tri], [t[2] for t in tri]


def assembled(ctx, bad):
    rng = ctx.rng
    tf_cases, tf_meta = [], []
    layout_meta = []
    for it in range(ctx.pick(60, 600)):
        h = gen_header(rng)
        N = sum(len(c["points"]) for c in h["components"])
        C = len(h["components"][0]["format"])
        B, L = rng.randint(1, 2), rng.randint(1, 3)
        data = np.array([rng.randint(-24, 24) / 4 for _ in range(B * L * N * C)], dtype=np.float32)
        valid = [0 if rng.random() < 0.2 else 1 for _ in range(B * L * N)]
        be = rng.choice(["torch", "torch", "tf"])
        m2 = rng.sample(["distance", "angle"], rng.randint(0, 2))
        m3 = rng.sample(["inner_angle", "point_line"], rng.randint(0, 2))
        m1 = ["points"] * rng.randint(0, 1) if be == "torch" else []
        if not (m1 or m2 or m3):
            m2 = ["distance"]
        case = {"kind": "assembled", "header": h, "shape": [B, L, N, C], "data": pc.f32_to_bits(data), "valid": valid if be == "torch" else [1] * (B * L * N), "modules": [m1, m2, m3]}
        info = {"case": case, "backend": be}
        ctx.evaluated(json.dumps(case), nontrivial=True); ctx.count("assembled:" + be)
        if be == "tf":
            tf_cases.append(case); tf_meta.append(info)
        else:
            r_ = reprexec.run_assembled(case, "torch")
            layout_meta.append((info, r_))
            check_assembled(ctx, bad, info, r_)
    tf_res = run_tf(tf_cases)
    subs, owners = [], []
    for info in tf_meta:
        case = info["case"]
        l1, l2, t1, t2, t3 = expected_indexes(case["header"])
        B, L, N, C = case["shape"]
        data = np.array(case["data"], dtype=np.uint32).view(np.float32).reshape(B, L, N, C); pts = data.transpose(2, 0, 1, 3)
        mk = lambda ixs_list: {"shape": [len(ixs_list[0]), B, L, C], "masked": False, "sets": [{"data": pc.f32_to_bits(pts[ix].reshape(-1)), "valid": [1] * (len(ix) * B * L)} for ix in (ixs_list + [ixs_list[0]] * (3 - len(ixs_list)))]}
        if case["modules"][1] and l1:
            subs.append(mk([l1, l2])); owners.append((id(info), "limb"))
        if case["modules"][2] and t1:
            subs.append(mk([t1, t2, t3])); owners.append((id(info), "tri"))
    sub_res = dict(zip(owners, run_tf(subs))) if subs else {}
    for info, res in zip(tf_meta, tf_res):
        layout_meta.append((info, res))
        check_assembled(ctx, bad, info, res, {k[1]: v for k, v in sub_res.items() if k[0] == id(info)})
    reqs = [{"op": "rep_layout", "components": [{"name": pc.hx(c["name"]), "format": pc.hx(c["format"]), "points": [pc.hx(p) for p in c["points"]], "limbs": c["limbs"], "colors": [[255, 0, 0]]}
             for c in info["case"]["header"]["components"]], "n1": len(info["case"]["modules"][0]), "n2": len(info["case"]["modules"][1]), "n3": len(info["case"]["modules"][2])} for info, _ in layout_meta]
    for (info, res), mo in zip(layout_meta, ctx.driver.run(reqs) if reqs else []):
        ctx.count("model_layouts")
        if "error" in res:
            continue
        if mo["limbs"] != res["limbs"] or mo["triangles"] != res["triangles"] or mo["output_size"] != res["output_size"]:
            ctx.violation("limb / triple index lists or the advertised size differ from the model's", info, {"model": mo, "impl": {k: res[k] for k in ("limbs", "triangles", "output_size")}}, False)
    # ---- end to end: the whole output tensor against the Lean model `poseRepresentation` (Float), entry by entry
    freqs = []
    for info, res in layout_meta:
        case = info["case"]
        B, L, N, C = case["shape"]
        data = np.array(case["data"], dtype=np.uint32).view(np.float32).astype(np.float64)
        freqs.append({"op": "rep_forward", "components": [{"name": pc.hx(c["name"]), "format": pc.hx(c["format"]), "points": [pc.hx(p) for p in c["points"]], "limbs": c["limbs"], "colors": [[255, 0, 0]]}
                                                            for c in case["header"]["components"]],
                      "n1": len(case["modules"][0]), "m2": case["modules"][1], "m3": case["modules"][2], "shape": case["shape"],
                      "data": [f64_bits(float(x)) for x in data], "valid": [int(x) for x in case["valid"]]})
    for (info, res), mo in zip(layout_meta, ctx.driver.run(freqs) if freqs else []):
        if "error" in res:
            continue
        case = info["case"]
        ctx.count("model_forward")
        if not mo.get("ok"):
            ctx.violation("the model's constructor refuses a header the implementation accepts", info, {}, False); continue
        if mo["shape"] != res["shape"]:
            ctx.violation("the assembled output's shape differs from the model's", info, {"model": mo["shape"], "impl": res["shape"]}, False); continue
        B, L, N, C = case["shape"]
        got = reprexec.unb(res["values"], res["shape"]); mv = np.array([bits_f64(x) for x in mo["values"]]).reshape(mo["shape"])
        data = np.array(case["data"], dtype=np.uint32).view(np.float32).astype(np.float64).reshape(B, L, N, C)
        valid = np.array(case["valid"], dtype=bool).reshape(B, L, N)
        l1, l2, t1, t2, t3 = expected_indexes(case["header"])
        cols = []                                                              # per output column: (tolerance, points involved)
        for _ in case["modules"][0]:
            cols += [(0.0, (n,)) for n in range(N) for _c in range(C)]
        for name in case["modules"][1]:
            cols += [(TOLS[name], (a, b)) for a, b in zip(l1, l2)]
        for name in case["modules"][2]:
            cols += [(TOLS[name], (a, b, c)) for a, b, c in zip(t1, t2, t3)]
        if len(cols) != got.shape[2]:
            continue                                                           # size clause already reported above
        for e, (tol, pts_) in enumerate(cols):
            ok = np.ones((B, L), dtype=bool)
            for n in pts_:
                ok &= valid[:, :, n]
            if len(pts_) == 1:
                regular = np.ones((B, L), dtype=bool)
            elif len(pts_) == 2:
                regular = (data[:, :, pts_[0]] != data[:, :, pts_[1]]).any(axis=-1)
                if info["backend"] == "tf":                                     # a vertical limb is a degenerate input: tensorflow divides with divide_no_nan (0), torch / the model give atan(±inf)
                    regular &= data[:, :, pts_[0], 0] != data[:, :, pts_[1], 0]
            else:
                u = data[:, :, pts_[0]] - data[:, :, pts_[1]]; w = data[:, :, pts_[2]] - data[:, :, pts_[1]]
                regular = ((u * u).sum(-1) * (w * w).sum(-1) - (u * w).sum(-1) ** 2) > 1e-9       # neither coincident nor collinear (NaN → 0 decisions there depend on float32 rounding)
            g, m = got[:, :, e], mv[:, :, e]
            if ((g != 0) | (m != 0))[~ok].any():
                ctx.violation("an entry of the assembled output is not 0 although one of its points is missing (implementation or model)", dict(info, column=e), {"impl": g[~ok][:4].tolist(), "model": m[~ok][:4].tolist()}, False); break
            cmp = ok & regular
            if not np.allclose(g[cmp], m[cmp], rtol=tol, atol=tol, equal_nan=True):
                ctx.violation("an entry of the assembled output differs from the model's", dict(info, column=e), {"impl": g[cmp][:4].tolist(), "model": m[cmp][:4].tolist(), "points": list(pts_)}, False); break


def check_assembled(ctx, bad, info, res, tf_direct=None):
    case, be = info["case"], info["backend"]
    sig = {"backend": be}
    if "error" in res:
        bad("the assembled representation raises on input with one channel per format letter", info, {"error": res["error"]}, sig); return
    h = case["header"]
    B, L, N, C = case["shape"]
    l1, l2, t1, t2, t3 = expected_indexes(h)
    m1, m2, m3 = case["modules"]
    want_size = len(m1) * N * C + len(m2) * len(l1) + len(m3) * len(t1)
    if res["output_size"] != want_size or res["shape"] != [B, L, want_size]:
        bad("the assembled representation does not have the advertised output size", info, {"advertised": res["output_size"], "shape": res["shape"], "expected": want_size}, sig); return
    if res["limbs"] != [l1, l2] or res["triangles"] != [t1, t2, t3]:
        bad("limb / joint-triple index lists are not the ones implied by the header's components and limbs", info, {"limbs": res["limbs"], "expected": [l1, l2]}, sig); return
    out = reprexec.unb(res["values"], res["shape"])                     # (B, L, E)
    data = np.array(case["data"], dtype=np.uint32).view(np.float32).reshape(B, L, N, C)
    valid = np.array(case["valid"], dtype=bool).reshape(B, L, N)
    pts = data.transpose(2, 0, 1, 3); vv = valid.transpose(2, 0, 1)          # (N, B, L, C)
    def sets(ixs_list):
        n = len(ixs_list[0])
        return {"shape": [n, B, L, C], "masked": be == "torch", "sets": [{"data": pc.f32_to_bits(pts[ix].reshape(-1)), "valid": [int(x) for x in vv[ix].reshape(-1)]} for ix in ixs_list] + ([{"data": pc.f32_to_bits(pts[ixs_list[0]].reshape(-1)), "valid": [int(x) for x in vv[ixs_list[0]].reshape(-1)]}] * (3 - len(ixs_list)))}
    pos = 0
    blocks = []
    for name in m1:
        r = reprexec.run_modules(sets([list(range(N))]), be)[name]; blocks.append((name, N * C, r))
    for name in m2:
        blocks.append((name, len(l1), None if not l1 else ("limb", name)))
    for name in m3:
        blocks.append((name, len(t1), None if not t1 else ("tri", name)))
    direct = {}
    if m2 and l1:
        direct["limb"] = reprexec.run_modules(sets([l1, l2]), be) if be == "torch" else None
    if m3 and t1:
        direct["tri"] = reprexec.run_modules(sets([t1, t2, t3]), be) if be == "torch" else None
    if be == "tf":
        direct.update(tf_direct or {})
    for name, size, src in blocks:
        blk = out[:, :, pos:pos + size].transpose(2, 0, 1)                  # (size, B, L)
        r = src if isinstance(src, dict) else (direct[src[0]][src[1]] if src else None)
        if r is not None:
            if "error" in r:
                bad("a module raises inside the assembled representation's own gather", info, {"module": name, "error": r["error"]}, sig); return
            want = reprexec.unb(r["values"], r["shape"])
            if want.shape != blk.shape or not np.array_equal(np.nan_to_num(want, nan=12345.0), np.nan_to_num(blk, nan=12345.0)):
                bad("a block of the assembled representation is not its module applied to the points the header implies", info, {"module": name, "position": pos}, dict(sig, module=name)); return
        pos += size


def replay(ctx, rep):
    raise SystemExit("replay: re-run ./check C17 with VERIF_SEED=%s" % rep.get("seed"))
