"""C08 — NumPy, PyTorch and TensorFlow bodies hold the same pose."""
import json, math, os, subprocess, sys
import numpy as np
from .. import core, posecase as pc, refenc, bodyexec
from ..mtexec import f64_bits, bits_f64

RULE = ("v0.2 files with 1..4 coordinate dimensions, 0..3 people, 0..4 frames, confidences incl. −0.0, negative, NaN, subnormal; each read into NumPyPoseBody, TorchPoseBody and TensorflowPoseBody, "
        "converted from the NumPy body with torch() / tensorflow(), and (files with ≥ 2 frames) read as a frame window from a stream straight into each class; then a random sequence of the shared operations (get_points, select_frames, frame slices body[a:b:step] with bounds on both sides of 0 and of the frame count, slice_step, matmul with a square matrix, zero_filled, copy, flatten) "
        "on every backend that offers them; views (shape, fps, confidences, missing pattern, zero-filled coordinates) compared pairwise (oracle) and with the Lean model; tensorflow runs in a child process; "
        "non-trivial = file with ≥ 1 point and ≥ 1 frame, distinct by (file, route, ops)")
ASSUMPTIONS = ["tensorflow CPU kernels flush subnormal numbers to zero: subnormal confidences are not generated (they would be 'zero' for tensorflow only); flatten() of an empty body raises on NumPy and torch alike and is not generated",
               "extents behind an empty axis (e.g. the number of points of a body with 0 frames) are not visible in the model's nested-list representation: get_points is generated for bodies with ≥ 1 frame and person",
               "in this sandbox tf.matmul of a rank-4 tensor with batch shape (F > 1, 1) by a rank-2 matrix aborts the interpreter: tensorflow matmul is exercised with people ≥ 2 or one frame only",
               "values are compared within 1e-5 relative after arithmetic (matmul, fps division); exactly otherwise"]

OPS_BY_BACKEND = {"numpy": {"get_points", "select_frames", "slice_step", "slice", "matmul", "zero_filled", "copy", "flatten"},
                  "torch": {"get_points", "select_frames", "slice_step", "slice", "matmul", "zero_filled", "copy", "flatten"},
                  "tf": {"get_points", "select_frames", "slice_step", "slice", "matmul", "zero_filled", "copy"}}


def slice_indexes(op, f):
    return list(range(*slice(op["a"], op["b"], op["step"]).indices(f)))


def model_ops(ops, f):
    """the model's instruction list (frame slices are modelled natively: Model/PoseOps.lean `pySliceIndexes` is Python's `slice.indices` for positive steps)"""
    return ops


def gen_case(rng):
    dims = rng.choice([1, 2, 2, 3, 3, 4])
    fmt = {1: "XC", 2: "XYC", 3: "XYZC", 4: "XYZWC"}[dims]
    ncomps = rng.choice([1, 2])
    comps = [pc.gen_comp(rng, fmt=fmt, npoints=rng.choice([1, 2, 3])) for _ in range(ncomps)]
    h = {"version": pc.V02, "width": 10, "height": 10, "depth": 0, "components": comps}
    F, P = rng.choice([0, 1, 2, 3, 4]), rng.choice([0, 1, 1, 2, 3])
    N = pc.total_points(h)
    subnormal = rng.random() < 0.15                    # binary32 subnormal confidences (±1.4e-45 … 5.9e-39): not 0, hence present
    body = {"fps": {"f32": rng.choice([0x41C80000, 0x41F00000, 0x41EFC28F])}, "frames": F, "people": P, "points": N, "dims": dims,
            "data": [int(np.float32(rng.randint(-5, 5)).view(np.uint32)) if rng.random() < 0.8 else pc.f32_bits(rng) for _ in range(F * P * N * dims)],
            "conf": [rng.choice([0, 0x80000000, 0x3F800000, 0x3F000000, 0xBF800000, 0x7FC00000, 0x00800000, 0x3DCCCCCD] + ([0x00000001, 0x00400000, 0x80000400] if subnormal else [])) for _ in range(F * P * N)]}
    case = {"header": h, "body": body}
    ops = []
    f, n = F, N
    for _ in range(rng.randint(0, 4)):
        k = rng.choice(["get_points", "select_frames", "slice_step", "slice", "matmul", "zero_filled", "copy", "flatten"])
        if k == "get_points" and n > 0 and f > 0 and P > 0:
            ixs = [rng.randrange(n) for _ in range(rng.randint(1, 4))]; ops.append({"k": k, "ixs": ixs}); n = len(ixs)
        elif k == "select_frames" and f > 0:
            ixs = [rng.randrange(f) for _ in range(rng.randint(1, 4))]
            if rng.random() < 0.4:            # a contiguous block in shuffled order (end points span exactly len − 1)
                a = rng.randrange(f); ixs = list(range(a, min(f, a + rng.randint(1, 4)))); rng.shuffle(ixs)
            ops.append({"k": k, "ixs": ixs}); f = len(ixs)
        elif k == "slice_step":
            by = rng.choice([1, 2, 3]); ops.append({"k": k, "by": by}); f = (f + by - 1) // by
        elif k == "slice":
            bound = lambda: rng.choice([None, 0, 1, -1, -2, f, f + 2, -f, -f - 1, rng.randint(-f - 1, f + 1)])
            op = {"k": k, "a": bound(), "b": bound(), "step": rng.choice([None, 1, 1, 2, 3])}
            ops.append(op); f = len(slice_indexes(op, f))
        elif k == "matmul" and (P >= 2 or f <= 1) and P > 0 and n > 0 and f > 0:
            m = [[float(rng.randint(-2, 2)) for _ in range(dims)] for _ in range(dims)]
            fam = rng.random()
            if fam < 0.25:                         # projections: one or more all-zero columns / rows (an axis dropped), down to the zero matrix
                for j in rng.sample(range(dims), rng.randint(1, dims)):
                    for r in m:
                        r[j] = 0.0
            elif fam < 0.35:
                for j in rng.sample(range(dims), rng.randint(1, dims)):
                    m[j] = [0.0] * dims
            elif fam < 0.45:                       # permutation / sign flips
                perm = list(range(dims)); rng.shuffle(perm)
                m = [[(rng.choice([1.0, -1.0]) if perm[i] == j else 0.0) for j in range(dims)] for i in range(dims)]
            ops.append({"k": k, "m": [[f64_bits(x) for x in r] for r in m]})
        elif k == "copy" or (k == "flatten" and f * P * n > 0):
            ops.append({"k": k})
        elif k == "zero_filled":
            ops.append({"k": k}); break              # torch / tensorflow leave a plain tensor in body.data: end of the sequence
    return case, ops


def close_bits(a, b, exact, f32_overflow=False, scale=1.0):
    """`f32_overflow`: model (binary64) against implementation (binary32) after arithmetic — a value that left the binary32 range on either side
    (±inf, NaN from inf·0 or inf−inf, or beyond 1e30) is not compared: the two arithmetics legitimately part ways there"""
    if a == b:
        return True
    x, y = bits_f64(a), bits_f64(b)
    if f32_overflow and not exact and (not math.isfinite(x) or not math.isfinite(y) or abs(x) > 1e30 or abs(y) > 1e30):
        return True
    if not exact and not math.isfinite(x) and not math.isfinite(y):
        return True        # after arithmetic both sides left the binary32 range: inf, −inf and NaN (inf − inf in another summation order) all say "overflowed"
    if math.isnan(x) or math.isnan(y):
        return math.isnan(x) and math.isnan(y)
    if exact:
        return x == y
    return abs(x - y) <= 1e-5 * max(1.0, abs(x), abs(y), scale)


def subnormal_only(case, va, vb):
    """do the missing patterns of two views differ only at points whose stored confidence is a binary32 subnormal? (known finding K5: tensorflow's kernels flush
    subnormals to zero, so `confidence != 0` is False there)"""
    if va.get("missing") is None or vb.get("missing") is None or len(va["missing"]) != len(vb["missing"]) or va.get("shape") != vb.get("shape"):
        return False
    d = va["shape"][3] if len(va["shape"]) > 3 else 1
    diff_pts = {i // max(d, 1) for i, (x, y) in enumerate(zip(va["missing"], vb["missing"])) if x != y}
    if not diff_pts:
        return False
    sub = lambda bits64: 0 < abs(bits_f64(bits64)) < 1.1754943508222875e-38
    return all(j < len(va["conf"]) and sub(va["conf"][j]) for j in diff_pts)


def same_view(a, b, exact=True, f32_overflow=False, scale=1.0):
    if "error" in a or "error" in b:
        return ("error" in a) == ("error" in b), "one side raises"
    if "rows" in a or "rows" in b:
        if "rows" not in a or "rows" not in b or len(a["rows"]) != len(b["rows"]):
            return False, "flatten rows differ in number"
        for r1, r2 in zip(a["rows"], b["rows"]):
            if len(r1) != len(r2) or not all(close_bits(x, y, False, f32_overflow, scale) for x, y in zip(r1, r2)):
                return False, "a flatten row differs"
        return True, None
    def norm(sh):                 # extents after an empty axis cannot be told apart (nothing is stored): compare up to the first 0
        return sh[:sh.index(0) + 1] if 0 in sh else sh
    if norm(a["shape"]) != norm(b["shape"]):
        return False, "shape %s vs %s" % (a["shape"], b["shape"])
    if not close_bits(a["fps"], b["fps"], False):
        return False, "fps"
    if not all(close_bits(x, y, True) for x, y in zip(a["conf"], b["conf"])):
        return False, "confidence"
    if a["missing"] is not None and b["missing"] is not None and a["missing"] != b["missing"]:
        return False, "missing pattern"
    if not all(close_bits(x, y, exact, f32_overflow, scale) for x, y in zip(a["zf"], b["zf"])):
        return False, "zero-filled coordinates"
    return True, None


def run_tf(cases):
    payload = "".join(json.dumps(c) + "\n" for c in cases)
    r = subprocess.run([sys.executable, "-W", "ignore", "-m", "harness.bodyexec", "tf"], input=payload, capture_output=True, text=True, timeout=3000, cwd=core.VERIF,
                       env=dict(os.environ, TF_CPP_MIN_LOG_LEVEL="3", CUDA_VISIBLE_DEVICES=""))
    outs = [json.loads(l) for l in r.stdout.splitlines() if l.strip()]
    if r.returncode != 0 or len(outs) != len(cases):
        raise core.InfraError("tensorflow worker died (exit %s, %d of %d answers): %s" % (r.returncode, len(outs), len(cases), r.stderr[-800:]))
    return outs


def run(ctx):
    rng = ctx.rng
    cases = []
    # planned cases, every run: NaN / +inf / −inf / a huge value stored at the coordinates of missing points (confidence ±0) next to present ones, and each
    # shared operation that has to deal with them as the first operation
    planned = []
    for opl in ([{"k": "zero_filled"}], [{"k": "copy"}, {"k": "zero_filled"}], [{"k": "select_frames", "ixs": [1, 0]}, {"k": "zero_filled"}], [{"k": "get_points", "ixs": [1, 0]}], [{"k": "slice_step", "by": 2}, {"k": "zero_filled"}]):
        for dims in (2, 3):
            case, _ = gen_case(rng)
            while not (case["body"]["frames"] >= 2 and case["body"]["people"] >= 1 and case["body"]["points"] >= 2 and case["body"]["dims"] == dims):
                case, _ = gen_case(rng)
            b = case["body"]
            garbage = [0x7FC00000, 0x7F800000, 0xFF800000, 0x7F7FFFFF]
            for j in range(b["frames"] * b["people"] * b["points"]):
                if j % 3 == 1:
                    b["conf"][j] = rng.choice([0, 0x80000000])
                    for d in range(dims):
                        b["data"][j * dims + d] = garbage[(j + d) % 4]
                else:
                    b["conf"][j] = 0x3F800000
                    for d in range(dims):
                        b["data"][j * dims + d] = int(np.float32(rng.randint(-5, 5)).view(np.uint32))
            planned.append((case, opl))
    # known finding K5, exercised on every run: subnormal confidences (present on NumPy / torch, flushed to zero — hence missing — by tensorflow's kernels)
    case, _ = gen_case(rng)
    while not (case["body"]["frames"] >= 1 and case["body"]["people"] >= 1 and case["body"]["points"] >= 2):
        case, _ = gen_case(rng)
    case["body"]["conf"] = [[0x00000001, 0x3F800000, 0x00400000, 0x80000400][j % 4] for j in range(len(case["body"]["conf"]))]
    planned.append((case, []))
    for it in range(ctx.pick(150, 1500) + len(planned)):
        case, ops = planned[it] if it < len(planned) else gen_case(rng)
        raw = refenc.v02(case)
        for route in ("read", "convert"):
            vals = np.array(case["body"]["data"], dtype=np.uint32).view(np.float32).astype(np.float64)
            vals = np.abs(vals[np.isfinite(vals)])
            cases.append({"hex": raw.hex(), "route": route, "ops": ops, "shape": [case["body"][k] for k in ("frames", "people", "points", "dims")], "case": case,
                          "maxabs": float(vals.max()) if vals.size else 1.0})
        b = case["body"]
        if b["frames"] >= 2 and rng.random() < 0.6:
            # third route: a frame window read from a stream straight into each body class; the model gets the slice
            s0 = rng.randrange(b["frames"] - 1); e0 = rng.randint(s0 + 1, b["frames"])
            per = b["people"] * b["points"]
            sub = dict(b, frames=e0 - s0, data=b["data"][s0 * per * b["dims"]:e0 * per * b["dims"]], conf=b["conf"][s0 * per:e0 * per])
            fops = [o for o in ops if o["k"] not in ("select_frames", "slice")]            # frame indexes / slices chosen for the full file do not apply to the window (a slice may leave it empty)
            cases.append({"hex": raw.hex(), "route": "read_window", "window": [s0, e0], "ops": fops, "shape": [e0 - s0, b["people"], b["points"], b["dims"]],
                          "case": {"header": case["header"], "body": sub}, "maxabs": float(vals.max()) if vals.size else 1.0})
    results = {}
    for be in ("numpy", "torch"):
        results[be] = [bodyexec.run_case(c, be) for c in cases]
    results["tf"] = run_tf([{k: c[k] for k in ("hex", "route", "ops", "window") if k in c} for c in cases])
    # model (one run per backend: the constructors differ)
    model = {}
    for be in ("numpy", "torch", "tf"):
        reqs = []
        for c in cases:
            b = c["case"]["body"]
            f64 = lambda bits: [f64_bits(float(x)) for x in np.array(bits, dtype=np.uint32).view(np.float32)]
            reqs.append({"op": "body_ops", "backend": be, "body": {"fps": f64([b["fps"]["f32"]])[0], "shape": c["shape"], "data": f64(b["data"]), "conf": f64(b["conf"])}, "ops": model_ops(c["ops"], c["shape"][0])})
        model[be] = ctx.driver.run(reqs)
    for i, c in enumerate(cases):
        info = {"file_hex": c["hex"] if len(c["hex"]) < 4000 else None, "shape": c["shape"], "route": c["route"], "window": c.get("window"), "ops": c["ops"]}
        F, P, N, D = c["shape"]
        ctx.evaluated((c["hex"], c["route"], json.dumps(c["ops"])), nontrivial=F > 0 and N > 0)
        ctx.count("dims:%d" % D); ctx.count("route:" + c["route"])
        for op in c["ops"]:
            ctx.count("op:" + op["k"])
        if len(ctx.samples) < 2:
            ctx.sample({"shape": c["shape"], "route": c["route"], "ops": c["ops"]})
        steps = {be: results[be][i] for be in results}
        nsteps = 1 + len(c["ops"])
        for n in range(nsteps):
            opname = "construct" if n == 0 else c["ops"][n - 1]["k"]
            avail = [be for be in steps if n < len(steps[be]) and (n == 0 or opname in OPS_BY_BACKEND[be])]
            exact = opname not in ("matmul",) and not any(o["k"] == "matmul" for o in c["ops"][:n])
            stop = False
            for be in avail:
                if "error" in steps[be][n]:
                    ctx.violation("a shared operation raises on one backend", info, {"backend": be, "step": n, "operation": opname, "error": steps[be][n]["error"]}, True, size=len(c["hex"]),
                                  signature={"op": opname, "backend": be})
                    stop = True
            if stop:
                break
            for be in avail[1:]:
                nm = sum(1 for o in c["ops"][:n] if o["k"] == "matmul")
                ok, why = same_view(steps[avail[0]][n], steps[be][n], exact, scale=c["maxabs"] * (8.0 ** nm) if c["maxabs"] < 1e30 else 1.0)
                if not ok:
                    sig = {"op": opname, "what": why}
                    if be == "tf" and why in ("missing pattern", "zero-filled coordinates") and subnormal_only(c, steps[avail[0]][n], steps[be][n]):
                        sig = {"what": "subnormal confidence", "backend": "tf"}
                    ctx.violation("backends disagree", info, {"step": n, "operation": opname, "backends": [avail[0], be], "what": why}, True, size=len(c["hex"]), signature=sig)
                    stop = True
            # confidence-zero ⇔ missing in all dimensions
            v = steps["numpy"][n] if n < len(steps["numpy"]) else None
            if v and "missing" in v and v["missing"] is not None and not any(o["k"] == "zero_filled" for o in c["ops"][:n]):
                d = v["shape"][3]
                for j, cbits in enumerate(v["conf"]):
                    want = 1 if bits_f64(cbits) == 0 else 0
                    if any(m != want for m in v["missing"][j * d:(j + 1) * d]):
                        ctx.violation("a point is not missing in all its dimensions exactly when its confidence is 0", info, {"step": n, "operation": opname, "point": j}, True, size=len(c["hex"]), signature={"op": opname, "what": "conf-zero"})
                        stop = True; break
            for be in avail:
                m = model[be][i]["steps"]
                if n >= len(m) or "error" in m[n]:
                    ctx.violation("model refuses an operation the implementation performs", info, {"backend": be, "step": n, "operation": opname}, False, size=len(c["hex"])); stop = True; continue
                # after matrix products the rounding error of binary32 is relative to the operands, not to a result that may have cancelled: scale by the
                # largest finite input magnitude times the growth of the products so far (entries ≤ 2 in absolute value, ≤ 4 columns)
                nmat = sum(1 for o in c["ops"][:n] if o["k"] == "matmul")
                ok, why = same_view(m[n], steps[be][n], exact, f32_overflow=True, scale=c["maxabs"] * (8.0 ** nmat))
                if ok and "data" in m[n] and "data" in steps[be][n] and exact and opname != "matmul":
                    ok = all(close_bits(x, y, True) for x, y in zip(m[n]["data"], steps[be][n]["data"])); why = "raw coordinates"
                if not ok:
                    if be == "tf" and subnormal_only(c, m[n], steps[be][n]):
                        ctx.violation("backends disagree", info, {"step": n, "operation": opname, "backends": ["model", be], "what": why}, True, size=len(c["hex"]), signature={"what": "subnormal confidence", "backend": "tf"})
                    else:
                        ctx.violation("a backend differs from its model", info, {"backend": be, "step": n, "operation": opname, "what": why}, False, size=len(c["hex"]))
                    stop = True
            if stop:
                break


def replay(ctx, rep):
    raise SystemExit("replay: re-run ./check C08 with VERIF_SEED=%s" % rep.get("seed"))
