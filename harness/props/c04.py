"""C04 — files in the older v0.0 and v0.1 layouts decode to what their spec describes."""
import io, struct
import numpy as np
from .. import posecase as pc, refenc
from .c03 import impl_read, slice_pose

RULE = ("reference-encoded v0.1 files (any header of the C01 space with ≥1 person and ≥1 point, frame counts 1..5 and 65 535 / 65 536 / 70 000, on-disk count = frames mod 2^16) and v0.0 files "
        "(variable people per frame incl. none, person ids incl. negative, 1–3 coordinate dimensions); bytes and stream sources; full reads and windows; version fields: the three accepted patterns, "
        "their float32 neighbours, patterns inside and just outside the 3-decimal rounding bands, 0.3, 1.0, 0.15, NaN, ±inf, −0.1, −0.0, subnormals; decoded poses are re-written as v0.2 and read back; "
        "non-trivial = distinct (file, window, source)")
ASSUMPTIONS = ["a version is identified up to 3 decimals (the code's round(v, 3)): float32 patterns inside the rounding band of 0.1 / 0.2 count as that version",
               "v0.0 re-write equivalence is stated for confidences that are ±0 or > 0 (valid OpenPose confidences); negative / NaN confidences are compared with the model only",
               "v0.1 frame counts are derived from the payload size: files with trailing bytes are outside the reference encoder's range"]

V00 = 0


def gen_v01(rng, frames, small=False):
    while True:
        if small:
            h = {"version": pc.V01, "width": 5, "height": 6, "depth": 0, "components": [{"name": pc.hx("c"), "format": pc.hx("XC"), "points": [pc.hx("p")], "limbs": [], "colors": []}]}
        else:
            h = pc.gen_header(rng)
            h["version"] = pc.V01
        d = pc.num_dims(h)
        if d and d >= 1 and pc.total_points(h) >= 1:
            break
    people = 1 if small else rng.choice([1, 1, 2, 3])
    body = pc.gen_body(rng, h, frames=frames, people=people)
    body["fps"] = {"int": rng.choice([24, 25, 30, 0, 1, 65535])}
    return {"header": h, "body": body}


def gen_v00(rng, valid=True):
    L = rng.choice([2, 3, 3, 4])
    fmt = "XYZC"[4 - L:] if L < 4 else "XYZC"
    fmt = {2: "XC", 3: "XYC", 4: "XYZC"}[L]
    ncomps = rng.choice([1, 2, 3])
    comps = [pc.gen_comp(rng, fmt=fmt, npoints=rng.choice([0, 1, 2, 4]) if ncomps > 1 else rng.choice([1, 2, 4])) for _ in range(ncomps)]
    if not valid and rng.random() < 0.5 and ncomps > 1:
        comps[1]["format"] = pc.hx(rng.choice(["XC", "XYC", "XYZC", "C", ""]))
    h = {"version": V00, "width": rng.choice([0, 640]), "height": rng.choice([0, 480]), "depth": 0, "components": comps}
    nframes = rng.choice([1, 1, 2, 3, 5]) if valid else rng.choice([0, 1, 2])
    frames = []
    for _ in range(nframes):
        people = []
        for _ in range(rng.choice([0, 1, 1, 2, 3])):
            pid = rng.choice([0, 1, -1, 7, 32767, -32768])
            rows = []
            for c in comps:
                Lc = len(pc.unhx(c["format"]))
                rr = []
                for _ in c["points"]:
                    row = [pc.f32_bits(rng) for _ in range(max(Lc - 1, 0))]
                    if Lc >= 1:
                        conf = pc.conf_bits(rng, 0.3)
                        if valid:
                            conf = rng.choice([0, 0x80000000, 0x3F800000, 0x3F000000, 0x3DCCCCCD, 0x00000001])
                        row.append(conf)
                    rr.append(row)
                rows.append(rr)
            people.append((pid, rows))
        frames.append(people)
    return h, rng.choice([24, 30, 0, 65535]), frames


def v00_expected(h, fps, frames):
    """what the spec says a v0.0 file holds, as Python keeps it: the first person of each frame, frames without people empty"""
    L = len(pc.unhx(h["components"][0]["format"]))
    pts = pc.total_points(h)
    data, conf = [], []
    for people in frames:
        if people:
            for rows in people[0][1]:
                for row in rows:
                    data += row[:-1]
                    conf.append(row[-1])
        else:
            data += [0] * (pts * (L - 1))
            conf += [0] * pts
    return {"header": h, "body": {"fps": {"int": fps}, "frames": len(frames), "people": 1, "points": pts, "dims": L - 1, "data": data, "conf": conf}}


def quiet(bits):
    """float32 → float64 → float32 conversions (v0.0 frames are stacked with float64 zeros) quiet signalling NaNs: ignore the quiet bit of NaNs"""
    return [b | 0x00400000 if (b & 0x7F800000) == 0x7F800000 and (b & 0x007FFFFF) else b for b in bits]


def strip_missing(p):
    b = {k: v for k, v in p["body"].items() if k != "missing"}
    b["data"] = quiet(b["data"]); b["conf"] = quiet(b["conf"])
    return {"header": p["header"], "body": b}


def content_equal_after_rewrite(a, b):
    """same content up to the v0.2 conversion: version := 0.2, integer fps → the same number as float32"""
    a = strip_missing(a); b = strip_missing(b)
    a["header"] = dict(a["header"], version=pc.V02)
    fa = a["body"]["fps"]
    if "int" in fa:
        a["body"] = dict(a["body"], fps={"f32": int(np.float32(fa["int"]).view(np.uint32))})
    return pc.diff(a, b)


def rewrite(raw, clear_between=False):
    """read a legacy file, write it (v0.2), read that back — in one process, as a converter would"""
    from pose_format import Pose
    from pose_format.pose_header import PoseHeaderCache
    PoseHeaderCache.clear_cache()
    p = Pose.read(raw)
    buf = io.BytesIO()
    p.write(buf)
    if clear_between:
        PoseHeaderCache.clear_cache()
    return buf.getvalue(), pc.canon_pose(Pose.read(buf.getvalue()))


def run(ctx):
    rng = ctx.rng
    reqs, meta = [], []
    def both(raw, window, tag, expect=None, info=None):
        for reader in ("bytes", "stream"):
            if reader == "stream" and not window:
                w = {"start_frame": 0}              # forces the stream reader; for v0.0 the bound is ignored, for v0.1 it is the whole recording
            else:
                w = window
            res = impl_read(raw, reader, w, None)
            ctx.evaluated((raw, tuple(sorted(w.items())), reader)); ctx.count(f"{tag}:{reader}:{res[0]}")
            if expect is not None:
                if res[0] != "ok":
                    ctx.violation(f"{tag}: a valid legacy file is not decoded", dict(info or {}, window=w, reader=reader, hex=raw.hex() if len(raw) < 3000 else None), {"error": res[1]}, True, size=len(raw), signature={"tag": tag, "reader": reader})
                else:
                    d = pc.diff(strip_missing(expect), strip_missing(res[1]))
                    if d:
                        ctx.violation(f"{tag}: decoded values differ from the stored ones", dict(info or {}, window=w, reader=reader, hex=raw.hex() if len(raw) < 3000 else None), {"first_difference": d}, True, size=len(raw), signature={"tag": tag, "reader": reader})
            reqs.append({"op": "read", "hex": raw.hex(), "reader": reader, "window": w})
            meta.append((raw, w, reader, tag, res))
    spec_reqs, spec_meta = [], []
    # ---- v0.1
    sizes = [1, 2, 3, 5] + ([65536] if not ctx.thorough() else [65535, 65536, 70000])
    for k in range(ctx.pick(25, 200)):
        F = rng.choice(sizes[:4]) if k >= len(sizes) else sizes[k]
        case = gen_v01(rng, F, small=F > 100)
        raw = refenc.v01(case)
        if len(raw) < 200000:
            spec_reqs.append({"op": "spec_file", "version": "v01", "pose": case, "fps": case["body"]["fps"]["int"], "frames_field": F % 65536}); spec_meta.append(("v0.1", raw))
        exp = {"header": case["header"], "body": case["body"]}
        info = {"frames": F, "people": case["body"]["people"], "points": case["body"]["points"], "dims": case["body"]["dims"]}
        ctx.sample(dict(info, layout="v0.1", file_bytes=len(raw)))
        both(raw, {}, "v0.1 full", exp, info)
        for _ in range(3):
            s = rng.randrange(0, F)
            e = rng.choice([s + 1, F, F + 2, rng.randint(s, F)])
            both(raw, {"start_frame": s, "end_frame": e}, "v0.1 window", slice_pose(dict(exp, body=dict(exp["body"], missing=[0] * len(exp["body"]["conf"]))), s, e), info)
        if F < 100:
            try:
                raw2, back = rewrite(raw, clear_between=rng.random() < 0.3)
                d = content_equal_after_rewrite(exp, back)
                if d:
                    ctx.violation("v0.1: re-written file does not read back to the same content", dict(info, hex=raw.hex() if len(raw) < 3000 else None), {"first_difference": d}, True, size=len(raw))
            except Exception as ex:
                ctx.violation("v0.1: decoded pose cannot be re-written", dict(info, hex=raw.hex() if len(raw) < 3000 else None), {"error": type(ex).__name__}, True, size=len(raw))
    # ---- v0.0
    for k in range(ctx.pick(60, 600)):
        valid = rng.random() < 0.8
        h, fps, frames = gen_v00(rng, valid)
        raw = refenc.v00(h, fps, frames)
        spec_reqs.append({"op": "spec_file", "version": "v00", "header": h, "fps": fps,
                          "frames": [[{"id": pid % 65536, "blocks": [[x for row in rows for x in row] for rows in comps_]} for pid, comps_ in people] for people in frames]}); spec_meta.append(("v0.0", raw))
        info = {"layout": "v0.0", "frames": len(frames), "people_per_frame": [len(p) for p in frames], "valid": valid}
        if k < 2:
            ctx.sample(dict(info, file_bytes=len(raw)))
        if valid:
            exp = v00_expected(h, fps, frames)
            both(raw, {}, "v0.0 full", exp, info)
            both(raw, {"start_frame": 1, "end_frame": 2}, "v0.0 window-ignored", None, info)
            try:
                raw2, back = rewrite(raw, clear_between=rng.random() < 0.3)
                d = content_equal_after_rewrite(exp, back)
                if d:
                    ctx.violation("v0.0: re-written file does not read back to the same content", dict(info, hex=raw.hex() if len(raw) < 3000 else None), {"first_difference": d}, True, size=len(raw))
            except Exception as ex:
                ctx.violation("v0.0: decoded pose cannot be re-written", dict(info, hex=raw.hex() if len(raw) < 3000 else None), {"error": type(ex).__name__}, True, size=len(raw))
        else:
            both(raw, {}, "v0.0 irregular", None, info)
    # v0.0 recordings larger than the 10 KiB prefetch, and reads with this header already cached
    from pose_format.pose_header import PoseHeaderCache
    for k in range(ctx.pick(4, 30)):
        h, fps, frames = gen_v00(rng, True)
        while pc.total_points(h) == 0:
            h, fps, frames = gen_v00(rng, True)
        frames = (frames * (12000 // max(1, len(refenc.v00(h, fps, frames))) + 2))[:65535]
        raw = refenc.v00(h, fps, frames)
        exp = v00_expected(h, fps, frames)
        info = {"layout": "v0.0", "frames": len(frames), "file_bytes": len(raw)}
        both(raw, {}, "v0.0 large", exp, info)
        both(raw, {"start_frame": 1, "end_frame": 3}, "v0.0 large window-ignored", exp, info)
        for reader in ("bytes", "stream"):
            res = impl_read(raw, reader, {"start_frame": 0}, raw)                     # warm cache: this header was read just before
            ctx.evaluated((raw, "warm", reader)); ctx.count(f"v0.0 warm:{reader}:{res[0]}")
            if res[0] != "ok" or pc.diff(strip_missing(exp), strip_missing(res[1])):
                ctx.violation("v0.0 warm cache: a valid legacy file is not decoded to the stored values", dict(info, reader=reader), {"result": res[0] if res[0] != "ok" else pc.diff(strip_missing(exp), strip_missing(res[1]))}, True, size=len(raw), signature={"tag": "v0.0 warm", "reader": reader})
    # ---- version dispatch
    base = pc.gen_pose(rng, frames=2, people=1, ncomps=1, same_format="XYC")
    while not pc.representable(base) or pc.total_points(base["header"]) == 0:
        base = pc.gen_pose(rng, frames=2, people=1, ncomps=1, same_format="XYC")
    body02 = refenc.v02(base)[len(refenc.header(base["header"], pc.V02)):]
    def band(bits):
        v = float(np.array([bits], np.uint32).view(np.float32)[0])
        if v == 0: return "0"
        if not np.isfinite(v): return "other"
        r = round(v, 3)
        return "0.1" if r == 0.1 else "0.2" if r == 0.2 else "other"
    patterns = [0x3E4CCCCD, 0x3E4CCCCC, 0x3E4CCCCE, 0x3DCCCCCD, 0x3DCCCCCC, 0x3DCCCCCE, 0, 0x80000000, 1, 0x3E99999A, 0x3F800000, 0x3E19999A, 0x7FC00000, 0x7F800000, 0xFF800000,
                0xBDCCCCCD, 0xBE4CCCCD, 0x3E4D35A8, 0x3E4C6A7F, 0x3E4C49BA, 0x3E4D4FDF, 0x3DCBC6A8, 0x3DCDD2F2, 0x3DCB4396, 0x3DCE5604, 0x3A83126F, 0x40000000]
    patterns += [int(np.float32(rng.uniform(0.0, 0.4)).view(np.uint32)) for _ in range(ctx.pick(20, 300))]
    for bits in patterns:
        raw = refenc.header(base["header"], bits) + body02
        for reader, w in (("bytes", {}), ("stream", {"start_frame": 0})):
            res = impl_read(raw, reader, w, None)
            cls = band(bits)
            ctx.evaluated((bits, reader)); ctx.count(f"version:{cls}:{res[0]}")
            if cls == "other" and res[0] == "ok":
                ctx.violation("a file declaring an unknown version was decoded", {"version_bits": bits, "reader": reader, "hex": raw.hex()}, {}, True, size=1, signature={"version_bits": bits})
            reqs.append({"op": "read", "hex": raw.hex(), "reader": reader, "window": w})
            meta.append((raw, w, reader, "version", res))
    # ---- the Lean reference encoders (Model/SpecEnc.lean, the ones the decode theorems are about) against the independent Python encoder
    for (layout, raw), mo in zip(spec_meta, ctx.driver.run(spec_reqs)):
        ctx.count("spec_encoder:" + layout)
        if not mo.get("ok") or mo["hex"] != raw.hex():
            ctx.violation(f"{layout}: the Lean reference encoder and the independent Python encoder produce different files", {"layout": layout, "hex": raw.hex() if len(raw) < 3000 else None}, {"model_hex": (mo.get("hex") or "")[:400]}, False, size=len(raw))
    # ---- correspondence
    outs = ctx.driver.run(reqs)
    for (raw, w, reader, tag, res), mo in zip(meta, outs):
        info = {"tag": tag, "file_bytes": len(raw), "hex": raw.hex() if len(raw) < 3000 else None, "window": w, "reader": reader}
        if (res[0] == "ok") != bool(mo["ok"]):
            ctx.violation(f"{tag}: implementation and model disagree on success", info, {"impl": res[:2] if res[0] != "ok" else "ok", "model_ok": mo["ok"]}, False, size=len(raw))
        elif res[0] == "ok":
            mp = mo["pose"]
            if tag.startswith("v0.0"):
                mp = dict(strip_missing(mp), body=dict(strip_missing(mp)["body"], missing=mp["body"]["missing"]))
                res = (res[0], dict(strip_missing(res[1]), body=dict(strip_missing(res[1])["body"], missing=res[1]["body"]["missing"])))
            d = pc.diff(mp, res[1])
            if d:
                ctx.violation(f"{tag}: implementation and model return different poses", info, {"d": d}, False, size=len(raw))


def replay(ctx, rep):
    raise SystemExit("replay: re-run ./check C04 with VERIF_SEED=%s" % rep.get("seed"))
