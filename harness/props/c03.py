"""C03 — a frame or time window read equals the same slice of a full read."""
import io, math
import numpy as np
from .. import posecase as pc, refenc

LEAN_MODULES = ["PoseVerif.Props.C03"]
RULE = ("v0.2 files with frame payloads from 12 B to several KiB and total sizes on both sides of the 10 240 + 100 byte prefetch; all windows of small files, sampled windows of large ones "
        "(start/end frames, end beyond the total, empty windows, equivalent start/end times at several frame rates); sources {bytes, stream}; header cache {empty, this header, a shorter/longer foreign header}; "
        "bytes pulled from the stream are counted by a wrapper; compared: windowed read vs slice of the full read (oracle on the implementation), and value + bytes pulled vs the Lean stream-reader model; "
        "non-trivial = distinct (file, window, source, cache)")
ASSUMPTIONS = ["io.BytesIO read/seek/tell semantics; a stream positioned at offset 0", "time→frame mapping is evaluated in binary64 exactly as Python does (Lean Float in the driver, abstract in the theorems)"]


class CountingBytesIO(io.BytesIO):
    def __init__(self, raw):
        super().__init__(raw)
        self.pulled = 0

    def read(self, *a):
        r = super().read(*a)
        self.pulled += len(r)
        return r


def impl_read(raw, reader, window, cache):
    """('ok', canonical pose, bytes pulled) or ('error', exception type)"""
    from pose_format import Pose
    from pose_format.pose_header import PoseHeaderCache
    PoseHeaderCache.clear_cache()
    if cache is not None:
        try:
            Pose.read(cache)
        except Exception:
            pass
    kw = {k: v for k, v in window.items() if v is not None}
    try:
        if reader == "bytes":
            return ("ok", pc.canon_pose(Pose.read(raw, **kw)), None)
        src = CountingBytesIO(raw)
        p = Pose.read(src, **kw)
        return ("ok", pc.canon_pose(p), src.pulled)
    except Exception as e:
        return ("error", type(e).__name__, None)


_END = {}


def cache_end(cache):
    """end offset the header cache holds after reading `cache` (None = empty cache)"""
    if cache is None:
        return None
    if cache not in _END:
        from pose_format import Pose
        from pose_format.pose_header import PoseHeaderCache
        PoseHeaderCache.clear_cache()
        Pose.read(cache)
        _END[cache] = PoseHeaderCache.end_offset
    return _END[cache]


def slice_pose(full, s, e):
    b = full["body"]
    F = b["frames"]
    s, e = max(s, 0), min(e, F)
    rowD, rowC = b["people"] * b["points"] * b["dims"], b["people"] * b["points"]
    nb = dict(b, frames=e - s, data=b["data"][s * rowD:e * rowD], conf=b["conf"][s * rowC:e * rowC], missing=b["missing"][s * rowC:e * rowC])
    return {"header": full["header"], "body": nb}


def header_len(case):
    return len(refenc.header(case["header"], pc.V02))


def make_file(rng, frames, points, people=1, dims=2, fps=None, ncomps=1, long_names=False):
    fmt = {1: "XC", 2: "XYC", 3: "XYZC"}[dims]
    comps = []
    left = points
    for i in range(ncomps):
        n = left if i == ncomps - 1 else max(1, left // 2)
        left -= n
        name = ("component_%d_" % i) + ("x" * rng.choice([200, 5000, 11000]) if long_names else "")
        comps.append({"name": pc.hx(name), "format": pc.hx(fmt), "points": [pc.hx("p%d" % j) for j in range(n)], "limbs": [[0, 0]], "colors": [[1, 2, 3]]})
    h = {"version": pc.V02, "width": 100, "height": 200, "depth": 0, "components": comps}
    body = pc.gen_body(rng, h, frames=frames, people=people, fps=fps or rng.choice([0x41C80000, 0x41F00000, 0x41EFC28F, 0x41C00000, 0x3F000000, 0x447A0000]), pzero=0.2)
    return {"header": h, "body": body}


def time_sweep(F, fps):
    """every frame boundary k/fps (k = 0…F+1) in whole milliseconds, one below and one above, as a start and as an end of a time window:
    where floor / ceil of time × fps changes value, whatever the frame rate (non-integer rates included)"""
    ws = []
    ts = sorted({max(0, int(k * 1000 / fps) + d) for k in range(0, F + 2) for d in (-1, 0, 1, 2)})
    for t in ts:
        ws += [{"start_time": t}, {"end_time": t}]
    for a, b in zip(ts, ts[3:]):
        ws.append({"start_time": a, "end_time": b})
    return ws


def windows_for(rng, F, fps_bits, exhaustive, sweep=False):
    fps = float(np.array([fps_bits], np.uint32).view(np.float32)[0])
    ws = []
    if sweep:
        return time_sweep(F, fps)
    if exhaustive:
        for s in range(0, F + 1):
            for e in list(range(s, F + 2)) + [None]:
                ws.append({"start_frame": s, "end_frame": e})
        ws += [{"start_frame": None, "end_frame": e} for e in range(0, F + 2)]
    else:
        for _ in range(10):
            s = rng.choice([0, 1, rng.randrange(F), F - 1])
            e = rng.choice([None, s, s + 1, F, F + 5, rng.randint(s, F)])
            ws.append({"start_frame": s, "end_frame": e})
        ws.append({"start_frame": None, "end_frame": rng.randint(0, F)})
    # rejected combinations
    ws += [{"start_frame": F, "end_frame": None}, {"start_frame": F + 3, "end_frame": F + 5}, {"start_frame": 2, "end_frame": 1} if F > 2 else {"start_frame": F + 1, "end_frame": None},
           {"start_frame": 1, "start_time": 10}, {"end_frame": 1, "end_time": 10}, {"start_frame": -1, "end_frame": 1}, {"start_frame": 0, "end_frame": -1}]
    # time windows
    dur_ms = int(F / fps * 1000) if fps > 0 and math.isfinite(fps) else 1000
    for _ in range(6 if exhaustive else 4):
        a = rng.randint(0, max(dur_ms - 1, 0))
        b = rng.choice([a, a + 1, dur_ms, dur_ms + 500, rng.randint(a, max(dur_ms, a))])
        ws.append(rng.choice([{"start_time": a, "end_time": b}, {"start_time": a}, {"end_time": b}, {"start_time": a, "end_frame": F}, {"start_frame": 0, "end_time": b}]))
    return ws


def resolve(window, fps_bits):
    """the frame window a time window denotes, by the property's definition (floor / ceil of time × fps)"""
    fps = float(np.array([fps_bits], np.uint32).view(np.float32)[0])
    s, e = window.get("start_frame"), window.get("end_frame")
    if window.get("start_time") is not None:
        s = math.floor(window["start_time"] / 1000 * fps)
    if window.get("end_time") is not None:
        e = math.ceil(window["end_time"] / 1000 * fps)
    return s, e


def run(ctx):
    rng = ctx.rng
    files = []
    # small files (exhaustive windows): 12-byte frames upward
    for frames, points, people, dims in [(3, 1, 1, 2), (4, 2, 1, 2), (5, 3, 2, 3), (2, 1, 1, 1), (6, 5, 1, 2)][:ctx.pick(4, 5)]:
        files.append((make_file(rng, frames, points, people, dims), True))
    # time sweeps at frame rates that are not whole numbers (and one that is): every frame boundary in milliseconds
    for fps_bits in (0x41EFC28F, 0x41480000, 0x41C80000, 0x3FC00000):          # 29.97, 12.5, 25, 1.5
        files.append((make_file(rng, 7, 2, 1, 2, fps=fps_bits), "sweep"))
    # around the prefetch: total size just below / at / above 10 240 + 100, frame payloads of ~0.1–3 KiB
    for frames, points, people, dims in [(8, 137, 1, 2), (10, 150, 1, 2), (9, 160, 1, 2), (40, 21, 2, 3), (200, 137, 1, 2), (30, 543, 1, 3), (5, 543, 2, 3)][:ctx.pick(5, 7)]:
        files.append((make_file(rng, frames, points, people, dims, ncomps=rng.choice([1, 2])), False))
    # header longer than the prefetch
    files.append((make_file(rng, 6, 4, 1, 2, ncomps=2, long_names=True), False))
    if ctx.thorough():
        for _ in range(20):
            files.append((make_file(rng, rng.choice([3, 7, 25, 100]), rng.choice([1, 5, 33, 137]), rng.choice([1, 2]), rng.choice([1, 2, 3]), ncomps=rng.choice([1, 2]), long_names=rng.random() < 0.2), rng.random() < 0.2))
    # exact total sizes around the prefetch boundary
    for target in ([10339, 10340, 10341] if not ctx.thorough() else [10239, 10240, 10241, 10339, 10340, 10341, 10342]):
        base = make_file(rng, 4, 10, 1, 2)
        raw0 = len(refenc.v02(base))
        pad = target - raw0
        if pad > 0:
            base["header"]["components"][0]["name"] = pc.hx("n" * (pad + len(pc.unhx(base["header"]["components"][0]["name"]))))
        files.append((base, False))
    short_foreign = refenc.v02(make_file(rng, 1, 1))
    long_foreign = refenc.v02(make_file(rng, 1, 2, ncomps=2, long_names=True))
    reqs, meta = [], []
    for case, exhaustive in files:
        raw = refenc.v02(case)
        F = case["body"]["frames"]
        # files that differ from this one in a few header bytes only: other dimensions, other version (a v0.1 recording with the same skeleton)
        near_dims = refenc.v02({"header": dict(case["header"], width=case["header"]["width"] + 1, depth=7), "body": case["body"]})
        v01body = dict(pc.gen_body(rng, case["header"], frames=2, people=1), fps={"int": 25})
        near_version = refenc.v01({"header": case["header"], "body": v01body})
        full = impl_read(raw, "bytes", {}, None)
        assert full[0] == "ok", full
        hl = header_len(case)
        b = case["body"]
        row = b["people"] * b["points"] * (b["dims"] + 1) * 4
        sweep = exhaustive == "sweep"
        exhaustive = exhaustive is True
        ctx.sample({"file_bytes": len(raw), "frames": F, "frame_bytes": row, "header_bytes": hl, "exhaustive_windows": exhaustive, "time_sweep": sweep})
        ctx.count("file>prefetch" if len(raw) > 10340 else "file<=prefetch")
        for w in windows_for(rng, F, b["fps"]["f32"], exhaustive and (F <= 4 or ctx.thorough()), sweep):
            for reader in ("bytes", "stream"):
                caches = [("empty", None), ("same", raw), ("shorter", short_foreign), ("longer", long_foreign), ("near_dims", near_dims), ("near_version", near_version)]
                if not exhaustive or reader == "bytes":
                    caches = [caches[0], rng.choice(caches[1:])]
                for cname, cache in caches:
                    res = impl_read(raw, reader, w, cache)
                    ctx.evaluated((raw, tuple(sorted(w.items(), key=str)), reader, cname))
                    ctx.count(f"{reader}:{cname}:{res[0]}")
                    check_oracle(ctx, case, raw, full[1], w, reader, cname, cache, res, hl, row)
                    reqs.append({"op": "read", "hex": raw.hex(), "reader": reader, "window": w, "cache": None if cache is None else {"hex": cache.hex()}})
                    meta.append((raw, w, reader, cname, res))
    outs = ctx.driver.run(reqs)
    for (raw, w, reader, cname, res), mo in zip(meta, outs):
        info = {"file_bytes": len(raw), "hex": raw.hex() if len(raw) < 2500 else None, "window": w, "reader": reader, "cache": cname}
        if (res[0] == "ok") != bool(mo["ok"]):
            ctx.violation("windowed read: implementation and model disagree on success", info, {"impl": res[:2] if res[0] != "ok" else "ok", "model_ok": mo["ok"]}, False, size=len(raw))
        elif res[0] == "ok":
            d = pc.diff(mo["pose"], res[1])
            if d:
                ctx.violation("windowed read: implementation and model return different poses", info, {"d": d}, False, size=len(raw))
            elif reader == "stream" and mo.get("pulled") != res[2]:
                ctx.violation("stream read: bytes pulled differ from the model's", info, {"impl": res[2], "model": mo.get("pulled")}, False, size=len(raw))


def w_any(w):
    return any(v is not None for v in w.values())


def check_oracle(ctx, case, raw, full, w, reader, cname, cache, res, hl, row):
    F = case["body"]["frames"]
    info = {"file_bytes": len(raw), "hex": raw.hex() if len(raw) < 2500 else None, "case": case if len(raw) < 2500 else None, "window": w, "reader": reader, "cache": cname}
    conflict = (w.get("start_time") is not None and w.get("start_frame") is not None) or (w.get("end_time") is not None and w.get("end_frame") is not None)
    try:
        s, e = resolve(w, case["body"]["fps"]["f32"])
    except (ValueError, OverflowError):
        return
    s0 = 0 if s is None else s
    e0 = F if e is None else e
    if conflict or (s0 >= F and s0 > 0):
        if res[0] == "ok":
            ctx.violation("a conflicting or out-of-range window was not rejected", info, {"frames_returned": res[1]["body"]["frames"]}, True, size=len(raw))
        return
    if s0 < 0 or e0 < s0:
        return                                   # outside the quantified windows (0 <= start <= end): only the correspondence applies
    want = slice_pose(full, s0, e0)
    if res[0] != "ok":
        ctx.violation("a valid window read raises", info, {"error": res[1]}, True, size=len(raw), signature={"reader": reader})
        return
    d = pc.diff(want, res[1])
    if d:
        ctx.violation("a window read differs from the slice of the full read", info, {"first_difference": d}, True, size=len(raw), signature={"reader": reader})
    if reader == "stream" and w_any(w):
        n = min(e0, F) - s0
        # the bound of theorem C03.consumption_bound: prefetch hint (10 KiB, or the cached header's end offset, + 100) + bytes decoded
        hint = (cache_end(cache) or 10240) + 100
        bound = hint + hl + 10 + n * row
        if res[2] > bound:
            ctx.violation("a windowed stream read consumed more than header + window + bounded prefetch", info, {"pulled": res[2], "bound": bound, "file": len(raw)}, True, size=len(raw),
                          signature={"clause": "consumption"})


def replay(ctx, rep):
    raise SystemExit("replay: re-run ./check C03 with VERIF_SEED=%s" % rep.get("seed"))
