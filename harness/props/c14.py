"""C14 — interpolation resamples time faithfully and never invents observations."""
import json, math
import numpy as np
import numpy.ma as ma
from .. import posecase as pc
from ..mtexec import f64_bits, bits_f64

RULE = ("a systematic sweep of single tracks (every frame count 3–9 × every index of the first / last observation, same and doubled rate), then NumPy bodies with 2–9 frames, 1–2 people, 1–4 points, 2-D; per-point observation patterns {never, once at start / middle / end, prefix, suffix, gaps, two, three, four, all}; target rates {same, ×2, ÷2, ×1.5, ×0.7, ×3}; "
        "kinds {linear, quadratic, cubic}; trajectories: random dyadic and affine in time; checked on the implementation: frame count and rate, end-point alignment, identity at the same rate, affine exactness (1e-4), "
        "support between a track's first and last observation only, linear within the neighbouring observations; linear kind compared value by value (1e-9) with the Lean model; non-trivial = distinct (body, rate, kind)")
ASSUMPTIONS = ["scipy.interpolate.interp1d: linear kind modelled by its formula; the spline construction of the quadratic / cubic kinds is not modelled (implementation-only checks, tolerance 1e-4)",
               "np.linspace grids are evaluated in binary64 by the driver exactly as numpy does"]

PATTERNS = ["never", "once_start", "once_mid", "once_end", "prefix", "suffix", "gaps", "two", "three", "four", "all"]


def pattern(rng, name, F):
    obs = [False] * F
    if name == "once_start": obs[0] = True
    elif name == "once_mid": obs[F // 2] = True
    elif name == "once_end": obs[-1] = True
    elif name == "prefix": obs[:max(1, F // 2)] = [True] * max(1, F // 2)
    elif name == "suffix": obs[F // 2:] = [True] * (F - F // 2)
    elif name == "gaps": obs = [i % 2 == 0 for i in range(F)]
    elif name in ("two", "three", "four"):
        k = min(F, {"two": 2, "three": 3, "four": 4}[name])
        for i in rng.sample(range(F), k): obs[i] = True
    elif name == "all": obs = [True] * F
    return obs


def gen(rng, affine):
    F, P, N, D = rng.randint(2, 9), rng.randint(1, 2), rng.randint(1, 4), 2
    data = np.zeros((F, P, N, D), dtype=np.float32); conf = np.zeros((F, P, N), dtype=np.float32)
    pats = {}
    for p in range(P):
        for n in range(N):
            name = rng.choice(PATTERNS); pats[(p, n)] = name
            obs = pattern(rng, name, F)
            a = [rng.randint(-8, 8) / 4 for _ in range(D)]; b0 = [rng.randint(-8, 8) / 2 for _ in range(D)]
            for f in range(F):
                if obs[f]:
                    conf[f, p, n] = 1.0 if affine else rng.choice([0.25, 0.5, 1.0])
                    data[f, p, n] = [a[d] * f + b0[d] for d in range(D)] if affine else [rng.randint(-16, 16) / 4 for _ in range(D)]
                else:
                    data[f, p, n] = [rng.choice([0.0, 99.0]) for _ in range(D)]           # garbage under the mask
    return data, conf, pats


def run(ctx):
    from pose_format.numpy import NumPyPoseBody
    rng = ctx.rng
    reqs, meta = [], []
    # a systematic sweep first: every (frame count, index of the first / last observation) of a single track at the same and at the doubled rate — the grid points
    # i / (F − 1) are where index arithmetic and float rounding meet
    sweep = [(F, k, side) for F in range(3, 10) for k in range(1, F - 1) for side in ("from", "until")]
    for it in range(ctx.pick(150, 2000)):
        affine = rng.random() < 0.5
        data, conf, pats = gen(rng, affine)
        fps = rng.choice([10.0, 24.0, 25.0, 30.0])
        ratio = rng.choice([1.0, 2.0, 0.5, 1.5, 0.7, 3.0])
        kind = rng.choice(["linear", "linear", "quadratic", "cubic"])
        if it < len(sweep):
            F, k, side = sweep[it]
            data = np.zeros((F, 1, 1, 2), dtype=np.float32); conf = np.zeros((F, 1, 1), dtype=np.float32)
            obs = range(k, F) if side == "from" else range(0, k + 1)
            for f in range(F):
                data[f, 0, 0] = [0.5 * f + 1.0, -0.25 * f] if f in obs else [99.0, 0.0]
                conf[f, 0, 0] = 1.0 if f in obs else 0.0
            pats, affine = {(0, 0): "sweep_%s" % side}, True
            ratio, kind = (1.0 if it % 2 == 0 else 2.0), "linear"
        F, P, N, D = data.shape
        new_fps = fps * ratio
        body = NumPyPoseBody(fps, data.copy(), conf.copy())
        info = {"frames": F, "people": P, "points": N, "fps": fps, "new_fps": new_fps, "kind": kind, "affine": affine, "patterns": {"%d,%d" % k: v for k, v in pats.items()},
                "data": data.tolist(), "conf": conf.tolist()}
        ctx.evaluated(json.dumps([info["data"], info["conf"], new_fps, kind])); ctx.count("kind:" + kind); ctx.count("ratio:%s" % ratio)
        for v in pats.values():
            ctx.count("pattern:" + v)
        if len(ctx.samples) < 2:
            ctx.sample({k: info[k] for k in ("frames", "people", "points", "fps", "new_fps", "kind", "patterns")})
        def bad(clause, detail):
            ctx.violation(clause, info, detail, True, size=data.size, signature={"clause": clause, "kind": kind})
        try:
            res = body.interpolate(new_fps=new_fps, kind=kind)
        except Exception as e:
            bad("interpolate raises", {"error": type(e).__name__ + ": " + str(e)[:100]}); continue
        rd, rm, rc = np.asarray(res.data.data, dtype=np.float64), np.asarray(ma.getmaskarray(res.data)), np.asarray(res.confidence, dtype=np.float64)
        # interpolation is a function of the body: the body is left as it was, and asking again gives the same answer
        try:
            res2 = body.interpolate(new_fps=new_fps, kind=kind)
            same = (np.array_equal(ma.getmaskarray(res2.data), rm) and np.array_equal(np.asarray(res2.confidence, dtype=np.float64), rc, equal_nan=True)
                    and np.array_equal(np.where(rm, 0, np.asarray(res2.data.data, dtype=np.float64)), np.where(rm, 0, rd), equal_nan=True))
        except Exception:
            same = False
        src_ok = (np.array_equal(np.asarray(body.data.data), data) and np.array_equal(np.asarray(body.confidence), conf)
                  and np.array_equal(ma.getmaskarray(body.data), np.repeat((conf == 0)[..., None], D, axis=3)) and float(body.fps) == float(fps))
        if not (same and src_ok):
            bad("interpolate changes the body it is applied to, or gives another result the second time", {"source_unchanged": bool(src_ok), "second_result_equal": bool(same)}); continue
        newF = round(F * new_fps / fps)
        if rd.shape != (newF, P, N, D) or float(res.fps) != float(new_fps):
            bad("frame count / rate of the result", {"shape": list(rd.shape), "want_frames": newF, "fps": float(res.fps)}); continue
        steps, nsteps = np.linspace(0, 1, F), np.linspace(0, 1, newF)
        failed = False
        for p in range(P):
            for n in range(N):
                obs = conf[:, p, n] != 0
                track_missing = rm[:, p, n].all(axis=-1)
                if not obs.any():
                    if not (track_missing.all() and (rc[:, p, n] == 0).all()):
                        bad("a never observed point received values", {"person": p, "point": n}); failed = True
                    continue
                first, last = steps[obs][0], steps[obs][-1]
                inside = (nsteps >= first) & (nsteps <= last)
                if obs.sum() == 1:
                    inside = nsteps == first
                if not (np.array_equal(~track_missing, inside & (rc[:, p, n] != 0)) and (rc[:, p, n][~inside] == 0).all()):
                    if np.array_equal(rc[:, p, n] != 0, inside):       # confidence itself vanished inside the window (spline overshoot): allowed only for splines
                        pass
                    bad("a point has values outside its own first..last observation, or lacks them inside", {"person": p, "point": n, "inside": inside.tolist(), "conf": rc[:, p, n].tolist()}); failed = True
                    continue
                if ratio == 1.0:
                    if not np.allclose(np.where(obs[:, None], rd[:, p, n], 0), np.where(obs[:, None], data[:, p, n], 0), atol=1e-6):
                        bad("at an unchanged rate observed points are not reproduced", {"person": p, "point": n}); failed = True
                if affine and obs.sum() >= 2:
                    # coordinates were a·f + b on frames f = step·(F−1)
                    t = nsteps * (F - 1)
                    f_obs = np.nonzero(obs)[0]
                    a = (data[f_obs[-1], p, n] - data[f_obs[0], p, n]) / (f_obs[-1] - f_obs[0]); b0 = data[f_obs[0], p, n] - a * f_obs[0]
                    want = t[:, None] * a[None, :] + b0[None, :]
                    if not np.allclose(rd[:, p, n][inside], want[inside], atol=1e-4):
                        bad("an affine trajectory is not reproduced exactly", {"person": p, "point": n}); failed = True
                if kind == "linear" and obs.sum() >= 2:
                    xs = steps[obs]
                    for t_i in np.nonzero(inside)[0]:
                        hi = min(max(np.searchsorted(xs, nsteps[t_i]), 1), len(xs) - 1)
                        lo_v, hi_v = data[np.nonzero(obs)[0][hi - 1], p, n], data[np.nonzero(obs)[0][hi], p, n]
                        if not ((rd[t_i, p, n] >= np.minimum(lo_v, hi_v) - 1e-6).all() and (rd[t_i, p, n] <= np.maximum(lo_v, hi_v) + 1e-6).all()):
                            bad("linear interpolation leaves the range of the neighbouring observations", {"person": p, "point": n, "frame": int(t_i)}); failed = True; break
            if failed: break
        if kind == "linear" and not failed:
            reqs.append({"op": "body_ops", "backend": "numpy", "body": {"fps": f64_bits(fps), "shape": [F, P, N, D], "data": [f64_bits(float(x)) for x in data.reshape(-1)], "conf": [f64_bits(float(x)) for x in conf.reshape(-1)]},
                         "ops": [{"k": "interpolate", "new_fps": f64_bits(new_fps), "new_frames": newF}]})
            meta.append((info, rd, rm, rc))
    outs = ctx.driver.run(reqs)
    for (info, rd, rm, rc), mo in zip(meta, outs):
        m = mo["steps"][1]
        if "error" in m:
            ctx.violation("interpolation: model refuses", info, {}, False); continue
        if rd.size == 0:
            continue
        md = np.array([bits_f64(x) for x in m["zf"]]).reshape(rd.shape); mc = np.array([bits_f64(x) for x in m["conf"]]).reshape(rc.shape); mm = np.array(m["missing"], dtype=bool).reshape(rm.shape)
        if not (np.array_equal(mm, rm) and np.allclose(mc, rc, atol=1e-9) and np.allclose(md, np.where(rm, 0, rd), atol=1e-9)):
            ctx.violation("linear interpolation differs from the model", info, {"max_abs_diff": float(np.abs(md - np.where(rm, 0, rd)).max())}, False, size=rd.size)


def replay(ctx, rep):
    raise SystemExit("replay: re-run ./check C14 with VERIF_SEED=%s" % rep.get("seed"))
