"""C06 — a read depends only on bytes and arguments, never on earlier reads or callers."""
import io
import numpy as np
from .. import posecase as pc, refenc
from .c03 import make_file

RULE = ("histories (length ≤ 12 quick / ≤ 40 thorough) over 8 files — two with byte-identical headers, one with a shorter and one with a longer header, one differing in the dimensions only, one (v0.1) differing in the version only, two with headers above 10 KiB that agree on their first 10 KiB — of the calls: read "
        "(bytes or stream, full or windowed), Pose.copy(), PoseHeaderCache.clear_cache(), and every in-place edit the API allows on earlier results (dimensions attribute, focus(), "
        "renaming components / points, editing limbs / colours, dropping a component, writing into body arrays); after every call: the new result vs a cold read of the same bytes "
        "(oracle), all other live results unchanged (oracle), no shared mutable objects between live results (id()/np.shares_memory, oracle), and every live header vs the Lean store machine; "
        "non-trivial = history containing a read after a mutation or a cache hit, distinct by its step list")
ASSUMPTIONS = ["hashlib.md5 idealised as injective on header byte ranges", "body arrays are compared by value and by np.shares_memory; the store model tracks header objects only"]


def gen_files(rng):
    a = make_file(rng, 4, 3, 1, 2)
    b = {"header": a["header"], "body": pc.gen_body(rng, a["header"], frames=3, people=1)}            # identical header, other body
    c = make_file(rng, 3, 1, 1, 2)                                                                      # shorter header
    d = make_file(rng, 5, 4, 2, 3, ncomps=2)                                                            # longer header
    d["header"]["components"][0]["name"] = pc.hx("a_much_longer_component_name_" * 3)
    e = {"header": dict(a["header"], width=a["header"]["width"] + 3, height=1, depth=9), "body": a["body"]}   # same skeleton, other dimensions
    for f in (a, b, c, d, e):
        # make sure every point of frame 0 is observed somewhere so that focus() has data
        f["body"]["conf"][0] = 0x3F800000
    g = {"header": a["header"], "body": dict(a["body"], fps={"int": 30})}                                    # same header bytes except the version: a v0.1 recording
    # two headers longer than the 10 KiB prefetch that agree on their first 10 KiB and differ only near the end (a last point name, a last colour)
    big = {"name": pc.hx("face"), "format": pc.hx("XYC"), "points": [pc.hx("point_%04d" % i) for i in range(950)], "limbs": [[0, 1]], "colors": [[1, 2, 3]]}
    tail1 = {"name": pc.hx("hand"), "format": pc.hx("XYC"), "points": [pc.hx("w"), pc.hx("t")], "limbs": [[0, 1]], "colors": [[9, 9, 9]]}
    tail2 = {"name": pc.hx("hand"), "format": pc.hx("XYC"), "points": [pc.hx("w"), pc.hx("u")], "limbs": [[1, 0]], "colors": [[9, 9, 8]]}
    hh1 = {"version": pc.V02, "width": 7, "height": 8, "depth": 0, "components": [big, tail1]}
    hh2 = {"version": pc.V02, "width": 7, "height": 8, "depth": 0, "components": [big, tail2]}
    h1 = {"header": hh1, "body": pc.gen_body(rng, hh1, frames=1, people=1)}
    h2 = {"header": hh2, "body": pc.gen_body(rng, hh2, frames=1, people=1)}
    for f in (h1, h2):
        f["body"]["conf"][0] = 0x3F800000
    return [refenc.v02(x) for x in (a, b, c, d, e)] + [refenc.v01(g)] + [refenc.v02(h1), refenc.v02(h2)], [a, b, c, d, e, g, h1, h2]


def gen_history(rng, files, cases, n):
    steps, handles = [], 0          # handles = number of results created so far
    frames = [c["body"]["frames"] for c in cases]
    for _ in range(n):
        r = rng.random()
        if handles == 0 or r < 0.45:
            fi = rng.randrange(len(files)) if rng.random() < 0.7 else rng.choice([0, 1])
            win = {}
            if rng.random() < 0.4:
                s = rng.randrange(frames[fi]); win = {"start_frame": s, "end_frame": rng.randint(s, frames[fi])}
            steps.append({"read": fi, "window": win, "reader": rng.choice(["bytes", "stream"])})
            handles += 1
        elif r < 0.55:
            steps.append({"copy": rng.randrange(handles)}); handles += 1
        elif r < 0.6:
            steps.append({"clear": True})
        else:
            h = rng.randrange(handles)
            kind = rng.choice(["width", "focus", "rename_comp", "rename_point", "set_limb", "append_limb", "set_color", "pop_comp", "body_write", "dims"])
            steps.append({"mutate": h, "kind": kind, "i": 0, "j": 0, "k": 0, "v": rng.choice([7, 44, 65535]), "a": rng.randrange(3), "b": rng.randrange(3),
                          "r": 9, "g": 8, "s": pc.hx(rng.choice(["zzz", "é", "renamed"])), "w": rng.randrange(100), "h": rng.randrange(100), "d": rng.randrange(5)})
    return steps


def apply_mutation(pose, st):
    """apply the edit through the public object; returns the step as the model should see it (None = no header change)"""
    from pose_format.pose_header import PoseHeaderDimensions
    k, h = st["kind"], pose.header
    comps = h.components
    if k == "width":
        h.dimensions.width = st["v"]; return dict(st)
    if k == "dims":
        h.dimensions = PoseHeaderDimensions(st["w"], st["h"], st["d"]); return dict(st)
    if k == "focus":
        try:
            pose.focus()
        except Exception:
            return None
        d = h.dimensions
        return dict(st, kind="dims", w=int(d.width), h=int(d.height), d=int(d.depth))
    if k == "body_write":
        if pose.body.data.size:
            pose.body.data[(0,) * 4] = 99.0
            pose.body.confidence[(0,) * 3] = 0.25
        return None
    if not comps:
        return None
    c = comps[0]
    if k == "rename_comp":
        c.name = pc.unhx(st["s"]); return dict(st)
    if k == "rename_point":
        if len(c.points) == 0: return None
        c.points[0] = pc.unhx(st["s"]); return dict(st)
    if k == "set_limb":
        if len(c.limbs) == 0: return None
        c.limbs[0] = (st["a"], st["b"]); return dict(st)
    if k == "append_limb":
        c.limbs.append((st["a"], st["b"])); return dict(st)
    if k == "set_color":
        if len(c.colors) == 0: return None
        c.colors[0] = (st["r"], st["g"], st["b"]); return dict(st)
    if k == "pop_comp":
        comps.pop(); return dict(st)
    raise ValueError(k)


def mutable_ids(pose):
    """ids of every mutable object reachable from a pose (header side) and its body arrays"""
    h = pose.header
    ids = {id(h): "header", id(h.dimensions): "dimensions", id(h.components): "components list"}
    for c in h.components:
        ids[id(c)] = "component"; ids[id(c.points)] = "points list"; ids[id(c.limbs)] = "limbs"; ids[id(c.colors)] = "colors"
    return ids


def run_history(files, steps):
    """execute on the implementation; returns per-step canonical results, final canonical headers, list of oracle failures"""
    from pose_format import Pose
    from pose_format.pose_header import PoseHeaderCache
    PoseHeaderCache.clear_cache()
    poses, outs, problems, model_steps, body_touched = [], [], [], [], set()
    def snapshot():
        return [pc.canon_pose(p) for p in poses]
    for n, st in enumerate(steps):
        before = snapshot()
        new = None
        if "read" in st:
            raw = files[st["read"]]
            kw = {k: v for k, v in st["window"].items() if v is not None}
            try:
                new = Pose.read(raw if st["reader"] == "bytes" else io.BytesIO(raw), **kw)
            except Exception as e:
                outs.append({"handle": None, "error": type(e).__name__}); model_steps.append(st)
                break                      # later steps refer to results by number: stop here (generated reads are all valid, so this is already a finding)
            poses.append(new); outs.append({"handle": len(poses) - 1, "pose": pc.canon_pose(new)}); model_steps.append(st)
        elif "copy" in st:
            new = poses[st["copy"]].copy()
            poses.append(new); outs.append({"handle": len(poses) - 1}); model_steps.append(st)
            if st["copy"] in body_touched:
                body_touched.add(len(poses) - 1)
        elif "clear" in st:
            PoseHeaderCache.clear_cache(); outs.append({"handle": None}); model_steps.append(st)
        else:
            ms = apply_mutation(poses[st["mutate"]], st)
            if st["kind"] in ("body_write", "focus"):
                body_touched.add(st["mutate"])
            outs.append({"handle": None})
            if ms is not None:
                model_steps.append(ms)
            # oracle: every other live result is unchanged
            after = snapshot()
            for i, (x, y) in enumerate(zip(before, after)):
                if i != st["mutate"] and x != y:
                    problems.append(("an edit of one result changed another result", n, f"edit of result {st['mutate']} ({st['kind']}) changed result {i}: {pc.diff(x, y)}"))
        if new is not None:
            # oracle: no mutable state shared with any earlier live result
            ids = mutable_ids(new)
            for i, p in enumerate(poses[:-1]):
                shared = set(ids) & set(mutable_ids(p))
                if shared:
                    problems.append(("two results share a mutable object", n, f"result {len(poses) - 1} shares its {ids[next(iter(shared))]} object with result {i}"))
                if new.body.data.size and (np.shares_memory(np.asarray(new.body.data.data), np.asarray(p.body.data.data)) or np.shares_memory(new.body.confidence, p.body.confidence)
                                           or np.shares_memory(np.ma.getmaskarray(new.body.data), np.ma.getmaskarray(p.body.data))):
                    problems.append(("two results share a mutable object", n, f"result {len(poses) - 1} shares body memory with result {i}"))
    return outs, [pc.canon_header(p.header) for p in poses], [pc.canon_body(p.body) for p in poses], problems, model_steps, body_touched


def cold_reads(files, steps):
    """what each read returns in a fresh cache state (the decode of its bytes and arguments)"""
    from .c03 import impl_read
    return {n: impl_read(files[st["read"]], st["reader"], st["window"], None) for n, st in enumerate(steps) if "read" in st}


def run(ctx):
    rng = ctx.rng
    nhist, maxlen = ctx.pick(60, 500), ctx.pick(12, 40)
    reqs, meta = [], []
    for k in range(nhist):
        files, cases = gen_files(rng)
        steps = gen_history(rng, files, cases, rng.randint(3, maxlen))
        outs, final_h, final_b, problems, model_steps, touched = run_history(files, steps)
        cold = cold_reads(files, steps)
        seen_mut = False; nontrivial = False
        for n, st in enumerate(steps):
            if "mutate" in st: seen_mut = True
            if "read" in st and (seen_mut or any("read" in s for s in steps[:n])): nontrivial = True
        ctx.evaluated(steps, nontrivial=nontrivial)
        ctx.count("history_len:%d" % (len(steps) // 5 * 5)); ctx.count("reads", sum("read" in s for s in steps)); ctx.count("mutations", sum("mutate" in s for s in steps)); ctx.count("copies", sum("copy" in s for s in steps))
        if k < 2:
            ctx.sample({"steps": steps[:8], "file_bytes": [len(f) for f in files]})
        slim = {"files_hex": [f.hex() for f in files] if sum(map(len, files)) < 6000 else None, "steps": steps}
        for clause, n, msg in problems:
            ctx.violation(clause, slim, {"at_step": n, "what": msg}, True, size=len(steps), signature={"clause": clause})
        steps = steps[:len(outs)]
        for n, res in cold.items():
            if n >= len(outs):
                continue
            o = outs[n]
            if res[0] == "ok":
                if o.get("handle") is None:
                    ctx.violation("a read fails after this history although the same bytes decode in a fresh process", slim, {"at_step": n, "error": o.get("error")}, True, size=len(steps))
                else:
                    d = pc.diff(res[1], o["pose"])
                    if d:
                        ctx.violation("a read returns something else than the decode of its bytes after this history", slim, {"at_step": n, "first_difference": d}, True, size=len(steps))
            elif o.get("handle") is not None:
                ctx.violation("a read succeeds after this history although the same call raises in a fresh process", slim, {"at_step": n}, True, size=len(steps))
        reqs.append({"op": "history", "files": [f.hex() for f in files], "steps": model_steps})
        meta.append((slim, outs, final_h, steps, model_steps))
    answers = ctx.driver.run(reqs)
    for (slim, outs, final_h, steps, model_steps), mo in zip(meta, answers):
        impl_handles = [o for o, st in zip(outs, steps) if ("read" in st or "copy" in st)]
        model_handles = [o for o, st in zip(mo["steps"], model_steps) if ("read" in st or "copy" in st)]
        for io_, mo_ in zip(impl_handles, model_handles):
            if (io_.get("handle") is None) != (mo_.get("handle") is None):
                ctx.violation("history: implementation and model disagree on whether a call returns", slim, {"impl": io_.get("handle"), "model": mo_.get("handle")}, False, size=len(steps)); break
            if "pose" in io_ and "pose" in mo_ and pc.diff(mo_["pose"], io_["pose"]):
                ctx.violation("history: a read returns a different pose than the model's", slim, {"d": pc.diff(mo_["pose"], io_["pose"])}, False, size=len(steps)); break
        else:
            if len(final_h) == len(mo["final"]):
                for i, (x, y) in enumerate(zip(final_h, mo["final"])):
                    if pc.diff(y, x):
                        ctx.violation("history: final header of a result differs from the store model's", slim, {"result": i, "d": pc.diff(y, x)}, False, size=len(steps)); break
            else:
                ctx.violation("history: number of live results differs from the model's", slim, {"impl": len(final_h), "model": len(mo["final"])}, False, size=len(steps))
    other_bodies(ctx)


def other_bodies(ctx):
    """The same question for the torch body class (tensorflow tensors are immutable): a pose read into a TorchPoseBody, edited in place through its tensors, must not change
    the caller's bytes, an earlier result read from the same bytes object, or what a later read of those bytes returns (into any body class)."""
    import warnings
    from pose_format import Pose
    from pose_format.pose_header import PoseHeaderCache
    from pose_format.torch.pose_body import TorchPoseBody
    rng = ctx.rng
    for _ in range(ctx.pick(12, 80)):
        case = make_file(rng, rng.choice([1, 2, 4]), rng.choice([1, 3]), 1, rng.choice([2, 3]))
        raw = refenc.v02(case)
        pristine = bytes(bytearray(raw))                                  # a real copy, made before anything reads `raw`
        source = rng.choice(["bytes", "stream"])
        want = pc.canon_pose(Pose.read(pristine))
        info = {"file_hex": pristine.hex() if len(pristine) < 3000 else None, "source": source}
        ctx.evaluated(("torch-alias", pristine, source)); ctx.count("torch_body_histories")
        with warnings.catch_warnings():
            warnings.simplefilter("ignore")
            PoseHeaderCache.clear_cache()
            first = Pose.read(raw if source == "bytes" else io.BytesIO(raw), TorchPoseBody)
            second = Pose.read(raw if source == "bytes" else io.BytesIO(raw), TorchPoseBody)
            snap2 = (second.body.data.tensor.clone(), second.body.confidence.clone())
            try:                                                           # in-place edits through the public tensors of the first result
                first.body.data.tensor.mul_(3.0).add_(1.0)
                first.body.confidence.fill_(0.5)
                first.body.data.mask.fill_(True)
            except Exception as e:
                ctx.count("torch_inplace_refused:" + type(e).__name__); continue
            import torch
            if raw != pristine:
                ctx.violation("editing a pose changed the bytes it was read from", info, {"first_differing_byte": next(i for i, (a, b) in enumerate(zip(raw, pristine)) if a != b)}, True, signature={"clause": "torch-bytes"}); continue
            bits = lambda t: t.contiguous().view(torch.int32)                  # NaN-safe: compare bit patterns
            if not (torch.equal(bits(second.body.data.tensor), bits(snap2[0])) and torch.equal(bits(second.body.confidence), bits(snap2[1]))):
                ctx.violation("an edit of one result changed another result", info, {"what": "two torch bodies read from the same bytes share memory"}, True, signature={"clause": "torch-shared"}); continue
            again = pc.canon_pose(Pose.read(raw))
            if pc.diff(want, again):
                ctx.violation("a read returns something else than the decode of its bytes after this history", info, {"after": "in-place edits of a torch body read from the same bytes", "d": pc.diff(want, again)}, True, signature={"clause": "torch-later-read"})


def replay(ctx, rep):
    raise SystemExit("replay: re-run ./check C06 with VERIF_SEED=%s" % rep.get("seed"))
