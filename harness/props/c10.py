"""C10 — masked tensors keep values and validity aligned under every operation."""
import json, math, os, subprocess, sys
import numpy as np
from .. import core, mtexec

RULE = ("straight-line programs (length ≤ 6 quick / ≤ 12 thorough) over the masked-tensor API of both frameworks — indexing, slicing, list indexing / gather, permute / transpose, squeeze, unsqueeze, reshape, "
        "split parts, cat, stack, elementwise + − × ÷ with masked and scalar operands, pow, square, sqrt, strict sum, mean / variance / std (tf), matmul, fix_nan, zero_filled — on shapes of rank ≤ 4 with extents in {0,1,2,3}, "
        "random masks, small-integer float32 data with NaN / ±inf / 1e30 under some masks; after EVERY step (value tensor, mask, zero_filled) are compared with the Lean model (shapes and masks exactly, values within 1e-4), "
        "and the alignment clauses are evaluated on the implementation alone (identical shapes, zero_filled exactly 0 at invalid positions, elementwise validity = AND, strict-sum validity = all); "
        "non-trivial = program with ≥ 2 steps that runs to the end, distinct by its JSON")
ASSUMPTIONS = ["torch / tensorflow primitive operations (reshape, permute, gather, matmul, reductions) are modelled by their documented meaning", "values are compared within 1e-4 relative (float32 vs binary64 model); masks and shapes exactly"]


def numel(s):
    n = 1
    for x in s: n *= x
    return n


def gen_tensor(rng, shape, special):
    n = numel(shape)
    mask = [int(rng.random() < 0.7) for _ in range(n)]
    data = [float(rng.randint(-4, 4)) for _ in range(n)]
    if special:
        for i in range(n):
            if not mask[i] and rng.random() < 0.5:
                data[i] = rng.choice([float("nan"), float("inf"), -float("inf"), 1e30, -7.0])
    return {"shape": list(shape), "data": data, "mask": mask}


def gen_program(rng, fw, maxlen):
    rank = rng.choice([1, 2, 2, 3, 3, 4])
    shape = [rng.choice([0, 1, 2, 2, 3, 3]) if rng.random() < 0.9 else 1 for _ in range(rank)]
    if rng.random() < 0.85:
        shape = [max(1, s) for s in shape]
    special = rng.random() < 0.4
    # tensorflow statistics on data whose mean is large against its spread (pixel coordinates with sub-pixel jitter: 2048 + k/8, exact in binary32):
    # only structural operations and the statistics themselves, so that every intermediate value stays exact and a numerically poor formula shows
    offset = fw == "tf" and rng.random() < 0.15
    env = [gen_tensor(rng, shape, special), gen_tensor(rng, shape, special)]
    if offset:
        for e in env:
            e["data"] = [2048.0 + x / 8 if (m or not special) else x for x, m in zip(e["data"], e["mask"])]
    # a third input that cat / the right-hand side of ⊕ receive as a PLAIN tensor (the signatures allow it): every element valid
    env.append(dict(gen_tensor(rng, shape, False), mask=[1] * numel(shape), plain=True))
    shapes = [list(shape), list(shape), list(shape)]
    prog = []
    ops = ["index", "slice", "gather", "permute", "transpose", "squeeze", "reshape", "narrow", "cat", "stack", "bin", "bin_scalar", "pow_scalar", "square", "sqrt", "sum", "matmul", "fix_nan"]
    ops += ["squeeze_all", "unsqueeze"] if fw == "torch" else ["mean", "variance", "std"]
    if offset:
        ops = ["index", "slice", "gather", "permute", "transpose", "reshape", "narrow", "cat", "stack", "mean", "variance", "std", "variance", "std", "mean"]
    for _ in range(rng.randint(1, maxlen)):
        r = rng.randrange(len(shapes))
        s = shapes[r]
        k = rng.choice(ops)
        ins, ns = None, None
        rk = len(s)
        if k == "index" and rk >= 1 and s[0] > 0:
            i = rng.randrange(-s[0], s[0]); ins = {"k": k, "r": r, "i": i}; ns = s[1:]
        elif k == "slice" and rk >= 1:
            a = rng.randint(0, s[0]); b = rng.randint(a, s[0] + 1); ins = {"k": k, "r": r, "a": a, "b": b}; ns = [min(b, s[0]) - a] + s[1:]
        elif k == "gather" and rk >= 1 and s[0] > 0:
            ixs = [rng.randrange(s[0]) for _ in range(rng.randint(1, 3))]; ins = {"k": k, "r": r, "ixs": ixs}; ns = [len(ixs)] + s[1:]
        elif k == "permute" and rk >= 1:
            perm = list(range(rk)); rng.shuffle(perm); ins = {"k": k, "r": r, "perm": perm}; ns = [s[p] for p in perm]
        elif k == "transpose" and rk >= 2:
            d0, d1 = rng.randrange(-rk, rk), rng.randrange(-rk, rk); ins = {"k": k, "r": r, "d0": d0, "d1": d1}
            ns = list(s); ns[d0 % rk], ns[d1 % rk] = s[d1 % rk], s[d0 % rk]
        elif k == "squeeze" and rk >= 1:
            cand = [d for d in range(rk) if s[d] == 1] if fw == "tf" else list(range(rk))
            if cand:
                d = rng.choice(cand); ins = {"k": k, "r": r, "dim": d - (rk if rng.random() < 0.3 else 0)}
                ns = [x for j, x in enumerate(s) if j != d] if s[d] == 1 else list(s)
        elif k == "squeeze_all":
            ins = {"k": k, "r": r}; ns = [x for x in s if x != 1]
        elif k == "unsqueeze":
            d = rng.randint(-rk - 1, rk); ins = {"k": k, "r": r, "dim": d}; dd = d if d >= 0 else d + rk + 1; ns = s[:dd] + [1] + s[dd:]
        elif k == "reshape" and numel(s) > 0:
            n = numel(s)
            divs = [d for d in range(1, n + 1) if n % d == 0]
            a = rng.choice(divs); ns = [a, n // a] if rng.random() < 0.7 else [n]
            ins = {"k": k, "r": r, "shape": [(-1 if (rng.random() < 0.3 and j == 0) else x) for j, x in enumerate(ns)]}
        elif k == "narrow" and rk >= 1:
            ax = rng.randrange(rk)
            st = rng.randint(0, s[ax]); ln = rng.randint(0, s[ax] - st)
            # `split([st, ln, rest], axis)` and ONE of its three pieces (the model's `narrow` takes the piece's own start and length)
            sizes = [st, ln, s[ax] - st - ln]; piece = rng.choice([0, 1, 1, 2, 2])
            ins = {"k": k, "r": r, "axis": ax, "start": sum(sizes[:piece]), "len": sizes[piece], "split": sizes, "piece": piece}; ns = list(s); ns[ax] = sizes[piece]
        elif k in ("cat", "stack"):
            same = [j for j, t in enumerate(shapes) if t == s]
            rs = [rng.choice(same) for _ in range(rng.randint(1, 3))]
            if k == "cat" and rk >= 1:
                d = rng.randrange(rk); ins = {"k": k, "rs": rs, "dim": d - (rk if rng.random() < 0.3 else 0)}; ns = list(s); ns[d] = s[d] * len(rs)
            elif k == "stack":
                d = rng.randint(0, rk); ins = {"k": k, "rs": rs, "dim": d - (rk + 1 if rng.random() < 0.3 else 0)}; ns = s[:d] + [len(rs)] + s[d:]      # negative: counted from the end of the RESULT's axes
        elif k == "bin":
            same = [j for j, t in enumerate(shapes) if t == s]
            ins = {"k": k, "f": rng.choice(["add", "sub", "mul", "div"]), "r1": r, "r2": rng.choice(same)}; ns = list(s)
            if fw == "torch" and ins["f"] == "div" and rng.random() < 0.5:
                ins["via"] = "method"
        elif k == "bin_scalar":
            ins = {"k": k, "f": rng.choice(["add", "sub", "mul", "div"]), "r": r, "c": mtexec.f64_bits(rng.choice([2.0, -1.0, 0.5, 3.0]))}; ns = list(s)
        elif k == "pow_scalar":
            ins = {"k": k, "r": r, "c": mtexec.f64_bits(2.0)}; ns = list(s)
        elif k in ("square", "sqrt", "fix_nan"):
            ins = {"k": k, "r": r}; ns = list(s)
        elif k == "sum" and rk >= 1:
            d = rng.randrange(rk); ins = {"k": k, "r": r, "dim": d - (rk if rng.random() < 0.3 else 0)}; ns = [x for j, x in enumerate(s) if j != d]
        elif k in ("mean", "variance", "std") and rk >= 1:
            lead = rng.choice([1, min(2, rk), rk]); ins = {"k": k, "r": r, "lead": lead}; ns = s[lead:]
        elif k == "matmul" and rk >= 2 and s[-1] > 0 and (fw == "torch" or rk <= 3):
            ncol = s[-1] if rng.random() < 0.85 else rng.choice([1, 2, 5])
            m = [float(rng.randint(-2, 2)) for _ in range(s[-1] * ncol)]
            ins = {"k": k, "r": r, "m": {"shape": [s[-1], ncol], "data": [mtexec.f64_bits(x) for x in m]}}; ns = s[:-1] + [ncol]
        if ins is None:
            continue
        prog.append(ins); shapes.append(ns)
        if k == "matmul" and ns != s:
            break                                   # value and mask shapes diverge here (K1); nothing meaningful can follow
    return env, prog


def close(a, b):
    if math.isnan(a) or math.isnan(b):
        return math.isnan(a) and math.isnan(b)
    if math.isinf(a) or math.isinf(b):
        # `a` is the implementation's (binary32) value, `b` the model's (binary64): binary32 overflows to ±inf where binary64 is still finite — never the other way round
        return a == b or (math.isinf(a) and abs(b) > 1e38 and (a > 0) == (b > 0))
    return abs(a - b) <= 1e-4 * max(1.0, abs(a), abs(b))


def to_bits_env(env):
    return [{"shape": e["shape"], "data": [mtexec.f64_bits(x) for x in e["data"]], "mask": e["mask"]} for e in env]


def run_tf_batch(cases):
    payload = "".join(json.dumps({"env": env, "prog": prog}) + "\n" for env, prog in cases)
    r = subprocess.run([sys.executable, "-W", "ignore", "-m", "harness.mtexec", "tf"], input=payload, capture_output=True, text=True, timeout=3000, cwd=core.VERIF,
                       env=dict(os.environ, TF_CPP_MIN_LOG_LEVEL="3", CUDA_VISIBLE_DEVICES=""))
    outs = [json.loads(l) for l in r.stdout.splitlines() if l.strip()]
    if r.returncode != 0 or len(outs) != len(cases):
        raise core.InfraError("tensorflow worker died (exit %s, %d of %d answers): %s" % (r.returncode, len(outs), len(cases), r.stderr[-800:]))
    return outs


def oracle(ctx, fw, env, prog, steps, info):
    """alignment clauses on the implementation alone"""
    regs = [dict(e, mask_shape=e["shape"], bits=None) for e in env]
    for n, (ins, st) in enumerate(zip(prog, steps)):
        if "error" in st:
            return
        sig = {"op": ins["k"], "fw": fw}
        if ins["k"] == "matmul":
            sig["matrix_square"] = ins["m"]["shape"][0] == ins["m"]["shape"][1]
        if st["shape"] != st["mask_shape"]:
            ctx.violation("value tensor and mask have different shapes after an operation", info, {"step": n, "instruction": ins, "tensor_shape": st["shape"], "mask_shape": st["mask_shape"]}, True, size=len(prog), signature=sig)
            return
        if st["zf"] is not None:
            for z, m in zip(st["zf"], st["mask"]):
                if not m and mtexec.bits_f64(z) != 0.0:
                    ctx.violation("zero_filled is not exactly 0 at an invalid position", info, {"step": n, "instruction": ins, "value": mtexec.bits_f64(z)}, True, size=len(prog), signature={"op": "zero_filled", "fw": fw})
                    return
        if ins["k"] == "bin":
            a, b = regs[ins["r1"]], regs[ins["r2"]]
            if st["mask"] != [x & y for x, y in zip(a["mask"], b["mask"])]:
                ctx.violation("an elementwise result is not valid exactly where both operands are", info, {"step": n, "instruction": ins}, True, size=len(prog), signature=sig)
                return
        regs.append({"shape": st["shape"], "mask": st["mask"]})


def run(ctx):
    rng = ctx.rng
    maxlen = ctx.pick(6, 12)
    for fw in ("torch", "tf"):
        cases = []
        # planned, every run: each piece of three-way splits along each axis of a tensor whose mask varies along that axis (values and validity move together, piece by piece)
        for axis in (0, 1):
            for sizes in ([1, 1, 2], [2, 1, 1], [0, 2, 2], [1, 3, 0]):
                shape = [4, 3] if axis == 0 else [3, 4]
                n = shape[0] * shape[1]
                env = [{"shape": shape, "data": [float(i + 1) for i in range(n)], "mask": [int((i * 7 + i // 3) % 3 != 0) for i in range(n)]},
                       {"shape": shape, "data": [float(-i) for i in range(n)], "mask": [1] * n},
                       {"shape": shape, "data": [0.5] * n, "mask": [1] * n, "plain": True}]
                for piece in (0, 1, 2):
                    cases.append((env, [{"k": "narrow", "r": 0, "axis": axis, "start": sum(sizes[:piece]), "len": sizes[piece], "split": sizes, "piece": piece}, {"k": "bin_scalar", "f": "add", "r": 3, "c": mtexec.f64_bits(2.0)}]))
        # planned, every run: ±inf and NaN at VALID positions (a division by zero), then fix_nan (NaN → 0, nothing else), a strict sum and the statistics
        envz = [{"shape": [2, 3], "data": [1.0, -2.0, 0.0, 3.0, 0.0, -1.0], "mask": [1, 1, 1, 1, 0, 1]}, {"shape": [2, 3], "data": [0.0, 0.0, 0.0, 2.0, 0.0, 4.0], "mask": [1, 1, 1, 1, 1, 0]},
                {"shape": [2, 3], "data": [0.5] * 6, "mask": [1] * 6, "plain": True}]
        tail = [{"k": "sum", "r": 4, "dim": 0}] + ([{"k": "mean", "r": 4, "lead": 1}] if fw == "tf" else [{"k": "bin_scalar", "f": "mul", "r": 4, "c": mtexec.f64_bits(2.0)}])
        cases.append((envz, [{"k": "bin", "f": "div", "r1": 0, "r2": 1}, {"k": "fix_nan", "r": 3}] + tail))
        for _ in range(ctx.pick(250, 3000)):
            env, prog = gen_program(rng, fw, maxlen)
            if prog:
                cases.append((env, prog))
        impl = [mtexec.run_torch(env, prog) for env, prog in cases] if fw == "torch" else run_tf_batch(cases)
        model = ctx.driver.run([{"op": "masked_prog", "fw": fw, "env": to_bits_env(env), "prog": prog} for env, prog in cases])
        for (env, prog), steps, mo in zip(cases, impl, model):
            info = {"framework": fw, "env": env, "prog": prog}
            completed = all("error" not in s for s in steps) and len(steps) == len(prog)
            ctx.evaluated((fw, json.dumps(env), json.dumps(prog)), nontrivial=completed and len(prog) >= 2)
            for ins in prog:
                ctx.count(f"{fw}:{ins['k']}")
            if len(ctx.samples) < 3:
                ctx.sample({"framework": fw, "shape": env[0]["shape"], "prog": prog})
            oracle(ctx, fw, env, prog, steps, info)
            if steps and steps[-1].get("changed_registers"):
                ctx.violation("an operation changed an earlier value (its operand or another register)", info, {"registers": steps[-1]["changed_registers"]}, True, size=len(prog),
                              signature={"op": "mutation", "fw": fw})
            msteps = mo["steps"]
            for n, st in enumerate(steps):
                ins = prog[n]
                sig = {"op": ins["k"], "fw": fw}
                if "error" in st:
                    if n < len(msteps):
                        ctx.violation("an operation raises in the implementation but not in the model", info, {"step": n, "instruction": ins, "error": st["error"]}, False, size=len(prog), signature=sig)
                    break
                if n >= len(msteps):
                    ctx.violation("an operation the model refuses succeeds in the implementation", info, {"step": n, "instruction": ins}, False, size=len(prog), signature=sig)
                    break
                m = msteps[n]
                if st["shape"] != m["shape"] or st["mask_shape"] != m["mask_shape"]:
                    ctx.violation("shapes differ from the model's", info, {"step": n, "instruction": ins, "impl": [st["shape"], st["mask_shape"]], "model": [m["shape"], m["mask_shape"]]}, False, size=len(prog), signature=sig); break
                if st["mask"] != m["mask"]:
                    ctx.violation("validity differs from the reference", info, {"step": n, "instruction": ins, "impl": st["mask"], "model": m["mask"]}, True, size=len(prog), signature=sig); break
                bad = [i for i, (x, y) in enumerate(zip(st["data"], m["data"])) if not close(mtexec.bits_f64(x), mtexec.bits_f64(y))]
                if bad and len(st["mask"]) == len(st["data"]):
                    # under the mask the garbage (1e30, ±inf, NaN) overflows binary32 long before binary64: once either side is non-finite or beyond 1e18
                    # the two arithmetics legitimately part ways there; such positions are not values of the tensor
                    wild = lambda v: not math.isfinite(v) or abs(v) > 1e18
                    bad = [j for j in bad if st["mask"][j] or not (wild(mtexec.bits_f64(st["data"][j])) or wild(mtexec.bits_f64(m["data"][j])))]
                wildrow = lambda row: False
                if ins["k"] == "matmul":
                    # a matrix product mixes a row's elements: garbage under the mask that overflowed binary32 (±inf where binary64 still has 1e60) turns 0 · inf into NaN at
                    # VALID positions of that row — the float width of the model, not the code; rows whose operand holds such a value anywhere are not compared
                    src = env[ins["r"]]["data"] if ins["r"] < len(env) else [mtexec.bits_f64(x) for x in steps[ins["r"] - len(env)]["data"]]
                    K, ncol = ins["m"]["shape"]
                    wildrow = lambda row, src=src, K=K: any((not math.isfinite(v)) or abs(v) > 1e18 for v in src[row * K:(row + 1) * K])
                    bad = [j for j in bad if not wildrow(j // ncol)]
                if bad:
                    i = bad[0]
                    valid_bad = [j for j in bad if st["mask"][j]] if len(st["mask"]) == len(st["data"]) else bad
                    ctx.violation("values differ from the reference" + (" at a valid position" if valid_bad else " (only under the mask)"), info,
                                  {"step": n, "instruction": ins, "position": i, "impl": mtexec.bits_f64(st["data"][i]), "model": mtexec.bits_f64(m["data"][i])}, bool(valid_bad), size=len(prog), signature=sig); break
                ncol_ = ins["m"]["shape"][1] if ins["k"] == "matmul" else 1
                if st["zf"] is not None and any(not close(mtexec.bits_f64(x), mtexec.bits_f64(y)) for j, (x, y) in enumerate(zip(st["zf"], m["zf"])) if not wildrow(j // ncol_)):
                    ctx.violation("zero_filled differs from the reference", info, {"step": n, "instruction": ins}, True, size=len(prog), signature={"op": "zero_filled", "fw": fw}); break
                if ins["k"] == "matmul" and any(wildrow(r_) for r_ in range(max(1, len(st["data"]) // max(1, ncol_)))):
                    ctx.count("comparison stopped: overflowed garbage under the mask reached a matrix product")
                    break                                  # from here on the two arithmetics (binary32 / binary64) legitimately differ at valid positions of those rows


def replay(ctx, rep):
    raise SystemExit("replay: re-run ./check C10 with VERIF_SEED=%s" % rep.get("seed"))
