"""C07 — a truncated file is never mistaken for a valid pose."""
import io, json, os, subprocess, sys
from .. import core, posecase as pc, refenc
from . import c03

LEAN_MODULES = ["PoseVerif.Props.C07"]
RULE = ("written files of the C01 generator; small files: every cut offset, large files: every field boundary ±1 and sampled offsets; each prefix read as bytes and as a stream, "
        "with the header cache empty / holding this header / holding a foreign header; the same cuts read into torch bodies and (child process) tensorflow bodies from bytes, a stream and a windowed stream; windowed stream reads on prefixes compared with the intact file; random suffixes appended; "
        "non-trivial = distinct (file, offset, reader, cache, window)")
ASSUMPTIONS = ["a stream read that returns fewer bytes than requested models the truncated file; disk-level torn writes inside a byte are not modelled"]


def field_offsets(case):
    """offsets of every field boundary of the v0.2 file of `case`"""
    offs, pos = set(), 0
    def adv(n):
        nonlocal pos
        pos += n; offs.add(pos)
    h, b = case["header"], case["body"]
    adv(4); adv(6); adv(2)
    for c in h["components"]:
        adv(2); adv(len(c["name"]) // 2); adv(2); adv(len(c["format"]) // 2); adv(6)
        for p in c["points"]:
            adv(2); adv(len(p) // 2)
        for _ in c["limbs"]:
            adv(4)
        for _ in c["colors"]:
            adv(6)
    adv(4); adv(4); adv(2)
    row = b["people"] * b["points"] * b["dims"] * 4
    for _ in range(b["frames"]):
        adv(row)
    for _ in range(b["frames"]):
        adv(b["people"] * b["points"] * 4)
    return offs, pos


def run(ctx):
    from pose_format import Pose
    from pose_format.pose_header import PoseHeaderCache
    rng = ctx.rng
    import random as _random
    rng_tw = _random.Random(f"c07-trailing-window-{ctx.seed}")
    files = []
    nsmall, nlarge = ctx.pick(6, 30), ctx.pick(6, 30)
    while len(files) < nsmall:
        c = pc.gen_pose(rng, frames=rng.choice([1, 2, 3]), people=rng.choice([1, 2]))
        if pc.representable(c) and pc.total_points(c["header"]) > 0 and len(refenc.v02(c)) < 400:
            files.append((c, "small"))
    while len(files) < nsmall + nlarge:
        c = pc.gen_pose(rng, frames=rng.choice([5, 40, 200]), people=rng.choice([1, 2]), big=rng.random() < 0.3)
        if pc.representable(c) and pc.total_points(c["header"]) > 0:
            files.append((c, "large"))
    # complete files with zero frames (a recording that was opened and closed): nothing can be cut out of their body, but bytes may follow them
    for _ in range(ctx.pick(3, 12)):
        c = pc.gen_pose(rng, frames=0, people=rng.choice([1, 2]))
        if pc.representable(c) and pc.total_points(c["header"]) > 0 and len(refenc.v02(c)) < 400:
            files.append((c, "small"))
    foreign = refenc.v02(pc.gen_pose(rng, frames=1, people=1, ncomps=1))
    reqs, meta = [], []
    tf_jobs = []
    for case, kind in files:
        raw = refenc.v02(case)
        bounds, total = field_offsets(case)
        assert total == len(raw)
        if kind == "small":
            cuts = list(range(len(raw)))
        else:
            cuts = sorted({o + d for o in bounds for d in (-1, 0, 1) if 0 <= o + d < len(raw)} | {rng.randrange(len(raw)) for _ in range(40)} | {0, 1, len(raw) - 1})
            if len(cuts) > ctx.pick(150, 600):
                cuts = sorted(rng.sample(cuts, ctx.pick(150, 600)) + [len(raw) - 1])
        PoseHeaderCache.clear_cache()
        intact = pc.canon_pose(Pose.read(raw))
        for cut in cuts:
            prefix = raw[:cut]
            for reader in ("bytes", "stream"):
                for cache_name, cache in (("empty", None), ("same", raw), ("foreign", foreign)):
                    if kind == "large" and rng.random() < 0.6:
                        continue
                    res = c03.impl_read(prefix, reader, {}, cache)
                    ctx.evaluated((raw, cut, reader, cache_name))
                    ctx.count(f"full:{reader}:{cache_name}")
                    if res[0] == "ok":
                        ctx.violation("a proper prefix of a file was read as a valid pose", {"hex": raw.hex() if len(raw) < 3000 else None, "cut": cut, "reader": reader, "cache": cache_name,
                                      "case": case if len(raw) < 3000 else None}, {"frames_returned": res[1]["body"]["frames"]}, True, size=len(raw))
                    reqs.append({"op": "read", "hex": prefix.hex(), "reader": "bytes", "cache": None if cache is None else {"hex": cache.hex()}})
                    meta.append(("full", raw, cut, reader, cache_name, res))
            # windowed stream reads on the prefix
            F = case["body"]["frames"]
            for _ in range(2 if kind == "small" else 1):
                s = rng.randrange(0, F) if F else 0
                e = rng.choice([s + 1, F, F + 3, rng.randint(s, max(s, F))])
                win = {"start_frame": s, "end_frame": e}
                res = c03.impl_read(prefix, "stream", win, None)
                ref = c03.impl_read(raw, "stream", win, None)
                ctx.evaluated((raw, cut, "window", s, e)); ctx.count("windowed-stream-prefix:" + res[0])
                if res[0] == "ok" and (ref[0] != "ok" or pc.diff(ref[1], res[1])):
                    ctx.violation("a windowed stream read of a prefix returned something other than the intact file's window", {"hex": raw.hex() if len(raw) < 3000 else None, "cut": cut, "window": win},
                                  {"d": pc.diff(ref[1], res[1]) if ref[0] == "ok" else "intact read fails"}, True, size=len(raw))
                reqs.append({"op": "read", "hex": prefix.hex(), "reader": "stream", "window": win})
                meta.append(("window", raw, cut, "stream", "empty", res))
        # trailing bytes
        for _ in range(3):
            extra = bytes(rng.getrandbits(8) for _ in range(rng.choice([1, 4, 100, 11000])))
            for reader in ("bytes", "stream"):
                res = c03.impl_read(raw + extra, reader, {}, None)
                ctx.evaluated((raw, "extra", extra, reader)); ctx.count("trailing:" + reader)
                if res[0] != "ok" or pc.diff(intact, res[1]):
                    ctx.violation("appended bytes change what is read", {"hex": raw.hex() if len(raw) < 3000 else None, "extra": extra.hex()[:200], "reader": reader}, {}, True, size=len(raw))
            # … and under a window (Props/C07.trailing_ignored_window); its own generator, so the draws of the rest of the check stay where they were.
            # The window may end beyond the last frame (the reader clamps it), and the appended bytes may amount to whole frames — a reader that
            # sizes the body from the bytes that are there instead of the declared count is only seen then (seeded C07-q).
            if F:
                bb = case["body"]
                frame_bytes = bb["people"] * bb["points"] * (bb["dims"] + 1) * 4
                ws = rng_tw.randrange(0, F)
                wins = [{"start_frame": ws, "end_frame": rng_tw.choice([ws + 1, F, rng_tw.randint(ws + 1, F)])},
                        {"start_frame": ws, "end_frame": F + rng_tw.choice([1, 3, 1000])}]
                extras = [extra, bytes(rng_tw.getrandbits(8) for _ in range(frame_bytes * rng_tw.choice([1, 2, 5]) + rng_tw.choice([0, 0, 3])))]
                for win in wins:
                    for ex in extras:
                        for reader in ("bytes", "stream"):
                            ref = c03.impl_read(raw, reader, win, None)
                            res = c03.impl_read(raw + ex, reader, win, None)
                            ctx.evaluated((raw, "extra-window", ex, reader, win["start_frame"], win["end_frame"])); ctx.count("trailing-window:" + reader + (":beyond" if win["end_frame"] > F else ""))
                            if ref[0] != res[0] or (ref[0] == "ok" and pc.diff(ref[1], res[1])):
                                ctx.violation("appended bytes change what a windowed read returns", {"hex": raw.hex() if len(raw) < 3000 else None, "extra": ex.hex()[:200], "extra_bytes": len(ex),
                                              "frame_bytes": frame_bytes, "reader": reader, "window": win}, {"intact": ref[0], "extended": res[0]}, True, size=len(raw))
        # the other body classes read through their own unpack routines: every cut (small files) / the field boundaries (large) into torch in-process, into tensorflow in a child
        other_cuts = cuts if kind == "small" else cuts[:: max(1, len(cuts) // 40)]
        from pose_format.torch.pose_body import TorchPoseBody
        for cut in other_cuts:
            for source in ("bytes", "stream", "window"):
                PoseHeaderCache.clear_cache()
                try:
                    if source == "bytes": Pose.read(raw[:cut], TorchPoseBody)
                    elif source == "stream": Pose.read(io.BytesIO(raw[:cut]), TorchPoseBody)
                    else: Pose.read(io.BytesIO(raw[:cut]), TorchPoseBody, start_frame=0)
                    ok = True
                except Exception:
                    ok = False
                ctx.evaluated((raw, cut, "torch", source)); ctx.count("full:torch-body:" + source)
                if ok:
                    ctx.violation("a proper prefix of a file was read as a valid pose", {"hex": raw.hex() if len(raw) < 3000 else None, "cut": cut, "reader": source, "body": "torch"}, {}, True, size=len(raw), signature={"body": "torch"})
        tf_jobs.append({"hex": raw.hex(), "cuts": other_cuts})
        ctx.sample({"file_bytes": len(raw), "cuts": len(cuts), "kind": kind})
    # tensorflow bodies, in a child process
    payload = "".join(json.dumps(j) + "\n" for j in tf_jobs)
    r = subprocess.run([sys.executable, "-W", "ignore", "-m", "harness.tfread"], input=payload, capture_output=True, text=True, timeout=3000, cwd=core.VERIF, env=dict(os.environ, TF_CPP_MIN_LOG_LEVEL="3"))
    lines = [l for l in r.stdout.splitlines() if l.startswith("{")]
    if len(lines) != len(tf_jobs):
        raise core.InfraError("tensorflow child returned %d of %d results: %s" % (len(lines), len(tf_jobs), r.stderr[-400:]))
    for job, line in zip(tf_jobs, lines):
        ctx.count("full:tf-body", 3 * len(job["cuts"]))
        for cut, source in json.loads(line)["accepted"]:
            ctx.violation("a proper prefix of a file was read as a valid pose", {"hex": job["hex"] if len(job["hex"]) < 6000 else None, "cut": cut, "reader": source, "body": "tensorflow"}, {}, True, size=len(job["hex"]) // 2, signature={"body": "tensorflow"})
    # correspondence with the model
    outs = ctx.driver.run(reqs)
    for (what, raw, cut, reader, cache_name, res), mo in zip(meta, outs):
        if (res[0] == "ok") != bool(mo["ok"]):
            # for a zero-byte read past the end of a truncated file the two Python readers themselves differ; the model follows each
            ctx.violation(f"{what} read of a prefix: implementation and model disagree on success", {"hex": raw.hex()[:6000], "cut": cut, "reader": reader, "cache": cache_name},
                          {"impl": res[0], "model_ok": mo["ok"]}, False, size=len(raw))
        elif res[0] == "ok" and pc.diff(mo["pose"], res[1]):
            ctx.violation(f"{what} read of a prefix: implementation and model return different poses", {"hex": raw.hex()[:6000], "cut": cut}, {"d": pc.diff(mo["pose"], res[1])}, False, size=len(raw))


def replay(ctx, rep):
    raise SystemExit("replay: re-run ./check C07 with VERIF_SEED=%s" % rep.get("seed"))
