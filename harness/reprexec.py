"""C17 executor: the representation modules and the assembled pose representation on real tensors.
torch / numpy in-process; `python -m harness.reprexec < cases.jsonl` as a child process for tensorflow.
Values travel as float32 bit patterns in, binary64 bit patterns out."""
import json, sys, warnings
import numpy as np
import numpy.ma as ma


def f64b(a):
    a = np.asarray(a, dtype=np.float64).reshape(-1)
    return ["nan" if v != v else ("inf" if v == np.inf else ("-inf" if v == -np.inf else int(b))) for v, b in zip(a.tolist(), a.view(np.uint64).tolist())]


def unb(toks, shape=None):
    a = np.array([np.nan if t == "nan" else (np.inf if t == "inf" else (-np.inf if t == "-inf" else np.uint64(t).view(np.float64))) for t in toks], dtype=np.float64)
    return a.reshape(shape) if shape is not None else a


def sets_of(case):
    shape = case["shape"]
    out = []
    for s in case["sets"]:
        a = np.array(s["data"], dtype=np.uint32).view(np.float32).reshape(shape).copy()
        v = np.array(s["valid"], dtype=bool).reshape(shape[:-1])
        out.append((a, v))
    return out


def run_modules(case, be):
    """case: {"shape": [points, batch, len, dims], "sets": [{"data": bits, "valid": [...]}]*3, "masked": bool} → {name: {"shape", "values"} | {"error"}}"""
    pts = sets_of(case)
    D = case["shape"][-1]
    res = {}
    def guard(name, fn):
        try:
            with warnings.catch_warnings():
                warnings.simplefilter("ignore")
                with np.errstate(all="ignore"):
                    r = fn()
            r = np.asarray(r)
            res[name] = {"shape": list(r.shape), "values": f64b(r)}
        except Exception as e:
            res[name] = {"error": "%s: %s" % (type(e).__name__, str(e)[:160])}
    if be == "torch":
        import torch
        from pose_format.torch.masked.tensor import MaskedTensor
        from pose_format.torch.representation.distance import DistanceRepresentation
        from pose_format.torch.representation.angle import AngleRepresentation
        from pose_format.torch.representation.inner_angle import InnerAngleRepresentation
        from pose_format.torch.representation.point_line_distance import PointLineDistanceRepresentation
        from pose_format.torch.representation.points import PointsRepresentation
        def mk(p):
            t = torch.from_numpy(p[0].copy())
            return MaskedTensor(t, torch.from_numpy(np.repeat(p[1][..., None], D, axis=-1).copy())) if case["masked"] else MaskedTensor(t)
        # the SAME three point sets are handed to every module, as a caller holding them would; they must come back untouched
        ins = [mk(pts[0]), mk(pts[1]), mk(pts[2])]
        snap = [(i.tensor.clone(), i.mask.clone()) for i in ins]
        guard("distance", lambda: DistanceRepresentation()(ins[0], ins[1]).numpy())
        guard("angle", lambda: AngleRepresentation()(ins[0], ins[1]).numpy())
        guard("inner_angle", lambda: InnerAngleRepresentation()(ins[0], ins[1], ins[2]).numpy())
        guard("point_line", lambda: PointLineDistanceRepresentation()(ins[0], ins[1], ins[2]).numpy())
        guard("points", lambda: PointsRepresentation()(ins[0]).numpy())
        changed = [k for k, (i, (t0, m0)) in enumerate(zip(ins, snap)) if not (torch.equal(i.mask, m0) and torch.equal(torch.nan_to_num(i.tensor, nan=12345.0), torch.nan_to_num(t0, nan=12345.0)))]
        if changed:
            res["_inputs_modified"] = changed
    elif be == "tf":
        import tensorflow as tf
        from pose_format.tensorflow.representation.distance import DistanceRepresentation
        from pose_format.tensorflow.representation.angle import AngleRepresentation
        from pose_format.tensorflow.representation.inner_angle import InnerAngleRepresentation
        from pose_format.tensorflow.representation.point_line_distance import PointLineDistanceRepresentation
        mk = lambda p: tf.constant(p[0])
        guard("distance", lambda: DistanceRepresentation()(mk(pts[0]), mk(pts[1])).numpy())
        guard("angle", lambda: AngleRepresentation()(mk(pts[0]), mk(pts[1])).numpy())
        guard("inner_angle", lambda: InnerAngleRepresentation()(mk(pts[0]), mk(pts[1]), mk(pts[2])).numpy())
        guard("point_line", lambda: PointLineDistanceRepresentation()(mk(pts[0]), mk(pts[1]), mk(pts[2])).numpy())
    else:
        from pose_format.numpy.representation.distance import DistanceRepresentation
        mk = lambda p: ma.array(p[0].copy(), mask=~np.repeat(p[1][..., None], D, axis=-1)) if case["masked"] else ma.array(p[0].copy())
        ins = [mk(pts[0]), mk(pts[1])]
        snap = [(np.array(ma.getdata(i), copy=True), np.array(ma.getmaskarray(i), copy=True)) for i in ins]
        guard("distance", lambda: DistanceRepresentation()(ins[0], ins[1]))
        changed = [k for k, (i, (t0, m0)) in enumerate(zip(ins, snap)) if not (np.array_equal(ma.getmaskarray(i), m0) and np.array_equal(np.nan_to_num(ma.getdata(i), nan=12345.0), np.nan_to_num(t0, nan=12345.0)))]
        if changed:
            res["_inputs_modified"] = changed
    return res


def build_header(h):
    from pose_format.pose_header import PoseHeader, PoseHeaderComponent, PoseHeaderDimensions
    comps = [PoseHeaderComponent(c["name"], c["points"], [tuple(l) for l in c["limbs"]], [(255, 0, 0)], c["format"]) for c in h["components"]]
    return PoseHeader(0.2, PoseHeaderDimensions(10, 10, 10), comps)


def run_assembled(case, be):
    """case: {"header": {...}, "shape": [batch, len, points, channels], "data": bits, "valid": [...] (per batch, len, point), "modules": [n1, n2 names, n3 names]}"""
    header = build_header(case["header"])
    shape = case["shape"]
    a = np.array(case["data"], dtype=np.uint32).view(np.float32).reshape(shape).copy()
    v = np.array(case["valid"], dtype=bool).reshape(shape[:-1])
    out = {}
    try:
        with warnings.catch_warnings():
            warnings.simplefilter("ignore")
            with np.errstate(all="ignore"):
                if be == "torch":
                    import torch
                    from pose_format.torch.masked.tensor import MaskedTensor
                    from pose_format.torch.pose_representation import TorchPoseRepresentation
                    from pose_format.torch.representation.distance import DistanceRepresentation
                    from pose_format.torch.representation.angle import AngleRepresentation
                    from pose_format.torch.representation.inner_angle import InnerAngleRepresentation
                    from pose_format.torch.representation.point_line_distance import PointLineDistanceRepresentation
                    from pose_format.torch.representation.points import PointsRepresentation
                    table = {"points": PointsRepresentation, "distance": DistanceRepresentation, "angle": AngleRepresentation, "inner_angle": InnerAngleRepresentation, "point_line": PointLineDistanceRepresentation}
                    rep = TorchPoseRepresentation(header, [table[n]() for n in case["modules"][0]], [table[n]() for n in case["modules"][1]], [table[n]() for n in case["modules"][2]])
                    src = MaskedTensor(torch.from_numpy(a), torch.from_numpy(np.repeat(v[..., None], shape[-1], axis=-1).copy()))
                    r = rep(src).numpy()
                else:
                    import tensorflow as tf
                    from pose_format.tensorflow.pose_representation import TensorflowPoseRepresentation
                    from pose_format.tensorflow.representation.distance import DistanceRepresentation
                    from pose_format.tensorflow.representation.angle import AngleRepresentation
                    from pose_format.tensorflow.representation.inner_angle import InnerAngleRepresentation
                    from pose_format.tensorflow.representation.point_line_distance import PointLineDistanceRepresentation
                    table = {"distance": DistanceRepresentation, "angle": AngleRepresentation, "inner_angle": InnerAngleRepresentation, "point_line": PointLineDistanceRepresentation}
                    rep = TensorflowPoseRepresentation(header, [], [table[n]() for n in case["modules"][1]], [table[n]() for n in case["modules"][2]])
                    r = rep(tf.constant(a)).numpy()
        out = {"shape": list(r.shape), "values": f64b(r), "output_size": int(rep.output_size), "input_size": int(rep.input_size),
               "limbs": [[int(x) for x in np.asarray(rep.limb_pt1s).reshape(-1)], [int(x) for x in np.asarray(rep.limb_pt2s).reshape(-1)]],
               "triangles": [[int(x) for x in np.asarray(t).reshape(-1)] for t in (rep.triangle_pt1s, rep.triangle_pt2s, rep.triangle_pt3s)]}
    except Exception as e:
        out = {"error": "%s: %s" % (type(e).__name__, str(e)[:200])}
    return out


if __name__ == "__main__":
    for line in sys.stdin:
        if line.strip():
            c = json.loads(line)
            r = run_assembled(c, "tf") if c.get("kind") == "assembled" else run_modules(c, "tf")
            sys.stdout.write(json.dumps(r) + "\n")
            sys.stdout.flush()
