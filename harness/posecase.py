"""Pose cases: generation (one PRNG), construction of implementation objects, canonical JSON form shared with the Lean driver."""
import io, math, struct
import numpy as np
import numpy.ma as ma

V02 = 0x3E4CCCCD
V01 = 0x3DCCCCCD

F32_SPECIAL = [0x00000000, 0x80000000, 0x00000001, 0x007FFFFF, 0x00800000, 0x3F800000, 0xBF800000, 0x7F7FFFFF,
               0x7F800000, 0xFF800000, 0x7FC00000, 0xFFC00000, 0x7FC12345, 0x7F800001, 0x3DCCCCCD, 0x3E4CCCCD, 0x41C80000]
STR_POOL = ["", "a", "pose_keypoints_2d", "NOSE", "é", "ß∂", "手", "右手の人差し指", "𝔘𝔫𝔦", "é", "a\u0000b", " x", "🙂👍",
            "x" * 255, "x" * 256, "é" * 130,
            # code points that codecs and text layers like to treat specially, first / last / alone
            "\ufeffwrist", "\ufeff", "a\ufeffb", "\u2028x", "x\r\n", "\n", "\ud7ff\ue000", "\uffff", "\U0010ffff", "\x7f\x80", "x ", "\t", "\u0301e", "\u200b", "\x00"]


def hx(s):
    return s.encode("utf8").hex()


def unhx(h):
    return bytes.fromhex(h).decode("utf8")


def f32_bits(rng, special=0.3):
    if rng.random() < special:
        return rng.choice(F32_SPECIAL)
    k = rng.random()
    if k < 0.5:
        return int(np.float32(rng.uniform(-1000, 1000)).view(np.uint32))
    if k < 0.8:
        return int(np.float32(rng.randint(-50, 50)).view(np.uint32))
    return rng.getrandbits(32)


def conf_bits(rng, pzero=0.3):
    r = rng.random()
    if r < pzero:
        return rng.choice([0x00000000, 0x00000000, 0x80000000])
    if r < pzero + 0.1:
        return rng.choice([0x7FC00000, 0xBF800000, 0x00000001, 0x7F800000, 0x80000001])
    return int(np.float32(rng.random()).view(np.uint32)) or 0x3F800000


def gen_string(rng, big=False):
    r = rng.random()
    if big and r < 0.15:
        # around the 65535-byte limit, in bytes and in characters
        n = rng.choice([32767, 32768, 65535])
        ch = rng.choice(["x", "é", "手", "𝔘"])
        w = len(ch.encode())
        return ch * (n // w) + "x" * (n % w)
    if r < 0.55:
        return rng.choice(STR_POOL)
    n = rng.randint(1, 12)
    return "".join(rng.choice("abcXYZ_09 éß手🙂́") for _ in range(n))


def gen_comp(rng, fmt=None, npoints=None, big=False, u16=None):
    u16 = u16 or (lambda: rng.choice([0, 1, 2, 255, 256, 32767, 32768, 65535]) if rng.random() < 0.4 else rng.randint(0, 300))
    n = npoints if npoints is not None else rng.choice([0, 1, 1, 2, 3, 5, 8])
    fmt = fmt if fmt is not None else rng.choice(["XYC", "XYZC", "XYC", "XC", "XYZWC"])
    limbs = [[u16(), u16()] for _ in range(rng.choice([0, 0, 1, 2, 4]))]
    colors = [[u16(), u16(), u16()] for _ in range(rng.choice([0, 0, 1, 2, 4]))]
    return {"name": hx(gen_string(rng, big)), "format": hx(fmt), "points": [hx(gen_string(rng, big and rng.random() < 0.2)) for _ in range(n)],
            "limbs": limbs, "colors": colors}


def gen_header(rng, ncomps=None, same_format=None, big=False):
    ncomps = ncomps if ncomps is not None else rng.choice([1, 1, 2, 3])
    fmt = same_format if same_format is not None else (rng.choice(["XYC", "XYZC", "XC", "XYZWC"]) if rng.random() < 0.6 else None)
    dim = lambda: rng.choice([0, 1, 255, 256, 640, 32767, 32768, 65535])
    # the version a pose object carries is not what gets written (the writer always writes 0.2): poses read from legacy files carry 0.1 / 0.0
    version = V02 if rng.random() < 0.8 else rng.choice([V01, 0, 0x3F800000, 0x3F000000])
    return {"version": version, "width": dim(), "height": dim(), "depth": dim(),
            "components": [gen_comp(rng, fmt, big=big) for _ in range(ncomps)]}


def total_points(h):
    return sum(len(c["points"]) for c in h["components"])


def num_dims(h):
    if not h["components"]:
        return None
    return max(len(unhx(c["format"])) for c in h["components"]) - 1


def gen_body(rng, header, frames=None, people=None, fps=None, pzero=0.3):
    frames = frames if frames is not None else rng.choice([0, 1, 1, 2, 3, 5])
    people = people if people is not None else rng.choice([0, 1, 1, 1, 2, 3])
    points, dims = total_points(header), num_dims(header)
    if dims is None or dims < 0:
        dims = 2                       # a header without usable formats: any body mismatches it
    n = frames * people * points
    fpsb = fps if fps is not None else rng.choice([0x41C80000, 0x41F00000, 0x41EFC28F, 0x3F000000, 0, 0x447A0000, 0xC1C80000, 0x7FC00000, 0x7F800000,
                                                   0x41BFCEE6, 0x3EAAAAAB, 0x426FC29F, 0x3991A2B4])       # 24000/1001, 1/3, 60000/1001, 1/3600: more than three decimals
    return {"fps": {"f32": fpsb}, "frames": frames, "people": people, "points": points, "dims": dims,
            "data": [f32_bits(rng) for _ in range(n * dims)], "conf": [conf_bits(rng, pzero) for _ in range(n)]}


def gen_pose(rng, **kw):
    h = gen_header(rng, ncomps=kw.pop("ncomps", None), same_format=kw.pop("same_format", None), big=kw.pop("big", False))
    while num_dims(h) is None or num_dims(h) < 1:
        h = gen_header(rng)
    return {"header": h, "body": gen_body(rng, h, **kw)}


def bits_to_f32(bits, shape):
    return np.array(bits, dtype=np.uint32).view(np.float32).reshape(shape)


def f32_to_bits(arr):
    return [int(x) for x in np.ascontiguousarray(np.asarray(arr, dtype=np.float32)).reshape(-1).view(np.uint32)]


def fps_value(fps):
    if "int" in fps:
        return int(fps["int"])
    return float(np.array([fps["f32"]], dtype=np.uint32).view(np.float32)[0])


def build_header(h):
    from pose_format.pose_header import PoseHeader, PoseHeaderComponent, PoseHeaderDimensions
    comps = [PoseHeaderComponent(unhx(c["name"]), [unhx(p) for p in c["points"]], [tuple(l) for l in c["limbs"]],
                                 [tuple(x) for x in c["colors"]], unhx(c["format"])) for c in h["components"]]
    version = float(np.array([h["version"]], dtype=np.uint32).view(np.float32)[0])
    return PoseHeader(version, PoseHeaderDimensions(h["width"], h["height"], h["depth"]), comps)


def relayout(a, layout):
    """the same logical array in another memory layout: 'C' (contiguous), 'F' (Fortran order), 'T' (a transposed view of a person-major buffer),
    'R' (a reversed-stride view), 'S' (every second element of a wider buffer)"""
    if layout == "F":
        return np.asfortranarray(a)
    if layout == "T" and a.ndim >= 2:
        return np.ascontiguousarray(a.swapaxes(0, 1)).swapaxes(0, 1)
    if layout == "R":
        return np.ascontiguousarray(a[::-1])[::-1]
    if layout == "S":
        wide = np.zeros(a.shape[:-1] + (a.shape[-1] * 2,), dtype=a.dtype)
        wide[..., ::2] = a
        return wide[..., ::2]
    return a


def build_pose(case, layout="C"):
    """`case["masked_input"]` (optional): hand the constructor a numpy.ma.MaskedArray instead of a plain array — "none": without any mask (what `fake_pose` does),
    "partial": masking only every other point of confidence 0. The body's missing pattern is still `confidence == 0` (the constructor unites the two)."""
    from pose_format import Pose
    from pose_format.numpy import NumPyPoseBody
    b = case["body"]
    shape = (b["frames"], b["people"], b["points"], b["dims"])
    data = relayout(bits_to_f32(b["data"], shape), layout)
    conf = relayout(bits_to_f32(b["conf"], shape[:3]), layout)
    mi = case.get("masked_input")
    if mi == "none":
        data = ma.masked_array(data)
    elif mi == "partial":
        zero = np.asarray(conf) == 0
        keep = zero & (np.arange(zero.size).reshape(zero.shape) % 2 == 0)
        data = ma.masked_array(data, mask=np.repeat(keep[..., None], shape[3], axis=-1))
    return Pose(build_header(case["header"]), NumPyPoseBody(fps_value(b["fps"]), data, conf))


def version_bits(v):
    return struct.unpack("<I", struct.pack("<f", v))[0]


def canon_header(h):
    def comp(c):
        cols = np.asarray(c.colors).reshape(-1, 3).tolist() if len(c.colors) else []
        return {"name": hx(c.name), "format": hx(c.format), "points": [hx(p) for p in c.points],
                "limbs": [[int(a), int(b)] for a, b in c.limbs], "colors": [[int(x) for x in col] for col in cols]}
    return {"version": version_bits(h.version), "width": int(h.dimensions.width), "height": int(h.dimensions.height),
            "depth": int(h.dimensions.depth), "components": [comp(c) for c in h.components]}


def canon_body(b):
    data = b.data
    raw = np.asarray(ma.getdata(data))
    mask = np.broadcast_to(ma.getmaskarray(data), raw.shape) if isinstance(data, ma.MaskedArray) else np.zeros(raw.shape, bool)
    fps = {"int": int(b.fps)} if isinstance(b.fps, (int, np.integer)) and not isinstance(b.fps, bool) else {"f32": version_bits(float(b.fps))}
    if raw.ndim == 4 and raw.shape[-1] > 0:
        allm, anym = mask.all(axis=-1), mask.any(axis=-1)
        missing = np.where(allm, 1, np.where(anym, 2, 0)).reshape(-1).tolist()
    else:
        missing = []
    return {"fps": fps, "frames": int(raw.shape[0]), "people": int(raw.shape[1]), "points": int(raw.shape[2]), "dims": int(raw.shape[3]),
            "data": f32_to_bits(raw), "conf": f32_to_bits(np.asarray(b.confidence)), "missing": [int(m) for m in missing]}


def canon_pose(p):
    return {"header": canon_header(p.header), "body": canon_body(p.body)}


def is_zero_bits(w):
    return (w & 0x7FFFFFFF) == 0


def expected_readback(case):
    """what C01 demands of read(write(case)), computed here independently of the Lean model"""
    h = dict(case["header"], version=V02)
    b = dict(case["body"])
    b["missing"] = [1 if is_zero_bits(c) else 0 for c in b["conf"]]
    return {"header": h, "body": b}


def representable(case):
    h, b = case["header"], case["body"]
    u16 = lambda x: 0 <= x < 65536
    sl = lambda hexs: len(hexs) // 2 < 65536
    if not all(u16(h[k]) for k in ("width", "height", "depth")) or not u16(len(h["components"])):
        return False
    for c in h["components"]:
        if not (sl(c["name"]) and sl(c["format"]) and all(sl(p) for p in c["points"])):
            return False
        if not (u16(len(c["points"])) and u16(len(c["limbs"])) and u16(len(c["colors"]))):
            return False
        if not all(u16(x) for l in c["limbs"] for x in l) or not all(u16(x) for l in c["colors"] for x in l):
            return False
    return b["frames"] < 2 ** 32 and u16(b["people"])


def diff(a, b, path=""):
    """first difference between two JSON values, as a short string; None if equal"""
    if type(a) != type(b):
        return f"{path}: {str(a)[:60]} vs {str(b)[:60]}"
    if isinstance(a, dict):
        for k in sorted(set(a) | set(b)):
            if k not in a or k not in b:
                return f"{path}.{k}: present on one side only"
            d = diff(a[k], b[k], f"{path}.{k}")
            if d:
                return d
        return None
    if isinstance(a, list):
        if len(a) != len(b):
            return f"{path}: length {len(a)} vs {len(b)}"
        for i, (x, y) in enumerate(zip(a, b)):
            d = diff(x, y, f"{path}[{i}]")
            if d:
                return d
        return None
    return None if a == b else f"{path}: {str(a)[:60]} vs {str(b)[:60]}"


def case_size(case):
    b = case.get("body", {})
    return len(b.get("data", [])) + sum(len(c["points"]) + len(c["name"]) for c in case.get("header", {}).get("components", []))
