// Runs the working tree's parser.ts (types stripped) on hex-encoded files read from a JSON-lines file; prints one JSON dump per file.
// usage: node runner.mjs <parser.ts> <scratch dir> <input.jsonl>
import fs from "node:fs";
import path from "node:path";
import module from "node:module";
import { pathToFileURL, fileURLToPath } from "node:url";

const [, , parserTs, scratch, input] = process.argv;
let src = fs.readFileSync(parserTs, "utf8");
src = src.replace(/^import\s*\{[^}]*\}\s*from\s*["']\.\/types["'];?\s*$/m, "");        // type-only import
let js;
if (typeof module.stripTypeScriptTypes === "function") {
  js = module.stripTypeScriptTypes(src);
} else {
  throw new Error("node without module.stripTypeScriptTypes");
}
const here = path.dirname(fileURLToPath(import.meta.url));
fs.mkdirSync(scratch, { recursive: true });
// make the stand-in resolvable from the scratch copy
const nm = path.join(scratch, "node_modules");
if (!fs.existsSync(nm)) fs.symlinkSync(path.join(here, "node_modules"), nm, "dir");
const out = path.join(scratch, "parser.mjs");
fs.writeFileSync(out, js);
const { parsePose } = await import(pathToFileURL(out).href);

const f32 = new Float32Array(1), u32 = new Uint32Array(f32.buffer);
const bits = (x) => { f32[0] = x; return u32[0]; };
const hex = (s) => Buffer.from(s, "utf8").toString("hex");

for (const line of fs.readFileSync(input, "utf8").split("\n")) {
  if (!line.trim()) continue;
  const req = JSON.parse(line);
  let res;
  try {
    const pose = parsePose(Buffer.from(req.hex, "hex"));
    const h = pose.header, b = pose.body;
    const header = {
      version: bits(h.version), width: h.width, height: h.height, depth: h.depth, headerLength: h.headerLength,
      components: h.components.map((c) => ({ name: hex(c.name), format: hex(c.format), points: c.points.map(hex),
        limbs: c.limbs.map((l) => [l.from, l.to]), colors: c.colors.map((k) => [k.R, k.G, k.B]) })),
    };
    const frames = [];
    const nframes = b.frames.length;
    for (let i = 0; i < nframes; i++) {
      const fr = b.frames[i];
      frames.push(fr.people.map((person) => h.components.map((c) => (person[c.name] || []).map((pt) => {
        const o = {};
        for (const k of Object.keys(pt)) o[k] = bits(pt[k]);
        return o;
      }))));
    }
    const ids = [];
    for (let i = 0; i < nframes; i++) ids.push(b.frames[i].people.map((person) => (person.id === undefined ? null : person.id)));
    res = { ok: true, header, fps: b.fps, fps_bits: bits(b.fps), frames_count: nframes, people: b._people === undefined ? null : b._people, frames, ids };
  } catch (e) {
    res = { ok: false, error: String(e && e.message || e).slice(0, 200) };
  }
  process.stdout.write(JSON.stringify(res) + "\n");
}
