"""Two-run executor for C09: the same operation sequence on two poses that differ only in the stored coordinates of missing points.
numpy / torch in-process; `python -m harness.niexec tf < cases.jsonl` as a child process for tensorflow.
A case: {"header": h, "body": b, "fill1": [...], "fill2": [...], "ops": [...]}; `fillK` are float32 bit patterns written at the coordinates of the
points whose confidence is 0 (cyclically); the result: per run a list of canonical step views, or {"error": ...} where a step raised."""
import copy, io, json, sys, warnings
import numpy as np
import numpy.ma as ma
from . import posecase as pc

NAN = "nan"


def canon(x):
    """float64 → comparable token: NaNs are identified, −0 and +0 are not"""
    a = np.asarray(x, dtype=np.float64).reshape(-1)
    bits = a.view(np.uint64)
    return [NAN if v != v else int(b) for v, b in zip(a.tolist(), bits.tolist())]


def filled_case(case, fill):
    c = copy.deepcopy({"header": case["header"], "body": case["body"], "masked_input": case.get("masked_input")})
    b = c["body"]
    D = b["dims"]
    k = 0
    for i, w in enumerate(b["conf"]):
        if pc.is_zero_bits(w):
            for d in range(D):
                b["data"][i * D + d] = fill[k % len(fill)]; k += 1
    return c


def to_np(x, be):
    if be == "torch":
        return x.detach().numpy()
    return np.asarray(x)


def body_view(body, be):
    d = body.data
    if be == "numpy":
        raw = np.asarray(ma.getdata(d), dtype=np.float64)
        miss = np.array(np.broadcast_to(ma.getmaskarray(d), raw.shape))
        conf = np.asarray(body.confidence, dtype=np.float64)
    else:
        if hasattr(d, "mask"):
            raw = to_np(d.tensor, be).astype(np.float64)
            m = to_np(d.mask, be)
            if tuple(m.shape) != tuple(raw.shape):
                return {"error": "mask shape %s differs from data shape %s" % (tuple(m.shape), tuple(raw.shape))}
            miss = ~m.astype(bool)
        else:
            raw = to_np(d, be).astype(np.float64)
            miss = np.zeros(raw.shape, dtype=bool)
        conf = to_np(body.confidence, be).astype(np.float64)
    return {"shape": list(raw.shape), "fps": canon([float(body.fps)])[0], "conf": canon(conf), "missing": [int(v) for v in miss.reshape(-1)],
            "zf": canon(np.where(miss, 0.0, raw)), "raw_at_missing_zero": bool((raw[miss] == 0).all()) if miss.any() else True}


def masked_view(x, be):
    """a masked array / tensor (or plain array) returned by an operation"""
    if be == "numpy":
        raw = np.asarray(ma.getdata(x), dtype=np.float64)
        miss = np.array(np.broadcast_to(ma.getmaskarray(x), raw.shape))
    elif hasattr(x, "mask"):
        raw = to_np(x.tensor, be).astype(np.float64); miss = ~to_np(x.mask, be).astype(bool)
    else:
        raw = to_np(x, be).astype(np.float64); miss = np.zeros(raw.shape, dtype=bool)
    return {"shape": list(raw.shape), "missing": [int(v) for v in miss.reshape(-1)], "zf": canon(np.where(miss, 0.0, raw))}


def header_view(h):
    return {"dims": [h.dimensions.width, h.dimensions.height, h.dimensions.depth], "components": [[c.name, list(c.points), [list(l) for l in c.limbs], c.format] for c in h.components]}


def convert(pose, be):
    from pose_format import Pose
    if be == "numpy":
        return pose
    return Pose(pose.header, pose.body.torch() if be == "torch" else pose.body.tensorflow())


def mask_coordinates(pose, be, cells, fill):
    """single coordinates (frame, person, point, dimension) of OBSERVED points marked missing on top of the confidence rule — a missing slot like any other: what is
    stored there (this run's filling) may not reach the visible result"""
    from pose_format import Pose
    vals = np.array(fill, dtype=np.uint32).view(np.float32)
    body = pose.body
    if be == "numpy":
        raw = ma.getdata(body.data)
        for i, (f, p, n, d) in enumerate(cells):
            raw[f, p, n, d] = vals[i % len(vals)]
            body.data[f, p, n, d] = ma.masked
            ma.getdata(body.data)[f, p, n, d] = vals[i % len(vals)]
        return pose
    if be == "torch":
        import torch
        from pose_format.torch.masked import MaskedTensor
        t, m = body.data.tensor.clone(), body.data.mask.clone()
        for i, (f, p, n, d) in enumerate(cells):
            t[f, p, n, d] = float(vals[i % len(vals)]); m[f, p, n, d] = False
        return Pose(pose.header, type(body)(body.fps, MaskedTensor(t, m), body.confidence))
    import tensorflow as tf
    from pose_format.tensorflow.masked.tensor import MaskedTensor
    t, m = np.array(body.data.tensor), np.array(body.data.mask)
    for i, (f, p, n, d) in enumerate(cells):
        t[f, p, n, d] = vals[i % len(vals)]; m[f, p, n, d] = False
    return Pose(pose.header, type(body)(body.fps, MaskedTensor(tf.constant(t), tf.constant(m)), body.confidence))


def apply(pose, op, be):
    """→ (pose, backend, extra views)"""
    from pose_format import Pose
    k = op["k"]
    body = pose.body
    extra = None
    if k == "get_points": pose = Pose(pose.header, body.get_points(op["ixs"]))            # header no longer matches: body-level observation only
    elif k == "select_frames": pose = Pose(pose.header, body.select_frames(op["ixs"]))
    elif k == "slice_step": pose = Pose(pose.header, body.slice_step(op["by"]))
    elif k == "zero_filled": pose = Pose(pose.header, body.zero_filled())
    elif k == "copy": pose = pose.copy()
    elif k == "normalize_hands_3d":
        from pose_format.utils.generic import normalize_hands_3d
        normalize_hands_3d(pose)                                   # in place: appends the two normalised hands to the body (the header is left as it is)
    elif k == "rejoin":
        # the body's coordinates re-assembled with numpy.ma.concatenate and assigned back — what `utils.generic.normalize_hands_3d` does with its normalised hands
        # (and what user code joining clips does): the same values and mask, but an array that did not go through the constructor
        d = body.data
        n = d.shape[2] // 2
        body.data = ma.concatenate([d[:, :, :n], d[:, :, n:]], axis=2)
    elif k == "matmul": pose = Pose(pose.header, body.matmul(np.array(op["m"], dtype=np.float32)))
    elif k == "flatten":
        fl = body.flatten()
        extra = {"rows": canon(to_np(fl, be))}
    elif k == "points_perspective": extra = masked_view(body.points_perspective(), be)
    elif k == "flip": pose = pose.flip(op["axis"])
    elif k == "bbox": pose = pose.bbox()
    elif k == "focus": pose.focus()
    elif k == "interpolate": pose = pose.interpolate(op["new_fps"], kind=op["kind"])
    elif k == "normalize":
        from pose_format.pose_header import PoseNormalizationInfo
        pose = pose.normalize(PoseNormalizationInfo(op["p1"], op["p2"]), scale_factor=op.get("scale", 1))
    elif k == "normalize_distribution":
        mu, std = pose.normalize_distribution(axis=tuple(op["axis"]))
        extra = {"mu": masked_view(mu, be), "std": masked_view(std, be)}
    elif k == "normalize_unnormalize":
        mu, std = pose.normalize_distribution(axis=tuple(op["axis"]))
        pose.unnormalize_distribution(mu, std)
    elif k == "augment2d":
        np.random.seed(op["seed"])
        pose = pose.augment2d(rotation_std=op["stds"][0], shear_std=op["stds"][1], scale_std=op["stds"][2])
    elif k == "dropout":
        import random
        np.random.seed(op["seed"]); random.seed(op["seed"])
        if be == "tf":
            import tensorflow as tf
            tf.random.set_seed(op["seed"])
        pose, ixs = pose.frame_dropout_uniform(dropout_min=op["lo"], dropout_max=op["hi"])
        extra = {"kept": [int(i) for i in ixs]}
    elif k == "get_components": pose = pose.get_components(op["components"], op.get("points"))
    elif k == "remove_components": pose = pose.remove_components(op["components"], op.get("points"))
    elif k == "write_read":
        buf = io.BytesIO(); pose.write(buf)
        pose = Pose.read(buf.getvalue())
    elif k == "to_torch": pose = Pose(pose.header, body.torch()); be = "torch"
    elif k == "to_tf": pose = Pose(pose.header, body.tensorflow()); be = "tf"
    elif k == "to_numpy": pose = Pose(pose.header, body.numpy()); be = "numpy"
    elif k == "hide_legs":
        from pose_format.utils.generic import pose_hide_legs
        pose = pose_hide_legs(pose, remove=op.get("remove", False))
    elif k == "normalize_3d":
        from pose_format.utils.normalization_3d import PoseNormalizer
        from pose_format.pose_header import PoseNormalizationInfo
        n = PoseNormalizer(plane=PoseNormalizationInfo(*op["plane"]), line=PoseNormalizationInfo(*op["line"]), size=op.get("size", 100))
        t = n(pose.body.data)
        extra = masked_view(t, be)
    else:
        raise NotImplementedError(k)
    return pose, be, extra


def run_one(case, fill, ops, be, wide_garbage=False):
    from pose_format.pose_header import PoseHeaderCache
    PoseHeaderCache.clear_cache()
    out = []
    try:
        pose = pc.build_pose(filled_case(case, fill))
        if case.get("wide") and be == "numpy":
            # a binary64 body (what fake_pose and user code build): in the first run the slots of the missing points hold values far outside the binary32
            # range — whatever the library computes with them on the way (casts on write, squares in a norm) may warn, never change or refuse the result
            from pose_format.numpy import NumPyPoseBody
            raw = np.asarray(ma.getdata(pose.body.data)).astype(np.float64)
            m = np.array(np.broadcast_to(ma.getmaskarray(pose.body.data), raw.shape))
            if wide_garbage:
                g = np.array([1e300, -1e300, 1e39, -3.5e38, 1.7e308])
                raw[m] = g[np.arange(int(m.sum())) % len(g)]
            pose.body = NumPyPoseBody(pose.body.fps, raw, np.asarray(pose.body.confidence))
        pose = convert(pose, be)
        if case.get("extra_mask"):
            pose = mask_coordinates(pose, be, case["extra_mask"], fill)
        out.append({"body": body_view(pose.body, be)})
    except Exception as e:
        return [{"error": type(e).__name__ + ": " + str(e)[:160]}]
    for op in ops:
        try:
            pose, be, extra = apply(pose, op, be)
            st = {"body": body_view(pose.body, be), "header": header_view(pose.header)}
            if extra is not None:
                st["extra"] = extra
            out.append(st)
        except Exception as e:
            out.append({"error": type(e).__name__ + ": " + str(e)[:160]})
            break
    return out


def run_case(case, be):
    # warnings are silenced; numpy's error state is left as the library sets it (the default: warn) — a library that turned floating-point warnings into
    # exceptions would make results depend on what is stored at missing points
    with warnings.catch_warnings():
        warnings.simplefilter("ignore")
        return {"run1": run_one(case, case["fill1"], case["ops"], be, wide_garbage=True), "run2": run_one(case, case["fill2"], case["ops"], be)}


def representation_case(case, be):
    """masked point sets → the representations (torch masked; numpy distance). case: {"shape": [...], "data": bits, "mask": [...], "fill1", "fill2"}"""
    res = {}
    with warnings.catch_warnings():
        warnings.simplefilter("ignore")
        with np.errstate(all="ignore"):
            for tag in ("fill1", "fill2"):
                pts = []
                for s in case["sets"]:
                    a = np.array(s["data"], dtype=np.uint32).view(np.float32).reshape(case["shape"]).copy()
                    m = np.array(s["valid"], dtype=bool).reshape(case["shape"][:-1])
                    f = np.array(case[tag], dtype=np.uint32).view(np.float32)
                    n = int((~m).sum()) * case["shape"][-1]
                    if n:
                        a[~m] = np.resize(f, n).reshape(-1, case["shape"][-1])
                    pts.append((a, np.repeat(m[..., None], case["shape"][-1], axis=-1)))
                out = {}
                try:
                    if be == "torch":
                        import torch
                        from pose_format.torch.masked.tensor import MaskedTensor
                        from pose_format.torch.representation.distance import DistanceRepresentation
                        from pose_format.torch.representation.angle import AngleRepresentation
                        from pose_format.torch.representation.inner_angle import InnerAngleRepresentation
                        from pose_format.torch.representation.point_line_distance import PointLineDistanceRepresentation
                        from pose_format.torch.representation.points import PointsRepresentation
                        mk = lambda p: MaskedTensor(torch.from_numpy(p[0].copy()), torch.from_numpy(p[1].copy()))
                        out["distance"] = canon(DistanceRepresentation()(mk(pts[0]), mk(pts[1])).numpy())
                        out["angle"] = canon(AngleRepresentation()(mk(pts[0]), mk(pts[1])).numpy())
                        out["inner_angle"] = canon(InnerAngleRepresentation()(mk(pts[0]), mk(pts[1]), mk(pts[2])).numpy())
                        out["point_line"] = canon(PointLineDistanceRepresentation()(mk(pts[0]), mk(pts[1]), mk(pts[2])).numpy())
                        out["points"] = canon(PointsRepresentation()(mk(pts[0])).numpy())
                    else:
                        from pose_format.numpy.representation.distance import DistanceRepresentation
                        mk = lambda p: ma.array(p[0].copy(), mask=~p[1])
                        out["distance"] = canon(np.asarray(DistanceRepresentation()(mk(pts[0]), mk(pts[1]))))
                except Exception as e:
                    out = {"error": type(e).__name__ + ": " + str(e)[:160]}
                res[tag] = out
    return res


if __name__ == "__main__":
    be = sys.argv[1]
    for line in sys.stdin:
        if line.strip():
            c = json.loads(line)
            b = c.get("backend", be)
            sys.stdout.write(json.dumps(run_case(c, "numpy" if b == "numpy_with_tf" else b)) + "\n")
            sys.stdout.flush()
