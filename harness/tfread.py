"""C07 child process: proper prefixes of a file read into TensorFlow bodies (`python -m harness.tfread < jobs.jsonl`).
job: {"hex": file, "cuts": [offsets]} → {"accepted": [[cut, source], …]}: every (cut, source ∈ {bytes, stream, window}) at which Pose.read returned instead of raising."""
import io, json, sys, warnings


def main():
    from pose_format import Pose
    from pose_format.pose_header import PoseHeaderCache
    from pose_format.tensorflow.pose_body import TensorflowPoseBody
    for line in sys.stdin:
        if not line.strip():
            continue
        job = json.loads(line)
        raw = bytes.fromhex(job["hex"])
        accepted = []
        with warnings.catch_warnings():
            warnings.simplefilter("ignore")
            for cut in job["cuts"]:
                prefix = raw[:cut]
                for source in ("bytes", "stream", "window"):
                    PoseHeaderCache.clear_cache()
                    try:
                        if source == "bytes":
                            Pose.read(prefix, TensorflowPoseBody)
                        elif source == "stream":
                            Pose.read(io.BytesIO(prefix), TensorflowPoseBody)
                        else:
                            Pose.read(io.BytesIO(prefix), TensorflowPoseBody, start_frame=0)
                        accepted.append([cut, source])
                    except Exception:
                        pass
        sys.stdout.write(json.dumps({"accepted": accepted}) + "\n"); sys.stdout.flush()


if __name__ == "__main__":
    main()
