"""Shared machinery of the correspondence harness: context, Lean build/audit, driver I/O, evidence, violations."""
import hashlib, json, os, random, re, subprocess, sys, time

VERIF = os.path.dirname(os.path.dirname(os.path.abspath(__file__)))
LEAN = os.path.join(VERIF, "lean")
DRIVER = os.path.join(LEAN, ".lake", "build", "bin", "posedriver")
SCRATCH = os.path.join(VERIF, ".scratch")
ALLOWED_AXIOMS = {"propext", "Classical.choice", "Quot.sound"}
FORBIDDEN = re.compile(r"\bsorry\b|\badmit\b|^\s*axiom\s|native_decide|bv_decide|implemented_by|\bunsafe\s|maxHeartbeats\s+0")

TRUSTED_BASE = [
    "Lean 4.33.0 kernel; axioms limited to propext, Classical.choice, Quot.sound (audited per theorem with Lean.collectAxioms on this run)",
    "the hand-written Lean model corresponds to /repo only as far as this run's differential cases show (generators in harness/)",
    "CPython struct/bytes/UTF-8 codec/BytesIO, numpy (dtype narrowing, ndarray(buffer=), tobytes, numpy.ma), torch/tensorflow primitives, scipy: modelled, not verified",
    "Lean compiler/runtime for the driver executable (correspondence only, never for a theorem)",
]


class InfraError(Exception):
    """tooling failure: exit 2, never a violation"""


def sh(cmd, cwd=None, timeout=3600, input=None):
    return subprocess.run(cmd, cwd=cwd, capture_output=True, text=True, timeout=timeout, input=input)


def strip_comments(src):
    # remove /- ... -/ (nested) and -- line comments
    out, i, depth = [], 0, 0
    while i < len(src):
        if src.startswith("/-", i):
            depth += 1; i += 2; continue
        if depth and src.startswith("-/", i):
            depth -= 1; i += 2; continue
        if depth:
            if src[i] == "\n": out.append("\n")
            i += 1; continue
        if src.startswith("--", i):
            j = src.find("\n", i)
            i = len(src) if j < 0 else j
            continue
        out.append(src[i]); i += 1
    return "".join(out)


def static_scan():
    """grep the Lean sources (comments stripped) for constructs that would void a proof"""
    hits = []
    for root, _, files in os.walk(LEAN):
        if ".lake" in root:
            continue
        for f in files:
            if f.endswith(".lean"):
                p = os.path.join(root, f)
                for n, line in enumerate(strip_comments(open(p).read()).splitlines(), 1):
                    if FORBIDDEN.search(line):
                        hits.append(f"{os.path.relpath(p, VERIF)}:{n}: {line.strip()}")
    return hits


def lake_build(targets):
    t0 = time.time()
    r = sh(["lake", "build"] + targets, cwd=LEAN, timeout=3000)
    return r.returncode == 0, (r.stdout + r.stderr), time.time() - t0


def audit(modules):
    """theorems of each module's own namespace with their axioms; cached on the .olean hash"""
    os.makedirs(SCRATCH, exist_ok=True)
    h = hashlib.sha256()
    for m in modules:
        ol = os.path.join(LEAN, ".lake", "build", "lib", "lean", *m.split(".")) + ".olean"
        h.update(open(ol, "rb").read())
    h.update(open(os.path.join(LEAN, "Audit.lean"), "rb").read())
    cache = os.path.join(SCRATCH, "audit-" + h.hexdigest()[:24] + ".json")
    if os.path.exists(cache):
        return json.load(open(cache))
    r = sh(["lake", "env", "lean", "--run", "Audit.lean"] + modules, cwd=LEAN, timeout=1200)
    if r.returncode != 0:
        raise InfraError("axiom audit failed: " + r.stdout[-2000:] + r.stderr[-2000:])
    res = json.loads(r.stdout.strip().splitlines()[-1])
    json.dump(res, open(cache, "w"))
    return res


class Driver:
    """batch interface to the compiled Lean model: requests in, answers out (same order)"""

    def __init__(self):
        self.calls = 0
        self.lines = 0

    def run(self, requests, timeout=1800):
        if not requests:
            return []
        if not os.path.exists(DRIVER):
            raise InfraError("driver executable missing: " + DRIVER)
        payload = "".join(json.dumps(dict(r, id=i), separators=(",", ":")) + "\n" for i, r in enumerate(requests))
        r = subprocess.run([DRIVER], input=payload, capture_output=True, text=True, timeout=timeout)
        if r.returncode != 0:
            raise InfraError(f"driver exited {r.returncode}: {r.stderr[-2000:]}")
        out = [json.loads(l) for l in r.stdout.splitlines() if l.strip()]
        if len(out) != len(requests):
            raise InfraError(f"driver answered {len(out)} of {len(requests)} lines: {r.stderr[-1000:]}")
        for i, o in enumerate(out):
            if "driver_error" in o:
                raise InfraError(f"driver rejected request {i}: {o['driver_error']}: {json.dumps(requests[i])[:300]}")
            if o.get("id") != i:
                raise InfraError("driver answers out of order")
            o.pop("id", None)
        self.calls += 1
        self.lines += len(requests)
        return out


class Violation:
    def __init__(self, clause, case, detail, found_input, signature=None, size=0):
        self.clause, self.case, self.detail = clause, case, detail
        self.found_input = found_input      # True: the implementation itself fails the property on `case`
        self.signature = signature or {}
        self.size = size


class Ctx:
    def __init__(self, prop, tier, seed):
        self.prop, self.tier, self.seed = prop, tier, seed
        self.rng = random.Random(f"{prop}:{seed}")
        self.driver = Driver()
        self.evaluations = 0
        self.distinct = set()
        self.hist = {}
        self.samples = []
        self.violations = []
        self.notes = []
        self.extra = {}
        self.t0 = time.time()

    def thorough(self):
        return self.tier == "thorough"

    def pick(self, quick, thorough):
        return thorough if self.tier == "thorough" else quick

    def count(self, key, n=1):
        self.hist[key] = self.hist.get(key, 0) + n

    def evaluated(self, case_key=None, nontrivial=True):
        """one evaluation; `case_key` (hashable / json-able) identifies the case for the distinct count"""
        self.evaluations += 1
        if nontrivial and case_key is not None:
            if not isinstance(case_key, (str, bytes, int, tuple)):
                case_key = json.dumps(case_key, sort_keys=True)
            self.distinct.add(hashlib.blake2b(repr(case_key).encode(), digest_size=12).digest())

    def sample(self, obj, limit=4):
        if len(self.samples) < limit:
            s = json.dumps(obj, sort_keys=True, default=str)
            self.samples.append(json.loads(s) if len(s) < 4000 else {"truncated": s[:4000]})

    def violation(self, clause, case, detail, found_input, signature=None, size=0):
        self.violations.append(Violation(clause, case, detail, found_input, signature, size))


def load_known():
    p = os.path.join(VERIF, "known_findings.json")
    if not os.path.exists(p):
        return []
    return json.load(open(p)).get("findings", [])


def matches(sig, vsig):
    return all(vsig.get(k) == v for k, v in sig.items())
