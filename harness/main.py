"""./check Cxx [--tier quick|thorough] [--replay FILE]"""
import argparse, hashlib, importlib, json, os, re, sys, time, traceback
from . import core


def main():
    ap = argparse.ArgumentParser()
    ap.add_argument("prop")
    ap.add_argument("--tier", default=os.environ.get("VERIF_TIER", "quick"), choices=["quick", "thorough"])
    ap.add_argument("--replay", default=None)
    a = ap.parse_args()
    prop = a.prop.upper()
    seed = int(os.environ.get("VERIF_SEED", "0") or 0)
    try:
        sys.exit(run(prop, a.tier, seed, a.replay))
    except core.InfraError as e:
        print(f"INFRA-ERROR property={prop}: {e}", flush=True)
        sys.exit(2)
    except Exception:
        traceback.print_exc()
        print(f"INFRA-ERROR property={prop}: harness crashed", flush=True)
        sys.exit(2)


def run(prop, tier, seed, replay):
    t0 = time.time()
    mod = importlib.import_module(f"harness.props.{prop.lower()}")
    ctx = core.Ctx(prop, tier, seed)
    lean_modules = getattr(mod, "LEAN_MODULES", [f"PoseVerif.Props.{prop}"])

    # 1. proofs: rebuild the property's theorems and the model driver
    ok, log, secs = core.lake_build(lean_modules + ["posedriver"])
    proof_broken = None
    if not ok:
        names = sorted(set(re.findall(r"error: (\S+\.lean:\d+)", log)))
        proof_broken = "lake build failed: " + ", ".join(names[:8])
        ok2, _, _ = core.lake_build(["posedriver"])
        if not ok2 and not os.path.exists(core.DRIVER):
            raise core.InfraError("the model driver does not build:\n" + log[-3000:])
    # 2. audit
    theorems, bad_axioms = [], []
    if not proof_broken:
        hits = core.static_scan()
        if hits:
            raise core.InfraError("forbidden construct in Lean sources: " + "; ".join(hits[:5]))
        for m in core.audit(lean_modules):
            ns = m["module"] + "."
            for t in m["theorems"]:
                if t["theorem"].startswith(ns):
                    theorems.append(t)
                    extra = set(t["axioms"]) - core.ALLOWED_AXIOMS
                    if extra:
                        bad_axioms.append((t["theorem"], sorted(extra)))
        if bad_axioms:
            raise core.InfraError(f"theorems depend on axioms outside the allowed set: {bad_axioms}")
        if not theorems:
            raise core.InfraError("no property theorems found in " + ", ".join(lean_modules))
        if tier == "thorough":
            r = core.sh(["lake", "env", "leanchecker"] + lean_modules, cwd=core.LEAN, timeout=3000)
            ctx.extra["leanchecker"] = "ok" if r.returncode == 0 else "failed"
            if r.returncode != 0:
                raise core.InfraError("leanchecker rejected the compiled proofs: " + (r.stdout + r.stderr)[-2000:])

    # 3./4. correspondence + property oracle on the implementation
    if replay:
        return run_replay(prop, mod, ctx, replay)
    try:
        mod.run(ctx)
    except core.InfraError:
        raise
    except Exception as e:
        # an exception that escapes from the library under test where the harness expected a result (a call the harness does not guard because it cannot fail on
        # the unchanged tree): that is the library's behaviour, not an infrastructure problem — the run stops here, what was found so far is reported, and the
        # escape itself is a violation whose replay carries the traceback (the failing input is the one being evaluated: named by the innermost harness frame)
        import traceback
        tb = traceback.extract_tb(e.__traceback__)
        repo_src = os.path.realpath(os.path.join(os.environ.get("POSE_REPO", "/repo"), "src"))
        if not (tb and os.path.realpath(tb[-1].filename).startswith(repo_src)):
            raise
        harness_frame = next((f for f in reversed(tb) if "/harness/" in f.filename), None)
        ctx.violation("the library raises where the check expects a result", {"harness_call": "%s:%s %s" % (os.path.basename(harness_frame.filename), harness_frame.lineno, harness_frame.line) if harness_frame else None},
                      {"error": "%s: %s" % (type(e).__name__, str(e)[:200]), "raised_at": "%s:%s" % (os.path.relpath(tb[-1].filename, repo_src), tb[-1].lineno),
                       "traceback": traceback.format_exc()[-1500:]}, True, signature={"clause": "escaped exception"})

    # 5. classify
    known = [k for k in core.load_known() if k.get("property") == prop and k.get("kind") == "finding"]
    fresh, known_hits = [], {}
    for v in ctx.violations:
        hit = next((k for k in known if v.found_input and core.matches(k["signature"], v.signature)), None)
        if hit:
            known_hits.setdefault(hit["id"], (hit, []))[1].append(v)
        else:
            fresh.append(v)
    for kid, (k, vs) in sorted(known_hits.items()):
        print(f"KNOWN-FINDING: property={prop} {kid}: {k['what']} ({len(vs)} case(s) this run)", flush=True)

    exit_code = 0
    lines = []
    os.makedirs(os.path.join(core.VERIF, "replays"), exist_ok=True)
    real = [v for v in fresh if v.found_input]
    soft = [v for v in fresh if not v.found_input]
    if real:
        # one report per clause, smallest case first
        by_clause = {}
        for v in sorted(real, key=lambda v: v.size):
            by_clause.setdefault(v.clause, v)
        for clause, v in list(by_clause.items())[:5]:
            path = write_replay(prop, seed, tier, v, None)
            lines.append(f"VIOLATION property={prop} replay={path}")
    elif soft or proof_broken:
        v = sorted(soft, key=lambda v: v.size)[0] if soft else core.Violation("proof", None, proof_broken, False)
        what = proof_broken if proof_broken else f"correspondence model≠implementation on clause '{v.clause}'"
        path = write_replay(prop, seed, tier, v, what)
        lines.append(f"VIOLATION property={prop} replay={path} no-failing-input-found")
    if lines:
        exit_code = 1

    # 6. evidence
    ev = {
        "property_id": prop, "tier": tier, "seed": seed, "level": "proof",
        "coverage": {
            "obligations": len(theorems) if theorems else 1,
            "discharged": len(theorems) if not proof_broken else 0,
            "checker_cmd": f"cd lean && lake build {' '.join(lean_modules)} && lake env lean --run Audit.lean {' '.join(lean_modules)}"
                           + (" && lake env leanchecker " + " ".join(lean_modules) if tier == "thorough" else ""),
            "trusted_base": core.TRUSTED_BASE + list(getattr(mod, "TRUSTED_EXTRA", [])),
            "theorems": [{"name": t["theorem"], "axioms": t["axioms"]} for t in theorems],
            "evaluations": ctx.evaluations,
            "distinct_nontrivial": len(ctx.distinct),
            "rule": getattr(mod, "RULE", ""),
            "samples": ctx.samples or [{"note": "no sample recorded"}],
            "distribution": dict(sorted(ctx.hist.items())),
            "driver_lines": ctx.driver.lines,
            "known_findings_hit": sorted(known_hits),
            "proof_build": "ok" if not proof_broken else proof_broken,
            **ctx.extra,
        },
        "assumptions": list(getattr(mod, "ASSUMPTIONS", [])) + ctx.notes,
        "wall_s": round(time.time() - t0, 2),
        "violations": len(lines),
    }
    evdir = os.environ.get("VERIF_EVIDENCE_DIR") or os.path.join(core.VERIF, "evidence")      # the regression of the mutation corpus writes its evidence elsewhere
    os.makedirs(evdir, exist_ok=True)
    with open(os.path.join(evdir, f"{prop}.json"), "w") as f:
        json.dump(ev, f, indent=1, sort_keys=True)
    print(f"{prop} tier={tier} seed={seed}: theorems={len(theorems)} evaluations={ctx.evaluations} "
          f"distinct={len(ctx.distinct)} violations={len(lines)} wall={ev['wall_s']}s", flush=True)
    for l in lines:
        print(l, flush=True)
    return exit_code


def run_replay(prop, mod, ctx, path):
    """`./check Cxx --replay FILE`: run the recorded input again on the current tree. Exit 1 (with a VIOLATION line) when it still fails, 0 when it does not.
    Properties with a replay of their own execute just that input; the others re-run the check with the recorded seed and tier (every random choice derives from
    the seed, so the same inputs are generated) and look for the recorded input among the violations. Evidence files are not rewritten."""
    rep = json.load(open(path))
    canon = lambda x: json.dumps(x, sort_keys=True, default=str)
    try:
        rc = mod.replay(ctx, rep)
        if rc is None:
            rc = 1 if any(v for v in ctx.violations) else 0
        print(f"replay: {'still fails' if rc else 'no longer fails'} ({rep.get('clause')})", flush=True)
    except SystemExit as e:
        if "re-run" not in str(e):
            raise
        ctx2 = core.Ctx(prop, rep.get("tier", ctx.tier), int(rep.get("seed", ctx.seed)))
        mod.run(ctx2)
        same = [v for v in ctx2.violations if v.clause == rep.get("clause") and canon(v.case) == canon(rep.get("case"))]
        clause = [v for v in ctx2.violations if v.clause == rep.get("clause")]
        if same:
            print(f"replay: the recorded input still fails ({rep.get('clause')})", flush=True); rc = 1
        elif clause:
            print(f"replay: the recorded input is no longer reported, but the same clause fails on {len(clause)} other input(s) of that run ({rep.get('clause')})", flush=True); rc = 1
        else:
            print(f"replay: not reproduced — the recorded input no longer fails ({rep.get('clause')})", flush=True); rc = 0
    if rc:
        print(f"VIOLATION property={prop} replay={path}" + ("" if rep.get("failing_input_found", True) else " no-failing-input-found"), flush=True)
    return rc


def write_replay(prop, seed, tier, v, unchecked):
    body = {"property": prop, "seed": seed, "tier": tier, "clause": v.clause, "detail": v.detail,
            "case": v.case, "signature": v.signature, "failing_input_found": v.found_input}
    if unchecked:
        body["no_longer_checks"] = unchecked
    s = json.dumps(body, sort_keys=True, default=str)
    name = f"{prop}-{hashlib.sha256(s.encode()).hexdigest()[:12]}.json"
    path = os.path.join("replays", name)
    with open(os.path.join(core.VERIF, path), "w") as f:
        f.write(json.dumps(body, indent=1, sort_keys=True, default=str))
    return path


if __name__ == "__main__":
    main()
