"""Executes masked-tensor programs (JSON instructions, see harness/props/c10.py) on the real torch / tensorflow MaskedTensor classes.
Used in-process for torch and as a child process for tensorflow (`python -m harness.mtexec tf < programs.jsonl`)."""
import json, struct, sys
import numpy as np


def f64_bits(x):
    return struct.unpack("<Q", struct.pack("<d", float(x)))[0]


def bits_f64(n):
    return struct.unpack("<d", struct.pack("<Q", int(n)))[0]


def lead_axis(lead, rank):
    return None if lead == rank else (0 if lead == 1 else tuple(range(lead)))


def run_torch(env, prog):
    import torch
    from pose_format.torch.masked import MaskedTensor, MaskedTorch
    regs = [MaskedTensor(torch.tensor(np.array(e["data"], dtype=np.float32).reshape(e["shape"])), torch.tensor(np.array(e["mask"], dtype=bool).reshape(e["shape"]))) for e in env]
    plain = {i for i, e in enumerate(env) if e.get("plain")}         # registers handed to cat / the right-hand side of ⊕ as plain tensors (all valid)
    arg = lambda i: regs[i].tensor if i in plain else regs[i]
    dump0 = [_dump_torch(r) for r in regs]
    out = []
    for ins in prog:
        k = ins["k"]
        try:
            a = regs[ins["r"]] if "r" in ins else None
            if k == "index": r = a[ins["i"]]
            elif k == "slice": r = a[ins["a"]:ins["b"]]
            elif k == "gather": r = a[ins["ixs"]]
            elif k == "permute": r = a.permute(tuple(ins["perm"]))
            elif k == "transpose": r = a.transpose(ins["d0"], ins["d1"])
            elif k == "squeeze": r = a.squeeze(ins["dim"])
            elif k == "squeeze_all": r = MaskedTorch.squeeze(a)
            elif k == "unsqueeze": r = MaskedTorch.unsqueeze(a, ins["dim"])
            elif k == "reshape": r = a.reshape(tuple(ins["shape"]))
            elif k == "narrow":
                n = a.tensor.shape[ins["axis"]]
                r = a.split(ins["split"], ins["axis"])[ins["piece"]] if "split" in ins else a.split([ins["start"], ins["len"], n - ins["start"] - ins["len"]], ins["axis"])[1]
            elif k == "cat": r = MaskedTorch.cat([arg(i) for i in ins["rs"]], dim=ins["dim"])
            elif k == "stack": r = MaskedTorch.stack([regs[i] for i in ins["rs"]], dim=ins["dim"])
            elif k == "bin":
                x, y = regs[ins["r1"]], arg(ins["r2"])
                if ins["f"] == "div" and ins.get("via") == "method":
                    r = x.div(regs[ins["r2"]])                       # the named method (in_place=False, update_mask=True): same meaning as `/`
                else:
                    r = getattr(x, {"add": "__add__", "sub": "__sub__", "mul": "__mul__", "div": "__truediv__"}[ins["f"]])(y)
            elif k == "bin_scalar":
                r = getattr(a, {"add": "__add__", "sub": "__sub__", "mul": "__mul__", "div": "__truediv__"}[ins["f"]])(bits_f64(ins["c"]))
            elif k == "pow_scalar": r = MaskedTensor(a.tensor.clone(), a.mask.clone()).pow_(bits_f64(ins["c"]))
            elif k == "square": r = MaskedTorch.square(a)
            elif k == "sqrt": r = MaskedTorch.sqrt(a)
            elif k == "sum": r = a.sum(dim=ins["dim"])
            elif k == "matmul": r = a.matmul(torch.tensor(np.array([bits_f64(x) for x in ins["m"]["data"]], dtype=np.float32).reshape(ins["m"]["shape"])))
            elif k == "fix_nan": r = MaskedTensor(a.tensor.clone(), a.mask.clone()).fix_nan()
            else: raise NotImplementedError(k)
            if not isinstance(r, MaskedTensor):
                raise TypeError("result is not a MaskedTensor: " + type(r).__name__)
            zf = r.zero_filled() if tuple(r.tensor.shape) == tuple(r.mask.shape) else None
        except Exception as e:
            out.append({"error": type(e).__name__ + ": " + str(e)[:100]})
            break
        regs.append(r)
        out.append({"shape": list(r.tensor.shape), "mask_shape": list(r.mask.shape), "data": [f64_bits(x) for x in r.tensor.detach().numpy().astype(np.float64).reshape(-1)],
                    "mask": [int(bool(x)) for x in r.mask.numpy().reshape(-1)], "zf": None if zf is None else [f64_bits(x) for x in zf.detach().numpy().astype(np.float64).reshape(-1)]})
    # every register once more, after the whole program: no operation may have changed an earlier value (inputs included)
    ok_steps = [o for o in out if "error" not in o]
    first = dump0 + [(o["data"], o["mask"]) for o in ok_steps]
    changed = [i for i, (r, d) in enumerate(zip(regs, first)) if _dump_torch(r) != (d[0], d[1])]
    if out:
        out[-1]["changed_registers"] = changed
    return out


def _dump_torch(r):
    return ([f64_bits(x) for x in r.tensor.detach().numpy().astype(np.float64).reshape(-1)], [int(bool(x)) for x in r.mask.numpy().reshape(-1)])


def _dump_tf(r):
    return ([f64_bits(x) for x in np.asarray(r.tensor).astype(np.float64).reshape(-1)], [int(bool(x)) for x in np.asarray(r.mask).reshape(-1)])


def run_tf(env, prog):
    import tensorflow as tf
    from pose_format.tensorflow.masked.tensor import MaskedTensor
    from pose_format.tensorflow.masked.tensorflow import MaskedTensorflow
    regs = [MaskedTensor(tf.constant(np.array(e["data"], dtype=np.float32).reshape(e["shape"])), tf.constant(np.array(e["mask"], dtype=bool).reshape(e["shape"]))) for e in env]
    plain = {i for i, e in enumerate(env) if e.get("plain")}
    arg = lambda i: regs[i].tensor if i in plain else regs[i]
    dump0 = [_dump_tf(r) for r in regs]
    out = []
    for ins in prog:
        k = ins["k"]
        try:
            a = regs[ins["r"]] if "r" in ins else None
            rank = len(a.tensor.shape) if a is not None else 0
            if k == "index": r = a[ins["i"]]
            elif k == "slice": r = a[ins["a"]:ins["b"]]
            elif k == "gather": r = a.gather(ins["ixs"])
            elif k == "permute": r = a.transpose(perm=list(ins["perm"]))
            elif k == "transpose":
                d0, d1 = ins["d0"] % rank, ins["d1"] % rank
                perm = list(range(rank)); perm[d0], perm[d1] = perm[d1], perm[d0]
                r = a.transpose(perm=perm)
            elif k == "squeeze": r = a.squeeze(ins["dim"])
            elif k == "reshape": r = a.reshape(tuple(ins["shape"]))
            elif k == "narrow":
                n = a.tensor.shape[ins["axis"]]
                r = a.split(ins["split"], ins["axis"])[ins["piece"]] if "split" in ins else a.split([ins["start"], ins["len"], n - ins["start"] - ins["len"]], ins["axis"])[1]
            elif k == "cat": r = MaskedTensorflow.concat([arg(i) for i in ins["rs"]], axis=ins["dim"])
            elif k == "stack": r = MaskedTensorflow.stack([regs[i] for i in ins["rs"]], axis=ins["dim"])
            elif k == "bin":
                x, y = regs[ins["r1"]], arg(ins["r2"])
                r = getattr(x, {"add": "__add__", "sub": "__sub__", "mul": "__mul__", "div": "__truediv__"}[ins["f"]])(y)
            elif k == "bin_scalar":
                r = getattr(a, {"add": "__add__", "sub": "__sub__", "mul": "__mul__", "div": "__truediv__"}[ins["f"]])(bits_f64(ins["c"]))
            elif k == "pow_scalar": r = a ** bits_f64(ins["c"])
            elif k == "square": r = a.square()
            elif k == "sqrt": r = a.sqrt()
            elif k == "sum": r = a.sum(axis=ins["dim"])
            elif k == "mean": r = a.mean(axis=lead_axis(ins["lead"], rank))
            elif k == "variance": r = a.variance(axis=lead_axis(ins["lead"], rank))
            elif k == "std": r = a.std(axis=lead_axis(ins["lead"], rank))
            elif k == "matmul": r = a.matmul(tf.constant(np.array([bits_f64(x) for x in ins["m"]["data"]], dtype=np.float32).reshape(ins["m"]["shape"])))
            elif k == "fix_nan": r = MaskedTensor(a.tensor, a.mask).fix_nan()
            else: raise NotImplementedError(k)
            if not isinstance(r, MaskedTensor):
                raise TypeError("result is not a MaskedTensor: " + type(r).__name__)
            zf = r.zero_filled() if tuple(r.tensor.shape) == tuple(r.mask.shape) else None
        except Exception as e:
            out.append({"error": type(e).__name__ + ": " + str(e)[:100]})
            break
        regs.append(r)
        out.append({"shape": [int(x) for x in r.tensor.shape], "mask_shape": [int(x) for x in r.mask.shape], "data": [f64_bits(x) for x in np.asarray(r.tensor).astype(np.float64).reshape(-1)],
                    "mask": [int(bool(x)) for x in np.asarray(r.mask).reshape(-1)], "zf": None if zf is None else [f64_bits(x) for x in np.asarray(zf).astype(np.float64).reshape(-1)]})
    ok_steps = [o for o in out if "error" not in o]
    first = dump0 + [(o["data"], o["mask"]) for o in ok_steps]
    changed = [i for i, (r, d) in enumerate(zip(regs, first)) if _dump_tf(r) != (d[0], d[1])]
    if out:
        out[-1]["changed_registers"] = changed
    return out


if __name__ == "__main__":
    fw = sys.argv[1]
    run = run_tf if fw == "tf" else run_torch
    for line in sys.stdin:
        if line.strip():
            req = json.loads(line)
            sys.stdout.write(json.dumps(run(req["env"], req["prog"])) + "\n")
            sys.stdout.flush()
