"""Independent reference encoders for the three on-disk layouts, written from docs/specs/v0.{0,1,2}.md only
(struct calls spelled out field by field; nothing imported from pose_format)."""
import struct


def _s(hexstr):
    raw = bytes.fromhex(hexstr)
    return struct.pack("<H", len(raw)) + raw


def header(h, version_bits):
    out = struct.pack("<I", version_bits)                       # float Version (given as its bit pattern)
    out += struct.pack("<HHH", h["width"], h["height"], h["depth"])
    out += struct.pack("<H", len(h["components"]))
    for c in h["components"]:
        out += _s(c["name"]) + _s(c["format"])
        out += struct.pack("<HHH", len(c["points"]), len(c["limbs"]), len(c["colors"]))
        for p in c["points"]:
            out += _s(p)
        for a, b in c["limbs"]:
            out += struct.pack("<HH", a, b)
        for r, g, b in c["colors"]:
            out += struct.pack("<HHH", r, g, b)
    return out


def _f32s(bits):
    return struct.pack("<%dI" % len(bits), *bits)


def v02(case, version_bits=0x3E4CCCCD):
    h, b = case["header"], case["body"]
    out = header(h, version_bits)
    out += struct.pack("<I", b["fps"]["f32"]) + struct.pack("<I", b["frames"]) + struct.pack("<H", b["people"])
    return out + _f32s(b["data"]) + _f32s(b["conf"])


def v01(case, frames_field=None, version_bits=0x3DCCCCCD):
    """fps and frame count are unsigned shorts; the frame count field holds frames mod 2^16 unless given"""
    h, b = case["header"], case["body"]
    out = header(h, version_bits)
    ff = b["frames"] % 65536 if frames_field is None else frames_field
    out += struct.pack("<HH", b["fps"]["int"], ff) + struct.pack("<H", b["people"])
    return out + _f32s(b["data"]) + _f32s(b["conf"])


def v00(h, fps, frames, version_bits=0):
    """frames: list of people; a person = (id, [per component: list of rows, each row = len(format) float32 patterns])"""
    out = header(h, version_bits)
    out += struct.pack("<HH", fps, len(frames))
    for people in frames:
        out += struct.pack("<H", len(people))
        for pid, comps in people:
            out += struct.pack("<h", pid)
            for rows in comps:
                for row in rows:
                    out += _f32s(row)
    return out
