"""Runs sequences of body operations on the real NumPy / torch / tensorflow pose bodies and returns canonical views.
In-process for numpy and torch; `python -m harness.bodyexec tf < cases.jsonl` as a child process for tensorflow."""
import json, sys
import numpy as np
import numpy.ma as ma
from .mtexec import f64_bits, bits_f64


def view_of(body, be):
    """(shape, conf, missing per element, raw data, zero-filled data) as flat lists of binary64 bit patterns / 0-1 flags"""
    if be == "numpy":
        d = body.data
        raw = np.asarray(ma.getdata(d), dtype=np.float64)
        miss = np.broadcast_to(ma.getmaskarray(d), raw.shape)
        conf = np.asarray(body.confidence, dtype=np.float64)
    else:
        d = body.data
        if hasattr(d, "mask"):
            raw = np.asarray(d.tensor, dtype=np.float64) if be == "tf" else d.tensor.detach().numpy().astype(np.float64)
            m = np.asarray(d.mask) if be == "tf" else d.mask.numpy()
            if tuple(m.shape) != tuple(raw.shape):
                return {"error": "mask shape %s differs from data shape %s" % (tuple(m.shape), tuple(raw.shape))}
            miss = ~m.astype(bool)
        else:                               # zero_filled() leaves a plain tensor in body.data
            raw = np.asarray(d, dtype=np.float64) if be == "tf" else d.detach().numpy().astype(np.float64)
            miss = None
        conf = np.asarray(body.confidence, dtype=np.float64) if be == "tf" else body.confidence.detach().numpy().astype(np.float64)
    out = {"shape": list(raw.shape), "fps": f64_bits(float(body.fps)), "conf": [f64_bits(x) for x in conf.reshape(-1)], "data": [f64_bits(x) for x in raw.reshape(-1)]}
    if miss is not None:
        out["missing"] = [int(x) for x in miss.reshape(-1)]
        out["zf"] = [f64_bits(x) for x in np.where(miss, 0.0, raw).reshape(-1)]
    else:
        out["missing"] = None
        out["zf"] = out["data"]
    return out


def scribble(body, be):
    """overwrite, in place, everything the body holds (coordinates, mask, confidences): a copy that shares memory with it changes too"""
    try:
        if be == "numpy":
            d = body.data
            ma.getdata(d)[...] = 777.0
            m = ma.getmaskarray(d)
            if d.mask is not ma.nomask:
                d.mask[...] = ~m
            np.asarray(body.confidence)[...] = 0.125
        elif be == "torch":
            d = body.data
            if hasattr(d, "mask"):
                d.tensor.fill_(777.0)
                d.mask.copy_(~d.mask.bool()) if d.mask.dtype == __import__("torch").bool else d.mask.fill_(0)
            else:
                d.fill_(777.0)
            body.confidence.fill_(0.125)
    except Exception:
        pass                                         # read-only buffers cannot be scribbled on, and then they cannot leak either


def read_body(raw_hex, be, route, window=None):
    from pose_format import Pose
    from pose_format.pose_header import PoseHeaderCache
    PoseHeaderCache.clear_cache()
    raw = bytes.fromhex(raw_hex)
    if route == "read_window":                        # a windowed read from a stream, straight into the body class
        import io
        kw = {"start_frame": window[0], "end_frame": window[1]}
        if be == "numpy":
            return Pose.read(io.BytesIO(raw), **kw).body
        if be == "torch":
            from pose_format.torch.pose_body import TorchPoseBody
            return Pose.read(io.BytesIO(raw), TorchPoseBody, **kw).body
        from pose_format.tensorflow.pose_body import TensorflowPoseBody
        return Pose.read(io.BytesIO(raw), TensorflowPoseBody, **kw).body
    if route == "read":
        if be == "numpy":
            return Pose.read(raw).body
        if be == "torch":
            from pose_format.torch.pose_body import TorchPoseBody
            return Pose.read(raw, TorchPoseBody).body
        from pose_format.tensorflow.pose_body import TensorflowPoseBody
        return Pose.read(raw, TensorflowPoseBody).body
    b = Pose.read(raw).body
    return b if be == "numpy" else (b.torch() if be == "torch" else b.tensorflow())


def run_case(case, be):
    try:
        body = read_body(case["hex"], be, case["route"], case.get("window"))
    except Exception as e:
        return [{"error": type(e).__name__ + ": " + str(e)[:120]}]
    out = [view_of(body, be)]
    for op in case["ops"]:
        k = op["k"]
        try:
            if k == "get_points": body = body.get_points(op["ixs"])
            elif k == "select_frames": body = body.select_frames(op["ixs"])
            elif k == "slice_step": body = body.slice_step(op["by"])
            elif k == "slice": body = body[slice(op["a"], op["b"], op["step"])]            # frame selection by a Python slice (any bounds, positive step)
            elif k == "zero_filled": body = body.zero_filled()
            elif k == "copy":
                orig = body
                body = orig.copy()
                scribble(orig, be)                       # the copy must not notice what happens to the original afterwards
            elif k == "matmul": body = body.matmul(np.array([[bits_f64(x) for x in r] for r in op["m"]], dtype=np.float32))
            elif k == "flatten":
                fl = body.flatten()
                fl = np.asarray(fl, dtype=np.float64) if be != "torch" else fl.detach().numpy().astype(np.float64)
                out.append({"rows": [[f64_bits(x) for x in r] for r in fl]})
                continue
            else: raise NotImplementedError(k)
        except Exception as e:
            out.append({"error": type(e).__name__ + ": " + str(e)[:120]})
            break
        out.append(view_of(body, be))
    return out


if __name__ == "__main__":
    be = sys.argv[1]
    for line in sys.stdin:
        if line.strip():
            sys.stdout.write(json.dumps(run_case(json.loads(line), be)) + "\n")
            sys.stdout.flush()
