import PoseVerif.Model.Prim
import PoseVerif.Model.Prog
import PoseVerif.Model.Header
import PoseVerif.Model.Body
import PoseVerif.Model.Stream
