import Lean
/-!
Axiom audit: `lake env lean --run Audit.lean PoseVerif.Props.C01 [more modules]`.
For every theorem declared in a given module whose name lies in the module's namespace, prints the axioms it depends on
(`Lean.collectAxioms`), as one JSON object per module.
-/
open Lean

def auditModule (modName : Name) : IO Json := do
  let env ← importModules #[{ module := modName }] {} (trustLevel := 1024)
  let some modIdx := env.getModuleIdx? modName | throw (IO.userError s!"module {modName} not found")
  let mut out : Array Json := #[]
  for (n, ci) in env.constants.toList do
    if env.getModuleIdxFor? n == some modIdx && !n.isInternal then
      if let .thmInfo _ := ci then
        let (axs, _) ← ((collectAxioms n : CoreM _).toIO { fileName := "", fileMap := default } { env := env })
        out := out.push (Json.mkObj [("theorem", toJson n.toString), ("axioms", toJson (axs.map (·.toString)))])
  return Json.mkObj [("module", toJson modName.toString), ("theorems", Json.arr out)]

def main (args : List String) : IO UInt32 := do
  initSearchPath (← findSysroot)
  let mut res : Array Json := #[]
  for a in args do
    res := res.push (← auditModule a.toName)
  IO.println (Json.arr res).compress
  return 0
