import PoseVerif.Proofs.Codec6
/-! Truncation and trailing bytes (full reads through `BufferReader`). -/
namespace PoseVerif
open Prog

/-- a successful `rdPose` with an empty cache is a successful raw header parse followed by a successful body parse -/
theorem rdPose_none_inv {w : Window} {f : Bytes} {p : Pose} {c : Option CacheEntry} {n : Nat}
    (hr : runBR (rdPose none w) f 0 = some ((p, c), n)) :
    ∃ e, runBR rdHeaderRaw f 0 = some (p.header, e) ∧ runBR (rdBody p.header w) f e = some (p.body, n) := by
  simp only [rdPose, runBR, rdHeader] at hr
  obtain ⟨⟨hd, c'⟩, n1, h1, h2⟩ := runBR_bind_inv hr
  obtain ⟨hd', n1', h1', h1''⟩ := runBR_bind_inv h1
  simp only [runBR, Option.some.injEq, Prod.mk.injEq] at h1''
  obtain ⟨⟨rfl, rfl⟩, rfl⟩ := h1''
  obtain ⟨body, n2, h3, h4⟩ := runBR_bind_inv h2
  simp only [runBR, Option.some.injEq, Prod.mk.injEq] at h4
  obtain ⟨⟨rfl, rfl⟩, rfl⟩ := h4
  exact ⟨n1', h1', h3⟩

theorem rdPose_none_of {w : Window} {f : Bytes} {h : Header} {b : Body} {e n : Nat}
    (h1 : runBR rdHeaderRaw f 0 = some (h, e)) (h2 : runBR (rdBody h w) f e = some (b, n)) :
    runBR (rdPose none w) f 0 = some ((⟨h, b⟩, some { key := f.take e, endOff := e, header := h }), n) := by
  simp only [rdPose, runBR, rdHeader]
  have : runBR (Prog.bind rdHeaderRaw fun h => Prog.getOff fun e => Prog.peek e fun key =>
      Prog.ret (h, some ({ key, endOff := e, header := h } : CacheEntry))) f 0
      = some ((h, some { key := f.take e, endOff := e, header := h }), e) := by
    rw [runBR_bind_some h1]; simp [runBR]
  rw [runBR_bind_some this, runBR_bind_some h2]
  rfl

/-- No proper prefix of a written file is accepted by a full read. -/
theorem truncated_rejected (p : Pose) (hf : p.body.Fits p.header) (b : Bytes) (h : p.write? = some b)
    (n : Nat) (hn : n < b.length) : readFull (b.take n) = none := by
  cases hcut : runBR (rdPose none {}) (b.take n) 0 with
  | none => simp [readFull, hcut]
  | some r =>
    exfalso
    obtain ⟨⟨q, c⟩, m⟩ := r
    obtain ⟨e, hh, hb⟩ := rdPose_none_inv hcut
    obtain ⟨w, c0, _, hfull⟩ := runBR_rdPose_write p hf b [] h
    rw [List.append_nil] at hfull
    obtain ⟨e0, hh0, hb0⟩ := rdPose_none_inv hfull
    -- the prefix parse of the header extends to the whole file
    have hsplit : b = b.take n ++ b.drop n := (List.take_append_drop n b).symm
    have hh' := runBR_extend _ Blind_rdHeaderRaw _ (b.drop n) _ _ hh
    rw [← hsplit, hh0] at hh'
    simp only [Option.some.injEq, Prod.mk.injEq] at hh'
    obtain ⟨hq, rfl⟩ := hh'
    -- hence the header is the written one (version 0.2) and the body decoder is the skip-free, blind v0.2 one
    have hv : q.header.version = v02bits := by rw [← hq]; rfl
    simp only [rdBody, hv, versionClass_v02bits, rdBodyV02_full] at hb
    have hbound := runBR_bound _ (SkipFree_rdBodyV02Full _) _ _ _ hb
    have hle : e0 ≤ (b.take n).length := by
      have := runBR_bound _ SkipFree_rdHeaderRaw _ _ _ hh
      exact this.2 (Nat.zero_le _)
    have hm : m ≤ (b.take n).length := hbound.2 hle
    have hb' := runBR_extend _ (Blind_rdBodyV02Full _) _ (b.drop n) _ _ hb
    rw [← hsplit] at hb'
    rw [hq] at hb0
    simp only [rdBody, hv, versionClass_v02bits, rdBodyV02_full] at hb0
    rw [hb0] at hb'
    simp only [Option.some.injEq, Prod.mk.injEq] at hb'
    have : (b.take n).length ≤ n := by simp [List.length_take]; omega
    omega

/-- Whatever follows a file that a full read accepts as v0.2 does not change the result. -/
theorem trailing_ignored_v02 (f extra : Bytes) (p : Pose) (hr : readFull f = some p) (hv : versionClass p.header.version = .v02) :
    readFull (f ++ extra) = some p := by
  simp only [readFull, Option.map_eq_some_iff] at hr
  obtain ⟨⟨⟨q, c⟩, n⟩, hrun, rfl⟩ := hr
  obtain ⟨e, hh, hb⟩ := rdPose_none_inv hrun
  have hh' := runBR_extend _ Blind_rdHeaderRaw _ extra _ _ hh
  simp only [rdBody, hv, rdBodyV02_full] at hb
  have hb' := runBR_extend _ (Blind_rdBodyV02Full _) _ extra _ _ hb
  have : runBR (rdBody q.header {}) (f ++ extra) e = some (q.body, n) := by
    simp only [rdBody, hv, rdBodyV02_full]; exact hb'
  simp [readFull, rdPose_none_of hh' this]

end PoseVerif
