import PoseVerif.Proofs.Codec3
/-! Header codec (`rdHeaderRaw` against `encHeaderAny?`). -/
namespace PoseVerif
open Prog

theorem Rel_rdHeaderRaw : Rel rdHeaderRaw :=
  Rel_bind _ _ Rel_rdF32 fun _ => Rel_bind _ _ Rel_rd3U16 fun _ => Rel_bind _ _ Rel_rdU16 fun _ =>
  Rel_bind _ _ (Rel_many _ Rel_rdComp _) fun _ => trivial
theorem Blind_rdHeaderRaw : Blind rdHeaderRaw :=
  Blind_bind _ _ Blind_rdF32 fun _ => Blind_bind _ _ Blind_rd3U16 fun _ => Blind_bind _ _ Blind_rdU16 fun _ =>
  Blind_bind _ _ (Blind_many _ Blind_rdComp _) fun _ => trivial
theorem SkipFree_rdHeaderRaw : SkipFree rdHeaderRaw :=
  SkipFree_bind _ _ SkipFree_rdF32 fun _ => SkipFree_bind _ _ SkipFree_rd3U16 fun _ => SkipFree_bind _ _ SkipFree_rdU16 fun _ =>
  SkipFree_bind _ _ (SkipFree_many _ SkipFree_rdComp _) fun _ => trivial

theorem encHeaderAny?_some {h : Header} {b : Bytes} (hb : encHeaderAny? h = some b) :
    ∃ d n cs, pack3U16? h.width h.height h.depth = some d ∧ packU16? h.comps.length = some n ∧
      h.comps.mapM encComp? = some cs ∧ b = putF32 h.version ++ d ++ n ++ cs.flatten := by
  simp only [encHeaderAny?, Option.bind_eq_bind, Option.bind_eq_some_iff, Option.pure_def, Option.some.injEq] at hb
  obtain ⟨d, hd, n, hn, cs, hcs, rfl⟩ := hb
  exact ⟨d, n, cs, hd, hn, hcs, rfl⟩

theorem Enc_rdHeaderRaw : Enc rdHeaderRaw encHeaderAny? := by
  intro h b r hb
  obtain ⟨d, n, cs, hd, hn, hcs, rfl⟩ := encHeaderAny?_some hb
  simp only [List.append_assoc, List.length_append]
  unfold rdHeaderRaw
  refine seq_enc (Enc_rdF32 h.version _ _ rfl) ?_ ?_
  · exact Rel_bind _ _ Rel_rd3U16 fun _ => Rel_bind _ _ Rel_rdU16 fun _ => Rel_bind _ _ (Rel_many _ Rel_rdComp _) fun _ => trivial
  refine seq_enc (Enc_rd3U16 (h.width, h.height, h.depth) _ _ hd) ?_ ?_
  · exact Rel_bind _ _ Rel_rdU16 fun _ => Rel_bind _ _ (Rel_many _ Rel_rdComp _) fun _ => trivial
  refine seq_enc (Enc_rdU16 _ _ _ hn) ?_ ?_
  · exact Rel_bind _ _ (Rel_many _ Rel_rdComp _) fun _ => trivial
  rw [runBR_bind_some (Enc_many Rel_rdComp Enc_rdComp _ _ _ hcs)]
  rfl

theorem Dec_rdHeaderRaw : Dec rdHeaderRaw encHeaderAny? := by
  intro f h n hr
  unfold rdHeaderRaw at hr
  obtain ⟨version, n1, m1, h1, hle1, hr1, rfl⟩ := seq_dec
    (f := fun version => Prog.bind rd3U16 fun d => Prog.bind rdU16 fun n => Prog.bind (Prog.many rdComp n) fun comps =>
      Prog.ret ({ version, width := d.1, height := d.2.1, depth := d.2.2, comps } : Header))
    (fun _ => Rel_bind _ _ Rel_rd3U16 fun _ => Rel_bind _ _ Rel_rdU16 fun _ => Rel_bind _ _ (Rel_many _ Rel_rdComp _) fun _ => trivial)
    (fun a o ho => (Dec_rdF32 f a o ho).1) hr
  obtain ⟨d, n2, m2, h2, hle2, hr2, rfl⟩ := seq_dec
    (f := fun d : Nat × Nat × Nat => Prog.bind rdU16 fun n => Prog.bind (Prog.many rdComp n) fun comps =>
      Prog.ret ({ version, width := d.1, height := d.2.1, depth := d.2.2, comps } : Header))
    (fun _ => Rel_bind _ _ Rel_rdU16 fun _ => Rel_bind _ _ (Rel_many _ Rel_rdComp _) fun _ => trivial)
    (fun a o ho => (Dec_rd3U16 _ a o ho).1) hr1
  obtain ⟨nc, n3, m3, h3, hle3, hr3, rfl⟩ := seq_dec
    (f := fun n => Prog.bind (Prog.many rdComp n) fun comps =>
      Prog.ret ({ version, width := d.1, height := d.2.1, depth := d.2.2, comps } : Header))
    (fun _ => Rel_bind _ _ (Rel_many _ Rel_rdComp _) fun _ => trivial)
    (fun a o ho => (Dec_rdU16 _ a o ho).1) hr2
  obtain ⟨comps, n4, h4, hret⟩ := runBR_bind_inv hr3
  simp only [runBR, Option.some.injEq, Prod.mk.injEq] at hret
  obtain ⟨rfl, rfl⟩ := hret
  obtain ⟨_, e1⟩ := Dec_rdF32 _ _ _ h1
  obtain ⟨_, e2⟩ := Dec_rd3U16 _ _ _ h2
  obtain ⟨_, e3⟩ := Dec_rdU16 _ _ _ h3
  obtain ⟨hle4, hl4, cs, e4, f4⟩ := Dec_many Rel_rdComp Dec_rdComp _ _ _ _ h4
  simp only [List.length_drop] at *
  refine ⟨by omega, ?_⟩
  simp only [Option.some.injEq] at e1
  simp only [encHeaderAny?, e2, hl4, e3, e4, Option.bind_eq_bind, Option.bind_some, Option.pure_def, e1, f4]
  congr 1
  simp only [take_add_drop, List.append_assoc]

end PoseVerif
