import PoseVerif.Proofs.PoseOps
/-!
# Rectangular nested arrays and three-way pointwise relations

`RectL n P l`: `l` has `n` elements, all satisfying `P` — nested, this is "an ndarray of shape (F, P, N, D)".
`F3 R a b c`: three lists of equal length related element by element (used for "two bodies that differ only under the mask, and their confidences").
-/
namespace PoseVerif

/-! ### one level of rectangularity -/

def RectL {α : Type} (n : Nat) (P : α → Prop) (l : List α) : Prop := l.length = n ∧ ∀ x ∈ l, P x

theorem RectL.mono {α : Type} {n : Nat} {P Q : α → Prop} {l : List α} (h : RectL n P l) (hpq : ∀ x, P x → Q x) : RectL n Q l :=
  ⟨h.1, fun x hx => hpq x (h.2 x hx)⟩

theorem RectL.map {α β : Type} {n : Nat} {P : α → Prop} {Q : β → Prop} {l : List α} (h : RectL n P l) (f : α → β) (hf : ∀ x, P x → Q (f x)) :
    RectL n Q (l.map f) := by
  refine ⟨by simp [h.1], ?_⟩
  intro y hy
  obtain ⟨x, hx, rfl⟩ := List.mem_map.mp hy
  exact hf x (h.2 x hx)

theorem getD_mem {α : Type} (l : List α) (i : Nat) (d : α) (h : i < l.length) : l.getD i d ∈ l := by
  simp only [List.getD_eq_getElem?_getD, List.getElem?_eq_getElem h, Option.getD_some]; exact List.getElem_mem h

theorem RectL.getD {α : Type} {n : Nat} {P : α → Prop} {l : List α} (h : RectL n P l) (i : Nat) (d : α) (hi : i < n) : P (l.getD i d) :=
  h.2 _ (getD_mem l i d (by rw [h.1]; exact hi))

theorem RectL.pickD {α : Type} [Inhabited α] {n : Nat} {P : α → Prop} {l : List α} (h : RectL n P l) (ixs : List Nat) (hi : ∀ i ∈ ixs, i < n) :
    RectL ixs.length P (pickD ixs l) := by
  refine ⟨by simp [PoseVerif.pickD], ?_⟩
  intro y hy
  simp only [PoseVerif.pickD] at hy
  obtain ⟨i, hix, rfl⟩ := List.mem_map.mp hy
  exact h.getD i default (hi i hix)

theorem RectL.everyNth {α : Type} [Inhabited α] {n : Nat} {P : α → Prop} {l : List α} (h : RectL n P l) (k : Nat) (hk : 0 < k) :
    RectL ((n + k - 1) / k) P (everyNth k l) := by
  refine ⟨by simp [PoseVerif.everyNth, h.1], ?_⟩
  intro y hy
  simp only [PoseVerif.everyNth] at hy
  obtain ⟨j, hj, rfl⟩ := List.mem_map.mp hy
  have hj' : j < (l.length + k - 1) / k := List.mem_range.mp hj
  apply h.getD
  rw [← h.1]
  have h1 : (j + 1) * k ≤ l.length + k - 1 := by
    have := (Nat.le_div_iff_mul_le hk).mp (Nat.succ_le_of_lt hj')
    simpa using this
  rw [Nat.add_mul] at h1
  omega

theorem RectL.range_map {β : Type} {Q : β → Prop} (n : Nat) (f : Nat → β) (hf : ∀ i, i < n → Q (f i)) : RectL n Q ((List.range n).map f) := by
  refine ⟨by simp, ?_⟩
  intro y hy
  obtain ⟨i, hi, rfl⟩ := List.mem_map.mp hy
  exact hf i (List.mem_range.mp hi)

/-- two rectangular lists of the same extent are related element by element -/
theorem RectL.toF2 {α β : Type} {n : Nat} {P : α → Prop} {Q : β → Prop} {a : List α} {b : List β} (ha : RectL n P a) (hb : RectL n Q b) :
    F2 (fun x y => P x ∧ Q y) a b := by
  induction a generalizing b n with
  | nil =>
    cases b with
    | nil => exact F2.nil
    | cons y ys => have := ha.1; have := hb.1; simp at *; omega
  | cons x xs ih =>
    cases b with
    | nil => have := ha.1; have := hb.1; simp at *; omega
    | cons y ys =>
      have hxs : RectL xs.length P xs := ⟨rfl, fun z hz => ha.2 z (List.mem_cons_of_mem _ hz)⟩
      have hys : RectL xs.length Q ys := ⟨by have := ha.1; have := hb.1; simp at *; omega, fun z hz => hb.2 z (List.mem_cons_of_mem _ hz)⟩
      exact F2.cons ⟨ha.2 x (by simp), hb.2 y (by simp)⟩ (ih hxs hys)

theorem F2.mono {α β : Type} {R R' : α → β → Prop} {a : List α} {b : List β} (h : F2 R a b) (hr : ∀ x y, R x y → R' x y) : F2 R' a b := by
  induction h with
  | nil => exact F2.nil
  | cons hxy _ ih => exact F2.cons (hr _ _ hxy) ih

/-! ### three-way pointwise relation -/

inductive F3 {α β γ : Type} (R : α → β → γ → Prop) : List α → List β → List γ → Prop where
  | nil : F3 R [] [] []
  | cons {x y z xs ys zs} : R x y z → F3 R xs ys zs → F3 R (x :: xs) (y :: ys) (z :: zs)

namespace F3
variable {α β γ : Type} {R : α → β → γ → Prop} {a : List α} {b : List β} {c : List γ}

theorem length_ab (h : F3 R a b c) : a.length = b.length := by
  induction h with
  | nil => rfl
  | cons _ _ ih => simp [ih]

theorem length_ac (h : F3 R a b c) : a.length = c.length := by
  induction h with
  | nil => rfl
  | cons _ _ ih => simp [ih]

theorem mono {R' : α → β → γ → Prop} (h : F3 R a b c) (hr : ∀ x y z, R x y z → R' x y z) : F3 R' a b c := by
  induction h with
  | nil => exact F3.nil
  | cons hxyz _ ih => exact F3.cons (hr _ _ _ hxyz) ih

theorem getD (h : F3 R a b c) (i : Nat) (da : α) (db : β) (dc : γ) (hd : R da db dc) : R (a.getD i da) (b.getD i db) (c.getD i dc) := by
  induction h generalizing i with
  | nil => simpa using hd
  | cons hxyz _ ih =>
    cases i with
    | zero => simpa using hxyz
    | succ i => simpa using ih i

/-- the same list of positions mapped through three related families -/
theorem mapSame {ι : Type} (l : List ι) (f : ι → α) (g : ι → β) (k : ι → γ) (h : ∀ i ∈ l, R (f i) (g i) (k i)) : F3 R (l.map f) (l.map g) (l.map k) := by
  induction l with
  | nil => exact F3.nil
  | cons i is ih => exact F3.cons (h i (by simp)) (ih fun j hj => h j (List.mem_cons_of_mem _ hj))

theorem pickD [Inhabited α] [Inhabited β] [Inhabited γ] (h : F3 R a b c) (hd : R default default default) (ixs : List Nat) :
    F3 R (PoseVerif.pickD ixs a) (PoseVerif.pickD ixs b) (PoseVerif.pickD ixs c) :=
  mapSame ixs _ _ _ fun i _ => h.getD i default default default hd

theorem everyNth [Inhabited α] [Inhabited β] [Inhabited γ] (h : F3 R a b c) (hd : R default default default) (k : Nat) :
    F3 R (PoseVerif.everyNth k a) (PoseVerif.everyNth k b) (PoseVerif.everyNth k c) := by
  simp only [PoseVerif.everyNth, ← h.length_ab, ← h.length_ac]
  exact mapSame _ _ _ _ fun i _ => h.getD (i * k) default default default hd

theorem map {α' β' γ' : Type} {R' : α' → β' → γ' → Prop} (h : F3 R a b c) (f : α → α') (g : β → β') (k : γ → γ')
    (hr : ∀ x y z, R x y z → R' (f x) (g y) (k z)) : F3 R' (a.map f) (b.map g) (c.map k) := by
  induction h with
  | nil => exact F3.nil
  | cons hxyz _ ih => exact F3.cons (hr _ _ _ hxyz) ih

/-- a function of (element, third component) that does not distinguish related elements gives the same `zipWith` -/
theorem zipWith_eq {δ : Type} (h : F3 R a b c) (f : α → γ → δ) (g : β → γ → δ) (hr : ∀ x y z, R x y z → f x z = g y z) :
    List.zipWith f a c = List.zipWith g b c := by
  induction h with
  | nil => rfl
  | cons hxyz _ ih => simp [hr _ _ _ hxyz, ih]

/-- combine each element with the third component -/
theorem zipWithC {α' β' : Type} {R' : α' → β' → γ → Prop} (h : F3 R a b c) (f : α → γ → α') (g : β → γ → β')
    (hr : ∀ x y z, R x y z → R' (f x z) (g y z) z) : F3 R' (List.zipWith f a c) (List.zipWith g b c) c := by
  induction h with
  | nil => exact F3.nil
  | cons hxyz _ ih => exact F3.cons (hr _ _ _ hxyz) ih

theorem toF2_ac {Q : α → γ → Prop} (h : F3 R a b c) (hr : ∀ x y z, R x y z → Q x z) : F2 Q a c := by
  induction h with
  | nil => exact F2.nil
  | cons hxyz _ ih => exact F2.cons (hr _ _ _ hxyz) ih

theorem toF2_bc {Q : β → γ → Prop} (h : F3 R a b c) (hr : ∀ x y z, R x y z → Q y z) : F2 Q b c := by
  induction h with
  | nil => exact F2.nil
  | cons hxyz _ ih => exact F2.cons (hr _ _ _ hxyz) ih

theorem toF2_ab {Q : α → β → Prop} (h : F3 R a b c) (hr : ∀ x y z, R x y z → Q x y) : F2 Q a b := by
  induction h with
  | nil => exact F2.nil
  | cons hxyz _ ih => exact F2.cons (hr _ _ _ hxyz) ih

/-- reflexive instances: a list related to itself and a third list -/
theorem ofF2 {Q : α → γ → Prop} {R₀ : α → α → γ → Prop} {a : List α} {c : List γ} (h : F2 Q a c) (hr : ∀ x z, Q x z → R₀ x x z) : F3 R₀ a a c := by
  induction h with
  | nil => exact F3.nil
  | cons hxz _ ih => exact F3.cons (hr _ _ hxz) ih

end F3

/-- `zipWith h d (zipWith k d c)` is one `zipWith` over `(d, c)` -/
theorem zipWith_zipWith_self {α γ δ ε : Type} (h : α → δ → ε) (k : α → γ → δ) (d : List α) (c : List γ) :
    List.zipWith h d (List.zipWith k d c) = List.zipWith (fun x z => h x (k x z)) d c := by
  induction d generalizing c with
  | nil => simp
  | cons x xs ih => cases c <;> simp [ih]

theorem zipWith_congr_fun {α β γ : Type} (f g : α → β → γ) (a : List α) (b : List β) (h : ∀ x ∈ a, ∀ y ∈ b, f x y = g x y) :
    List.zipWith f a b = List.zipWith g a b := by
  induction a generalizing b with
  | nil => simp
  | cons x xs ih =>
    cases b with
    | nil => simp
    | cons y ys =>
      simp only [List.zipWith_cons_cons]
      rw [h x (by simp) y (by simp), ih ys fun x' hx y' hy => h x' (List.mem_cons_of_mem _ hx) y' (List.mem_cons_of_mem _ hy)]

end PoseVerif

namespace PoseVerif

theorem RectL.toF3 {α β γ : Type} {n : Nat} {P : α → Prop} {Q : β → Prop} {R : γ → Prop} {a : List α} {b : List β} {c : List γ}
    (ha : RectL n P a) (hb : RectL n Q b) (hc : RectL n R c) : F3 (fun x y z => P x ∧ Q y ∧ R z) a b c := by
  induction a generalizing b c n with
  | nil =>
    have h1 := ha.1; have h2 := hb.1; have h3 := hc.1
    cases b with
    | nil => cases c with
      | nil => exact F3.nil
      | cons _ _ => simp at *; omega
    | cons _ _ => simp at *; omega
  | cons x xs ih =>
    have h1 := ha.1; have h2 := hb.1; have h3 := hc.1
    cases b with
    | nil => simp at *; omega
    | cons y ys =>
      cases c with
      | nil => simp at *; omega
      | cons z zs =>
        have hxs : RectL xs.length P xs := ⟨rfl, fun w hw => ha.2 w (List.mem_cons_of_mem _ hw)⟩
        have hys : RectL xs.length Q ys := ⟨by simp at *; omega, fun w hw => hb.2 w (List.mem_cons_of_mem _ hw)⟩
        have hzs : RectL xs.length R zs := ⟨by simp at *; omega, fun w hw => hc.2 w (List.mem_cons_of_mem _ hw)⟩
        exact F3.cons ⟨ha.2 x (by simp), hb.2 y (by simp), hc.2 z (by simp)⟩ (ih hxs hys hzs)

theorem RectL.flatten {α : Type} {n m : Nat} {Q : α → Prop} {l : List (List α)} (h : RectL n (RectL m Q) l) : RectL (n * m) Q l.flatten := by
  induction l generalizing n with
  | nil => have := h.1; simp at this; subst this; exact ⟨by simp, by simp⟩
  | cons x xs ih =>
    have hx := h.2 x (by simp)
    have hxs : RectL xs.length (RectL m Q) xs := ⟨rfl, fun w hw => h.2 w (List.mem_cons_of_mem _ hw)⟩
    have := ih hxs
    have hn : n = xs.length + 1 := by have := h.1; simp at this; omega
    refine ⟨by simp [hx.1, this.1, hn, Nat.add_mul]; omega, ?_⟩
    intro y hy
    simp only [List.flatten_cons, List.mem_append] at hy
    rcases hy with hy | hy
    · exact hx.2 y hy
    · exact this.2 y hy

end PoseVerif
