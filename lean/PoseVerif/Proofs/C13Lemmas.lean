import PoseVerif.Model.Normalize3D
import PoseVerif.Proofs.NormLift
import Mathlib.Analysis.Real.Sqrt
import Mathlib.Tactic.Ring
import Mathlib.Tactic.FieldSimp
import Mathlib.Tactic.Linarith
import Mathlib.Tactic.NormNum
/-! Definitions and helper lemmas for `Props/C13.lean` (the property theorems themselves are kept apart, in that file). -/
namespace PoseVerif.Props.C13
open PoseVerif

noncomputable instance : Inhabited ℝ := ⟨0⟩

open Classical in
/-- the scalar record of ℝ -/
noncomputable def realScalar : Scalar ℝ :=
  { zero := 0, add := (· + ·), sub := (· - ·), mul := (· * ·), div := (· / ·), pow := fun x _ => x, sqrt := Real.sqrt, ofNat := fun n => (n : ℝ),
    isFinite := fun _ => true, isNaN := fun _ => false, lt := fun a b => decide (a < b), neg := fun a => -a, ceilNat := fun _ => 0 }

noncomputable abbrev RS := realScalar

@[simp] theorem RS_add (a b : ℝ) : RS.add a b = a + b := rfl
@[simp] theorem RS_sub (a b : ℝ) : RS.sub a b = a - b := rfl
@[simp] theorem RS_mul (a b : ℝ) : RS.mul a b = a * b := rfl
@[simp] theorem RS_div (a b : ℝ) : RS.div a b = a / b := rfl
@[simp] theorem RS_sqrt (a : ℝ) : RS.sqrt a = Real.sqrt a := rfl
@[simp] theorem RS_zero : RS.zero = 0 := rfl
@[simp] theorem RS_neg (a : ℝ) : RS.neg a = -a := rfl
@[simp] theorem RS_ofNat (n : Nat) : RS.ofNat n = (n : ℝ) := rfl

theorem sumList_eq (l : List ℝ) : sumList RS l = l.sum := by
  unfold sumList
  have gen : ∀ (l : List ℝ) (a : ℝ), l.foldl RS.add a = a + l.sum := by
    intro l; induction l with
    | nil => intro a; simp
    | cons x xs ih => intro a; simp only [List.foldl_cons, List.sum_cons, ih, RS_add]; ring
  simpa using gen l 0

theorem meanOpt_eq (l : List ℝ) (h : l ≠ []) : meanOpt RS l = some (l.sum / (l.length : ℝ)) := by
  unfold meanOpt
  have : l.isEmpty = false := by cases l <;> simp_all
  simp only [this, sumList_eq]
  rfl

theorem meanOpt_some {l : List ℝ} {m : ℝ} (h : meanOpt RS l = some m) : l ≠ [] ∧ m = l.sum / (l.length : ℝ) := by
  by_cases hl : l = []
  · subst hl; simp [meanOpt] at h
  · rw [meanOpt_eq l hl] at h; exact ⟨hl, by cases h; rfl⟩

theorem length_ne_zero {l : List ℝ} (h : l ≠ []) : (l.length : ℝ) ≠ 0 := by
  cases l with
  | nil => exact absurd rfl h
  | cons x xs => simp only [List.length_cons]; exact_mod_cast Nat.succ_ne_zero xs.length

theorem sum_map_affine (a t : ℝ) (l : List ℝ) : (l.map fun v => a * v + t).sum = a * l.sum + t * (l.length : ℝ) := by
  induction l with
  | nil => simp
  | cons x xs ih => simp only [List.map_cons, List.sum_cons, ih, List.length_cons]; push_cast; ring

/-! ### distribution normalisation, one column (the values of one coordinate over the chosen axes) -/

/-! ### the two-point normaliser -/

theorem zipWith_both_map {α : Type} (f : α → α → α) (g k : α → α) (hfg : ∀ x y, f (g x) (g y) = k (f x y)) (l₁ l₂ : List (Option α)) :
    List.zipWith (both f) (l₁.map (Option.map g)) (l₂.map (Option.map g)) = (List.zipWith (both f) l₁ l₂).map (Option.map k) := by
  induction l₁ generalizing l₂ with
  | nil => simp
  | cons a as ih =>
    cases l₂ with
    | nil => simp
    | cons b bs =>
      simp only [List.map_cons, List.zipWith_cons_cons, ih]
      congr 1
      cases a <;> cases b <;> simp [both, hfg]

theorem filterMap_id_map {α : Type} (k : α → α) (l : List (Option α)) : (l.map (Option.map k)).filterMap id = (l.filterMap id).map k := by
  induction l with
  | nil => rfl
  | cons a as ih => cases a <;> simpa [List.filterMap_cons] using ih

theorem terms_map {α : Type} (k : α → α) (cols : List (List (Option α))) (i : Nat) :
    (cols.map (List.map (Option.map k))).filterMap (fun col => col.getD i none) = (cols.filterMap fun col => col.getD i none).map k := by
  induction cols with
  | nil => rfl
  | cons c cs ih =>
    have : (c.map (Option.map k)).getD i none = (c.getD i none).map k := by
      simp only [List.getD_eq_getElem?_getD, List.getElem?_map]
      cases c[i]? <;> rfl
    simp only [List.map_cons, List.filterMap_cons, this]
    cases c.getD i none with
    | none => simpa using ih
    | some v => simp only [Option.map_some, List.map_cons]; rw [ih]

section
variable {isZero : ℝ → Bool} {F P N D : Nat} {b : PBody ℝ}

/-- midpoints commute with a coordinate-wise affine map -/
theorem midVals_affine (h : BInv isZero F P N D b) (α : ℝ) (β : Nat → ℝ) (fps' : ℝ) (p1 p2 d : Nat) :
    midVals RS (mapCoords isZero (fun d x => α * x + β d) fps' b) p1 p2 d = (midVals RS b p1 p2 d).map fun m => α * m + β d := by
  unfold midVals
  rw [cellVals_mapCoords h, cellVals_mapCoords h, zipWith_both_map _ _ (fun m => α * m + β d), filterMap_id_map]
  intro x y
  simp only [RS_div, RS_add, RS_ofNat]
  push_cast
  ring

/-- reference distances scale by `|α|` under a coordinate-wise affine map with common factor `α` -/
theorem distVals_affine (h : BInv isZero F P N D b) (α : ℝ) (β : Nat → ℝ) (fps' : ℝ) (p1 p2 D' : Nat) :
    distVals RS (mapCoords isZero (fun d x => α * x + β d) fps' b) p1 p2 D' = (distVals RS b p1 p2 D').map fun x => |α| * x := by
  unfold distVals
  have hcols : ((List.range D').map fun d => List.zipWith (both fun x y => RS.mul (RS.sub x y) (RS.sub x y))
        (cellVals (mapCoords isZero (fun d x => α * x + β d) fps' b) p1 d) (cellVals (mapCoords isZero (fun d x => α * x + β d) fps' b) p2 d)) =
      ((List.range D').map fun d => List.zipWith (both fun x y => RS.mul (RS.sub x y) (RS.sub x y)) (cellVals b p1 d) (cellVals b p2 d)).map
        (List.map (Option.map fun v => α * α * v)) := by
    rw [List.map_map]
    apply List.map_congr_left
    intro d _
    simp only [Function.comp]
    rw [cellVals_mapCoords h, cellVals_mapCoords h, zipWith_both_map _ _ (fun v => α * α * v)]
    intro x y
    simp only [RS_mul, RS_sub]
    ring
  simp only [hcols]
  generalize ((List.range D').map fun d => List.zipWith (both fun x y => RS.mul (RS.sub x y) (RS.sub x y)) (cellVals b p1 d) (cellVals b p2 d)) = cols
  have hlen : ((cols.map (List.map (Option.map fun v => α * α * v))).headD []).length = (cols.headD []).length := by
    cases cols <;> simp
  rw [hlen, List.map_filterMap]
  apply List.filterMap_congr
  intro i _
  have hterms := terms_map (fun v => α * α * v) cols i
  simp only [hterms]
  by_cases he : (cols.filterMap fun col => col.getD i none).isEmpty = true
  · have he' : ((cols.filterMap fun col => col.getD i none).map fun v => α * α * v).isEmpty = true := by simpa using he
    rw [if_pos he', if_pos he]; rfl
  · have he' : ((cols.filterMap fun col => col.getD i none).map fun v => α * α * v).isEmpty = false := by simpa using he
    have he2 : (cols.filterMap fun col => col.getD i none).isEmpty = false := by simpa using he
    simp only [he', he2, Bool.false_eq_true, if_false, Option.map_some, Option.some.injEq, sumList_eq, RS_sqrt]
    have hs : ((cols.filterMap fun col => col.getD i none).map fun v => α * α * v).sum = α * α * (cols.filterMap fun col => col.getD i none).sum := by
      have := sum_map_affine (α * α) 0 (cols.filterMap fun col => col.getD i none)
      simpa using this
    rw [hs, Real.sqrt_mul (mul_self_nonneg α), Real.sqrt_mul_self_eq_abs]

theorem mapM_some_getD (f : Nat → Option ℝ) : ∀ (xs : List Nat) (out : List ℝ), xs.mapM f = some out →
    out.length = xs.length ∧ ∀ i (hi : i < xs.length), f xs[i] = some (out.getD i 0)
  | [], out, h => by simp at h; subst h; exact ⟨rfl, fun i hi => absurd hi (by simp)⟩
  | x :: xs, out, h => by
    simp only [List.mapM_cons, Option.bind_eq_bind, Option.bind_eq_some_iff, Option.pure_def, Option.some.injEq] at h
    obtain ⟨y, hy, rest, hrest, rfl⟩ := h
    obtain ⟨h1, h2⟩ := mapM_some_getD f xs rest hrest
    refine ⟨by simp [h1], ?_⟩
    intro i hi
    cases i with
    | zero => simpa using hy
    | succ j => simpa using h2 j (by simpa using hi)

theorem mapM_range_some (f : Nat → Option ℝ) (g : Nat → ℝ) (n : Nat) (h : ∀ d < n, f d = some (g d)) : (List.range n).mapM f = some ((List.range n).map g) := by
  have gen : ∀ (xs : List Nat), (∀ d ∈ xs, f d = some (g d)) → xs.mapM f = some (xs.map g) := by
    intro xs; induction xs with
    | nil => intro _; rfl
    | cons x xs ih =>
      intro hx
      simp only [List.mapM_cons, hx x (by simp), ih fun d hd => hx d (List.mem_cons_of_mem _ hd), Option.bind_eq_bind, Option.bind_some, Option.pure_def, List.map_cons]
  exact gen _ fun d hd => h d (List.mem_range.mp hd)

theorem distVals_nonneg (b : PBody ℝ) (p1 p2 D' : Nat) : ∀ x ∈ distVals RS b p1 p2 D', 0 ≤ x := by
  intro x hx
  unfold distVals at hx
  obtain ⟨i, _, hi⟩ := List.mem_filterMap.mp hx
  simp only [] at hi
  split at hi
  · cases hi
  · cases hi; exact Real.sqrt_nonneg _

theorem mean_affine (α β : ℝ) (l : List ℝ) (m : ℝ) (h : meanOpt RS l = some m) : meanOpt RS (l.map fun v => α * v + β) = some (α * m + β) := by
  obtain ⟨hl, rfl⟩ := meanOpt_some h
  have hn := length_ne_zero hl
  rw [meanOpt_eq _ (by simpa using hl), sum_map_affine, List.length_map]
  congr 1
  field_simp

/-- the normalised body is the coordinate-wise affine image `x ↦ (x − c_d) · s` of the input -/
theorem normalizeBody_eq (p1 p2 : Nat) (sf : ℝ) (b b' : PBody ℝ) (center : List ℝ) (md : ℝ) (hres : normalizeBody RS isZero p1 p2 sf b = some (b', center, md)) :
    b' = mapCoords isZero (fun d x => (sf / md) * x + (-(center.getD d 0) * (sf / md))) b.fps b ∧
    (List.range (numDimsBody b)).mapM (fun d => meanOpt RS (midVals RS b p1 p2 d)) = some center ∧ meanOpt RS (distVals RS b p1 p2 (numDimsBody b)) = some md := by
  unfold normalizeBody at hres
  simp only [Option.bind_eq_bind, Option.bind_eq_some_iff, Option.some.injEq, Prod.mk.injEq] at hres
  obtain ⟨c, hc, m, hm, rfl, rfl, rfl⟩ := hres
  refine ⟨?_, hc, hm⟩
  unfold mapCoords normalizePoint
  congr 4
  funext pt
  congr 1
  funext d x
  simp only [RS_mul, RS_sub, RS_div, RS_zero]
  ring

theorem mapIdx_congr_lt {α β : Type} (f g : Nat → α → β) (l : List α) (h : ∀ i (hi : i < l.length), f i l[i] = g i l[i]) : l.mapIdx f = l.mapIdx g := by
  apply List.ext_getElem
  · simp
  · intro i h1 h2
    simp only [List.getElem_mapIdx]
    exact h i (by simpa using h1)

theorem mapCoords_inv (h : BInv isZero F P N D b) (g : Nat → ℝ → ℝ) (fps' : ℝ) : BInv isZero F P N D (mapCoords isZero g fps' b) :=
  (mapPoints_inv .numpy h (fun pt => pt.mapIdx g) (fun pt => by simp) fps').1

end

/-! ### the 3-D plane / line normaliser, one frame and person -/

section threeD

theorem getD_map_lt {α β : Type} [Inhabited α] [Inhabited β] (f : α → β) (l : List α) (i : Nat) (h : i < l.length) : (l.map f).getD i default = f (l.getD i default) := by
  simp [List.getD_eq_getElem?_getD, List.getElem?_eq_getElem h]

@[simp] theorem length_stage1 (info : Norm3DInfo) (pts : List (V3S ℝ)) : (stage1 RS info pts).length = pts.length := by simp [stage1]
@[simp] theorem length_stage2 (info : Norm3DInfo) (l : List (V3S ℝ)) : (stage2 RS info l).length = l.length := by simp [stage2]
@[simp] theorem length_stage3 (info : Norm3DInfo) (size : ℝ) (l : List (V3S ℝ)) : (stage3 RS info size l).length = l.length := by simp [stage3]

/-- all five reference indexes denote points of the pose -/
def InRange (info : Norm3DInfo) (n : Nat) : Prop :=
  info.plane.1 < n ∧ info.plane.2.1 < n ∧ info.plane.2.2 < n ∧ info.line.1 < n ∧ info.line.2 < n

/-- after the change of basis the three plane points have z = 0 (the normal is orthogonal to both edge vectors) -/
theorem stage1_plane_z (info : Norm3DInfo) (pts : List (V3S ℝ)) (hr : InRange info pts.length) (k : Nat)
    (hk : k = info.plane.1 ∨ k = info.plane.2.1 ∨ k = info.plane.2.2) : ((stage1 RS info pts).getD k default).2.2 = 0 := by
  have hkl : k < pts.length := by rcases hk with rfl | rfl | rfl; exact hr.1; exact hr.2.1; exact hr.2.2.1
  unfold stage1
  simp only []
  rw [getD_map_lt _ _ _ hkl]
  rcases hk with rfl | rfl | rfl <;> simp only [v3dot, v3sub, v3cross, v3norm, RS_add, RS_sub, RS_mul, RS_div] <;> ring

/-! #### invariance under translation and uniform scaling of the input -/

def trans3 (t : V3S ℝ) (p : V3S ℝ) : V3S ℝ := (p.1 + t.1, p.2.1 + t.2.1, p.2.2 + t.2.2)
def scale3 (a : ℝ) (p : V3S ℝ) : V3S ℝ := (a * p.1, a * p.2.1, a * p.2.2)

theorem v3sub_trans (t a b : V3S ℝ) : v3sub RS (trans3 t a) (trans3 t b) = v3sub RS a b := by
  simp only [v3sub, trans3, RS_sub]
  refine Prod.ext ?_ (Prod.ext ?_ ?_) <;> simp only [] <;> ring

theorem sqrt_scale_sq (a x : ℝ) (ha : 0 ≤ a) : Real.sqrt (a * a * x) = a * Real.sqrt x := by
  rw [Real.sqrt_mul (mul_self_nonneg a), Real.sqrt_mul_self ha]

theorem stage1_scale (info : Norm3DInfo) (pts : List (V3S ℝ)) (hr : InRange info pts.length) (a : ℝ) (ha : 0 < a) :
    stage1 RS info (pts.map (scale3 a)) = (stage1 RS info pts).map (scale3 a) := by
  unfold stage1
  simp only [getD_map_lt (scale3 a) pts _ hr.1, getD_map_lt (scale3 a) pts _ hr.2.1, getD_map_lt (scale3 a) pts _ hr.2.2.1, List.map_map]
  apply List.map_congr_left
  intro p _
  rcases p with ⟨px, py, pz⟩
  rcases h0 : pts.getD info.plane.1 default with ⟨ax, ay, az⟩
  rcases h1 : pts.getD info.plane.2.1 default with ⟨bx, by', bz⟩
  rcases h2 : pts.getD info.plane.2.2 default with ⟨cx, cy, cz⟩
  simp only [Function.comp, scale3, v3sub, v3dot, v3cross, v3norm, RS_sub, RS_mul, RS_add, RS_div, RS_sqrt, RS_zero, RS_ofNat]
  -- the normal scales by a², its length by a², so the unit normal (hence the basis) is unchanged
  set nx := (by' - ay) * (cz - az) - (bz - az) * (cy - ay) with hnx
  set ny := (bz - az) * (cx - ax) - (bx - ax) * (cz - az) with hny
  set nz := (bx - ax) * (cy - ay) - (by' - ay) * (cx - ax) with hnz
  have e1 : (a * by' - a * ay) * (a * cz - a * az) - (a * bz - a * az) * (a * cy - a * ay) = a * a * nx := by rw [hnx]; ring
  have e2 : (a * bz - a * az) * (a * cx - a * ax) - (a * bx - a * ax) * (a * cz - a * az) = a * a * ny := by rw [hny]; ring
  have e3 : (a * bx - a * ax) * (a * cy - a * ay) - (a * by' - a * ay) * (a * cx - a * ax) = a * a * nz := by rw [hnz]; ring
  rw [e1, e2, e3]
  have hlen : Real.sqrt (a * a * nx * (a * a * nx) + a * a * ny * (a * a * ny) + a * a * nz * (a * a * nz)) = a * a * Real.sqrt (nx * nx + ny * ny + nz * nz) := by
    have : a * a * nx * (a * a * nx) + a * a * ny * (a * a * ny) + a * a * nz * (a * a * nz) = (a * a) * (a * a) * (nx * nx + ny * ny + nz * nz) := by ring
    rw [this, sqrt_scale_sq (a * a) _ (mul_self_nonneg a)]
  rw [hlen]
  set len := Real.sqrt (nx * nx + ny * ny + nz * nz)
  have ha2 : a * a ≠ 0 := ne_of_gt (mul_pos ha ha)
  have hz : ∀ w : ℝ, a * a * w / (a * a * len) = w / len := fun w => mul_div_mul_left w len ha2
  simp only [hz, Nat.cast_one]
  refine Prod.ext ?_ (Prod.ext ?_ ?_) <;> simp only [] <;> ring

theorem stage2_scale (info : Norm3DInfo) (l : List (V3S ℝ)) (h1 : info.line.1 < l.length) (h2 : info.line.2 < l.length) (a : ℝ) (ha : 0 < a) :
    stage2 RS info (l.map (scale3 a)) = (stage2 RS info l).map (scale3 a) := by
  unfold stage2
  simp only [getD_map_lt (scale3 a) l _ h1, getD_map_lt (scale3 a) l _ h2, List.map_map]
  apply List.map_congr_left
  intro p _
  rcases p with ⟨px, py, pz⟩
  rcases hA : l.getD info.line.1 default with ⟨ax, ay, az⟩
  rcases hB : l.getD info.line.2 default with ⟨bx, by', bz⟩
  simp only [Function.comp, scale3, v3sub, RS_sub, RS_mul, RS_add, RS_div, RS_sqrt, RS_neg]
  have hr : Real.sqrt ((a * bx - a * ax) * (a * bx - a * ax) + (a * by' - a * ay) * (a * by' - a * ay)) = a * Real.sqrt ((bx - ax) * (bx - ax) + (by' - ay) * (by' - ay)) := by
    have : (a * bx - a * ax) * (a * bx - a * ax) + (a * by' - a * ay) * (a * by' - a * ay) = a * a * ((bx - ax) * (bx - ax) + (by' - ay) * (by' - ay)) := by ring
    rw [this, sqrt_scale_sq a _ (le_of_lt ha)]
  rw [hr]
  set r := Real.sqrt ((bx - ax) * (bx - ax) + (by' - ay) * (by' - ay))
  have ha0 : a ≠ 0 := ne_of_gt ha
  have hc : -(a * by' - a * ay) / (a * r) = -(by' - ay) / r := by
    rw [show -(a * by' - a * ay) = a * -(by' - ay) by ring]; exact mul_div_mul_left _ r ha0
  have hs : (a * bx - a * ax) / (a * r) = (bx - ax) / r := by
    rw [show (a * bx - a * ax) = a * (bx - ax) by ring]; exact mul_div_mul_left _ r ha0
  rw [hc, hs]
  refine Prod.ext ?_ (Prod.ext ?_ ?_) <;> simp only [] <;> ring

theorem stage3_scale (info : Norm3DInfo) (size : ℝ) (l : List (V3S ℝ)) (h1 : info.line.1 < l.length) (h2 : info.line.2 < l.length) (a : ℝ) (ha : 0 < a) :
    stage3 RS info size (l.map (scale3 a)) = stage3 RS info size l := by
  unfold stage3
  simp only [getD_map_lt (scale3 a) l _ h1, getD_map_lt (scale3 a) l _ h2, List.map_map]
  rcases hA : l.getD info.line.1 default with ⟨ax, ay, az⟩
  rcases hB : l.getD info.line.2 default with ⟨bx, by', bz⟩
  have hcur : v3norm RS (v3sub RS (scale3 a (bx, by', bz)) (scale3 a (ax, ay, az))) = a * v3norm RS (v3sub RS (bx, by', bz) (ax, ay, az)) := by
    simp only [scale3, v3sub, v3norm, v3dot, RS_sub, RS_mul, RS_add, RS_sqrt]
    have : (a * bx - a * ax) * (a * bx - a * ax) + (a * by' - a * ay) * (a * by' - a * ay) + (a * bz - a * az) * (a * bz - a * az) =
        a * a * ((bx - ax) * (bx - ax) + (by' - ay) * (by' - ay) + (bz - az) * (bz - az)) := by ring
    rw [this, sqrt_scale_sq a _ (le_of_lt ha)]
  rw [hcur]
  set cur := v3norm RS (v3sub RS (bx, by', bz) (ax, ay, az))
  have ha0 : a ≠ 0 := ne_of_gt ha
  have hpt : ∀ p : V3S ℝ, v3scale RS (RS.div size (a * cur)) (scale3 a p) = v3scale RS (RS.div size cur) p := by
    intro ⟨px, py, pz⟩
    simp only [v3scale, scale3, RS_mul, RS_div]
    have e : ∀ w : ℝ, a * w * (size / (a * cur)) = w * (size / cur) := by
      intro w
      rw [show a * w * (size / (a * cur)) = w * (a * size / (a * cur)) by ring, mul_div_mul_left _ cur ha0]
    simp only [e]
  have hmap : (l.map ((v3scale RS (RS.div size (a * cur))) ∘ scale3 a)) = l.map (v3scale RS (RS.div size cur)) := by
    apply List.map_congr_left; intro p _; exact hpt p
  simp only [hmap]
  apply List.map_congr_left
  intro p _
  simp only [Function.comp, hpt]

end threeD

/-! ### rotation: the full-strength statement is FALSE of the model (and of the implementation: known finding K2) -/

section rotation

theorem sqrt25 : Real.sqrt 25 = 5 := by rw [show (25 : ℝ) = 5 * 5 by norm_num]; exact Real.sqrt_mul_self (by norm_num)
theorem sqrt9 : Real.sqrt 9 = 3 := by rw [show (9 : ℝ) = 3 * 3 by norm_num]; exact Real.sqrt_mul_self (by norm_num)

def k2pts : List (V3S ℝ) := [(0, 0, 0), (3, 0, 4), (0, 1, 0), (1, 1, 1)]
def k2info : Norm3DInfo := ⟨(0, 1, 2), (0, 1)⟩
/-- rotation by 90° about the Z axis -/
def rotZ90 (p : V3S ℝ) : V3S ℝ := (-p.2.1, p.1, p.2.2)

theorem k2_original : ((normalize3DPerson RS k2info 1 k2pts).getD 3 default).2.2 = -1 / 15 := by
  simp only [normalize3DPerson, stage3, stage2, stage1, k2pts, k2info, List.map_cons, List.map_nil, List.getD_cons_zero, List.getD_cons_succ,
    v3sub, v3dot, v3cross, v3norm, v3scale, RS_sub, RS_mul, RS_add, RS_div, RS_sqrt, RS_neg, RS_zero, RS_ofNat]
  norm_num [sqrt25, sqrt9]

theorem k2_rotated : ((normalize3DPerson RS k2info 1 (k2pts.map rotZ90)).getD 3 default).2.2 = -1 / 25 := by
  simp only [normalize3DPerson, stage3, stage2, stage1, k2pts, k2info, rotZ90, List.map_cons, List.map_nil, List.getD_cons_zero, List.getD_cons_succ,
    v3sub, v3dot, v3cross, v3norm, v3scale, RS_sub, RS_mul, RS_add, RS_div, RS_sqrt, RS_neg, RS_zero, RS_ofNat]
  norm_num [sqrt25, sqrt9]

end rotation

/-! ### non-vacuity of the hypotheses -/



section lift
variable {S : Type}

theorem getD_mapIdx_nil {α : Type} (F : Nat → List α → List α) (hF : ∀ i, F i [] = []) (l : List (List α)) (n : Nat) : (l.mapIdx F).getD n [] = F n (l.getD n []) := by
  simp only [List.getD_eq_getElem?_getD, List.getElem?_mapIdx]
  cases l[n]? <;> simp [hF]

/-- the body a point-wise, (point index, coordinate index)-aware transform produces -/
def mapCoordsN (isZero : S → Bool) (g : Nat → Nat → S → S) (fps' : S) (b : PBody S) : PBody S :=
  mkBody .numpy isZero fps' (b.data.map (List.map fun pe => pe.mapIdx fun n pt => pt.mapIdx (g n))) b.conf (some b.missing)

theorem zipWith_kpt_mapIdx' (isZero : S → Bool) (F : Nat → List S → List S) (hF : ∀ i pt, (F i pt).length = pt.length) (pe : List (List S)) (cp : List S) :
    List.zipWith (kpt isZero) (pe.mapIdx F) cp = List.zipWith (kpt isZero) pe cp := by
  induction pe generalizing F cp with
  | nil => simp
  | cons pt rest ih =>
    cases cp with
    | nil => simp
    | cons c cs =>
      simp only [List.mapIdx_cons, List.zipWith_cons_cons]
      rw [ih (fun i => F (i + 1)) (fun i pt => hF (i + 1) pt) cs, kpt_eq_replicate, kpt_eq_replicate, hF]

theorem mapCoordsN_eq {isZero : S → Bool} {F P N D : Nat} {b : PBody S} (h : BInv isZero F P N D b) (g : Nat → Nat → S → S) (fps' : S) :
    mapCoordsN isZero g fps' b = ⟨fps', b.data.map (List.map fun pe => pe.mapIdx fun n pt => pt.mapIdx (g n)), b.conf, b.missing⟩ := by
  unfold mapCoordsN
  have hm : b.missing = deriveMissing isZero (b.data.map (List.map fun pe => pe.mapIdx fun n pt => pt.mapIdx (g n))) b.conf := by
    rw [h.consistent]
    simp only [deriveMissing_eq, List.zipWith_map_left]
    congr 1; funext fr cf
    congr 1; funext pe cp
    exact (zipWith_kpt_mapIdx' isZero _ (fun i pt => by simp) pe cp).symm
  rw [mkBody_mkC _ _ _ _ _ _ hm, mkC, ← hm]

theorem cellVals_mapCoordsN [Inhabited S] {isZero : S → Bool} {F P N D : Nat} {b : PBody S} (h : BInv isZero F P N D b) (g : Nat → Nat → S → S) (fps' : S) (n d : Nat) :
    cellVals (mapCoordsN isZero g fps' b) n d = (cellVals b n d).map (Option.map (g n d)) := by
  rw [mapCoordsN_eq h]
  unfold cellVals
  simp only [List.zip_map_left, List.flatMap_map, List.map_flatMap, List.map_map]
  rw [h.consistent, deriveMissing_eq]
  apply flatMap_congr_mem
  intro ⟨fr, mfr⟩ hx
  obtain ⟨hfr, cf, hcf, rfl⟩ := mem_zip_zipWith _ hx
  simp only [Function.comp, Prod.map_apply, id, List.zip_map_left, List.map_map]
  apply List.map_congr_left
  intro ⟨pe, mpe⟩ hy
  obtain ⟨hpe, cp, hcp, rfl⟩ := mem_zip_zipWith _ hy
  simp only [Function.comp, Prod.map_apply, id]
  have hlen : pe.length = cp.length := by
    rw [((h.data.2 fr hfr).2 pe hpe).1, (h.conf.2 cf hcf).2 cp hcp]
  have hfl : (List.zipWith (kpt isZero) pe cp).getD n [] = kpt isZero (pe.getD n []) (cp.getD n default) := by
    have := getD_zipWith' (kpt isZero) pe cp hlen n [] default
    simpa [kpt] using this
  by_cases hflag : ((List.zipWith (kpt isZero) pe cp).getD n []).getD d true = true
  · rw [if_pos hflag, if_pos hflag]; rfl
  · have hflag' : ((List.zipWith (kpt isZero) pe cp).getD n []).getD d true = false := by simpa using hflag
    simp only [hflag', Bool.false_eq_true, if_false, Option.map_some]
    congr 1
    have hd : d < (pe.getD n []).length := by
      have := getD_flag_lt _ d hflag'
      rw [hfl, kpt_length] at this
      exact this
    rw [getD_mapIdx_nil (fun n pt => pt.mapIdx (g n)) (by simp) pe n, getD_mapIdx_lt (g n) _ d hd]


end lift

theorem getD_range_map' {α : Type} (n i : Nat) (f : Nat → α) (d : α) (h : i < n) : ((List.range n).map f).getD i d = f i := by
  simp [List.getD_eq_getElem?_getD, h]


section liftAll
variable {S : Type}
theorem obsPerson_all_mapIdx [Inhabited S] (isZero : S → Bool) (d : Nat) (g₀ : S → S) :
    ∀ (pe : List (List S)) (cp : List S) (s : Nat) (F : Nat → List S → List S), (∀ i pt, (F i pt).length = pt.length) →
      (∀ i pt, i < pe.length → d < pt.length → (F i pt).getD d default = g₀ (pt.getD d default)) →
      obsPersonFrom s d (fun _ => true) (pe.mapIdx F) (List.zipWith (kpt isZero) pe cp) =
        (obsPersonFrom s d (fun _ => true) pe (List.zipWith (kpt isZero) pe cp)).map g₀
  | [], cp, s, F, _, _ => by simp [obsPersonFrom]
  | pt :: rest, [], s, F, _, _ => by simp [obsPersonFrom]
  | pt :: rest, c :: cs, s, F, hlen, hval => by
    have ih := obsPerson_all_mapIdx isZero d g₀ rest cs (s + 1) (fun i => F (i + 1)) (fun i pt => hlen (i + 1) pt)
      (fun i pt hi hd => hval (i + 1) pt (by simp; omega) hd)
    unfold obsPersonFrom at ih ⊢
    simp only [List.filter_true, List.mapIdx_cons, List.zipWith_cons_cons, List.zip_cons_cons, List.zipIdx_cons, List.filterMap_cons] at ih ⊢
    by_cases hflag : (kpt isZero pt c).getD d true = true
    · simp only [hflag, if_true]
      exact ih
    · have hflag' : (kpt isZero pt c).getD d true = false := by simpa using hflag
      have hd : d < pt.length := by
        have := getD_flag_lt _ d hflag'
        rwa [kpt_length] at this
      simp only [hflag', Bool.false_eq_true, if_false, List.map_cons, hval 0 pt (by simp) hd]
      rw [ih]

theorem columnVals_all_mapCoordsN [Inhabited S] {isZero : S → Bool} {F P N D : Nat} {b : PBody S} (h : BInv isZero F P N D b) (g : Nat → Nat → S → S) (fps' : S) (d : Nat)
    (g₀ : S → S) (hg : ∀ n, n < N → g n d = g₀) (n : Nat) :
    columnVals (mapCoordsN isZero g fps' b) true n d = (columnVals b true n d).map g₀ := by
  rw [mapCoordsN_eq h]
  unfold columnVals
  simp only [if_true, List.zip_map_left, List.flatMap_map, List.map_flatMap]
  rw [h.consistent, deriveMissing_eq]
  apply flatMap_congr_mem
  intro ⟨fr, mfr⟩ hx
  obtain ⟨hfr, cf, hcf, rfl⟩ := mem_zip_zipWith _ hx
  simp only [Function.comp, Prod.map_apply, id, List.zip_map_left, List.flatMap_map, List.map_flatMap]
  apply flatMap_congr_mem
  intro ⟨pe, mpe⟩ hy
  obtain ⟨hpe, cp, hcp, rfl⟩ := mem_zip_zipWith _ hy
  simp only [Function.comp, Prod.map_apply, id]
  have hN : pe.length = N := ((h.data.2 fr hfr).2 pe hpe).1
  exact obsPerson_all_mapIdx isZero d g₀ pe cp 0 (fun n pt => pt.mapIdx (g n)) (fun i pt => by simp)
    (fun i pt hi hd => by rw [getD_mapIdx_lt (g i) _ d hd, hg i (by omega)])

end liftAll

end PoseVerif.Props.C13
