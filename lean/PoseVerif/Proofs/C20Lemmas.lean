import PoseVerif.Model.Collate
/-! Definitions and helper lemmas for `Props/C20.lean` (the property theorems themselves are kept apart, in that file). -/
namespace PoseVerif.Props.C20
open PoseVerif
variable {S : Type}

/-- an example fit for collation: not 0-d, mask of the tensor's shape, as many elements as the shape says -/
structure Ok (trail : List Nat) (x : MT S) : Prop where
  shape : ∃ l, x.tensor.shape = l :: trail
  mask : x.mask.shape = x.tensor.shape
  tlen : x.tensor.data.length = x.tensor.shape.headD 0 * numel trail
  mlen : x.mask.data.length = x.tensor.shape.headD 0 * numel trail

theorem le_maxList (l : List Nat) (x : Nat) (h : x ∈ l) : x ≤ maxList l := by
  induction l with
  | nil => cases h
  | cons y ys ih =>
    simp only [maxList]
    rcases List.mem_cons.mp h with rfl | h
    · omega
    · have := ih h; omega

/-- rows of equal length: block `e` of the concatenation is row `e` -/
theorem flatten_block {α : Type} (rows : List (List α)) (n : Nat) (h : ∀ r ∈ rows, r.length = n) (e : Nat) (he : e < rows.length) :
    (rows.flatten.drop (e * n)).take n = rows[e] := by
  induction rows generalizing e with
  | nil => simp at he
  | cons r rs ih =>
    have hr : r.length = n := h r (by simp)
    cases e with
    | zero => simp [List.take_append_of_le_length, hr]
    | succ e =>
      simp only [List.flatten_cons, List.getElem_cons_succ]
      have : (e + 1) * n = r.length + e * n := by rw [hr]; rw [Nat.add_mul]; omega
      rw [this, ← List.drop_drop, List.drop_left]
      exact ih (fun r' hr' => h r' (by simp [hr'])) e (by simpa using he)

/-! non-vacuity: lengths {2, 0, 1} with one trailing axis of extent 2, pad value 9 -/
def ex1 : MT Nat := ⟨⟨[2, 2], [1, 2, 3, 4]⟩, ⟨[2, 2], [true, false, true, true]⟩⟩
def ex2 : MT Nat := ⟨⟨[0, 2], []⟩, ⟨[0, 2], []⟩⟩
def ex3 : MT Nat := ⟨⟨[1, 2], [5, 6]⟩, ⟨[1, 2], [false, true]⟩⟩
end PoseVerif.Props.C20
