import PoseVerif.Model.Cache
import PoseVerif.Proofs.Window3
/-! Invariant of the store machine: the memo's object is private and holds the decode of its key; every read hands out the decode of its own bytes. -/
namespace PoseVerif

variable {H : Type} (parse : Bytes → Option (H × Nat))

def PrefixDet : Prop := ∀ f g h e, parse f = some (h, e) → g.take e = f.take e → parse g = some (h, e)

structure SInv (s : Store H) : Prop where
  handed_lt : ∀ a ∈ s.handed, a < s.next
  nodup : s.handed.Nodup
  cache_ok : ∀ key e a, s.cache = some (key, e, a) → a < s.next ∧ a ∉ s.handed ∧ ∃ f h, parse f = some (h, e) ∧ key = f.take e ∧ s.heap a = some h

theorem SInv_empty : SInv parse (Store.empty : Store H) :=
  ⟨by intro a ha; simp [Store.empty] at ha, by simp [Store.empty], by intro k e a h; simp [Store.empty] at h⟩

theorem exec_inv (s : Store H) (op : Op H) (h : SInv parse s) : SInv parse (s.exec parse op).1 := by
  obtain ⟨hl, hnd, hc⟩ := h
  cases op with
  | clear => exact ⟨hl, hnd, by intro key e a hk; simp [Store.exec] at hk⟩
  | mutate a f =>
    simp only [Store.exec]
    split
    · rename_i ha
      refine ⟨hl, hnd, ?_⟩
      intro key e c hk
      obtain ⟨h1, h2, f', h', hp, hkey, hheap⟩ := hc key e c hk
      refine ⟨h1, h2, f', h', hp, hkey, ?_⟩
      have : c ≠ a := fun hca => h2 (hca ▸ ha)
      simp [this, hheap]
    · exact ⟨hl, hnd, hc⟩
  | copy a =>
    simp only [Store.exec]
    split
    · split
      · rename_i v hv
        refine ⟨?_, ?_, ?_⟩
        · intro b hb; simp [Store.alloc] at hb ⊢; rcases hb with rfl | hb
          · omega
          · have := hl b hb; omega
        · simp only [Store.alloc, List.nodup_cons]
          exact ⟨fun hm => by have := hl _ hm; omega, hnd⟩
        · intro key e c hk
          obtain ⟨h1, h2, f', h', hp, hkey, hheap⟩ := hc key e c hk
          refine ⟨by simp [Store.alloc]; omega, ?_, f', h', hp, hkey, ?_⟩
          · simp [Store.alloc]; exact ⟨by omega, h2⟩
          · simp [Store.alloc]; have : c ≠ s.next := by omega
            simp [this, hheap]
      · exact ⟨hl, hnd, hc⟩
    · exact ⟨hl, hnd, hc⟩
  | read file =>
    simp only [Store.exec]
    split
    · -- hit: one allocation, cache untouched
      rename_i v hv
      refine ⟨?_, ?_, ?_⟩
      · intro b hb; simp [Store.alloc] at hb ⊢; rcases hb with rfl | hb
        · omega
        · have := hl b hb; omega
      · simp only [Store.alloc, List.nodup_cons]
        exact ⟨fun hm => by have := hl _ hm; omega, hnd⟩
      · intro key e c hk
        obtain ⟨h1, h2, f', h', hp, hkey, hheap⟩ := hc key e c hk
        refine ⟨by simp [Store.alloc]; omega, ?_, f', h', hp, hkey, ?_⟩
        · simp [Store.alloc]; exact ⟨by omega, h2⟩
        · simp [Store.alloc]; have : c ≠ s.next := by omega
          simp [this, hheap]
    · split
      · exact ⟨hl, hnd, hc⟩
      · -- miss: caller's object at `next`, memo's private copy at `next + 1`
        rename_i hd e hpar
        refine ⟨?_, ?_, ?_⟩
        · intro b hb; simp [Store.alloc] at hb ⊢; rcases hb with rfl | hb
          · omega
          · have := hl b hb; omega
        · simp only [Store.alloc, List.nodup_cons]
          exact ⟨fun hm => by have := hl _ hm; omega, hnd⟩
        · intro key e' c hk
          simp [Store.alloc] at hk
          obtain ⟨rfl, rfl, rfl⟩ := hk
          refine ⟨by simp [Store.alloc], ?_, file, hd, hpar, rfl, by simp [Store.alloc]⟩
          simp [Store.alloc]
          intro hmem; have := hl _ hmem; omega

theorem run_inv (s : Store H) (ops : List (Op H)) (h : SInv parse s) : SInv parse (s.run parse ops) := by
  induction ops generalizing s with
  | nil => exact h
  | cons op ops ih => exact ih _ (exec_inv parse s op h)

/-- the value a read hands out is the decode of its own bytes, whatever happened before -/
theorem read_value (hdet : PrefixDet parse) (s : Store H) (h : SInv parse s) (file : Bytes) (r : Nat)
    (hr : (s.exec parse (.read file)).2 = some r) :
    ∃ hd e, parse file = some (hd, e) ∧ (s.exec parse (.read file)).1.heap r = some hd ∧ r ∉ s.handed ∧ s.next ≤ r := by
  simp only [Store.exec] at hr ⊢
  split at hr
  · -- hit
    rename_i v hv
    simp [Store.alloc] at hr
    split at hv
    · rename_i key e a hcache
      split at hv
      · rename_i hhit
        obtain ⟨_, _, f', h', hp, hkey, hheap⟩ := h.cache_ok key e a hcache
        rw [hheap] at hv; cases hv
        simp at hhit
        refine ⟨v, e, hdet f' file v e hp (by rw [hhit, hkey]), ?_, ?_, ?_⟩
        · simp [Store.alloc, ← hr]
        · rw [← hr]; intro hm; have := h.handed_lt _ hm; omega
        · omega
      · cases hv
    · cases hv
  · split at hr
    · cases hr
    · rename_i hd e hpar
      simp [Store.alloc] at hr
      refine ⟨hd, e, hpar, ?_, ?_, ?_⟩
      · simp [Store.alloc, ← hr]
      · rw [← hr]; intro hm; have := h.handed_lt _ hm; omega
      · omega

/-- a read fails exactly when the decode of its bytes fails -/
theorem read_none (hdet : PrefixDet parse) (s : Store H) (h : SInv parse s) (file : Bytes)
    (hr : (s.exec parse (.read file)).2 = none) : parse file = none := by
  simp only [Store.exec] at hr
  split at hr
  · simp [Store.alloc] at hr
  · split at hr
    · assumption
    · simp [Store.alloc] at hr

/-- an in-place edit through one reference leaves every other address as it was -/
theorem mutate_local (s : Store H) (a : Nat) (f : H → H) (b : Nat) (hb : b ≠ a) :
    (s.exec parse (.mutate a f)).1.heap b = s.heap b := by
  simp only [Store.exec]
  split
  · simp [hb]
  · rfl

/-- reads, copies and clears never change the value stored at an address that already exists -/
theorem exec_preserves (s : Store H) (op : Op H) (hop : ∀ a f, op ≠ .mutate a f) (b : Nat) (hb : b < s.next) :
    (s.exec parse op).1.heap b = s.heap b := by
  cases op with
  | clear => rfl
  | mutate a f => exact absurd rfl (hop a f)
  | copy a =>
    simp only [Store.exec]
    split
    · split
      · simp [Store.alloc]; intro h; omega
      · rfl
    · rfl
  | read file =>
    simp only [Store.exec]
    split
    · simp [Store.alloc]; intro h; omega
    · split
      · rfl
      · simp [Store.alloc]
        have h1 : b ≠ s.next + 1 := by omega
        have h2 : b ≠ s.next := by omega
        simp [h1, h2]

theorem parseHeader_prefixDet : PrefixDet parseHeader := by
  intro f g h e hf hfg
  exact rdHeaderRaw_prefixDet f g h e hf hfg

end PoseVerif
