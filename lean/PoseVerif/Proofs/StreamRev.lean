import PoseVerif.Proofs.Stream3
import PoseVerif.Proofs.Codec5
/-!
A stream read of a *prefix* of a file agrees with a byte-string read of the whole file, whenever both return: the stream reader only ever looks at bytes it
has obtained, and those are bytes of the prefix, hence of the file.
-/
namespace PoseVerif
open Prog SR

theorem take_drop_append_left (f ext : Bytes) (off n : Nat) (h : off + n ≤ f.length) : ((f ++ ext).drop off).take n = (f.drop off).take n := by
  rw [List.drop_append_of_le_length (by omega), List.take_append_of_le_length (by simp; omega)]

theorem SR.expect_al (s s1 : SR) (n : Nat) (h : Al s) (he : s.expect n = some s1) : Al s1 ∧ s1.off = s.off ∧ s1.skipped = s.skipped ∧ s1.file = s.file := by
  unfold SR.expect at he
  simp only [] at he
  split at he
  · split at he
    · cases he
    · simp only [Option.some.injEq] at he; subst he
      exact ⟨readChunk_al s _ h, rfl, rfl, rfl⟩
  · simp only [Option.some.injEq] at he; subst he
    exact ⟨h, rfl, rfl, rfl⟩

/-- **Agreement.** For a core program that does not ask how much data follows the cursor: if the stream reader returns `x` on `file` and the buffer reader returns
    `y` on `file ++ ext` from the same offset, then `x = y` and the cursors agree. -/
theorem sr_agree {α : Type} (p : Prog α) (hp : Core p) (hb : Blind p) (s : SR) (ext : Bytes) (hA : Al s) (hD : Disc s) (x y : α) (s' : SR) (o : Nat)
    (hrun : SR.run p s = some (x, s')) (hbr : runBR p (s.file ++ ext) s.off = some (y, o)) :
    x = y ∧ s'.off = o ∧ s'.file = s.file ∧ Al s' ∧ Disc s' := by
  induction p generalizing s with
  | ret a =>
    simp only [SR.run, Option.some.injEq, Prod.mk.injEq] at hrun
    simp only [runBR, Option.some.injEq, Prod.mk.injEq] at hbr
    obtain ⟨rfl, rfl⟩ := hrun
    obtain ⟨rfl, rfl⟩ := hbr
    exact ⟨rfl, rfl, rfl, hA, hD⟩
  | fail => simp [SR.run] at hrun
  | expect n k ih => exact absurd hp (by simp [Core])
  | setOff n k ih => exact absurd hp (by simp [Core])
  | peek n k ih => exact absurd hp (by simp [Core])
  | getOff k ih => exact absurd hp (by simp [Core])
  | fileLeft k ih => exact absurd hb (by simp [Blind])
  | advance n k ih =>
    simp only [SR.run] at hrun
    simp only [runBR] at hbr
    have hle := hA.le
    have hk : ({ s with off := s.off + n } : SR).k = s.k + n := by simp only [SR.k]; omega
    have hA' : Al { s with off := s.off + n } := by
      refine ⟨by show s.skipped ≤ s.off + n; omega, ?_⟩
      rw [hk]
      show s.buf.drop (s.k + n) = (s.file.drop (s.off + n)).take (s.buf.length - (s.k + n))
      rw [← List.drop_drop, hA.tail, List.drop_take, List.drop_drop]
      congr 1; omega
    have hD' : Disc { s with off := s.off + n } := by
      rcases hD with h0 | h1
      · exact Or.inl h0
      · right; rw [hk]; show s.buf.length ≤ s.k + n; omega
    exact ih hp hb { s with off := s.off + n } hA' hD' hrun hbr
  | skip n k ih =>
    simp only [SR.run] at hrun
    simp only [runBR] at hbr
    have hle := hA.le
    have hkk : (s.skip n).k = s.k := by simp only [SR.skip, SR.k]; omega
    have hlen : (s.skip n).buf.length = min s.off s.buf.length := by simp [SR.skip]
    have hlek : (s.skip n).buf.length ≤ s.k := by
      rcases hD with h0 | h1
      · have : s.k = s.off := by unfold SR.k; omega
        omega
      · omega
    have hA' : Al (s.skip n) := by
      refine ⟨by show s.skipped + n ≤ s.off + n; omega, ?_⟩
      rw [hkk, List.drop_eq_nil_of_le hlek]
      have : (s.skip n).buf.length - s.k = 0 := by omega
      rw [this]; simp
    have hD' : Disc (s.skip n) := Or.inr (by rw [hkk]; exact hlek)
    exact ih hp hb (s.skip n) hA' hD' hrun hbr
  | unpack n k ih =>
    simp only [SR.run] at hrun
    simp only [runBR] at hbr
    split at hbr
    · rename_i hfit2
      cases he : s.expect n with
      | none => rw [he] at hrun; cases hrun
      | some s1 =>
        rw [he] at hrun
        simp only [] at hrun
        split at hrun
        · rename_i hg
          obtain ⟨hA1, hoff, hsk, hfile⟩ := SR.expect_al s s1 n hA he
          have hav := hA1.avail
          have hle1 := hA1.le
          have hk1 := k_add_skipped hle1
          -- the bytes handed to the continuation are the same on both sides
          have hbytes : (s1.buf.drop s1.k).take n = ((s.file ++ ext).drop s.off).take n := by
            by_cases hn : n = 0
            · subst hn; simp
            · have hfit : s.off + n ≤ s.file.length := by
                rw [← hoff, ← hfile]; have := hg.2; omega
              rw [take_drop_append_left _ _ _ _ hfit, hA1.tail, hoff, hfile, List.take_take]; congr 1; omega
          rw [← hbytes] at hbr
          have hk2 : ({ s1 with off := s1.off + n } : SR).k = s1.k + n := by simp only [SR.k]; omega
          have hA' : Al { s1 with off := s1.off + n } := by
            refine ⟨by show s1.skipped ≤ s1.off + n; omega, ?_⟩
            rw [hk2]
            show s1.buf.drop (s1.k + n) = (s1.file.drop (s1.off + n)).take (s1.buf.length - (s1.k + n))
            rw [← List.drop_drop, hA1.tail, List.drop_take, List.drop_drop]
            congr 1; omega
          have hD' : Disc { s1 with off := s1.off + n } := by
            by_cases h0 : s.skipped = 0
            · exact Or.inl (by show s1.skipped = 0; omega)
            · right
              rw [hk2]
              show s1.buf.length ≤ s1.k + n
              -- after a skip the buffer holds nothing beyond the cursor; `expect` then fetched at most what was asked for
              have hDs : s.buf.length ≤ s.k := by rcases hD with h | h; exact absurd h h0; exact h
              have hks : s1.k = s.k := by simp only [SR.k, hoff, hsk]
              unfold SR.expect at he
              simp only [] at he
              split at he
              · split at he
                · cases he
                · simp only [Option.some.injEq] at he
                  rw [← he]
                  show (s.readChunk ((n : Int) - s.bytesLeft).toNat).buf.length ≤ s.k + n
                  rw [readChunk_len s ((n : Int) - s.bytesLeft).toNat]
                  have hbl : s.bytesLeft = (s.buf.length : Int) - s.k := by
                    unfold SR.bytesLeft; have := k_add_skipped hA.le; omega
                  omega
              · simp only [Option.some.injEq] at he; rw [← he]; omega
          have hbr' : runBR (k ((s1.buf.drop s1.k).take n)) (({ s1 with off := s1.off + n } : SR).file ++ ext) ({ s1 with off := s1.off + n } : SR).off = some (y, o) := by
            show runBR (k ((s1.buf.drop s1.k).take n)) (s1.file ++ ext) (s1.off + n) = some (y, o)
            rw [hfile, hoff]; exact hbr
          obtain ⟨h1, h2, h3, h4, h5⟩ := ih _ (hp _) (hb _) { s1 with off := s1.off + n } hA' hD' hrun hbr'
          exact ⟨h1, h2, by rw [h3]; exact hfile, h4, h5⟩
        · cases hrun
    · cases hbr

end PoseVerif

namespace PoseVerif
open Prog SR

theorem SR.run_bind_inv {α β : Type} {p : Prog α} {f : α → Prog β} {s : SR} {r : β × SR}
    (h : SR.run (Prog.bind p f) s = some r) : ∃ a s1, SR.run p s = some (a, s1) ∧ SR.run (f a) s1 = some r := by
  rw [SR.run_bind] at h
  split at h
  · cases h
  · rename_i a s1 hp; exact ⟨a, s1, hp, h⟩

theorem Blind_readFrames (frames row : Nat) (s e : Option Int) : Blind (readFrames frames row s e) := by
  unfold readFrames
  simp only []
  split
  · trivial
  · split
    · trivial
    · split
      · intro b; cases winRem frames e <;> trivial
      · intro b; cases winRem frames e <;> trivial

theorem Blind_rdBodyV02 (h : Header) (w : Window) : Blind (rdBodyV02 h w) := by
  unfold rdBodyV02
  split
  · trivial
  · exact Blind_bind _ _ Blind_rdF32 fun _ => Blind_bind _ _ Blind_rdU32 fun _ => Blind_bind _ _ Blind_rdU16 fun _ =>
      Blind_bind _ _ (Blind_ofOption _) fun _ => Blind_bind _ _ (Blind_ofOption _) fun _ =>
      Blind_bind _ _ (Blind_readFrames _ _ _ _) fun _ => Blind_bind _ _ (Blind_readFrames _ _ _ _) fun _ => Blind_ofOption _

/-- **A windowed stream read of a prefix agrees with a read of the whole file** (v0.2, cold cache): if `Pose.read(BytesIO(prefix), window)` returns at all, it returns the
    pose (and cache entry) that reading the complete bytes with the same window returns. -/
theorem prefix_stream_agrees (f ext : Bytes) (w : Window) (q q' : Pose) (c c' : Option CacheEntry) (s : SR)
    (hs : readStream f none w = some ((q, c), s)) (hb : readBytes (f ++ ext) none w = some (q', c'))
    (hv : versionClass q'.header.version = .v02) : q = q' ∧ c = c' := by
  -- the byte-string side
  simp only [readBytes, Option.map_eq_some_iff] at hb
  obtain ⟨⟨⟨p', c1'⟩, o⟩, hrun, heq⟩ := hb
  simp only [Prod.mk.injEq] at heq
  obtain ⟨rfl, rfl⟩ := heq
  simp only [rdPose, runBR] at hrun
  obtain ⟨⟨hd', cc'⟩, e', hh', hb'⟩ := runBR_bind_inv hrun
  obtain ⟨body', o', hbody', hret'⟩ := runBR_bind_inv hb'
  simp only [runBR, Option.some.injEq, Prod.mk.injEq] at hret'
  obtain ⟨⟨rfl, rfl⟩, rfl⟩ := hret'
  simp only [rdHeader] at hh'
  obtain ⟨hraw', e2, hrawrun', hrest'⟩ := runBR_bind_inv hh'
  simp only [runBR, Option.some.injEq, Prod.mk.injEq] at hrest'
  obtain ⟨⟨rfl, rfl⟩, rfl⟩ := hrest'
  -- the stream side
  have hne : 0 < f.length := by
    rcases Nat.eq_zero_or_pos f.length with h0 | h0
    · have hnil : f = [] := List.eq_nil_of_length_eq_zero h0
      subst hnil
      simp [readStream, rdPose, SR.run, SR.expect, SR.bytesLeft, SR.readChunk, prefetchHint] at hs
    · exact h0
  simp only [readStream, rdPose, SR.run] at hs
  have hhint : 0 < prefetchHint none := by unfold prefetchHint; omega
  rw [SR.expect_hint f (prefetchHint none) hne hhint] at hs
  simp only [] at hs
  obtain ⟨hA0, hD0, hP0⟩ := SR.afterHint_al f (prefetchHint none)
  generalize hs0 : SR.afterHint f (prefetchHint none) = s0 at *
  have hs0f : s0.file = f := by rw [← hs0]; rfl
  have hs0o : s0.off = 0 := by rw [← hs0]; rfl
  obtain ⟨⟨hd, cc⟩, s1, hh, hrest⟩ := SR.run_bind_inv hs
  obtain ⟨body, s2, hbody, hret⟩ := SR.run_bind_inv hrest
  simp only [SR.run, Option.some.injEq, Prod.mk.injEq] at hret
  obtain ⟨⟨rfl, rfl⟩, rfl⟩ := hret
  simp only [rdHeader] at hh
  obtain ⟨hraw, s1a, hrawrun, hrest2⟩ := SR.run_bind_inv hh
  simp only [SR.run, Option.some.injEq, Prod.mk.injEq] at hrest2
  obtain ⟨⟨rfl, rfl⟩, rfl⟩ := hrest2
  -- header: same raw header, same end offset
  have hrawbr : runBR rdHeaderRaw (s0.file ++ ext) s0.off = some (hraw', e2) := by rw [hs0f, hs0o]; exact hrawrun'
  obtain ⟨rfl, ho1, hf1, hA1, hD1⟩ := sr_agree rdHeaderRaw Core_rdHeaderRaw Blind_rdHeaderRaw s0 ext hA0 hD0 _ _ _ _ hrawrun hrawbr
  have hP1 := SR.run_pre rdHeaderRaw Core_rdHeaderRaw SkipFree_rdHeaderRaw s0 s1a _ hrawrun hP0
  have hkey : s1a.buf.take s1a.off = (f ++ ext).take e2 := by
    rw [ho1, hP1.pre, hf1, hs0f, List.take_take]
    have hin := hP1.inb
    rw [ho1] at hin
    have hbl : s1a.buf.length ≤ f.length := by
      have := congrArg List.length hP1.pre
      rw [hf1, hs0f, List.length_take] at this; omega
    rw [Nat.min_eq_left hin, List.take_append_of_le_length (by omega)]
  -- body
  have hvb : versionClass hraw.version = .v02 := hv
  have hbodybr : runBR (rdBodyV02 hraw w) (s1a.file ++ ext) s1a.off = some (body', o') := by
    rw [hf1, hs0f, ho1]
    have := hbody'
    unfold rdBody at this
    rw [hvb] at this
    exact this
  have hbodysr : SR.run (rdBodyV02 hraw w) s1a = some (body, s2) := by
    have := hbody
    unfold rdBody at this
    rw [hvb] at this
    exact this
  obtain ⟨rfl, _, _, _, _⟩ := sr_agree (rdBodyV02 hraw w) (Core_rdBodyV02 _ _) (Blind_rdBodyV02 _ _) s1a ext hA1 hD1 _ _ _ _ hbodysr hbodybr
  refine ⟨rfl, ?_⟩
  rw [hkey, ho1]

end PoseVerif
