import PoseVerif.Proofs.Window2
import PoseVerif.Proofs.Stream3
/-! File level: window = slice, refused windows, cache neutrality, bytes pulled. -/
namespace PoseVerif
open Prog SR

/-! ### prefix determinism of the header decoder -/

theorem runBR_restrict {α : Type} (p : Prog α) (hs : SkipFree p) (hb : Blind p) (f : Bytes) (off : Nat) (x : α) (o : Nat)
    (hle : off ≤ f.length) (hr : runBR p f off = some (x, o)) : runBR p (f.take o) off = some (x, o) := by
  induction p generalizing off with
  | ret a => simpa [runBR] using hr
  | fail => simp [runBR] at hr
  | expect n k ih => simp only [runBR] at hr ⊢; exact ih hs hb off hle hr
  | unpack n k ih =>
    simp only [runBR] at hr ⊢
    split at hr
    · rename_i hc
      have hbd := runBR_bound _ (hs _) _ _ _ hr
      have ho : o ≤ f.length := hbd.2 hc
      rw [if_pos (by rw [List.length_take]; omega)]
      have : ((f.take o).drop off).take n = (f.drop off).take n := by
        rw [List.drop_take, List.take_take]; congr 1; omega
      rw [this]
      exact ih _ (hs _) (hb _) (off + n) hc hr
    · cases hr
  | skip n k ih => exact absurd hs (by simp [SkipFree])
  | advance n k ih => exact absurd hs (by simp [SkipFree])
  | setOff n k ih => exact absurd hs (by simp [SkipFree])
  | fileLeft k ih => exact absurd hb (by simp [Blind])
  | peek n k ih => exact absurd hb (by simp [Blind])
  | getOff k ih => simp only [runBR] at hr ⊢; exact ih _ (hs _) (hb _) off hle hr

/-- files that agree on the first `e` bytes have the same header if one of them has a header ending at `e` -/
theorem rdHeaderRaw_prefixDet (f g : Bytes) (h : Header) (e : Nat) (hr : runBR rdHeaderRaw f 0 = some (h, e))
    (hfg : g.take e = f.take e) : runBR rdHeaderRaw g 0 = some (h, e) := by
  have h1 := runBR_restrict _ SkipFree_rdHeaderRaw Blind_rdHeaderRaw f 0 h e (Nat.zero_le _) hr
  rw [← hfg] at h1
  have h2 := runBR_extend _ Blind_rdHeaderRaw _ (g.drop e) _ _ h1
  rwa [List.take_append_drop] at h2

/-- a cache entry that some earlier read could have stored -/
def CacheOK (c : CacheEntry) : Prop :=
  ∃ f, runBR rdHeaderRaw f 0 = some (c.header, c.endOff) ∧ c.key = f.take c.endOff

/-- **Cache neutrality**: with any entry an earlier read could have left in the cache, a read returns exactly what it returns with an empty cache
    (the same pose and the same new cache), at every cursor-level detail. -/
theorem rdHeader_cache_neutral (c : CacheEntry) (hc : CacheOK c) (file : Bytes) (r : (Header × Option CacheEntry) × Nat)
    (hr : runBR (rdHeader (some c)) file 0 = some r) : ∃ c', runBR (rdHeader none) file 0 = some ((r.1.1, c'), r.2) := by
  obtain ⟨f0, hf0, hkey⟩ := hc
  simp only [rdHeader, runBR] at hr
  by_cases hhit : file.take c.endOff = c.key
  · rw [if_pos hhit] at hr
    simp only [runBR, Option.some.injEq] at hr
    subst hr
    have := rdHeaderRaw_prefixDet f0 file c.header c.endOff hf0 (by rw [hhit, hkey])
    refine ⟨some { key := file.take c.endOff, endOff := c.endOff, header := c.header }, ?_⟩
    simp only [rdHeader]
    rw [runBR_bind_some this]
    simp [runBR]
  · rw [if_neg hhit] at hr
    obtain ⟨⟨h', c'⟩, o⟩ := r
    exact ⟨c', hr⟩

theorem readBytes_cache_neutral (c : CacheEntry) (hc : CacheOK c) (file : Bytes) (w : Window) (p : Pose) (c1 : Option CacheEntry)
    (hr : readBytes file (some c) w = some (p, c1)) : ∃ c2, readBytes file none w = some (p, c2) := by
  simp only [readBytes, Option.map_eq_some_iff] at hr ⊢
  obtain ⟨⟨⟨p', c'⟩, o⟩, hrun, heq⟩ := hr
  simp only [Prod.mk.injEq] at heq
  obtain ⟨rfl, rfl⟩ := heq
  simp only [rdPose, runBR] at hrun ⊢
  obtain ⟨⟨hd, cc⟩, e, hh, hb⟩ := runBR_bind_inv hrun
  obtain ⟨c2, hn⟩ := rdHeader_cache_neutral c hc file _ hh
  obtain ⟨body, o', hbody, hret⟩ := runBR_bind_inv hb
  simp only [runBR, Option.some.injEq, Prod.mk.injEq] at hret
  obtain ⟨⟨rfl, rfl⟩, rfl⟩ := hret
  refine ⟨c2, ⟨(⟨hd, body⟩, c2), o'⟩, ?_, rfl⟩
  rw [runBR_bind_some hn, runBR_bind_some hbody]
  rfl

/-! ### window = slice at the file level -/

theorem readBytes_window (file : Bytes) (w : Window) (p : Pose) (fps : F32) (se : Option Int × Option Int)
    (hfull : readFull file = some p) (hv02 : versionClass p.header.version = .v02) (hfps : p.body.fps = .f32 fps)
    (hc : w.conflict = false) (hres : w.resolve fps = some se) (hv : WinValid p.body.frames se.1 se.2) :
    ∃ c, readBytes file none w = some (⟨p.header, p.body.slice (winStart se.1) (winCount p.body.frames se.1 se.2)⟩, c) := by
  simp only [readFull, Option.map_eq_some_iff] at hfull
  obtain ⟨⟨⟨q, c⟩, n⟩, hrun, rfl⟩ := hfull
  obtain ⟨e, hh, hb⟩ := rdPose_none_inv hrun
  simp only [rdBody, hv02, rdBodyV02_full] at hb
  have hwin := rdBodyV02_window q.header w file e q.body n fps se hb hfps hc hres hv
  have : runBR (rdBody q.header w) file e = some (q.body.slice (winStart se.1) (winCount q.body.frames se.1 se.2), n) := by
    simp only [rdBody, hv02]; exact hwin
  exact ⟨some { key := file.take e, endOff := e, header := q.header }, by simp [readBytes, rdPose_none_of hh this]⟩

/-- a v0.2 read with both a time and a frame bound for the same end is refused, by either reader -/
theorem rdBodyV02_conflict (h : Header) (w : Window) (hc : w.conflict = true) : rdBodyV02 h w = .fail := by
  simp [rdBodyV02, hc]

/-! ### bytes pulled from the stream -/

/-- the cursor is inside the buffer and no more was pulled than the hint plus what was consumed -/
structure SR.Bnd (H : Nat) (s : SR) : Prop where
  le : s.skipped ≤ s.off
  within : s.k ≤ s.buf.length
  pulled : s.pulled ≤ H + s.k

/-- programs that never `advance` (v0.1 / v0.2 decoders) -/
def NoAdvance {α : Type} : Prog α → Prop
  | .ret _ => True
  | .fail => True
  | .expect _ k => NoAdvance k
  | .unpack _ k => ∀ b, NoAdvance (k b)
  | .skip _ k => NoAdvance k
  | .advance _ _ => False
  | .setOff _ k => NoAdvance k
  | .fileLeft k => ∀ i, NoAdvance (k i)
  | .peek _ k => ∀ b, NoAdvance (k b)
  | .getOff k => ∀ o, NoAdvance (k o)

theorem SR.run_bnd {α : Type} (H : Nat) (p : Prog α) (hc : Core p) (hn : NoAdvance p) (s s' : SR) (x : α)
    (hr : SR.run p s = some (x, s')) (h : s.Bnd H) : s'.Bnd H := by
  induction p generalizing s with
  | ret a => simp only [SR.run, Option.some.injEq, Prod.mk.injEq] at hr; rw [← hr.2]; exact h
  | fail => simp [SR.run] at hr
  | expect n k ih => exact absurd hc (by simp [Core])
  | setOff n k ih => exact absurd hc (by simp [Core])
  | peek n k ih => exact absurd hc (by simp [Core])
  | getOff k ih => exact absurd hc (by simp [Core])
  | advance n k ih => exact absurd hn (by simp [NoAdvance])
  | fileLeft k ih => simp only [SR.run] at hr; exact ih _ (hc _) (hn _) s hr h
  | skip n k ih =>
    simp only [SR.run] at hr
    refine ih hc hn (s.skip n) hr ?_
    have hle := h.le
    have hw := h.within
    have hkk : (s.skip n).k = s.k := by simp only [SR.skip, SR.k]; omega
    refine ⟨by show s.skipped + n ≤ s.off + n; omega, ?_, ?_⟩
    · rw [hkk]; show s.k ≤ (s.buf.take s.off).length
      rw [List.length_take]; unfold SR.k at *; omega
    · rw [hkk]; exact h.pulled
  | unpack n k ih =>
    simp only [SR.run] at hr
    cases he : s.expect n with
    | none => rw [he] at hr; cases hr
    | some s1 =>
      rw [he] at hr
      simp only [] at hr
      split at hr
      · rename_i hg
        refine ih _ (hc _) (hn _) { s1 with off := s1.off + n } hr ?_
        have hle := h.le
        have hw := h.within
        have hp := h.pulled
        have hk2 : ({ s1 with off := s1.off + n } : SR).k = s1.k + n := by simp only [SR.k]; omega
        -- what `expect` did
        unfold SR.expect at he
        simp only [] at he
        split at he
        · rename_i hlt
          split at he
          · cases he
          · simp only [Option.some.injEq] at he
            subst he
            have hk1 : (s.readChunk ((n : Int) - s.bytesLeft).toNat).k = s.k := rfl
            refine ⟨by show s.skipped ≤ s.off + n; omega, by rw [hk2]; exact hg.2, ?_⟩
            rw [hk2, hk1]
            show s.pulled + ((s.file.drop (s.buf.length + s.skipped)).take ((n : Int) - s.bytesLeft).toNat).length ≤ H + (s.k + n)
            have hbl : s.bytesLeft = (s.buf.length : Int) - s.k := by unfold SR.bytesLeft SR.k; omega
            rw [List.length_take]
            omega
        · simp only [Option.some.injEq] at he
          subst he
          refine ⟨by show s.skipped ≤ s.off + n; omega, by rw [hk2]; exact hg.2, ?_⟩
          rw [hk2]; show s.pulled ≤ H + (s.k + n); omega
      · cases hr

end PoseVerif
