import PoseVerif.Proofs.LegacyV00
import PoseVerif.Model.JS
/-! parser.ts on reference-encoded v0.0 files (helper lemmas for `Props/C05.lean`). -/
namespace PoseVerif
open Prog

/-- the content of a reference v0.0 person, as JavaScript reports it: every block cut into its points -/
def jsOfPersonV00 (comps : List Comp) (p : PersonV00) : JSPersonV00 :=
  ⟨p.id, List.zipWith (fun c vals => rowsOf c.points.length c.format.length vals) comps p.blocks⟩

theorem Rel_jsPointV00 (len : Nat) : Rel (jsPointV00 len) := fun _ => trivial
theorem Rel_jsCompsV00 : ∀ comps, Rel (jsCompsV00 comps)
  | [] => trivial
  | c :: cs => Rel_bind _ _ (Rel_many _ (Rel_jsPointV00 _) _) fun _ => Rel_bind _ _ (Rel_jsCompsV00 cs) fun _ => trivial
theorem Rel_jsPersonV00 (comps : List Comp) : Rel (jsPersonV00 comps) := Rel_bind _ _ Rel_rdU16 fun _ => Rel_bind _ _ (Rel_jsCompsV00 comps) fun _ => trivial
theorem Rel_jsFrameV00 (comps : List Comp) : Rel (jsFrameV00 comps) := Rel_bind _ _ Rel_rdU16 fun _ => Rel_many _ (Rel_jsPersonV00 comps) _

theorem rowsOf_succ (n len : Nat) (vals : List F32) : rowsOf (n + 1) len vals = vals.take len :: rowsOf n len (vals.drop len) := by
  unfold rowsOf
  rw [List.range_succ_eq_map, List.map_cons, List.map_map]
  simp only [Nat.zero_mul, List.drop_zero, List.cons.injEq, true_and]
  apply List.map_congr_left
  intro i _
  simp only [Function.comp, List.drop_drop]
  congr 2
  rw [Nat.succ_mul]; omega

/-- the points of one block, read one after the other -/
theorem jsPoints_spec (len : Nat) : ∀ (npoints : Nat) (vals : List F32) (r : Bytes), vals.length = npoints * len →
    runBR (Prog.many (jsPointV00 len) npoints) (putF32s vals ++ r) 0 = some (rowsOf npoints len vals, (putF32s vals).length) := by
  intro npoints
  induction npoints with
  | zero =>
    intro vals r hv
    have : vals = [] := List.eq_nil_of_length_eq_zero (by simpa using hv)
    subst this; rfl
  | succ n ih =>
    intro vals r hv
    have hlen : len ≤ vals.length := by rw [hv, Nat.add_mul, Nat.one_mul]; omega
    have hd : (vals.drop len).length = n * len := by rw [List.length_drop, hv, Nat.add_mul, Nat.one_mul]; omega
    have ht : (vals.take len).length = len := by rw [List.length_take]; omega
    have hp : runBR (jsPointV00 len) (putF32s (vals.take len) ++ (putF32s (vals.drop len) ++ r)) 0 = some (vals.take len, (putF32s (vals.take len)).length) := by
      unfold jsPointV00
      simp only [runBR, Nat.zero_add, List.drop_zero]
      have hl4 : (putF32s (vals.take len)).length = len * 4 := by rw [putF32s_length, ht]; omega
      rw [if_pos (by rw [List.length_append, hl4]; omega), ← hl4, List.take_left' rfl]
      have := getF32s_putF32s (vals.take len) []
      rw [List.append_nil, ht] at this
      rw [this]
    have hrest : runBR (Prog.bind (Prog.many (jsPointV00 len) n) fun xs => Prog.ret (vals.take len :: xs)) (putF32s (vals.drop len) ++ r) 0
        = some (vals.take len :: rowsOf n len (vals.drop len), (putF32s (vals.drop len)).length) := by
      rw [runBR_bind_some (ih (vals.drop len) r hd)]; rfl
    have := seq_enc (f := fun x => Prog.bind (Prog.many (jsPointV00 len) n) fun xs => Prog.ret (x :: xs)) hp
      (Rel_bind _ _ (Rel_many _ (Rel_jsPointV00 _) _) fun _ => trivial) hrest
    simp only [Prog.many]
    rw [rowsOf_succ]
    have e1 : putF32s vals = putF32s (vals.take len) ++ putF32s (vals.drop len) := by rw [← putF32s_append, List.take_append_drop]
    rw [e1, List.append_assoc, List.length_append]
    exact this

theorem jsComps_spec : ∀ (comps : List Comp) (blocks : List (List F32)) (r : Bytes), blocks.length = comps.length →
    (∀ cv ∈ comps.zip blocks, cv.2.length = cv.1.points.length * cv.1.format.length) →
    runBR (jsCompsV00 comps) ((blocks.map putF32s).flatten ++ r) 0 =
      some (List.zipWith (fun c vals => rowsOf c.points.length c.format.length vals) comps blocks, ((blocks.map putF32s).flatten).length)
  | [], [], r, _, _ => rfl
  | [], _ :: _, _, h, _ => by simp at h
  | _ :: _, [], _, h, _ => by simp at h
  | c :: cs, v :: vs, r, hl, hw => by
    have hv := hw (c, v) (by simp)
    simp only [] at hv
    have ih := jsComps_spec cs vs r (by simpa using hl) (fun cv hcv => hw cv (by simp only [List.zip_cons_cons]; exact List.mem_cons_of_mem _ hcv))
    unfold jsCompsV00
    simp only [List.map_cons, List.flatten_cons, List.append_assoc, List.length_append, List.zipWith_cons_cons]
    refine seq_enc (jsPoints_spec c.format.length c.points.length v _ hv) (Rel_bind _ _ (Rel_jsCompsV00 cs) fun _ => trivial) ?_
    rw [runBR_bind_some ih]; rfl

theorem jsPerson_spec (comps : List Comp) (p : PersonV00) (hid : p.id < 65536) (hl : p.blocks.length = comps.length)
    (hw : ∀ cv ∈ comps.zip p.blocks, cv.2.length = cv.1.points.length * cv.1.format.length) (r : Bytes) :
    runBR (jsPersonV00 comps) (specPersonV00 p ++ r) 0 = some (jsOfPersonV00 comps p, (specPersonV00 p).length) := by
  unfold jsPersonV00 specPersonV00
  rw [List.append_assoc, List.length_append]
  refine seq_enc (Enc_rdU16 p.id (putU16 p.id) _ (by simp [packU16?, hid])) (Rel_bind _ _ (Rel_jsCompsV00 comps) fun _ => trivial) ?_
  rw [runBR_bind_some (jsComps_spec comps p.blocks r hl hw)]; rfl

theorem jsFrame_spec (comps : List Comp) (ps : List PersonV00) (hn : ps.length < 65536) (hid : ∀ p ∈ ps, p.id < 65536)
    (hfit : ∀ p ∈ ps, p.blocks.length = comps.length ∧ ∀ cv ∈ comps.zip p.blocks, cv.2.length = cv.1.points.length * cv.1.format.length) (r : Bytes) :
    runBR (jsFrameV00 comps) (specFrameV00 ps ++ r) 0 = some (ps.map (jsOfPersonV00 comps), (specFrameV00 ps).length) := by
  unfold jsFrameV00 specFrameV00
  rw [List.append_assoc, List.length_append]
  refine seq_enc (Enc_rdU16 ps.length (putU16 ps.length) _ (by simp [packU16?, hn])) (Rel_many _ (Rel_jsPersonV00 comps) _) ?_
  exact run_many_dec (jsPersonV00 comps) (Rel_jsPersonV00 comps) specPersonV00 (jsOfPersonV00 comps) ps r
    fun p hp r => jsPerson_spec comps p (hid p hp) (hfit p hp).1 (hfit p hp).2 r


end PoseVerif
