import PoseVerif.Proofs.Codec4
/-! Body codec (v0.2, full read) and the whole-file round trip. -/
namespace PoseVerif
open Prog

theorem readFrames_full (frames row : Nat) :
    readFrames frames row none none = .unpack (frames * row) fun b => .ret (frames, b) := by
  simp [readFrames, winStart, winRem]

theorem resolve_empty (fps : F32) : Window.resolve {} fps = some (none, none) := rfl

/-- the body decoder of a full read, spelled out -/
def rdBodyV02Full (h : Header) : Prog Body :=
  Prog.bind rdF32 fun fps =>
  Prog.bind rdU32 fun frames =>
  Prog.bind rdU16 fun people =>
  Prog.bind (Prog.ofOption h.numDims?) fun dims =>
  .unpack (frames * (people * h.totalPoints * dims * 4)) fun db =>
  .unpack (frames * (people * h.totalPoints * 4)) fun cb =>
  Prog.ofOption (mkBody? (.f32 fps) frames people h.totalPoints dims db cb)

theorem rdBodyV02_full (h : Header) : rdBodyV02 h {} = rdBodyV02Full h := by
  unfold rdBodyV02 rdBodyV02Full
  simp only [Window.conflict, Option.isSome_none, Bool.and_self, Bool.or_self, Bool.false_eq_true, if_false]
  rfl

theorem Rel_rdBodyV02Full (h : Header) : Rel (rdBodyV02Full h) :=
  Rel_bind _ _ Rel_rdF32 fun _ => Rel_bind _ _ Rel_rdU32 fun _ => Rel_bind _ _ Rel_rdU16 fun _ =>
  Rel_bind _ _ (Rel_ofOption _) fun _ => fun _ _ => Rel_ofOption _
theorem Blind_rdBodyV02Full (h : Header) : Blind (rdBodyV02Full h) :=
  Blind_bind _ _ Blind_rdF32 fun _ => Blind_bind _ _ Blind_rdU32 fun _ => Blind_bind _ _ Blind_rdU16 fun _ =>
  Blind_bind _ _ (Blind_ofOption _) fun _ => fun _ _ => Blind_ofOption _
theorem SkipFree_rdBodyV02Full (h : Header) : SkipFree (rdBodyV02Full h) :=
  SkipFree_bind _ _ SkipFree_rdF32 fun _ => SkipFree_bind _ _ SkipFree_rdU32 fun _ => SkipFree_bind _ _ SkipFree_rdU16 fun _ =>
  SkipFree_bind _ _ (SkipFree_ofOption _) fun _ => fun _ _ => SkipFree_ofOption _

/-- shape agreement between a body and a header -/
structure Body.Fits (b : Body) (h : Header) : Prop where
  points : b.points = h.totalPoints
  dims : h.numDims? = some b.dims
  dimsPos : 0 < b.dims
  data : b.data.length = b.frames * b.people * b.points * b.dims
  conf : b.conf.length = b.frames * b.people * b.points

/-- what a v0.2 read returns for a written body: fps as the float32 that was packed, mask re-derived from confidence -/
def Body.canon (b : Body) (w : F32) : Body := { b with fps := .f32 w, missing := b.conf.map F32.isZero }

theorem encBody?_some {b : Body} {bs : Bytes} (h : encBody? b = some bs) :
    ∃ w n p, b.fps.toF32? = some w ∧ packU32? b.frames = some n ∧ packU16? b.people = some p ∧
      bs = putF32 w ++ n ++ p ++ putF32s b.data ++ putF32s b.conf := by
  simp only [encBody?, Option.bind_eq_bind, Option.bind_eq_some_iff, Option.pure_def, Option.some.injEq] at h
  obtain ⟨w, hw, n, hn, p, hp, rfl⟩ := h
  exact ⟨w, n, p, hw, hn, hp, rfl⟩

theorem Enc_rdBodyV02Full (h : Header) (b : Body) (hf : b.Fits h) (bs r : Bytes) (he : encBody? b = some bs) :
    ∃ w, b.fps.toF32? = some w ∧ runBR (rdBodyV02Full h) (bs ++ r) 0 = some (b.canon w, bs.length) := by
  obtain ⟨w, n, p, hw, hn, hp, rfl⟩ := encBody?_some he
  refine ⟨w, hw, ?_⟩
  have hdl : (putF32s b.data).length = b.frames * (b.people * h.totalPoints * b.dims * 4) := by
    rw [putF32s_length, hf.data, hf.points]; ac_rfl
  have hcl : (putF32s b.conf).length = b.frames * (b.people * h.totalPoints * 4) := by
    rw [putF32s_length, hf.conf, hf.points]; ac_rfl
  simp only [List.append_assoc, List.length_append]
  unfold rdBodyV02Full
  refine seq_enc (Enc_rdF32 w _ _ rfl) ?_ ?_
  · exact Rel_bind _ _ Rel_rdU32 fun _ => Rel_bind _ _ Rel_rdU16 fun _ =>
      Rel_bind _ _ (Rel_ofOption _) fun _ => fun _ _ => Rel_ofOption _
  refine seq_enc (Enc_rdU32 _ _ _ hn) ?_ ?_
  · exact Rel_bind _ _ Rel_rdU16 fun _ => Rel_bind _ _ (Rel_ofOption _) fun _ => fun _ _ => Rel_ofOption _
  refine seq_enc (Enc_rdU16 _ _ _ hp) ?_ ?_
  · exact Rel_bind _ _ (Rel_ofOption _) fun _ => fun _ _ => Rel_ofOption _
  rw [hf.dims]
  simp only [Prog.ofOption, Prog.bind, runBR, Nat.zero_add, List.drop_zero]
  rw [if_pos (by rw [List.length_append, hdl]; omega), ← hdl, List.take_left' rfl, List.drop_left' rfl]
  rw [if_pos (by have := List.length_append (as := putF32s b.conf) (bs := r); have := List.length_append (as := putF32s b.data) (bs := putF32s b.conf ++ r); omega), hdl, ← hcl, List.take_left' rfl]
  have hne : b.dims ≠ 0 := by have := hf.dimsPos; omega
  simp only [mkBody?, if_neg hne]
  have e1 : getF32s (b.frames * b.people * h.totalPoints * b.dims) (putF32s b.data) = b.data := by
    have := getF32s_putF32s b.data []
    rw [List.append_nil, hf.data, hf.points] at this; exact this
  have e2 : getF32s (b.frames * b.people * h.totalPoints) (putF32s b.conf) = b.conf := by
    have := getF32s_putF32s b.conf []
    rw [List.append_nil, hf.conf, hf.points] at this; exact this
  rw [e1, e2]
  simp only [runBR, Body.canon, hf.points]

end PoseVerif
