import PoseVerif.Proofs.Legacy
import PoseVerif.Props.C01
/-! v0.0 files: the reference encoder written from `docs/specs/v0.0.md`, and what the v0.0 decoder returns for its files (helper lemmas for `Props/C04.lean`). -/
namespace PoseVerif
open Prog

/-- the interleaved values of one component cut into rows of `len` -/
def rowsOf (npoints len : Nat) (vals : List F32) : List (List F32) := (List.range npoints).map fun i => (vals.drop (i * len)).take len

/-- coordinates (all letters but the last) and confidences (the last letter) of one component block -/
def decodeBlock (c : Comp) (vals : List F32) : Nat × List F32 × List F32 :=
  (c.format.length - 1, ((rowsOf c.points.length c.format.length vals).map fun r => r.take (c.format.length - 1)).flatten,
    (rowsOf c.points.length c.format.length vals).map fun r => r.getD (c.format.length - 1) 0)

theorem putF32s_append (a b : List F32) : putF32s (a ++ b) = putF32s a ++ putF32s b := by simp [putF32s]

theorem putF32s_drop (l : List F32) (k : Nat) : (putF32s l).drop (k * 4) = putF32s (l.drop k) := by
  induction l generalizing k with
  | nil => simp [putF32s]
  | cons x xs ih =>
    cases k with
    | zero => simp
    | succ k =>
      have h4 : (putF32 x).length = 4 := rfl
      simp only [putF32s, List.flatMap_cons, List.drop_succ_cons] at ih ⊢
      rw [show (k + 1) * 4 = (putF32 x).length + k * 4 by rw [h4]; omega, ← List.drop_drop, List.drop_left]
      exact ih k

theorem getF32s_putF32s_take (l : List F32) (n : Nat) (r : Bytes) (h : n ≤ l.length) : getF32s n (putF32s l ++ r) = l.take n := by
  have e : putF32s l ++ r = putF32s (l.take n) ++ (putF32s (l.drop n) ++ r) := by
    rw [← List.append_assoc, ← putF32s_append, List.take_append_drop]
  rw [e]
  have := getF32s_putF32s (l.take n) (putF32s (l.drop n) ++ r)
  rwa [List.length_take, Nat.min_eq_left h] at this

theorem splitPoints_spec (npoints len : Nat) (vals : List F32) (hv : vals.length = npoints * len) :
    splitPoints npoints len (putF32s vals) =
      (((rowsOf npoints len vals).map fun r => r.take (len - 1)).flatten, (rowsOf npoints len vals).map fun r => r.getD (len - 1) 0) := by
  unfold splitPoints rowsOf
  have hrow : ∀ i ∈ List.range npoints, getF32s len ((putF32s vals).drop (i * len * 4)) = (vals.drop (i * len)).take len := by
    intro i hi
    have hi' := List.mem_range.mp hi
    rw [putF32s_drop]
    have := getF32s_putF32s_take (vals.drop (i * len)) len [] (by
      rw [List.length_drop, hv]
      have : (i + 1) * len ≤ npoints * len := Nat.mul_le_mul_right _ hi'
      rw [Nat.add_mul, Nat.one_mul] at this
      omega)
    rwa [List.append_nil] at this
  simp only []
  rw [List.map_congr_left hrow]

theorem Rel_rdPersonV00_go : ∀ comps, Rel (rdPersonV00.go comps)
  | [] => trivial
  | c :: cs => by
    unfold rdPersonV00.go
    intro b
    split
    · trivial
    · exact Rel_bind _ _ (Rel_rdPersonV00_go cs) fun _ => trivial

/-- the component loop of one person -/
theorem go_spec : ∀ (comps : List Comp) (blocks : List (List F32)) (r : Bytes), blocks.length = comps.length →
    (∀ cv ∈ comps.zip blocks, cv.2.length = cv.1.points.length * cv.1.format.length ∧ 2 ≤ cv.1.format.length) →
    runBR (rdPersonV00.go comps) ((blocks.map putF32s).flatten ++ r) 0 = some (List.zipWith decodeBlock comps blocks, ((blocks.map putF32s).flatten).length)
  | [], [], r, _, _ => rfl
  | [], _ :: _, _, h, _ => by simp at h
  | _ :: _, [], _, h, _ => by simp at h
  | c :: cs, v :: vs, r, hl, hw => by
    obtain ⟨hv, hf⟩ := hw (c, v) (by simp)
    simp only [] at hv hf
    have ih := go_spec cs vs r (by simpa using hl) (fun cv hcv => hw cv (by simp only [List.zip_cons_cons]; exact List.mem_cons_of_mem _ hcv))
    unfold rdPersonV00.go
    simp only [List.map_cons, List.flatten_cons, List.append_assoc, runBR, Nat.zero_add, List.drop_zero]
    have hlen : (putF32s v).length = c.points.length * c.format.length * 4 := by rw [putF32s_length, hv]; omega
    rw [if_pos (by rw [List.length_append, hlen]; omega), ← hlen, List.take_left' rfl, if_neg (by omega)]
    have hrel : Rel (Prog.bind (rdPersonV00.go cs) fun rest => Prog.ret ((c.format.length - 1, splitPoints c.points.length c.format.length (putF32s v)) :: rest)) :=
      Rel_bind _ _ (Rel_rdPersonV00_go cs) fun _ => trivial
    rw [runBR_drop _ hrel _ _ (by simp), List.drop_left, runBR_bind_some ih]
    simp only [runBR, Option.map_some, List.zipWith_cons_cons, List.length_append, decodeBlock, splitPoints_spec _ _ _ hv]

/-- a person whose blocks fit the header's components -/
def PersonV00.Fits (comps : List Comp) (p : PersonV00) : Prop :=
  p.blocks.length = comps.length ∧ ∀ cv ∈ comps.zip p.blocks, cv.2.length = cv.1.points.length * cv.1.format.length ∧ 2 ≤ cv.1.format.length

theorem Rel_rdPersonV00 (comps : List Comp) : Rel (rdPersonV00 comps) := Rel_rdPersonV00_go comps

theorem person_spec (comps : List Comp) (p : PersonV00) (hp : p.Fits comps) (r : Bytes) :
    runBR (rdPersonV00 comps) (specPersonV00 p ++ r) 0 = some (List.zipWith decodeBlock comps p.blocks, (specPersonV00 p).length) := by
  unfold rdPersonV00 specPersonV00
  simp only [runBR, Nat.zero_add, List.append_assoc]
  rw [runBR_drop _ (Rel_rdPersonV00_go comps) _ 2 (by simp [putU16])]
  have : (putU16 p.id ++ ((p.blocks.map putF32s).flatten ++ r)).drop 2 = (p.blocks.map putF32s).flatten ++ r := by simp [putU16]
  rw [this, go_spec comps p.blocks r hp.1 hp.2]
  simp [putU16]; omega

/-- counted repetition over reference-encoded items -/
theorem run_many_dec {α β : Type} (p : Prog β) (hrel : Rel p) (enc : α → Bytes) (dec : α → β) :
    ∀ (xs : List α) (r : Bytes), (∀ x ∈ xs, ∀ r, runBR p (enc x ++ r) 0 = some (dec x, (enc x).length)) →
      runBR (Prog.many p xs.length) ((xs.map enc).flatten ++ r) 0 = some (xs.map dec, ((xs.map enc).flatten).length)
  | [], r, _ => rfl
  | x :: xs, r, h => by
    simp only [List.length_cons, Prog.many, List.map_cons, List.flatten_cons, List.append_assoc, List.length_append]
    refine seq_enc (h x (by simp) _) (Rel_bind _ _ (Rel_many p hrel _) fun _ => trivial) ?_
    rw [runBR_bind_some (run_many_dec p hrel enc dec xs r fun y hy => h y (List.mem_cons_of_mem _ hy))]
    rfl

/-- what a frame decodes to: zeros when nobody is listed, else the FIRST listed person -/
def decodeFrameV00 (comps : List Comp) (points dims : Nat) (ps : List PersonV00) : List F32 × List F32 :=
  match ps with
  | [] => (List.replicate (points * dims) 0, List.replicate points 0)
  | p :: _ => (((List.zipWith decodeBlock comps p.blocks).map (·.2.1)).flatten, ((List.zipWith decodeBlock comps p.blocks).map (·.2.2)).flatten)

theorem Rel_rdFrameV00 (comps : List Comp) (points dims : Nat) : Rel (rdFrameV00 comps points dims) := by
  unfold rdFrameV00
  refine Rel_bind _ _ Rel_rdU16 fun _ => Rel_bind _ _ (Rel_many _ (Rel_rdPersonV00 comps) _) fun persons => ?_
  cases persons with
  | nil => trivial
  | cons a _ => exact Rel_ofOption _

theorem concatPerson_all (b0 : Nat × List F32 × List F32) (bs : List (Nat × List F32 × List F32)) (h : ∀ b ∈ b0 :: bs, b.1 = b0.1) :
    concatPerson (b0 :: bs) = some (((b0 :: bs).map (·.2.1)).flatten, ((b0 :: bs).map (·.2.2)).flatten) := by
  obtain ⟨w, x⟩ := b0
  simp only [concatPerson]
  rw [if_pos]
  simp only [List.all_eq_true, decide_eq_true_eq]
  exact h

theorem concatPerson_spec (comps : List Comp) (blocks : List (List F32)) (w : Nat) (hne : comps ≠ []) (hl : blocks.length = comps.length)
    (hw : ∀ c ∈ comps, c.format.length - 1 = w) :
    concatPerson (List.zipWith decodeBlock comps blocks) =
      some (((List.zipWith decodeBlock comps blocks).map (·.2.1)).flatten, ((List.zipWith decodeBlock comps blocks).map (·.2.2)).flatten) := by
  cases comps with
  | nil => exact absurd rfl hne
  | cons c cs =>
    cases blocks with
    | nil => simp at hl
    | cons v vs =>
      rw [List.zipWith_cons_cons]
      apply concatPerson_all
      intro b hb
      rw [← List.zipWith_cons_cons] at hb
      obtain ⟨i, hi, rfl⟩ := List.mem_iff_getElem.mp hb
      have hi' : i < (c :: cs).length := by simp only [List.length_zipWith] at hi; omega
      simp only [List.getElem_zipWith, decodeBlock]
      rw [hw c (by simp), hw ((c :: cs)[i]'hi') (List.getElem_mem _)]

theorem frame_spec (comps : List Comp) (points dims : Nat) (ps : List PersonV00) (r : Bytes) (hn : ps.length < 65536) (hne : comps ≠ [])
    (hp : ∀ p ∈ ps, p.Fits comps) (hw : ∀ c ∈ comps, c.format.length - 1 = dims) :
    runBR (rdFrameV00 comps points dims) (specFrameV00 ps ++ r) 0 = some (decodeFrameV00 comps points dims ps, (specFrameV00 ps).length) := by
  unfold rdFrameV00 specFrameV00
  rw [List.append_assoc, List.length_append]
  refine seq_enc (Enc_rdU16 ps.length (putU16 ps.length) _ (by simp [packU16?, hn])) ?_ ?_
  · refine Rel_bind _ _ (Rel_many _ (Rel_rdPersonV00 comps) _) fun persons => ?_
    cases persons with
    | nil => trivial
    | cons a _ => exact Rel_ofOption _
  rw [runBR_bind_some (run_many_dec (rdPersonV00 comps) (Rel_rdPersonV00 comps) specPersonV00 (fun p => List.zipWith decodeBlock comps p.blocks) ps r
    fun p hpm r => person_spec comps p (hp p hpm) r)]
  cases ps with
  | nil => rfl
  | cons p ps' =>
    simp only [List.map_cons]
    rw [runBR_ofOption, concatPerson_spec comps p.blocks dims hne (hp p (by simp)).1 hw]
    rfl

theorem rowsOf_lengths (npoints len : Nat) (vals : List F32) (hv : vals.length = npoints * len) : ∀ r ∈ rowsOf npoints len vals, r.length = len := by
  intro r hr
  unfold rowsOf at hr
  obtain ⟨i, hi, rfl⟩ := List.mem_map.mp hr
  have hi' := List.mem_range.mp hi
  rw [List.length_take, List.length_drop, hv]
  have : (i + 1) * len ≤ npoints * len := Nat.mul_le_mul_right _ hi'
  rw [Nat.add_mul, Nat.one_mul] at this
  omega

theorem flatten_length_of_const {α : Type} (k : Nat) : ∀ (bs : List (List α)), (∀ x ∈ bs, x.length = k) → bs.flatten.length = bs.length * k
  | [], _ => by simp
  | x :: xs, h => by
    simp only [List.flatten_cons, List.length_append, List.length_cons, h x (by simp),
      flatten_length_of_const k xs (fun y hy => h y (List.mem_cons_of_mem _ hy)), Nat.add_mul]
    omega

theorem decodeBlock_lengths (c : Comp) (vals : List F32) (hv : vals.length = c.points.length * c.format.length) :
    (decodeBlock c vals).2.1.length = c.points.length * (c.format.length - 1) ∧ (decodeBlock c vals).2.2.length = c.points.length := by
  unfold decodeBlock
  refine ⟨?_, by simp [rowsOf]⟩
  simp only []
  rw [flatten_length_of_const (c.format.length - 1)]
  · simp [rowsOf]
  · intro x hx
    obtain ⟨r, hr, rfl⟩ := List.mem_map.mp hx
    rw [List.length_take, rowsOf_lengths _ _ _ hv r hr]; omega

/-- lengths of what one person decodes to -/
theorem person_lengths : ∀ (comps : List Comp) (blocks : List (List F32)) (dims : Nat), blocks.length = comps.length →
    (∀ cv ∈ comps.zip blocks, cv.2.length = cv.1.points.length * cv.1.format.length ∧ 2 ≤ cv.1.format.length) →
    (∀ c ∈ comps, c.format.length - 1 = dims) →
    (((List.zipWith decodeBlock comps blocks).map (·.2.1)).flatten).length = (comps.map (·.points.length)).sum * dims ∧
    (((List.zipWith decodeBlock comps blocks).map (·.2.2)).flatten).length = (comps.map (·.points.length)).sum
  | [], [], _, _, _, _ => by simp
  | [], _ :: _, _, h, _, _ => by simp at h
  | _ :: _, [], _, h, _, _ => by simp at h
  | c :: cs, v :: vs, dims, hl, hw, hd => by
    obtain ⟨hv, _⟩ := hw (c, v) (by simp)
    simp only [] at hv
    obtain ⟨i1, i2⟩ := person_lengths cs vs dims (by simpa using hl) (fun cv hcv => hw cv (by simp only [List.zip_cons_cons]; exact List.mem_cons_of_mem _ hcv))
      (fun c' hc' => hd c' (List.mem_cons_of_mem _ hc'))
    obtain ⟨d1, d2⟩ := decodeBlock_lengths c v hv
    simp only [List.zipWith_cons_cons, List.map_cons, List.flatten_cons, List.length_append, List.sum_cons, i1, i2, d1, d2, hd c (by simp), Nat.add_mul]
    exact ⟨trivial, trivial⟩

theorem decodeFrameV00_lengths (comps : List Comp) (dims : Nat) (ps : List PersonV00) (hp : ∀ p ∈ ps, p.Fits comps) (hw : ∀ c ∈ comps, c.format.length - 1 = dims) :
    (decodeFrameV00 comps (comps.map (·.points.length)).sum dims ps).1.length = (comps.map (·.points.length)).sum * dims ∧
    (decodeFrameV00 comps (comps.map (·.points.length)).sum dims ps).2.length = (comps.map (·.points.length)).sum := by
  cases ps with
  | nil => simp [decodeFrameV00]
  | cons p ps' =>
    have := hp p (by simp)
    exact person_lengths comps p.blocks dims this.1 this.2 hw

theorem numDims?_of_uniform (h : Header) (dims : Nat) (hne : h.comps ≠ []) (hfmt : ∀ c ∈ h.comps, c.format.length = dims + 1) : h.numDims? = some dims := by
  unfold Header.numDims?
  cases hc : h.comps with
  | nil => exact absurd hc hne
  | cons c cs =>
    rw [hc] at hfmt
    simp only [List.map_cons]
    have hfold : ∀ (l : List Nat), (∀ x ∈ l, x = dims + 1) → l.foldl max (dims + 1) = dims + 1 := by
      intro l; induction l with
      | nil => intro _; rfl
      | cons x xs ih => intro hx; simp only [List.foldl_cons]; rw [hx x (by simp), Nat.max_self]; exact ih fun y hy => hx y (List.mem_cons_of_mem _ hy)
    rw [hfmt c (by simp), hfold _ (by intro x hx; obtain ⟨c', hc', rfl⟩ := List.mem_map.mp hx; exact hfmt c' (List.mem_cons_of_mem _ hc'))]
    simp

/-- what a v0.0 read returns: one person per frame (the first listed, zeros when none), integer fps, a point missing unless its confidence is > 0 -/
def decodedBodyV00 (h : Header) (dims fps : Nat) (frames : List (List PersonV00)) : Body :=
  let fr := frames.map (decodeFrameV00 h.comps h.totalPoints dims)
  let conf := (fr.map (·.2)).flatten
  { fps := .int fps, frames := frames.length, people := 1, points := h.totalPoints, dims,
    data := (fr.map (·.1)).flatten, conf, missing := conf.map fun c => !F32.gtZero c }

theorem Rel_rdBodyV00 (h : Header) : Rel (rdBodyV00 h) := by
  unfold rdBodyV00
  refine Rel_bind _ _ Rel_rd2U16 fun _ => Rel_bind _ _ (Rel_ofOption _) fun _ => Rel_bind _ _ (Rel_many _ (Rel_rdFrameV00 _ _ _) _) fun _ => ?_
  simp only []
  split
  · trivial
  · split <;> trivial

theorem rdBodyV00_spec (h : Header) (dims fps : Nat) (frames : List (List PersonV00)) (hfps : fps < 65536) (hnf : frames.length < 65536) (hf1 : frames ≠ [])
    (hd1 : 1 ≤ dims) (hne : h.comps ≠ []) (hfmt : ∀ c ∈ h.comps, c.format.length = dims + 1)
    (hpeople : ∀ ps ∈ frames, ps.length < 65536) (hfit : ∀ ps ∈ frames, ∀ p ∈ ps, p.Fits h.comps) :
    runBR (rdBodyV00 h) (specBodyV00 fps frames) 0 = some (decodedBodyV00 h dims fps frames, (specBodyV00 fps frames).length) := by
  have hw : ∀ c ∈ h.comps, c.format.length - 1 = dims := fun c hc => by rw [hfmt c hc]; omega
  unfold rdBodyV00 specBodyV00
  have e0 : putU16 fps ++ putU16 frames.length ++ (frames.map specFrameV00).flatten = (putU16 fps ++ putU16 frames.length) ++ ((frames.map specFrameV00).flatten ++ []) := by simp
  rw [e0, List.length_append]
  refine seq_enc (Enc_rd2U16 (fps, frames.length) _ _ (pack2U16?_of_lt hfps hnf)) ?_ ?_
  · refine Rel_bind _ _ (Rel_ofOption _) fun _ => Rel_bind _ _ (Rel_many _ (Rel_rdFrameV00 _ _ _) _) fun _ => ?_
    simp only []
    split
    · trivial
    · split <;> trivial
  simp only [numDims?_of_uniform h dims hne hfmt, ofOption_some_bind]
  rw [runBR_bind_some (run_many_dec (rdFrameV00 h.comps h.totalPoints dims) (Rel_rdFrameV00 _ _ _) specFrameV00 (decodeFrameV00 h.comps h.totalPoints dims) frames []
    fun ps hps r => frame_spec h.comps h.totalPoints dims ps r (hpeople ps hps) hne (hfit ps hps) hw)]
  have hlen0 : ¬ (frames.length = 0 ∨ dims = 0) := by
    intro hh; rcases hh with hh | hh
    · exact hf1 (List.eq_nil_of_length_eq_zero hh)
    · omega
  rw [if_neg hlen0]
  have hany : (frames.map (decodeFrameV00 h.comps h.totalPoints dims)).any (fun f => decide (f.1.length ≠ h.totalPoints * dims)) = false := by
    rw [List.any_eq_false]
    intro f hf
    obtain ⟨ps, hps, rfl⟩ := List.mem_map.mp hf
    have := (decodeFrameV00_lengths h.comps dims ps (hfit ps hps) hw).1
    simp only [Header.totalPoints, ne_eq, this, not_true_eq_false, decide_false]
    simp
  simp only [hany, Bool.false_eq_true, if_false, runBR, List.append_nil, decodedBodyV00]


end PoseVerif
