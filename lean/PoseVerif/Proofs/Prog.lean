import PoseVerif.Model.Prog
/-! Generic facts about reader programs run by `BufferReader` (`runBR`). Core Lean only. -/
namespace PoseVerif
open Prog

theorem runBR_bind {α β : Type} (p : Prog α) (f : α → Prog β) (file : Bytes) (off : Nat) :
    runBR (Prog.bind p f) file off =
      match runBR p file off with
      | none => none
      | some (a, o) => runBR (f a) file o := by
  induction p generalizing off with
  | ret a => simp [Prog.bind, runBR]
  | fail => simp [Prog.bind, runBR]
  | expect n k ih => simp only [Prog.bind, runBR]; exact ih off
  | unpack n k ih =>
    simp only [Prog.bind, runBR]
    split
    · exact ih _ _
    · rfl
  | skip n k ih => simp only [Prog.bind, runBR]; exact ih _
  | advance n k ih => simp only [Prog.bind, runBR]; exact ih _
  | setOff n k ih => simp only [Prog.bind, runBR]; exact ih _
  | fileLeft k ih => simp only [Prog.bind, runBR]; exact ih _ _
  | peek n k ih => simp only [Prog.bind, runBR]; exact ih _ _
  | getOff k ih => simp only [Prog.bind, runBR]; exact ih _ _

theorem runBR_bind_some {α β : Type} {p : Prog α} {f : α → Prog β} {file : Bytes} {off : Nat} {a : α} {o : Nat}
    (h : runBR p file off = some (a, o)) : runBR (Prog.bind p f) file off = runBR (f a) file o := by
  rw [runBR_bind, h]

theorem runBR_bind_none {α β : Type} {p : Prog α} {f : α → Prog β} {file : Bytes} {off : Nat}
    (h : runBR p file off = none) : runBR (Prog.bind p f) file off = none := by
  rw [runBR_bind, h]

/-- inversion of a successful bind -/
theorem runBR_bind_inv {α β : Type} {p : Prog α} {f : α → Prog β} {file : Bytes} {off : Nat} {r : β × Nat}
    (h : runBR (Prog.bind p f) file off = some r) :
    ∃ a o, runBR p file off = some (a, o) ∧ runBR (f a) file o = some r := by
  rw [runBR_bind] at h
  split at h
  · cases h
  · rename_i a o hp; exact ⟨a, o, hp, h⟩

@[simp] theorem ofOption_some_bind {α β : Type} (a : α) (f : α → Prog β) : Prog.bind (Prog.ofOption (some a)) f = f a := rfl
@[simp] theorem ofOption_none_bind {α β : Type} (f : α → Prog β) : Prog.bind (Prog.ofOption (none : Option α)) f = Prog.fail := rfl

theorem runBR_ofOption {α : Type} (x : Option α) (file : Bytes) (off : Nat) :
    runBR (Prog.ofOption x) file off = x.map fun a => (a, off) := by
  cases x <;> rfl

/-- position independence: a `Rel` program only sees the bytes from the cursor on -/
theorem runBR_shift {α : Type} (p : Prog α) (hp : Rel p) (pre rest : Bytes) (i : Nat) :
    runBR p (pre ++ rest) (pre.length + i) = (runBR p rest i).map fun r => (r.1, pre.length + r.2) := by
  induction p generalizing i with
  | ret a => simp [runBR]
  | fail => simp [runBR]
  | expect n k ih => simp only [runBR]; exact ih hp i
  | unpack n k ih =>
    simp only [runBR, List.length_append]
    have hd : (pre ++ rest).drop (pre.length + i) = rest.drop i := by
      rw [List.drop_append]; simp
    by_cases hc : i + n ≤ rest.length
    · rw [if_pos (by omega), if_pos hc, hd]
      have := ih ((rest.drop i).take n) (hp _) (i + n)
      rw [← Nat.add_assoc] at this
      exact this
    · rw [if_neg (by omega), if_neg hc]; rfl
  | skip n k ih => simp only [runBR]; have := ih hp (i + n); rw [← Nat.add_assoc] at this; exact this
  | advance n k ih => simp only [runBR]; have := ih hp (i + n); rw [← Nat.add_assoc] at this; exact this
  | setOff n k ih => exact absurd hp (by simp [Rel])
  | fileLeft k ih =>
    simp only [runBR, List.length_append]
    have : ((pre.length + rest.length : Nat) : Int) - ((pre.length + i : Nat) : Int) = (rest.length : Int) - (i : Int) := by omega
    rw [this]; exact ih _ (hp _) i
  | peek n k ih => exact absurd hp (by simp [Rel])
  | getOff k ih => exact absurd hp (by simp [Rel])

/-- run at cursor `n` = run on the remaining bytes -/
theorem runBR_drop {α : Type} (p : Prog α) (hp : Rel p) (file : Bytes) (n : Nat) (hn : n ≤ file.length) :
    runBR p file n = (runBR p (file.drop n) 0).map fun r => (r.1, n + r.2) := by
  have h := runBR_shift p hp (file.take n) (file.drop n) 0
  rw [List.take_append_drop] at h
  simp only [List.length_take, Nat.min_eq_left hn, Nat.add_zero] at h
  exact h

/-- a successful run of a program that does not look ahead is unaffected by appended bytes -/
theorem runBR_extend {α : Type} (p : Prog α) (hp : Blind p) (file e : Bytes) (off : Nat) (r : α × Nat)
    (h : runBR p file off = some r) : runBR p (file ++ e) off = some r := by
  induction p generalizing off with
  | ret a => simpa [runBR] using h
  | fail => simp [runBR] at h
  | expect n k ih => simp only [runBR] at h ⊢; exact ih hp off h
  | unpack n k ih =>
    simp only [runBR] at h ⊢
    split at h
    · rename_i hc
      rw [if_pos (by simp; omega)]
      have hd : ((file ++ e).drop off).take n = (file.drop off).take n := by
        rw [List.drop_append_of_le_length (by omega), List.take_append_of_le_length (by simp; omega)]
      rw [hd]; exact ih _ (hp _) _ h
    · cases h
  | skip n k ih => simp only [runBR] at h ⊢; exact ih hp _ h
  | advance n k ih => simp only [runBR] at h ⊢; exact ih hp _ h
  | setOff n k ih => simp only [runBR] at h ⊢; exact ih hp _ h
  | fileLeft k ih => exact absurd hp (by simp [Blind])
  | peek n k ih => exact absurd hp (by simp [Blind])
  | getOff k ih => simp only [runBR] at h ⊢; exact ih _ (hp _) _ h

/-- a program that only moves its cursor by reading ends inside the data -/
theorem runBR_bound {α : Type} (p : Prog α) (hp : SkipFree p) (file : Bytes) (off : Nat) (r : α × Nat)
    (h : runBR p file off = some r) : off ≤ r.2 ∧ (off ≤ file.length → r.2 ≤ file.length) := by
  induction p generalizing off with
  | ret a => simp [runBR] at h; subst h; simp
  | fail => simp [runBR] at h
  | expect n k ih => simp only [runBR] at h; exact ih hp off h
  | unpack n k ih =>
    simp only [runBR] at h
    split at h
    · rename_i hc
      have := ih _ (hp _) _ h
      constructor
      · omega
      · intro _; exact this.2 hc
    · cases h
  | skip n k ih => exact absurd hp (by simp [SkipFree])
  | advance n k ih => exact absurd hp (by simp [SkipFree])
  | setOff n k ih => exact absurd hp (by simp [SkipFree])
  | fileLeft k ih => simp only [runBR] at h; exact ih _ (hp _) off h
  | peek n k ih => simp only [runBR] at h; exact ih _ (hp _) off h
  | getOff k ih => simp only [runBR] at h; exact ih _ (hp _) off h

/-! ### structural predicates are closed under `bind`, `many`, `ofOption` -/

theorem Rel_bind {α β : Type} (p : Prog α) (f : α → Prog β) (hp : Rel p) (hf : ∀ a, Rel (f a)) : Rel (Prog.bind p f) := by
  induction p with
  | ret a => exact hf a
  | fail => trivial
  | expect n k ih => exact ih hp
  | unpack n k ih => intro b; exact ih b (hp b)
  | skip n k ih => exact ih hp
  | advance n k ih => exact ih hp
  | setOff n k ih => exact absurd hp (by simp [Rel])
  | fileLeft k ih => intro i; exact ih i (hp i)
  | peek n k ih => exact absurd hp (by simp [Rel])
  | getOff k ih => exact absurd hp (by simp [Rel])

theorem Blind_bind {α β : Type} (p : Prog α) (f : α → Prog β) (hp : Blind p) (hf : ∀ a, Blind (f a)) : Blind (Prog.bind p f) := by
  induction p with
  | ret a => exact hf a
  | fail => trivial
  | expect n k ih => exact ih hp
  | unpack n k ih => intro b; exact ih b (hp b)
  | skip n k ih => exact ih hp
  | advance n k ih => exact ih hp
  | setOff n k ih => exact ih hp
  | fileLeft k ih => exact absurd hp (by simp [Blind])
  | peek n k ih => exact absurd hp (by simp [Blind])
  | getOff k ih => intro o; exact ih o (hp o)

theorem SkipFree_bind {α β : Type} (p : Prog α) (f : α → Prog β) (hp : SkipFree p) (hf : ∀ a, SkipFree (f a)) : SkipFree (Prog.bind p f) := by
  induction p with
  | ret a => exact hf a
  | fail => trivial
  | expect n k ih => exact ih hp
  | unpack n k ih => intro b; exact ih b (hp b)
  | skip n k ih => exact absurd hp (by simp [SkipFree])
  | advance n k ih => exact absurd hp (by simp [SkipFree])
  | setOff n k ih => exact absurd hp (by simp [SkipFree])
  | fileLeft k ih => intro i; exact ih i (hp i)
  | peek n k ih => intro b; exact ih b (hp b)
  | getOff k ih => intro o; exact ih o (hp o)

theorem Rel_ofOption {α : Type} (x : Option α) : Rel (Prog.ofOption x) := by cases x <;> trivial
theorem Blind_ofOption {α : Type} (x : Option α) : Blind (Prog.ofOption x) := by cases x <;> trivial
theorem SkipFree_ofOption {α : Type} (x : Option α) : SkipFree (Prog.ofOption x) := by cases x <;> trivial

theorem Rel_many {α : Type} (p : Prog α) (hp : Rel p) : ∀ n, Rel (Prog.many p n)
  | 0 => trivial
  | n + 1 => Rel_bind _ _ hp fun _ => Rel_bind _ _ (Rel_many p hp n) fun _ => trivial
theorem Blind_many {α : Type} (p : Prog α) (hp : Blind p) : ∀ n, Blind (Prog.many p n)
  | 0 => trivial
  | n + 1 => Blind_bind _ _ hp fun _ => Blind_bind _ _ (Blind_many p hp n) fun _ => trivial
theorem SkipFree_many {α : Type} (p : Prog α) (hp : SkipFree p) : ∀ n, SkipFree (Prog.many p n)
  | 0 => trivial
  | n + 1 => SkipFree_bind _ _ hp fun _ => SkipFree_bind _ _ (SkipFree_many p hp n) fun _ => trivial

end PoseVerif
