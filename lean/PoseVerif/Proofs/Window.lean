import PoseVerif.Proofs.Trunc
/-! A windowed read through `BufferReader` is the slice of the full read. -/
namespace PoseVerif
open Prog

theorem getF32s_take (n : Nat) (b : Bytes) (m : Nat) (h : 4 * n ≤ m) : getF32s n (b.take m) = getF32s n b := by
  induction n generalizing b m with
  | zero => rfl
  | succ n ih =>
    simp only [getF32s]
    rw [List.take_take, List.drop_take, ih (b.drop 4) (m - 4) (by omega)]
    congr 2
    congr 1; omega

theorem getF32s_add (a n : Nat) (b : Bytes) : getF32s (a + n) b = getF32s a b ++ getF32s n (b.drop (4 * a)) := by
  induction a generalizing b with
  | zero => simp [getF32s]
  | succ a ih =>
    rw [show a + 1 + n = (a + n) + 1 by omega]
    simp only [getF32s, List.cons_append, ih, List.drop_drop]
    rw [show 4 + 4 * a = 4 * (a + 1) by omega]

theorem getF32s_slice (A N R : Nat) (b : Bytes) :
    ((getF32s (A + (N + R)) b).drop A).take N = getF32s N ((b.drop (4 * A)).take (4 * N)) := by
  rw [getF32s_add, getF32s_add]
  rw [List.drop_append_of_le_length (by rw [getF32s_length]; omega), List.drop_eq_nil_of_le (by rw [getF32s_length]; omega), List.nil_append]
  rw [List.take_append_of_le_length (by rw [getF32s_length]; omega), List.take_of_length_le (by rw [getF32s_length]; omega)]
  rw [getF32s_take _ _ _ (Nat.le_refl _)]
def WinValid (frames : Nat) (s e : Option Int) : Prop :=
  ¬ (0 < winStart s ∧ frames ≤ winStart s) ∧ winStart s + (winRem frames e).getD 0 ≤ frames

def winCount (frames : Nat) (s e : Option Int) : Nat := frames - winStart s - (winRem frames e).getD 0

theorem runBR_readFrames {β : Type} (frames row : Nat) (s e : Option Int) (k : Nat × Bytes → Prog β) (f : Bytes) (off : Nat)
    (hfit : off + frames * row ≤ f.length) (hv : WinValid frames s e) :
    runBR (Prog.bind (readFrames frames row s e) k) f off =
      runBR (k (winCount frames s e, (f.drop (off + winStart s * row)).take (winCount frames s e * row))) f (off + frames * row) := by
  obtain ⟨hv1, hv2⟩ := hv
  unfold readFrames winCount
  simp only []
  rw [if_neg hv1, if_neg (by omega)]
  generalize winStart s = st at *
  generalize hr : winRem frames e = rem at *
  have hsum : st * row + (frames - st - rem.getD 0) * row + rem.getD 0 * row = frames * row := by
    rw [← Nat.add_mul, ← Nat.add_mul]; congr 1; omega
  generalize (frames - st - rem.getD 0) = n at *
  generalize hA : st * row = A at *
  generalize hB : n * row = B at *
  generalize hT : frames * row = T at *
  cases rem with
  | none =>
    simp only [Option.getD_none, Nat.zero_mul, Nat.add_zero] at hsum
    by_cases hst : 0 < st
    · rw [if_pos hst]
      simp only [Prog.bind, runBR]
      rw [if_pos (by omega)]
      congr 1; omega
    · rw [if_neg hst]
      have : A = 0 := by have : st = 0 := by omega
                         subst this; omega
      subst this
      simp only [Prog.bind, runBR, Nat.add_zero]
      rw [if_pos (by omega)]
      congr 1; omega
  | some r =>
    simp only [Option.getD_some] at hsum
    generalize hC : r * row = C at *
    by_cases hst : 0 < st
    · rw [if_pos hst]
      simp only [Prog.bind, runBR]
      rw [if_pos (by omega)]
      congr 1; omega
    · rw [if_neg hst]
      have : A = 0 := by have : st = 0 := by omega
                         subst this; omega
      subst this
      simp only [Prog.bind, runBR, Nat.add_zero]
      rw [if_pos (by omega)]
      congr 1; omega
end PoseVerif

namespace PoseVerif
open Prog

instance (F : Nat) (s e : Option Int) : Decidable (WinValid F s e) := by unfold WinValid; infer_instance

theorem winStart_natCast (s : Nat) : winStart (some (s : Int)) = s := by
  simp only [winStart]
  split <;> omega
theorem winRem_natCast (F e : Nat) : winRem F (some (e : Int)) = some (F - min e F) := by
  simp only [winRem, Option.map_some]
  congr 1; omega

/-- an unacceptable window is refused before anything of the block is read — by every reader -/
theorem readFrames_invalid (frames row : Nat) (s e : Option Int) (hv : ¬ WinValid frames s e) :
    readFrames frames row s e = .fail := by
  unfold readFrames
  simp only []
  unfold WinValid at hv
  by_cases h1 : 0 < winStart s ∧ frames ≤ winStart s
  · rw [if_pos h1]
  · rw [if_neg h1, if_pos (by omega)]

/-- frames `[st, st+n)` of a body -/
def Body.slice (b : Body) (st n : Nat) : Body :=
  { b with frames := n,
           data := (b.data.drop (st * (b.people * b.points * b.dims))).take (n * (b.people * b.points * b.dims)),
           conf := (b.conf.drop (st * (b.people * b.points))).take (n * (b.people * b.points)),
           missing := (b.missing.drop (st * (b.people * b.points))).take (n * (b.people * b.points)) }

theorem mkBody?_slice (fps : Fps) (F P N D st n : Nat) (db cb : Bytes) (h : st + n ≤ F) :
    mkBody? fps n P N D ((db.drop (st * (P * N * D * 4))).take (n * (P * N * D * 4))) ((cb.drop (st * (P * N * 4))).take (n * (P * N * 4)))
      = (mkBody? fps F P N D db cb).map fun b => b.slice st n := by
  unfold mkBody?
  by_cases hd : D = 0
  · simp [hd]
  · simp only [if_neg hd, Option.map_some, Body.slice]
    have hF : F = st + (n + (F - st - n)) := by omega
    have eD : F * P * N * D = st * (P * N * D) + (n * (P * N * D) + (F - st - n) * (P * N * D)) := by
      conv => lhs; rw [hF]
      simp only [Nat.add_mul, Nat.mul_assoc]
    have eC : F * P * N = st * (P * N) + (n * (P * N) + (F - st - n) * (P * N)) := by
      conv => lhs; rw [hF]
      simp only [Nat.add_mul, Nat.mul_assoc]
    have bD1 : st * (P * N * D * 4) = 4 * (st * (P * N * D)) := by ac_rfl
    have bD2 : n * (P * N * D * 4) = 4 * (n * (P * N * D)) := by ac_rfl
    have bC1 : st * (P * N * 4) = 4 * (st * (P * N)) := by ac_rfl
    have bC2 : n * (P * N * 4) = 4 * (n * (P * N)) := by ac_rfl
    have nD : n * P * N * D = n * (P * N * D) := by ac_rfl
    have nC : n * P * N = n * (P * N) := by ac_rfl
    rw [eD, eC, bD1, bD2, bC1, bC2, nD, nC, getF32s_slice, getF32s_slice]
    rw [← List.map_drop, ← List.map_take, getF32s_slice]

end PoseVerif
