import PoseVerif.Proofs.Spec
import PoseVerif.Proofs.Window2
/-! v0.1 files: the reference encoder's files decode to their content; version dispatch. -/
namespace PoseVerif
open Prog

theorem Rel_readFrames (frames row : Nat) (s e : Option Int) : Rel (readFrames frames row s e) := by
  unfold readFrames
  simp only []
  split
  · trivial
  · split
    · trivial
    · split
      · intro b; cases winRem frames e <;> trivial
      · intro b; cases winRem frames e <;> trivial

theorem Rel_rdBlocks (fps : Fps) (frames people points dims : Nat) (s e : Option Int) : Rel (rdBlocks fps frames people points dims s e) :=
  Rel_bind _ _ (Rel_readFrames _ _ _ _) fun _ => Rel_bind _ _ (Rel_readFrames _ _ _ _) fun _ => Rel_ofOption _

theorem Rel_rdBodyV01 (h : Header) (w : Window) : Rel (rdBodyV01 h w) := by
  unfold rdBodyV01
  refine Rel_bind _ _ Rel_rd2U16 fun _ => Rel_bind _ _ Rel_rdU16 fun _ => Rel_bind _ _ (Rel_ofOption _) fun _ => ?_
  simp only []
  split
  · trivial
  · intro left; exact Rel_rdBlocks _ _ _ _ _ _ _

/-- decoding the reference v0.1 body: the on-disk frame count is irrelevant, the count comes from the payload size -/
theorem rdBodyV01_spec (h : Header) (b : Body) (hf : b.Fits h) (fps ff : Nat) (hfps : fps < 65536) (hff : ff < 65536)
    (hpeople : b.people < 65536) (hp1 : 1 ≤ b.people) (hn1 : 1 ≤ b.points) :
    runBR (rdBodyV01 h {}) (specBodyV01 b fps ff) 0 =
      some ({ b with fps := .int fps, missing := b.conf.map F32.isZero }, (specBodyV01 b fps ff).length) := by
  have hdl : (putF32s b.data).length = b.frames * (b.people * h.totalPoints * b.dims * 4) := by
    rw [putF32s_length, hf.data, hf.points]; ac_rfl
  have hcl : (putF32s b.conf).length = b.frames * (b.people * h.totalPoints * 4) := by
    rw [putF32s_length, hf.conf, hf.points]; ac_rfl
  have hpts := hf.points
  unfold rdBodyV01 specBodyV01
  simp only [List.append_assoc]
  have e1 := Enc_rd2U16 (fps, ff) _ (putU16 b.people ++ (putF32s b.data ++ putF32s b.conf)) (pack2U16?_of_lt hfps hff)
  simp only [List.append_assoc] at e1
  rw [runBR_bind_some e1]
  have hrel : ∀ x, Rel (Prog.bind rdU16 fun people => Prog.bind (Prog.ofOption h.numDims?) fun dims =>
      if people * h.totalPoints * (dims + 1) * 4 = 0 then Prog.fail
      else Prog.fileLeft fun left => rdBlocks (Fps.int (x : Nat × Nat).1) (left / ↑(people * h.totalPoints * (dims + 1) * 4)).toNat people h.totalPoints dims none none) := by
    intro x
    refine Rel_bind _ _ Rel_rdU16 fun _ => Rel_bind _ _ (Rel_ofOption _) fun _ => ?_
    split
    · trivial
    · intro left; exact Rel_rdBlocks _ _ _ _ _ _ _
  rw [runBR_drop _ (hrel _) _ _ (by simp [putU16])]
  have hd4 : (putU16 fps ++ (putU16 ff ++ (putU16 b.people ++ (putF32s b.data ++ putF32s b.conf)))).drop (putU16 fps ++ putU16 ff).length
      = putU16 b.people ++ (putF32s b.data ++ putF32s b.conf) := by
    rw [← List.append_assoc, List.drop_left]
  rw [hd4]
  have e2 := Enc_rdU16 b.people (putU16 b.people) (putF32s b.data ++ putF32s b.conf) (by simp [packU16?, hpeople])
  rw [runBR_bind_some e2, hf.dims]
  simp only [ofOption_some_bind]
  have hden : b.people * h.totalPoints * (b.dims + 1) * 4 ≠ 0 := by
    have h1 : 0 < b.people * h.totalPoints := Nat.mul_pos (by omega) (by omega)
    have h2 : 0 < b.people * h.totalPoints * (b.dims + 1) := Nat.mul_pos h1 (by omega)
    omega
  rw [if_neg hden]
  simp only [runBR]
  -- the payload size is an exact multiple of the frame size
  have hleft : ((putU16 b.people ++ (putF32s b.data ++ putF32s b.conf)).length : Int) - ((putU16 b.people).length : Nat)
      = (b.frames : Int) * ((b.people * h.totalPoints * (b.dims + 1) * 4 : Nat) : Int) := by
    simp only [List.length_append, hdl, hcl]
    have : b.frames * (b.people * h.totalPoints * b.dims * 4) + b.frames * (b.people * h.totalPoints * 4)
        = b.frames * (b.people * h.totalPoints * (b.dims + 1) * 4) := by
      rw [← Nat.mul_add]; congr 1
      simp only [Nat.mul_add, Nat.add_mul, Nat.mul_one]
    have hc : (((putU16 b.people).length + (b.frames * (b.people * h.totalPoints * b.dims * 4) + b.frames * (b.people * h.totalPoints * 4)) : Nat) : Int)
        - ((putU16 b.people).length : Nat) = ((b.frames * (b.people * h.totalPoints * (b.dims + 1) * 4) : Nat) : Int) := by
      rw [this]; omega
    rw [hc]; simp
  rw [hleft]
  have hdiv : ((b.frames : Int) * ((b.people * h.totalPoints * (b.dims + 1) * 4 : Nat) : Int) / ((b.people * h.totalPoints * (b.dims + 1) * 4 : Nat) : Int)).toNat = b.frames := by
    rw [Int.mul_ediv_cancel _ (by exact_mod_cast hden)]; simp
  rw [hdiv]
  -- the two blocks
  have hrel2 : Rel (rdBlocks (Fps.int fps) b.frames b.people h.totalPoints b.dims none none) := Rel_rdBlocks _ _ _ _ _ _ _
  rw [runBR_drop _ hrel2 _ _ (by simp [putU16]), List.drop_left]
  unfold rdBlocks
  rw [readFrames_full, readFrames_full]
  simp only [Prog.bind, runBR, Nat.zero_add, List.drop_zero]
  rw [if_pos (by rw [List.length_append, hdl]; omega), ← hdl, List.take_left' rfl, List.drop_left' rfl]
  rw [if_pos (by have := List.length_append (as := putF32s b.data) (bs := putF32s b.conf); omega), hdl, ← hcl]
  rw [List.take_of_length_le (Nat.le_refl _)]
  have hne : b.dims ≠ 0 := by have := hf.dimsPos; omega
  rw [runBR_ofOption]
  simp only [mkBody?, if_neg hne]
  have g1 : getF32s (b.frames * b.people * h.totalPoints * b.dims) (putF32s b.data) = b.data := by
    have := getF32s_putF32s b.data []
    rw [List.append_nil, hf.data, hf.points] at this; exact this
  have g2 : getF32s (b.frames * b.people * h.totalPoints) (putF32s b.conf) = b.conf := by
    have := getF32s_putF32s b.conf []
    rw [List.append_nil, hf.conf, hf.points] at this; exact this
  rw [g1, g2]
  simp only [Option.map_some, Option.some.injEq, Prod.mk.injEq]
  refine ⟨by rw [hpts], ?_⟩
  simp only [List.length_append, putU16_length, hdl, hcl]
  omega

end PoseVerif
