import PoseVerif.Proofs.Codec5
/-! Whole-file facts: what `rdPose` does on a written file; representability. -/
namespace PoseVerif
open Prog

theorem versionClass_v02bits : versionClass v02bits = .v02 := by decide
theorem versionClass_v01bits : versionClass v01bits = .v01 := by decide
theorem versionClass_zero : versionClass 0 = .v00 := by decide

def Pose.canon (p : Pose) (w : F32) : Pose := ⟨{ p.header with version := v02bits }, p.body.canon w⟩

theorem Pose.write?_some {p : Pose} {b : Bytes} (h : p.write? = some b) :
    p.header.numDims? = some p.body.dims ∧ ∃ hb bb, encHeader? p.header = some hb ∧ encBody? p.body = some bb ∧ b = hb ++ bb := by
  simp only [Pose.write?, Option.bind_eq_bind, Option.bind_eq_some_iff, Option.pure_def] at h
  obtain ⟨hd, hnd, h⟩ := h
  split at h
  · cases h
  · rename_i heq
    simp only [Option.bind_eq_some_iff, Option.some.injEq] at h
    obtain ⟨hb, hhb, bb, hbb, rfl⟩ := h
    have : hd = p.body.dims := by simpa using heq
    subst this
    exact ⟨hnd, hb, bb, hhb, hbb, rfl⟩

/-- header decode of a file that starts with an encoded header, through the (empty) cache -/
theorem runBR_rdHeader_none (h : Header) (hb rest : Bytes) (he : encHeaderAny? h = some hb) :
    runBR (rdHeader none) (hb ++ rest) 0 = some ((h, some { key := hb, endOff := hb.length, header := h }), hb.length) := by
  simp only [rdHeader]
  rw [runBR_bind_some (Enc_rdHeaderRaw h hb rest he)]
  simp [runBR]

theorem Body.Fits_version {b : Body} {h : Header} (v : F32) (hf : b.Fits h) : b.Fits { h with version := v } :=
  ⟨hf.points, hf.dims, hf.dimsPos, hf.data, hf.conf⟩

/-- reading back what was written, with an empty cache, whatever follows the file -/
theorem runBR_rdPose_write (p : Pose) (hf : p.body.Fits p.header) (b extra : Bytes) (h : p.write? = some b) :
    ∃ w c, p.body.fps.toF32? = some w ∧ runBR (rdPose none {}) (b ++ extra) 0 = some ((p.canon w, c), b.length) := by
  obtain ⟨_, hb, bb, hhb, hbb, rfl⟩ := Pose.write?_some h
  obtain ⟨w, hw, hrun⟩ := Enc_rdBodyV02Full _ p.body (Body.Fits_version v02bits hf) bb extra hbb
  refine ⟨w, some { key := hb, endOff := hb.length, header := { p.header with version := v02bits } }, hw, ?_⟩
  simp only [rdPose, runBR, List.append_assoc]
  rw [runBR_bind_some (runBR_rdHeader_none _ hb (bb ++ extra) hhb)]
  simp only [rdBody, versionClass_v02bits, rdBodyV02_full]
  have hrel : Rel (Prog.bind (rdBodyV02Full { p.header with version := v02bits }) fun b' =>
      Prog.ret ((⟨{ p.header with version := v02bits }, b'⟩ : Pose),
        (some { key := hb, endOff := hb.length, header := { p.header with version := v02bits } } : Option CacheEntry))) :=
    Rel_bind _ _ (Rel_rdBodyV02Full _) fun _ => trivial
  rw [runBR_drop _ hrel _ _ (by simp), List.drop_left, runBR_bind_some hrun]
  simp [runBR, Pose.canon]

/-! ### representability -/

theorem mapM_some_iff {α β : Type} (f : α → Option β) (xs : List α) :
    (∃ ys, xs.mapM f = some ys) ↔ ∀ x ∈ xs, ∃ y, f x = some y := by
  induction xs with
  | nil => simp
  | cons x xs ih =>
    simp only [List.mapM_cons, Option.bind_eq_bind, Option.pure_def, List.mem_cons, forall_eq_or_imp]
    constructor
    · rintro ⟨ys, h⟩
      simp only [Option.bind_eq_some_iff, Option.some.injEq] at h
      obtain ⟨y, hy, ys', hys, _⟩ := h
      exact ⟨⟨y, hy⟩, ih.mp ⟨ys', hys⟩⟩
    · rintro ⟨⟨y, hy⟩, hr⟩
      obtain ⟨ys, hys⟩ := ih.mpr hr
      exact ⟨y :: ys, by simp [hy, hys]⟩

def StrRep (s : String) : Prop := (bytesOfString s).length < 65536

structure Comp.Rep (c : Comp) : Prop where
  name : StrRep c.name
  format : StrRep c.format
  npoints : c.points.length < 65536
  nlimbs : c.limbs.length < 65536
  ncolors : c.colors.length < 65536
  points : ∀ s ∈ c.points, StrRep s
  limbs : ∀ l ∈ c.limbs, l.1 < 65536 ∧ l.2 < 65536
  colors : ∀ l ∈ c.colors, l.1 < 65536 ∧ l.2.1 < 65536 ∧ l.2.2 < 65536

/-- everything fits the fields of the format -/
structure Pose.Rep (p : Pose) : Prop where
  width : p.header.width < 65536
  height : p.header.height < 65536
  depth : p.header.depth < 65536
  ncomps : p.header.comps.length < 65536
  comps : ∀ c ∈ p.header.comps, c.Rep
  fps : ∃ w, p.body.fps.toF32? = some w
  frames : p.body.frames < 4294967296
  people : p.body.people < 65536

theorem packStr?_iff (s : String) : (∃ b, packStr? s = some b) ↔ StrRep s := by
  simp only [packStr?, StrRep]
  split <;> simp_all
theorem packU16?_iff (n : Nat) : (∃ b, packU16? n = some b) ↔ n < 65536 := by
  simp only [packU16?]; split <;> simp_all
theorem packU32?_iff (n : Nat) : (∃ b, packU32? n = some b) ↔ n < 4294967296 := by
  simp only [packU32?]; split <;> simp_all
theorem pack2U16?_iff (a b : Nat) : (∃ x, pack2U16? a b = some x) ↔ a < 65536 ∧ b < 65536 := by
  constructor
  · rintro ⟨x, h⟩; obtain ⟨h1, h2, _⟩ := pack2U16?_some h; exact ⟨h1, h2⟩
  · rintro ⟨h1, h2⟩; exact ⟨_, pack2U16?_of_lt h1 h2⟩
theorem pack3U16?_iff (a b c : Nat) : (∃ x, pack3U16? a b c = some x) ↔ a < 65536 ∧ b < 65536 ∧ c < 65536 := by
  constructor
  · rintro ⟨x, h⟩; obtain ⟨h1, h2, h3, _⟩ := pack3U16?_some h; exact ⟨h1, h2, h3⟩
  · rintro ⟨h1, h2, h3⟩; exact ⟨_, pack3U16?_of_lt h1 h2 h3⟩

theorem encComp?_iff (c : Comp) : (∃ b, encComp? c = some b) ↔ c.Rep := by
  constructor
  · rintro ⟨b, h⟩
    obtain ⟨n, f, cnt, ps, ls, cs, hn, hf, hcnt, hps, hls, hcs, _⟩ := encComp?_some h
    obtain ⟨h1, h2, h3⟩ := (pack3U16?_iff _ _ _).mp ⟨_, hcnt⟩
    exact ⟨(packStr?_iff _).mp ⟨_, hn⟩, (packStr?_iff _).mp ⟨_, hf⟩, h1, h2, h3,
      fun s hs => (packStr?_iff _).mp ((mapM_some_iff _ _).mp ⟨_, hps⟩ s hs),
      fun l hl => (pack2U16?_iff _ _).mp ((mapM_some_iff _ _).mp ⟨_, hls⟩ l hl),
      fun l hl => (pack3U16?_iff _ _ _).mp ((mapM_some_iff _ _).mp ⟨_, hcs⟩ l hl)⟩
  · intro r
    obtain ⟨n, hn⟩ := (packStr?_iff _).mpr r.name
    obtain ⟨f, hf⟩ := (packStr?_iff _).mpr r.format
    obtain ⟨cnt, hcnt⟩ := (pack3U16?_iff _ _ _).mpr ⟨r.npoints, r.nlimbs, r.ncolors⟩
    obtain ⟨ps, hps⟩ := (mapM_some_iff packStr? _).mpr fun s hs => (packStr?_iff _).mpr (r.points s hs)
    obtain ⟨ls, hls⟩ := (mapM_some_iff (fun l : Nat × Nat => pack2U16? l.1 l.2) _).mpr fun l hl => (pack2U16?_iff _ _).mpr (r.limbs l hl)
    obtain ⟨cs, hcs⟩ := (mapM_some_iff (fun l : Nat × Nat × Nat => pack3U16? l.1 l.2.1 l.2.2) _).mpr fun l hl => (pack3U16?_iff _ _ _).mpr (r.colors l hl)
    exact ⟨n ++ f ++ cnt ++ ps.flatten ++ ls.flatten ++ cs.flatten, by simp [encComp?, hn, hf, hcnt, hps, hls, hcs]⟩

/-- `Pose.write` succeeds exactly on representable poses (given the dimension sanity check passes) -/
theorem Pose.write?_iff (p : Pose) (hd : p.header.numDims? = some p.body.dims) : (∃ b, p.write? = some b) ↔ p.Rep := by
  constructor
  · rintro ⟨b, h⟩
    obtain ⟨_, hb, bb, hhb, hbb, _⟩ := Pose.write?_some h
    obtain ⟨d, n, cs, hdm, hn, hcs, _⟩ := encHeaderAny?_some hhb
    obtain ⟨w, nf, np, hw, hnf, hnp, _⟩ := encBody?_some hbb
    obtain ⟨h1, h2, h3⟩ := (pack3U16?_iff _ _ _).mp ⟨_, hdm⟩
    exact ⟨h1, h2, h3, (packU16?_iff _).mp ⟨_, hn⟩,
      fun c hc => (encComp?_iff c).mp ((mapM_some_iff _ _).mp ⟨_, hcs⟩ c hc),
      ⟨w, hw⟩, (packU32?_iff _).mp ⟨_, hnf⟩, (packU16?_iff _).mp ⟨_, hnp⟩⟩
  · intro r
    obtain ⟨d, hdm⟩ := (pack3U16?_iff _ _ _).mpr ⟨r.width, r.height, r.depth⟩
    obtain ⟨n, hn⟩ := (packU16?_iff _).mpr r.ncomps
    obtain ⟨cs, hcs⟩ := (mapM_some_iff encComp? _).mpr fun c hc => (encComp?_iff c).mpr (r.comps c hc)
    obtain ⟨w, hw⟩ := r.fps
    obtain ⟨nf, hnf⟩ := (packU32?_iff _).mpr r.frames
    obtain ⟨np, hnp⟩ := (packU16?_iff _).mpr r.people
    exact ⟨(putF32 v02bits ++ d ++ n ++ cs.flatten) ++ (putF32 w ++ nf ++ np ++ putF32s p.body.data ++ putF32s p.body.conf),
      by simp [Pose.write?, hd, encHeader?, encHeaderAny?, encBody?, hdm, hn, hcs, hw, hnf, hnp]⟩

end PoseVerif
