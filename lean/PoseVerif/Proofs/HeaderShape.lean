import PoseVerif.Props.C11
/-!
# Shape facts about header-level selection: the flat index list matches the new header and stays inside the old one
-/
namespace PoseVerif
open PoseVerif.Props

def totalPts (comps : List Comp) : Nat := (comps.map (·.points.length)).sum

theorem filterMapM_mem {α β : Type} (f : α → Option (Option β)) : ∀ (l : List α) (out : List β), l.filterMapM f = some out →
    ∀ y ∈ out, ∃ x ∈ l, f x = some (some y)
  | [], out, h => by simp at h; subst h; simp
  | a :: l, out, h => by
    rw [List.filterMapM_cons] at h
    cases hfa : f a with
    | none => simp [hfa] at h
    | some o =>
      cases o with
      | none =>
        simp only [hfa, Option.bind_eq_bind, Option.bind_some] at h
        intro y hy
        obtain ⟨x, hx, hfx⟩ := filterMapM_mem f l out h y hy
        exact ⟨x, List.mem_cons_of_mem _ hx, hfx⟩
      | some b =>
        simp only [hfa, Option.bind_eq_bind, Option.bind_some, Option.bind_eq_some_iff, Option.pure_def, Option.some.injEq] at h
        obtain ⟨rest, hrest, rfl⟩ := h
        intro y hy
        rcases List.mem_cons.mp hy with rfl | hy
        · exact ⟨a, by simp, hfa⟩
        · obtain ⟨x, hx, hfx⟩ := filterMapM_mem f l rest hrest y hy
          exact ⟨x, List.mem_cons_of_mem _ hx, hfx⟩

theorem mapM_mem {α β : Type} (g : α → Option β) : ∀ (l : List α) (out : List β), l.mapM g = some out → ∀ y ∈ out, ∃ x ∈ l, g x = some y
  | [], out, h => by simp at h; subst h; simp
  | a :: l, out, h => by
    simp only [List.mapM_cons, Option.bind_eq_bind, Option.bind_eq_some_iff, Option.pure_def, Option.some.injEq] at h
    obtain ⟨b, hb, rest, hrest, rfl⟩ := h
    intro y hy
    rcases List.mem_cons.mp hy with rfl | hy
    · exact ⟨a, by simp, hb⟩
    · obtain ⟨x, hx, hgx⟩ := mapM_mem g l rest hrest y hy
      exact ⟨x, List.mem_cons_of_mem _ hx, hgx⟩

/-- offsets as a structural recursion -/
def offsFrom : Nat → List Comp → List Nat
  | _, [] => []
  | s, c :: cs => s :: offsFrom (s + c.points.length) cs

theorem compOffsets_eq (comps : List Comp) : compOffsets comps = offsFrom 0 comps := by
  unfold compOffsets
  have gen : ∀ (l : List Comp) (acc : List Nat × Nat),
      (l.foldl (fun (acc : List Nat × Nat) c => (acc.1 ++ [acc.2], acc.2 + c.points.length)) acc).1 = acc.1 ++ offsFrom acc.2 l := by
    intro l; induction l with
    | nil => intro acc; simp [offsFrom]
    | cons c cs ih => intro acc; simp only [List.foldl_cons, ih, offsFrom, List.append_assoc, List.singleton_append]
  simpa using gen comps ([], 0)

theorem offsFrom_mem : ∀ (comps : List Comp) (s : Nat) (c : Comp) (off : Nat), (c, off) ∈ comps.zip (offsFrom s comps) →
    c ∈ comps ∧ off + c.points.length ≤ s + totalPts comps
  | [], _, _, _, h => by simp [offsFrom] at h
  | c0 :: cs, s, c, off, h => by
    simp only [offsFrom, List.zip_cons_cons, List.mem_cons, Prod.mk.injEq] at h
    rcases h with ⟨rfl, rfl⟩ | h
    · exact ⟨by simp, by simp [totalPts]⟩
    · obtain ⟨h1, h2⟩ := offsFrom_mem cs _ c off h
      refine ⟨List.mem_cons_of_mem _ h1, ?_⟩
      simp only [totalPts, List.map_cons, List.sum_cons] at h2 ⊢
      omega

/-- what selecting from one component yields -/
theorem selectComp_shape (c : Comp) (off : Nat) (pts : Option (List String)) (c' : Comp) (ixs : List Nat) (h : selectComp c off pts = some (c', ixs)) :
    ixs.length = c'.points.length ∧ (∀ i ∈ ixs, i < off + c.points.length) ∧ c'.format = c.format ∧ c'.name = c.name := by
  cases pts with
  | none =>
    rw [C11.select_component_all] at h
    simp only [Option.some.injEq, Prod.mk.injEq] at h
    obtain ⟨rfl, rfl⟩ := h
    refine ⟨by simp, ?_, rfl, rfl⟩
    intro i hi
    obtain ⟨j, hj, rfl⟩ := List.mem_map.mp hi
    have := List.mem_range.mp hj
    omega
  | some p =>
    obtain ⟨h1, h2, h3, _, h5, h6⟩ := C11.select_component c off p c' ixs h
    refine ⟨by rw [h5, h1]; simp, ?_, h3, h2⟩
    intro i hi
    rw [h5] at hi
    obtain ⟨q, hq, rfl⟩ := List.mem_map.mp hi
    have := List.idxOf_lt_length_of_mem (h6 q hq)
    omega

/-- **`get_components` on the header**: the flat index list has one entry per point of the new header, every entry is a point of the old header, and every
    new component keeps the format (hence the number of dimensions) of an old one. -/
theorem getComponents_shape (comps : List Comp) (request : List String) (points : Option (List (String × List String))) (comps' : List Comp) (ixs : List Nat)
    (h : getComponents comps request points = some (comps', ixs)) :
    ixs.length = totalPts comps' ∧ (∀ i ∈ ixs, i < totalPts comps) ∧ ∀ c' ∈ comps', ∃ c ∈ comps, c'.format = c.format ∧ c'.name = c.name := by
  unfold getComponents at h
  simp only [Option.bind_eq_bind, Option.bind_eq_some_iff, Option.pure_def, Option.some.injEq, Prod.mk.injEq] at h
  obtain ⟨table, htable, picked, hpicked, rfl, rfl⟩ := h
  have hgood : ∀ r ∈ picked, r.2.length = r.1.points.length ∧ (∀ i ∈ r.2, i < totalPts comps) ∧ ∃ c ∈ comps, r.1.format = c.format ∧ r.1.name = c.name := by
    intro r hr
    obtain ⟨name, _, hlook⟩ := mapM_mem _ request picked hpicked r hr
    simp only [Option.map_eq_some_iff] at hlook
    obtain ⟨e, hfind, rfl⟩ := hlook
    have he : e ∈ table := by
      have := List.mem_of_find?_eq_some hfind
      exact List.mem_reverse.mp this
    obtain ⟨⟨c, off⟩, hmem, hf⟩ := filterMapM_mem _ _ table htable e he
    rw [compOffsets_eq] at hmem
    obtain ⟨hc, hoff⟩ := offsFrom_mem comps 0 c off hmem
    split at hf
    · simp only [Option.map_eq_some_iff, Option.some.injEq] at hf
      obtain ⟨r, hsel, rfl⟩ := hf
      obtain ⟨s1, s2, s3, s4⟩ := selectComp_shape c off _ r.1 r.2 hsel
      exact ⟨s1, fun i hi => by have := s2 i hi; omega, c, hc, s3, s4⟩
    · cases hf
  refine ⟨?_, ?_, ?_⟩
  · simp only [List.length_flatten, totalPts, List.map_map]
    congr 1
    apply List.map_congr_left
    intro r hr
    exact (hgood r hr).1
  · intro i hi
    obtain ⟨l, hl, hil⟩ := List.mem_flatten.mp hi
    obtain ⟨r, hr, rfl⟩ := List.mem_map.mp hl
    exact (hgood r hr).2.1 i hil
  · intro c' hc'
    obtain ⟨r, hr, rfl⟩ := List.mem_map.mp hc'
    exact (hgood r hr).2.2

end PoseVerif
