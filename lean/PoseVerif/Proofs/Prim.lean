import PoseVerif.Model.Prim
/-! Round-trip lemmas for the primitive codecs (core Lean only). -/
namespace PoseVerif

theorem leNat_putU16 (n : Nat) (h : n < 65536) : leNat (putU16 n) = n := by
  simp [putU16, leNat]; omega

theorem leNat_putU32 (n : Nat) (h : n < 4294967296) : leNat (putU32 n) = n := by
  simp [putU32, leNat]; omega

theorem putU16_length (n : Nat) : (putU16 n).length = 2 := rfl
theorem putU32_length (n : Nat) : (putU32 n).length = 4 := rfl
theorem putF32_length (w : F32) : (putF32 w).length = 4 := rfl

theorem leNat_lt : ∀ (b : Bytes), leNat b < 256 ^ b.length
  | [] => by simp [leNat]
  | x :: r => by
    have := leNat_lt r
    have hx := x.toNat_lt
    simp only [leNat, List.length_cons, Nat.pow_succ]
    omega

theorem putU16_leNat (b : Bytes) (h : b.length = 2) : putU16 (leNat b) = b ∧ leNat b < 65536 := by
  match b, h with
  | [x, y], _ =>
    have hx := x.toNat_lt
    have hy := y.toNat_lt
    refine ⟨?_, by simp [leNat]; omega⟩
    simp only [putU16, leNat]
    congr 1
    · apply UInt8.toNat_inj.mp; simp; try omega
    · congr 1; apply UInt8.toNat_inj.mp; simp; try omega

theorem putU32_leNat (b : Bytes) (h : b.length = 4) : putU32 (leNat b) = b ∧ leNat b < 4294967296 := by
  match b, h with
  | [x, y, z, w], _ =>
    have hx := x.toNat_lt
    have hy := y.toNat_lt
    have hz := z.toNat_lt
    have hw := w.toNat_lt
    refine ⟨?_, by simp [leNat]; omega⟩
    simp only [putU32, leNat]
    congr 1
    · apply UInt8.toNat_inj.mp; simp; try omega
    · congr 1
      · apply UInt8.toNat_inj.mp; simp; try omega
      · congr 1
        · apply UInt8.toNat_inj.mp; simp; try omega
        · congr 1; apply UInt8.toNat_inj.mp; simp; try omega

theorem getF32_putF32 (w : F32) : getF32 (putF32 w) = w := by
  have := w.toNat_lt
  simp only [getF32, putF32]
  rw [leNat_putU32 _ (by simpa using this)]
  simp

theorem putF32_getF32 (b : Bytes) (h : b.length = 4) : putF32 (getF32 b) = b := by
  obtain ⟨h1, h2⟩ := putU32_leNat b h
  simp only [putF32, getF32]
  rw [show (UInt32.ofNat (leNat b)).toNat = leNat b from by simp; omega]
  exact h1

/-! ### strings -/

theorem stringOfBytes_bytesOfString (s : String) : stringOfBytes? (bytesOfString s) = some s := by
  unfold stringOfBytes? bytesOfString String.fromUTF8?
  simp only [String.toUTF8_eq_toByteArray, Array.toArray_toList]
  rw [dif_pos s.isValidUTF8]
  rfl

theorem bytesOfString_of_stringOfBytes (b : Bytes) (s : String) (h : stringOfBytes? b = some s) : bytesOfString s = b := by
  unfold stringOfBytes? String.fromUTF8? at h
  split at h
  · cases h; simp [bytesOfString, String.fromUTF8]
  · cases h

/-! ### float blocks -/

theorem putF32s_length (l : List F32) : (putF32s l).length = 4 * l.length := by
  induction l with
  | nil => rfl
  | cons x xs ih => simp [putF32s, List.flatMap_cons, putF32_length] at *; omega

theorem getF32s_putF32s (l : List F32) (r : Bytes) : getF32s l.length (putF32s l ++ r) = l := by
  induction l with
  | nil => rfl
  | cons x xs ih =>
    have h4 : (putF32 x).length = 4 := rfl
    simp only [putF32s, List.flatMap_cons, List.length_cons, getF32s, List.append_assoc]
    rw [List.take_left' h4, List.drop_left' h4, getF32_putF32]
    congr 1

theorem putF32s_getF32s (n : Nat) (b : Bytes) (h : 4 * n ≤ b.length) : putF32s (getF32s n b) = b.take (4 * n) := by
  induction n generalizing b with
  | zero => simp [getF32s, putF32s]
  | succ n ih =>
    simp only [getF32s, putF32s, List.flatMap_cons]
    rw [putF32_getF32 _ (by simp; omega)]
    have := ih (b.drop 4) (by simp; omega)
    simp only [putF32s] at this
    rw [this, ← List.take_add]; congr 1; omega

theorem getF32s_length (n : Nat) (b : Bytes) : (getF32s n b).length = n := by
  induction n generalizing b with
  | zero => rfl
  | succ n ih => simp [getF32s, ih]

end PoseVerif
