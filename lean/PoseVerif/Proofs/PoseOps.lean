import PoseVerif.Model.PoseOps
/-! Selections commute with the element-wise constructions (mask derivation, union, zero-fill). -/
namespace PoseVerif

theorem getD_zipWith' {α β γ : Type} (f : α → β → γ) (a : List α) (b : List β) (h : a.length = b.length) (i : Nat) (da : α) (db : β) :
    (List.zipWith f a b).getD i (f da db) = f (a.getD i da) (b.getD i db) := by
  induction a generalizing b i with
  | nil => cases b <;> simp_all
  | cons x xs ih =>
    cases b with
    | nil => simp at h
    | cons y ys =>
      cases i with
      | zero => simp
      | succ i => simp at h; simpa using ih ys h i

/-- picking commutes with `zipWith` when the defaults are compatible -/
theorem pickD_zipWith {α β γ : Type} [Inhabited α] [Inhabited β] [Inhabited γ] (f : α → β → γ) (hd : f default default = default)
    (ixs : List Nat) (a : List α) (b : List β) (h : a.length = b.length) :
    pickD ixs (List.zipWith f a b) = List.zipWith f (pickD ixs a) (pickD ixs b) := by
  simp only [pickD, List.zipWith_map_left, List.zipWith_map_right, List.zipWith_self]
  apply List.map_congr_left
  intro i _
  rw [← hd]; exact getD_zipWith' f a b h i default default

theorem everyNth_zipWith {α β γ : Type} [Inhabited α] [Inhabited β] [Inhabited γ] (f : α → β → γ) (hd : f default default = default)
    (k : Nat) (a : List α) (b : List β) (h : a.length = b.length) :
    everyNth k (List.zipWith f a b) = List.zipWith f (everyNth k a) (everyNth k b) := by
  simp only [everyNth, List.length_zipWith, ← h, Nat.min_self, List.zipWith_map_left, List.zipWith_map_right, List.zipWith_self]
  apply List.map_congr_left
  intro i _
  rw [← hd]; exact getD_zipWith' f a b h (i * k) default default

/-- pointwise relation between two lists of equal length (core Lean has no `Forall₂`) -/
inductive F2 {α β : Type} (R : α → β → Prop) : List α → List β → Prop where
  | nil : F2 R [] []
  | cons {x y xs ys} : R x y → F2 R xs ys → F2 R (x :: xs) (y :: ys)

theorem F2.length_eq {α β : Type} {R : α → β → Prop} {a : List α} {b : List β} (h : F2 R a b) : a.length = b.length := by
  induction h with
  | nil => rfl
  | cons _ _ ih => simp [ih]

theorem F2.getD {α β : Type} [Inhabited α] [Inhabited β] {R : α → β → Prop} {a : List α} {b : List β} (h : F2 R a b) (hd : R default default) (i : Nat) :
    R (a.getD i default) (b.getD i default) := by
  induction h generalizing i with
  | nil => simpa using hd
  | cons hxy _ ih =>
    cases i with
    | zero => simpa using hxy
    | succ i => simpa using ih i

theorem F2.pickD {α β : Type} [Inhabited α] [Inhabited β] {R : α → β → Prop} {a : List α} {b : List β} (h : F2 R a b) (hd : R default default) (ixs : List Nat) :
    F2 R (pickD ixs a) (pickD ixs b) := by
  induction ixs with
  | nil => exact F2.nil
  | cons i is ih => exact F2.cons (h.getD hd i) ih

theorem F2.map {α β α' β' : Type} {R : α → β → Prop} {R' : α' → β' → Prop} (f : α → α') (g : β → β') {a : List α} {b : List β} (h : F2 R a b)
    (hfg : ∀ x y, R x y → R' (f x) (g y)) : F2 R' (a.map f) (b.map g) := by
  induction h with
  | nil => exact F2.nil
  | cons hxy _ ih => exact F2.cons (hfg _ _ hxy) ih

theorem zipWith_congr_F2 {α β γ : Type} {R : α → β → Prop} (f g : α → β → γ) (a : List α) (b : List β) (h : F2 R a b)
    (hfg : ∀ x y, R x y → f x y = g x y) : List.zipWith f a b = List.zipWith g a b := by
  induction h with
  | nil => rfl
  | cons hxy _ ih => simp [hfg _ _ hxy, ih]

/-- equal lengths at the frame, person and point levels -/
def SameShape3 {α β : Type} (a : List (List (List α))) (b : List (List (List β))) : Prop :=
  F2 (F2 (fun (x : List α) (y : List β) => x.length = y.length)) a b

theorem or4_self (a : A4 Bool) : or4 a a = a := by
  simp only [or4]
  induction a with
  | nil => rfl
  | cons x xs ih =>
    simp only [List.zipWith_cons_cons, ih]
    congr 1
    induction x with
    | nil => rfl
    | cons y ys ih2 =>
      simp only [List.zipWith_cons_cons, ih2]
      congr 1
      induction y with
      | nil => rfl
      | cons z zs ih3 =>
        simp only [List.zipWith_cons_cons, ih3]
        congr 1
        induction z with
        | nil => rfl
        | cons w ws ih4 => simp

end PoseVerif
