import PoseVerif.Proofs.Window3
/-! Assembly of the bytes-pulled bound through `rdPose`. -/
namespace PoseVerif
open Prog SR

theorem SR.run_bind_inv {α β : Type} {p : Prog α} {f : α → Prog β} {s : SR} {r : β × SR}
    (h : SR.run (Prog.bind p f) s = some r) : ∃ a s1, SR.run p s = some (a, s1) ∧ SR.run (f a) s1 = some r := by
  rw [SR.run_bind] at h
  split at h
  · cases h
  · rename_i a s1 hp; exact ⟨a, s1, hp, h⟩

theorem NoAdvance_bind {α β : Type} (p : Prog α) (f : α → Prog β) (hp : NoAdvance p) (hf : ∀ a, NoAdvance (f a)) : NoAdvance (Prog.bind p f) := by
  induction p with
  | ret a => exact hf a
  | fail => trivial
  | expect n k ih => exact ih hp
  | unpack n k ih => intro b; exact ih b (hp b)
  | skip n k ih => exact ih hp
  | advance n k ih => exact absurd hp (by simp [NoAdvance])
  | setOff n k ih => exact ih hp
  | fileLeft k ih => intro i; exact ih i (hp i)
  | peek n k ih => intro b; exact ih b (hp b)
  | getOff k ih => intro o; exact ih o (hp o)

theorem NoAdvance_ofOption {α : Type} (x : Option α) : NoAdvance (Prog.ofOption x) := by cases x <;> trivial
theorem NoAdvance_many {α : Type} (p : Prog α) (hp : NoAdvance p) : ∀ n, NoAdvance (Prog.many p n)
  | 0 => trivial
  | n + 1 => NoAdvance_bind _ _ hp fun _ => NoAdvance_bind _ _ (NoAdvance_many p hp n) fun _ => trivial

theorem NoAdvance_rdStr : NoAdvance rdStr := fun _ _ => NoAdvance_ofOption _
theorem NoAdvance_rd2U16 : NoAdvance rd2U16 := fun _ => trivial
theorem NoAdvance_rd3U16 : NoAdvance rd3U16 := fun _ => trivial
theorem NoAdvance_rdU16 : NoAdvance rdU16 := fun _ => trivial
theorem NoAdvance_rdU32 : NoAdvance rdU32 := fun _ => trivial
theorem NoAdvance_rdF32 : NoAdvance rdF32 := fun _ => trivial
theorem NoAdvance_rdComp : NoAdvance rdComp :=
  NoAdvance_bind _ _ NoAdvance_rdStr fun _ => NoAdvance_bind _ _ NoAdvance_rdStr fun _ => NoAdvance_bind _ _ NoAdvance_rd3U16 fun _ =>
  NoAdvance_bind _ _ (NoAdvance_many _ NoAdvance_rdStr _) fun _ => NoAdvance_bind _ _ (NoAdvance_many _ NoAdvance_rd2U16 _) fun _ => fun _ => trivial
theorem NoAdvance_rdHeaderRaw : NoAdvance rdHeaderRaw :=
  NoAdvance_bind _ _ NoAdvance_rdF32 fun _ => NoAdvance_bind _ _ NoAdvance_rd3U16 fun _ => NoAdvance_bind _ _ NoAdvance_rdU16 fun _ =>
  NoAdvance_bind _ _ (NoAdvance_many _ NoAdvance_rdComp _) fun _ => trivial

theorem NoAdvance_readFrames (frames row : Nat) (s e : Option Int) : NoAdvance (readFrames frames row s e) := by
  unfold readFrames
  simp only []
  split
  · trivial
  · split
    · trivial
    · split
      · intro b; cases winRem frames e <;> trivial
      · intro b; cases winRem frames e <;> trivial

theorem NoAdvance_rdBodyV02 (h : Header) (w : Window) : NoAdvance (rdBodyV02 h w) := by
  unfold rdBodyV02
  split
  · trivial
  · exact NoAdvance_bind _ _ NoAdvance_rdF32 fun _ => NoAdvance_bind _ _ NoAdvance_rdU32 fun _ => NoAdvance_bind _ _ NoAdvance_rdU16 fun _ =>
      NoAdvance_bind _ _ (NoAdvance_ofOption _) fun _ => NoAdvance_bind _ _ (NoAdvance_ofOption _) fun _ =>
      NoAdvance_bind _ _ (NoAdvance_readFrames _ _ _ _) fun _ => NoAdvance_bind _ _ (NoAdvance_readFrames _ _ _ _) fun _ => NoAdvance_ofOption _

theorem NoAdvance_rdBodyV01 (h : Header) (w : Window) : NoAdvance (rdBodyV01 h w) := by
  unfold rdBodyV01
  refine NoAdvance_bind _ _ NoAdvance_rd2U16 fun _ => NoAdvance_bind _ _ NoAdvance_rdU16 fun _ => NoAdvance_bind _ _ (NoAdvance_ofOption _) fun _ => ?_
  simp only []
  split
  · trivial
  · intro left
    exact NoAdvance_bind _ _ (NoAdvance_readFrames _ _ _ _) fun _ => NoAdvance_bind _ _ (NoAdvance_readFrames _ _ _ _) fun _ => NoAdvance_ofOption _

theorem NoAdvance_rdBody (h : Header) (w : Window) (hv : versionClass h.version ≠ .v00) : NoAdvance (rdBody h w) := by
  unfold rdBody
  split
  · rename_i h0; exact absurd h0 hv
  · exact NoAdvance_rdBodyV01 h w
  · exact NoAdvance_rdBodyV02 h w
  · trivial

/-- **Bytes pulled.** A stream read of a v0.1/v0.2 file (cache empty or holding an entry some earlier read stored) pulls at most the
    prefetch hint plus the bytes it actually decoded (`off − skipped`: header, body counts and the requested window) — never the remainder of the file. -/
theorem readStream_pulled (file : Bytes) (cache : Option CacheEntry) (hcache : ∀ c, cache = some c → CacheOK c) (w : Window)
    (p : Pose) (c' : Option CacheEntry) (s : SR) (hr : readStream file cache w = some ((p, c'), s))
    (hv : versionClass p.header.version ≠ .v00) :
    s.pulled ≤ prefetchHint cache + (s.off - s.skipped) := by
  simp only [readStream, rdPose, SR.run] at hr
  cases he : SR.expect { file } (prefetchHint cache) with
  | none => rw [he] at hr; cases hr
  | some s0 =>
    rw [he] at hr
    simp only [] at hr
    -- the state after the prefetch
    have hs0 : s0 = SR.afterHint file (prefetchHint cache) ∨ False := by
      left
      unfold SR.expect at he
      simp only [] at he
      have hbl : ({ file } : SR).bytesLeft = 0 := by simp [SR.bytesLeft]
      have hh : 0 < prefetchHint cache := by unfold prefetchHint; omega
      rw [hbl, if_pos (by omega)] at he
      split at he
      · cases he
      · simp only [Option.some.injEq] at he
        rw [← he]
        have hc : ((prefetchHint cache : Int) - 0).toNat = prefetchHint cache := by omega
        rw [hc]
        simp [SR.readChunk, SR.afterHint, List.length_take]
    rcases hs0 with rfl | hf
    · have hB0 : (SR.afterHint file (prefetchHint cache)).Bnd (prefetchHint cache) := by
        refine ⟨Nat.le_refl _, Nat.zero_le _, ?_⟩
        show min (prefetchHint cache) file.length ≤ prefetchHint cache + 0
        omega
      obtain ⟨⟨hd, c1⟩, s1, hh, hb⟩ := SR.run_bind_inv hr
      obtain ⟨body, s2, hbody, hret⟩ := SR.run_bind_inv hb
      simp only [SR.run, Option.some.injEq, Prod.mk.injEq] at hret
      obtain ⟨⟨rfl, rfl⟩, rfl⟩ := hret
      have hB1 : s1.Bnd (prefetchHint cache) := by
        have hmiss : ∀ (hm : SR.run (Prog.bind rdHeaderRaw fun h => Prog.getOff fun e => Prog.peek e fun key =>
            Prog.ret (h, some ({ key, endOff := e, header := h } : CacheEntry))) (SR.afterHint file (prefetchHint cache)) = some ((hd, c1), s1)),
            s1.Bnd (prefetchHint cache) := by
          intro hm
          obtain ⟨hd', s1', hraw, hrest⟩ := SR.run_bind_inv hm
          simp only [SR.run, Option.some.injEq, Prod.mk.injEq] at hrest
          obtain ⟨_, rfl⟩ := hrest
          exact SR.run_bnd _ _ Core_rdHeaderRaw NoAdvance_rdHeaderRaw _ _ _ hraw hB0
        cases cache with
        | none => exact hmiss hh
        | some cc =>
          simp only [rdHeader, SR.run] at hh
          split at hh
          · rename_i hhit
            simp only [SR.run, Option.some.injEq, Prod.mk.injEq] at hh
            obtain ⟨_, rfl⟩ := hh
            obtain ⟨f0, hf0, hkey⟩ := hcache cc rfl
            have hbd := runBR_bound _ SkipFree_rdHeaderRaw _ _ _ hf0
            have hE : cc.endOff ≤ f0.length := hbd.2 (Nat.zero_le _)
            have hlen : ((SR.afterHint file (prefetchHint (some cc))).buf.take cc.endOff).length = cc.endOff := by
              rw [hhit, hkey, List.length_take]; omega
            rw [List.length_take] at hlen
            refine ⟨Nat.zero_le _, ?_, ?_⟩
            · show cc.endOff - 0 ≤ (SR.afterHint file (prefetchHint (some cc))).buf.length
              omega
            · show min (prefetchHint (some cc)) file.length ≤ prefetchHint (some cc) + (cc.endOff - 0)
              omega
          · exact hmiss hh
      have := SR.run_bnd _ _ (Core_rdBody hd w) (NoAdvance_rdBody hd w hv) _ _ _ hbody hB1
      have h3 := this.pulled
      unfold SR.k at h3
      exact h3
    · exact hf.elim

end PoseVerif
