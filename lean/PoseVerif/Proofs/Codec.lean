import PoseVerif.Model.Body
import PoseVerif.Proofs.Prim
import PoseVerif.Proofs.Prog
/-!
Encoder/decoder specifications and their composition. Core Lean only.
`Enc p enc`: the reader program `p` decodes what `enc` encodes (writer → reader direction).
`Dec p enc`: whatever `p` accepts is exactly what `enc` would write for the decoded value (reader → writer direction).
-/
namespace PoseVerif
open Prog

def Enc {α : Type} (p : Prog α) (enc : α → Option Bytes) : Prop :=
  ∀ x b r, enc x = some b → runBR p (b ++ r) 0 = some (x, b.length)

def Dec {α : Type} (p : Prog α) (enc : α → Option Bytes) : Prop :=
  ∀ f x n, runBR p f 0 = some (x, n) → n ≤ f.length ∧ enc x = some (f.take n)

/-! ### sequencing -/

theorem seq_enc {α β : Type} {p : Prog α} {f : α → Prog β} {b1 rest : Bytes} {x : α} {y : β} {m : Nat}
    (h1 : runBR p (b1 ++ rest) 0 = some (x, b1.length)) (hrel : Rel (f x))
    (h2 : runBR (f x) rest 0 = some (y, m)) :
    runBR (Prog.bind p f) (b1 ++ rest) 0 = some (y, b1.length + m) := by
  rw [runBR_bind_some h1, runBR_drop _ hrel _ _ (by simp), List.drop_left, h2]
  rfl

theorem seq_dec {α β : Type} {p : Prog α} {f : α → Prog β} {file : Bytes} {y : β} {n : Nat}
    (hrel : ∀ a, Rel (f a)) (hb : ∀ a o, runBR p file 0 = some (a, o) → o ≤ file.length)
    (h : runBR (Prog.bind p f) file 0 = some (y, n)) :
    ∃ x n1 n2, runBR p file 0 = some (x, n1) ∧ n1 ≤ file.length ∧ runBR (f x) (file.drop n1) 0 = some (y, n2) ∧ n = n1 + n2 := by
  obtain ⟨x, n1, hp, hf⟩ := runBR_bind_inv h
  have hle := hb x n1 hp
  rw [runBR_drop _ (hrel x) _ _ hle] at hf
  cases hq : runBR (f x) (file.drop n1) 0 with
  | none => rw [hq] at hf; cases hf
  | some r =>
    rw [hq] at hf
    simp only [Option.map_some, Option.some.injEq, Prod.mk.injEq] at hf
    exact ⟨x, n1, r.2, hp, hle, by rw [← hf.1]; exact hq, hf.2.symm⟩

/-! ### primitives -/

theorem Rel_rdU16 : Rel rdU16 := fun _ => trivial
theorem Rel_rdU32 : Rel rdU32 := fun _ => trivial
theorem Rel_rdF32 : Rel rdF32 := fun _ => trivial
theorem Rel_rd2U16 : Rel rd2U16 := fun _ => trivial
theorem Rel_rd3U16 : Rel rd3U16 := fun _ => trivial
theorem Rel_rdStr : Rel rdStr := fun _ _ => Rel_ofOption _
theorem Blind_rdU16 : Blind rdU16 := fun _ => trivial
theorem Blind_rdU32 : Blind rdU32 := fun _ => trivial
theorem Blind_rdF32 : Blind rdF32 := fun _ => trivial
theorem Blind_rd2U16 : Blind rd2U16 := fun _ => trivial
theorem Blind_rd3U16 : Blind rd3U16 := fun _ => trivial
theorem Blind_rdStr : Blind rdStr := fun _ _ => Blind_ofOption _
theorem SkipFree_rdU16 : SkipFree rdU16 := fun _ => trivial
theorem SkipFree_rdU32 : SkipFree rdU32 := fun _ => trivial
theorem SkipFree_rdF32 : SkipFree rdF32 := fun _ => trivial
theorem SkipFree_rd2U16 : SkipFree rd2U16 := fun _ => trivial
theorem SkipFree_rd3U16 : SkipFree rd3U16 := fun _ => trivial
theorem SkipFree_rdStr : SkipFree rdStr := fun _ _ => SkipFree_ofOption _

theorem packU16?_some {n : Nat} {b : Bytes} (h : packU16? n = some b) : n < 65536 ∧ b = putU16 n := by
  unfold packU16? at h; split at h
  · exact ⟨by assumption, by cases h; rfl⟩
  · cases h
theorem packU32?_some {n : Nat} {b : Bytes} (h : packU32? n = some b) : n < 4294967296 ∧ b = putU32 n := by
  unfold packU32? at h; split at h
  · exact ⟨by assumption, by cases h; rfl⟩
  · cases h

theorem Enc_rdU16 : Enc rdU16 packU16? := by
  intro n b r h
  obtain ⟨hn, rfl⟩ := packU16?_some h
  simp only [rdU16, runBR, putU16_length]
  rw [if_pos (by simp [putU16])]
  simp only [List.drop_zero]
  rw [List.take_left' (putU16_length n), leNat_putU16 n hn]

theorem Dec_rdU16 : Dec rdU16 packU16? := by
  intro f x n h
  simp only [rdU16, runBR] at h
  split at h
  · rename_i hc
    simp only [Option.some.injEq, Prod.mk.injEq, List.drop_zero] at h
    obtain ⟨rfl, rfl⟩ := h
    have hl : (f.take 2).length = 2 := by simp; omega
    obtain ⟨h1, h2⟩ := putU16_leNat _ hl
    exact ⟨by omega, by simp [packU16?, h2, h1]⟩
  · cases h

theorem Enc_rdU32 : Enc rdU32 packU32? := by
  intro n b r h
  obtain ⟨hn, rfl⟩ := packU32?_some h
  simp only [rdU32, runBR, putU32_length]
  rw [if_pos (by simp [putU32])]
  simp only [List.drop_zero]
  rw [List.take_left' (putU32_length n), leNat_putU32 n hn]

theorem Dec_rdU32 : Dec rdU32 packU32? := by
  intro f x n h
  simp only [rdU32, runBR] at h
  split at h
  · rename_i hc
    simp only [Option.some.injEq, Prod.mk.injEq, List.drop_zero] at h
    obtain ⟨rfl, rfl⟩ := h
    have hl : (f.take 4).length = 4 := by simp; omega
    obtain ⟨h1, h2⟩ := putU32_leNat _ hl
    exact ⟨by omega, by simp [packU32?, h2, h1]⟩
  · cases h

theorem Enc_rdF32 : Enc rdF32 (fun w => some (putF32 w)) := by
  intro w b r h
  cases h
  simp only [rdF32, runBR, putF32_length]
  rw [if_pos (by simp [putF32, putU32])]
  simp only [List.drop_zero]
  rw [List.take_left' (putF32_length w), getF32_putF32]

theorem Dec_rdF32 : Dec rdF32 (fun w => some (putF32 w)) := by
  intro f x n h
  simp only [rdF32, runBR] at h
  split at h
  · rename_i hc
    simp only [Option.some.injEq, Prod.mk.injEq, List.drop_zero] at h
    obtain ⟨rfl, rfl⟩ := h
    have hl : (f.take 4).length = 4 := by simp; omega
    exact ⟨by omega, by simp [putF32_getF32 _ hl]⟩
  · cases h

end PoseVerif
