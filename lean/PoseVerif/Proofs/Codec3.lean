import PoseVerif.Proofs.Codec2
/-! Component and header codecs. -/
namespace PoseVerif
open Prog

/-! ### the colour block: `6·n` bytes read at once and split into triples -/

theorem triples_enc : ∀ (cols : List (Nat × Nat × Nat)) (cs : List Bytes) (r : Bytes),
    cols.mapM (fun c => pack3U16? c.1 c.2.1 c.2.2) = some cs →
    cs.flatten.length = 6 * cols.length ∧ triples cols.length (cs.flatten ++ r) = cols := by
  intro cols
  induction cols with
  | nil => intro cs r h; simp at h; subst h; exact ⟨rfl, rfl⟩
  | cons c cols ih =>
    intro cs r h
    simp only [List.mapM_cons, Option.bind_eq_bind, Option.bind_eq_some_iff, Option.pure_def, Option.some.injEq] at h
    obtain ⟨b, hb, cs', hcs, rfl⟩ := h
    obtain ⟨h1, h2, h3, rfl⟩ := pack3U16?_some hb
    obtain ⟨ihl, iht⟩ := ih cs' r hcs
    constructor
    · simp [putU16, ihl]; omega
    · simp only [List.length_cons, triples, List.flatten_cons, List.append_assoc]
      rw [List.take_left' (putU16_length _), List.drop_left' (putU16_length _), List.take_left' (putU16_length _)]
      have e4 : (putU16 c.1 ++ (putU16 c.2.1 ++ (putU16 c.2.2 ++ (cs'.flatten ++ r)))).drop 4 = putU16 c.2.2 ++ (cs'.flatten ++ r) := by
        simp [putU16]
      have e6 : (putU16 c.1 ++ (putU16 c.2.1 ++ (putU16 c.2.2 ++ (cs'.flatten ++ r)))).drop 6 = cs'.flatten ++ r := by
        simp [putU16]
      rw [e4, e6, List.take_left' (putU16_length _), leNat_putU16 _ h1, leNat_putU16 _ h2, leNat_putU16 _ h3, iht]

theorem triples_dec : ∀ (n : Nat) (cb : Bytes), cb.length = 6 * n →
    (triples n cb).length = n ∧ ∃ cs, (triples n cb).mapM (fun c => pack3U16? c.1 c.2.1 c.2.2) = some cs ∧ cs.flatten = cb := by
  intro n
  induction n with
  | zero => intro cb h; simp at h; subst h; exact ⟨rfl, [], rfl, rfl⟩
  | succ n ih =>
    intro cb h
    obtain ⟨ihl, cs, hcs, hfl⟩ := ih (cb.drop 6) (by simp; omega)
    have hl1 : (cb.take 2).length = 2 := by simp; omega
    have hl2 : ((cb.drop 2).take 2).length = 2 := by simp; omega
    have hl3 : ((cb.drop 4).take 2).length = 2 := by simp; omega
    obtain ⟨h1, h1'⟩ := putU16_leNat _ hl1
    obtain ⟨h2, h2'⟩ := putU16_leNat _ hl2
    obtain ⟨h3, h3'⟩ := putU16_leNat _ hl3
    refine ⟨by simp [triples, ihl], (cb.take 2 ++ (cb.drop 2).take 2 ++ (cb.drop 4).take 2) :: cs, ?_, ?_⟩
    · simp only [triples, List.mapM_cons, hcs, pack3U16?_of_lt h1' h2' h3', h1, h2, h3]
      rfl
    · simp only [List.flatten_cons, hfl, List.append_assoc]
      have a : cb.drop 6 = (cb.drop 4).drop 2 := by simp
      have b : cb.drop 4 = (cb.drop 2).drop 2 := by simp
      rw [a, List.take_append_drop, b, List.take_append_drop, List.take_append_drop]

/-! ### components -/

theorem Rel_rdComp : Rel rdComp :=
  Rel_bind _ _ Rel_rdStr fun _ => Rel_bind _ _ Rel_rdStr fun _ => Rel_bind _ _ Rel_rd3U16 fun _ =>
  Rel_bind _ _ (Rel_many _ Rel_rdStr _) fun _ => Rel_bind _ _ (Rel_many _ Rel_rd2U16 _) fun _ => fun _ => trivial
theorem Blind_rdComp : Blind rdComp :=
  Blind_bind _ _ Blind_rdStr fun _ => Blind_bind _ _ Blind_rdStr fun _ => Blind_bind _ _ Blind_rd3U16 fun _ =>
  Blind_bind _ _ (Blind_many _ Blind_rdStr _) fun _ => Blind_bind _ _ (Blind_many _ Blind_rd2U16 _) fun _ => fun _ => trivial
theorem SkipFree_rdComp : SkipFree rdComp :=
  SkipFree_bind _ _ SkipFree_rdStr fun _ => SkipFree_bind _ _ SkipFree_rdStr fun _ => SkipFree_bind _ _ SkipFree_rd3U16 fun _ =>
  SkipFree_bind _ _ (SkipFree_many _ SkipFree_rdStr _) fun _ => SkipFree_bind _ _ (SkipFree_many _ SkipFree_rd2U16 _) fun _ => fun _ => trivial

theorem encComp?_some {c : Comp} {b : Bytes} (h : encComp? c = some b) :
    ∃ n f cnt ps ls cs, packStr? c.name = some n ∧ packStr? c.format = some f ∧
      pack3U16? c.points.length c.limbs.length c.colors.length = some cnt ∧
      c.points.mapM packStr? = some ps ∧ c.limbs.mapM (fun l => pack2U16? l.1 l.2) = some ls ∧
      c.colors.mapM (fun c => pack3U16? c.1 c.2.1 c.2.2) = some cs ∧
      b = n ++ f ++ cnt ++ ps.flatten ++ ls.flatten ++ cs.flatten := by
  simp only [encComp?, Option.bind_eq_bind, Option.bind_eq_some_iff, Option.pure_def, Option.some.injEq] at h
  obtain ⟨n, hn, f, hf, cnt, hcnt, ps, hps, ls, hls, cs, hcs, rfl⟩ := h
  exact ⟨n, f, cnt, ps, ls, cs, hn, hf, hcnt, hps, hls, hcs, rfl⟩

theorem Enc_rdComp : Enc rdComp encComp? := by
  intro c b r h
  obtain ⟨n, f, cnt, ps, ls, cs, hn, hf, hcnt, hps, hls, hcs, rfl⟩ := encComp?_some h
  obtain ⟨hcl, htr⟩ := triples_enc c.colors cs r hcs
  simp only [List.append_assoc, List.length_append]
  unfold rdComp
  refine seq_enc (Enc_rdStr _ _ _ hn) ?_ ?_
  · exact Rel_bind _ _ Rel_rdStr fun _ => Rel_bind _ _ Rel_rd3U16 fun _ =>
      Rel_bind _ _ (Rel_many _ Rel_rdStr _) fun _ => Rel_bind _ _ (Rel_many _ Rel_rd2U16 _) fun _ => fun _ => trivial
  refine seq_enc (Enc_rdStr _ _ _ hf) ?_ ?_
  · exact Rel_bind _ _ Rel_rd3U16 fun _ =>
      Rel_bind _ _ (Rel_many _ Rel_rdStr _) fun _ => Rel_bind _ _ (Rel_many _ Rel_rd2U16 _) fun _ => fun _ => trivial
  refine seq_enc (Enc_rd3U16 (c.points.length, c.limbs.length, c.colors.length) _ _ hcnt) ?_ ?_
  · exact Rel_bind _ _ (Rel_many _ Rel_rdStr _) fun _ => Rel_bind _ _ (Rel_many _ Rel_rd2U16 _) fun _ => fun _ => trivial
  refine seq_enc (Enc_many Rel_rdStr Enc_rdStr _ _ _ hps) ?_ ?_
  · exact Rel_bind _ _ (Rel_many _ Rel_rd2U16 _) fun _ => fun _ => trivial
  refine seq_enc (Enc_many Rel_rd2U16 Enc_rd2U16 _ _ _ hls) (fun _ => trivial) ?_
  simp only [runBR, Nat.zero_add, List.drop_zero]
  rw [if_pos (by rw [List.length_append]; omega), ← hcl, List.take_left' rfl]
  have := htr
  rw [show (cs.flatten ++ r) = cs.flatten ++ r from rfl] at this
  have htr0 := (triples_enc c.colors cs [] hcs).2
  simp only [List.append_nil] at htr0
  rw [htr0]

end PoseVerif

namespace PoseVerif
open Prog

theorem take_add_drop {α : Type} (l : List α) (a b : Nat) : l.take (a + b) = l.take a ++ (l.drop a).take b := List.take_add

theorem Dec_rdComp : Dec rdComp encComp? := by
  intro f c n h
  unfold rdComp at h
  obtain ⟨name, n1, m1, h1, hle1, hr1, rfl⟩ := seq_dec
    (f := fun name => Prog.bind rdStr fun format => Prog.bind rd3U16 fun cnt => Prog.bind (Prog.many rdStr cnt.1) fun points =>
      Prog.bind (Prog.many rd2U16 cnt.2.1) fun limbs => Prog.unpack (6 * cnt.2.2) fun cb =>
      Prog.ret ({ name, format, points, limbs, colors := triples cnt.2.2 cb } : Comp))
    (fun _ => Rel_bind _ _ Rel_rdStr fun _ => Rel_bind _ _ Rel_rd3U16 fun _ =>
      Rel_bind _ _ (Rel_many _ Rel_rdStr _) fun _ => Rel_bind _ _ (Rel_many _ Rel_rd2U16 _) fun _ => fun _ => trivial)
    (fun a o ho => (Dec_rdStr f a o ho).1) h
  obtain ⟨format, n2, m2, h2, hle2, hr2, rfl⟩ := seq_dec
    (f := fun format => Prog.bind rd3U16 fun cnt => Prog.bind (Prog.many rdStr cnt.1) fun points =>
      Prog.bind (Prog.many rd2U16 cnt.2.1) fun limbs => Prog.unpack (6 * cnt.2.2) fun cb =>
      Prog.ret ({ name, format, points, limbs, colors := triples cnt.2.2 cb } : Comp))
    (fun _ => Rel_bind _ _ Rel_rd3U16 fun _ =>
      Rel_bind _ _ (Rel_many _ Rel_rdStr _) fun _ => Rel_bind _ _ (Rel_many _ Rel_rd2U16 _) fun _ => fun _ => trivial)
    (fun a o ho => (Dec_rdStr _ a o ho).1) hr1
  obtain ⟨cnt, n3, m3, h3, hle3, hr3, rfl⟩ := seq_dec
    (f := fun cnt : Nat × Nat × Nat => Prog.bind (Prog.many rdStr cnt.1) fun points =>
      Prog.bind (Prog.many rd2U16 cnt.2.1) fun limbs => Prog.unpack (6 * cnt.2.2) fun cb =>
      Prog.ret ({ name, format, points, limbs, colors := triples cnt.2.2 cb } : Comp))
    (fun _ => Rel_bind _ _ (Rel_many _ Rel_rdStr _) fun _ => Rel_bind _ _ (Rel_many _ Rel_rd2U16 _) fun _ => fun _ => trivial)
    (fun a o ho => (Dec_rd3U16 _ a o ho).1) hr2
  obtain ⟨points, n4, m4, h4, hle4, hr4, rfl⟩ := seq_dec
    (f := fun points => Prog.bind (Prog.many rd2U16 cnt.2.1) fun limbs => Prog.unpack (6 * cnt.2.2) fun cb =>
      Prog.ret ({ name, format, points, limbs, colors := triples cnt.2.2 cb } : Comp))
    (fun _ => Rel_bind _ _ (Rel_many _ Rel_rd2U16 _) fun _ => fun _ => trivial)
    (fun a o ho => (Dec_many Rel_rdStr Dec_rdStr _ _ a o ho).1) hr3
  obtain ⟨limbs, n5, m5, h5, hle5, hr5, rfl⟩ := seq_dec
    (f := fun limbs => Prog.unpack (6 * cnt.2.2) fun cb =>
      Prog.ret ({ name, format, points, limbs, colors := triples cnt.2.2 cb } : Comp))
    (fun _ => fun _ => trivial)
    (fun a o ho => (Dec_many Rel_rd2U16 Dec_rd2U16 _ _ a o ho).1) hr4
  simp only [runBR, Nat.zero_add, List.drop_zero] at hr5
  split at hr5
  · rename_i hc6
    simp only [Option.some.injEq, Prod.mk.injEq] at hr5
    obtain ⟨rfl, rfl⟩ := hr5
    obtain ⟨_, e1⟩ := Dec_rdStr _ _ _ h1
    obtain ⟨_, e2⟩ := Dec_rdStr _ _ _ h2
    obtain ⟨_, e3⟩ := Dec_rd3U16 _ _ _ h3
    obtain ⟨_, hl4, ps, e4, f4⟩ := Dec_many Rel_rdStr Dec_rdStr _ _ _ _ h4
    obtain ⟨_, hl5, ls, e5, f5⟩ := Dec_many Rel_rd2U16 Dec_rd2U16 _ _ _ _ h5
    obtain ⟨hl6, cs, e6, f6⟩ := triples_dec cnt.2.2
      (List.take (6 * cnt.2.2) (List.drop n5 (List.drop n4 (List.drop n3 (List.drop n2 (List.drop n1 f)))))) (by rw [List.length_take]; omega)
    simp only [List.length_drop] at *
    refine ⟨by omega, ?_⟩
    simp only [encComp?, e1, e2, hl4, hl5, hl6, e3, e4, e5, e6, Option.bind_eq_bind, Option.bind_some, Option.pure_def]
    rw [f4, f5, f6]
    congr 1
    simp only [take_add_drop, List.append_assoc]
  · cases hr5

end PoseVerif
