import PoseVerif.Proofs.Masked
/-! Definitions and helper lemmas for `Props/C10.lean` (the property theorems themselves are kept apart, in that file). -/
namespace PoseVerif.Props.C10
open PoseVerif

variable {S : Type}

/-- the pair representation is aligned: same shape, same number of elements -/
def Aligned (x : MT S) : Prop := x.tensor.shape = x.mask.shape ∧ x.tensor.data.length = x.mask.data.length

def zipMT (x : MT S) : T (S × Bool) := T.zip x.tensor x.mask
def unzipT (t : T (S × Bool)) : MT S := ⟨t.map (·.1), t.map (·.2)⟩

/-! ### the reference interpreter: one tensor of pairs -/

def squareMat (m : T S) : Bool := match m.shape with
  | [a, b] => a == b
  | _ => false

def stepRef (sc : Scalar S) [Inhabited S] (fw : Framework) (env : List (T (S × Bool))) (ins : Instr S) : Option (T (S × Bool)) := do
  let args ← ins.inputs.mapM fun r => env[r]?
  match structuralPlan fw (args.map (·.shape)) ins with
  | some plan => applyPlan args plan
  | none =>
    match ins, args with
    | .bin op _ _, [a, b] =>
      if a.shape = b.shape then pure (T.zipWith (fun x y => (op.fn sc x.1 y.1, x.2 && y.2)) a b) else none
    | .binScalar op _ c, [a] => pure (a.map fun x => (op.fn sc x.1 c, x.2))
    | .powScalar _ c, [a] => pure (a.map fun x => (sc.pow x.1 c, x.2))
    | .unary op _, [a] => pure (a.map fun x => (op.fn sc x.1, x.2))
    | .sum _ d, [a] =>
      let ax ← normAxis a.shape.length d
      let (outShape, groups) := reduceGroups a.shape ax
      pure ⟨outShape, groups.map fun g => (sumList sc (g.map fun i => (a.data.getD i default).1), g.all fun i => (a.data.getD i default).2)⟩
    | .mean _ lead, [a] => if fw = .tf ∧ lead ≤ a.shape.length ∧ 0 < lead then pure (zipMT (meanLead sc (unzipT a) lead)) else none
    | .variance _ lead, [a] => if fw = .tf ∧ lead ≤ a.shape.length ∧ 0 < lead then pure (zipMT (varianceLead sc (unzipT a) lead)) else none
    | .std _ lead, [a] =>
      if fw = .tf ∧ lead ≤ a.shape.length ∧ 0 < lead then
        let v := varianceLead sc (unzipT a) lead
        pure (zipMT ⟨v.tensor.map sc.sqrt, v.mask⟩)
      else none
    | .matmul _ m, [a] => do
      if squareMat m then
        let t ← matmulT sc (a.map (·.1)) m
        pure (T.zip t (a.map (·.2)))
      else none                                     -- no aligned result exists: the value tensor changes shape, the validity does not
    | .fixNan _, [a] => pure (a.map fun x => ((match fw with | .torch => (if sc.isNaN x.1 then sc.zero else x.1) | .tf => (if sc.isFinite x.1 then x.1 else sc.zero)), x.2))
    | _, _ => none

def runRefAll (sc : Scalar S) [Inhabited S] (fw : Framework) : List (Instr S) → List (T (S × Bool)) → List (T (S × Bool)) × Bool
  | [], env => (env, true)
  | ins :: rest, env =>
    match stepRef sc fw env ins with
    | some r => runRefAll sc fw rest (env ++ [r])
    | none => (env, false)

/-! ### lemmas -/

theorem getD_zip {α β : Type} (a : List α) (b : List β) (h : a.length = b.length) (i : Nat) (da : α) (db : β) :
    (a.zip b).getD i (da, db) = (a.getD i da, b.getD i db) := by
  induction a generalizing b i with
  | nil => cases b <;> simp_all
  | cons x xs ih =>
    cases b with
    | nil => simp at h
    | cons y ys =>
      cases i with
      | zero => simp
      | succ i => simp at h; simpa using ih ys h i

theorem zip_map_fst_snd {α β : Type} (l : List (α × β)) : (l.map (·.1)).zip (l.map (·.2)) = l := by
  induction l with
  | nil => rfl
  | cons x xs ih => simp [ih]

theorem unzip_zip (x : MT S) (h : Aligned x) : unzipT (zipMT x) = x := by
  obtain ⟨hs, hl⟩ := h
  cases x with
  | mk t m =>
    cases t with
    | mk ts td =>
      cases m with
      | mk ms md =>
        simp only [unzipT, zipMT, T.zip, T.map] at *
        subst hs
        congr 2
        · exact List.map_fst_zip (by omega)
        · exact List.map_snd_zip (by omega)

/-- **Structural operations move values and validity together**: picking from the zipped inputs = zipping the picks. -/
theorem pick_zip [Inhabited S] (xs : List (MT S)) (hx : ∀ x ∈ xs, Aligned x) (sh : List Nat) (ix : List T.Src) :
    T.pick (xs.map zipMT) sh ix = T.zip (T.pick (xs.map (·.tensor)) sh ix) (T.pick (xs.map (·.mask)) sh ix) := by
  simp only [T.pick, T.zip]
  congr 1
  rw [List.zip_map']
  apply List.map_congr_left
  intro s _
  simp only [List.getD_eq_getElem?_getD, List.getElem?_map]
  cases hk : xs[s.1]? with
  | none => simp [hk]; rfl
  | some x =>
    simp only [hk, Option.map_some, Option.getD_some]
    have hal := hx x (List.mem_of_getElem? hk)
    have := getD_zip x.tensor.data x.mask.data hal.2 s.2 default default
    have hd : (default : S × Bool) = (default, default) := rfl
    rw [hd]
    simpa [zipMT, T.zip, List.getD_eq_getElem?_getD] using this

end PoseVerif.Props.C10

namespace PoseVerif.Props.C10
open PoseVerif
variable {S : Type}

theorem mapM_getElem_map {α β : Type} (env : List α) (f : α → β) (l : List Nat) :
    l.mapM (fun r => (env.map f)[r]?) = (l.mapM fun r => env[r]?).map (List.map f) := by
  induction l with
  | nil => rfl
  | cons r rs ih =>
    rw [List.mapM_cons, List.mapM_cons, ih, List.getElem?_map]
    cases env[r]? with
    | none => rfl
    | some x =>
      cases (rs.mapM fun r => env[r]?) with
      | none => rfl
      | some xs => rfl

theorem mapM_getElem_mem {α : Type} (env : List α) (l : List Nat) (args : List α) (h : l.mapM (fun r => env[r]?) = some args) :
    ∀ x ∈ args, x ∈ env := by
  induction l generalizing args with
  | nil => simp at h; subst h; intro x hx; cases hx
  | cons r rs ih =>
    simp only [List.mapM_cons, Option.bind_eq_bind, Option.bind_eq_some_iff, Option.pure_def, Option.some.injEq] at h
    obtain ⟨a, ha, as, has, rfl⟩ := h
    intro x hx
    rcases List.mem_cons.mp hx with rfl | hx
    · exact List.mem_of_getElem? ha
    · exact ih as has x hx

theorem zipMT_shape (x : MT S) : (zipMT x).shape = x.tensor.shape := rfl

theorem aligned_pick [Inhabited S] (ts : List (T S)) (ms : List (T Bool)) (sh : List Nat) (ix : List T.Src) :
    Aligned (⟨T.pick ts sh ix, T.pick ms sh ix⟩ : MT S) := ⟨rfl, by simp [T.pick]⟩

/-- structural instructions: the same plan for values and masks, and picking commutes with zipping -/
theorem structural_refines (sc : Scalar S) [Inhabited S] (fw : Framework) (args : List (MT S)) (hal : ∀ x ∈ args, Aligned x)
    (ins : Instr S) (plan : Plan) (hp : structuralPlan fw (args.map (·.tensor.shape)) ins = some plan) :
    structuralPlan fw (args.map (·.mask.shape)) ins = some plan ∧
    (match applyPlan (args.map (·.tensor)) plan, applyPlan (args.map (·.mask)) plan with
     | some t, some m => Aligned (⟨t, m⟩ : MT S) ∧ applyPlan (args.map zipMT) plan = some (zipMT ⟨t, m⟩)
     | none, none => applyPlan (args.map zipMT) plan = none
     | _, _ => False) := by
  have hsh : args.map (·.mask.shape) = args.map (·.tensor.shape) := by
    apply List.map_congr_left; intro x hx; exact (hal x hx).1.symm
  refine ⟨by rw [hsh]; exact hp, ?_⟩
  cases plan with
  | none => simp [applyPlan]
  | some p =>
    obtain ⟨sh, ix⟩ := p
    simp only [applyPlan, Option.map_some]
    exact ⟨aligned_pick _ _ sh ix, by rw [pick_zip args hal sh ix]; rfl⟩

end PoseVerif.Props.C10

namespace PoseVerif.Props.C10
open PoseVerif
variable {S : Type}

theorem zipWith_zip_and (sc : Scalar S) (op : BinOp) (a b : MT S) (ha : Aligned a) (hb : Aligned b) (hs : a.tensor.shape = b.tensor.shape) :
    T.zipWith (fun x y => (op.fn sc x.1 y.1, x.2 && y.2)) (zipMT a) (zipMT b)
      = zipMT ⟨T.zipWith (op.fn sc) a.tensor b.tensor, T.zipWith (· && ·) a.mask b.mask⟩ := by
  simp only [zipMT, T.zip, T.zipWith]
  congr 1
  generalize a.tensor.data = xs
  generalize a.mask.data = ms
  generalize b.tensor.data = ys
  generalize b.mask.data = ns
  induction xs generalizing ms ys ns with
  | nil => simp
  | cons x xs ih =>
    cases ms <;> cases ys <;> cases ns <;> simp_all

theorem map_fst_zipMT (x : MT S) (f : S → S) (h : Aligned x) : (zipMT x).map (fun p => (f p.1, p.2)) = zipMT ⟨x.tensor.map f, x.mask⟩ := by
  simp only [zipMT, T.zip, T.map]
  congr 1
  generalize x.tensor.data = xs
  generalize x.mask.data = ms
  induction xs generalizing ms with
  | nil => simp
  | cons a as ih => cases ms <;> simp_all

theorem aligned_map (x : MT S) (f : S → S) (h : Aligned x) : Aligned (⟨x.tensor.map f, x.mask⟩ : MT S) :=
  ⟨h.1, by simp [T.map, h.2]⟩

theorem meanLead_aligned (sc : Scalar S) [Inhabited S] (x : MT S) (lead : Nat) : Aligned (meanLead sc x lead) := by
  refine ⟨?_, ?_⟩ <;> simp [meanLead, fixNanT, T.map, leadGroups]

theorem varianceLead_aligned (sc : Scalar S) [Inhabited S] (x : MT S) (lead : Nat) : Aligned (varianceLead sc x lead) :=
  meanLead_aligned sc _ lead

/-- the invariant of the register file: aligned, and the value tensor has as many elements as its shape says -/
def Inv (x : MT S) : Prop := Aligned x ∧ x.tensor.data.length = numel x.tensor.shape

theorem getD_zipMT [Inhabited S] (a : MT S) (ha : Aligned a) (i : Nat) :
    (zipMT a).data.getD i default = (a.tensor.data.getD i default, a.mask.data.getD i false) := by
  have hd : (default : S × Bool) = (default, false) := rfl
  rw [hd]; exact getD_zip _ _ ha.2 i default false

theorem map_fst_zipMT' (a : MT S) (ha : Aligned a) : (zipMT a).map (·.1) = a.tensor := by
  have := unzip_zip a ha
  simp only [unzipT] at this
  exact congrArg MT.tensor this
theorem map_snd_zipMT' (a : MT S) (ha : Aligned a) : (zipMT a).map (·.2) = a.mask := by
  have := unzip_zip a ha
  simp only [unzipT] at this
  exact congrArg MT.mask this

theorem matmulT_square_shape (sc : Scalar S) [Inhabited S] (v m t : T S) (hsq : squareMat m = true) (hwf : v.data.length = numel v.shape)
    (h : matmulT sc v m = some t) : t.shape = v.shape ∧ t.data.length = v.data.length := by
  unfold matmulT at h
  split at h
  · rename_i k n k' hm hl
    split at h
    · rename_i hk
      simp only [Option.some.injEq] at h
      subst h
      have hkn : k = n := by simp [squareMat, hm] at hsq; exact hsq
      subst hkn; subst hk
      have hs := dropLast_append_of_getLast? _ _ hl
      refine ⟨hs, ?_⟩
      simp only [List.length_map, List.length_range]
      have hn : numel v.shape = numel v.shape.dropLast * k := by
        conv => lhs; rw [← hs]
        exact numel_append_singleton _ _
      rw [hwf, hn]
      by_cases hk0 : k = 0
      · simp [hk0]
      · simp only [if_neg hk0]
        rw [Nat.mul_div_cancel _ (Nat.pos_of_ne_zero hk0)]
    · cases h
  · cases h

/-- **One instruction**: the pair interpreter keeps the result aligned and computes exactly what the reference computes on the zipped register file;
    it fails exactly when the reference fails. (`matmul` by a non-square matrix excluded: known finding K1.) -/
theorem step_refines (sc : Scalar S) [Inhabited S] (fw : Framework) (env : List (MT S)) (henv : ∀ x ∈ env, Inv x) (ins : Instr S)
    (hsq : ∀ r m, ins = .matmul r m → squareMat m = true) :
    match stepMasked sc fw env ins with
    | some r => Inv r ∧ stepRef sc fw (env.map zipMT) ins = some (zipMT r)
    | none => stepRef sc fw (env.map zipMT) ins = none := by
  unfold stepMasked stepRef
  rw [mapM_getElem_map]
  cases hargs : ins.inputs.mapM (fun r => env[r]?) with
  | none => simp
  | some args =>
    have hinv : ∀ x ∈ args, Inv x := fun x hx => henv x (mapM_getElem_mem env _ args hargs x hx)
    have hal : ∀ x ∈ args, Aligned x := fun x hx => (hinv x hx).1
    simp only [Option.map_some, Option.bind_eq_bind, Option.bind_some, List.map_map]
    have hshape : (List.map ((fun x => x.shape) ∘ zipMT) args) = args.map (·.tensor.shape) := by
      apply List.map_congr_left; intro x _; rfl
    rw [hshape]
    cases hplan : structuralPlan fw (args.map (·.tensor.shape)) ins with
    | some plan =>
      obtain ⟨hmp, _⟩ := structural_refines sc fw args hal ins plan hplan
      simp only []
      cases plan with
      | none => simp [applyPlan]
      | some p =>
        obtain ⟨sh, ix⟩ := p
        have hlen := plan_wf fw _ ins sh ix hplan
        simp only [applyPlan, Option.map_some, Option.bind_some, hmp]
        refine ⟨⟨aligned_pick _ _ sh ix, by simp [T.pick, hlen]⟩, ?_⟩
        rw [pick_zip args hal sh ix]; rfl
    | none =>
      simp only []
      cases ins with
      | index r i => simp [structuralPlan] at hplan
      | slice r a b => simp [structuralPlan] at hplan
      | gather r ixs => simp [structuralPlan] at hplan
      | permute r p => simp [structuralPlan] at hplan
      | transpose r a b => simp [structuralPlan] at hplan
      | squeeze r d => simp [structuralPlan] at hplan
      | squeezeAll r => simp [structuralPlan] at hplan
      | unsqueeze r d => simp [structuralPlan] at hplan
      | reshape r s => simp [structuralPlan] at hplan
      | narrow r a b c => simp [structuralPlan] at hplan
      | cat rs d => simp [structuralPlan] at hplan
      | stack rs d => simp [structuralPlan] at hplan
      | bin op r1 r2 =>
        match args, hinv with
        | [a, b], hinv =>
          have ha := hinv a (by simp); have hb := hinv b (by simp)
          simp only [List.map_cons, List.map_nil]
          by_cases hs : a.tensor.shape = b.tensor.shape
          · rw [if_pos hs, if_pos (show (zipMT a).shape = (zipMT b).shape from hs)]
            have hlen : b.tensor.data.length = a.tensor.data.length := by rw [ha.2, hb.2, hs]
            refine ⟨⟨⟨by simp only [T.zipWith]; exact ha.1.1, by simp [T.zipWith, ha.1.2, hb.1.2, List.length_zipWith]⟩, ?_⟩, ?_⟩
            · simp [T.zipWith, List.length_zipWith, hlen, ha.2]
            · rw [zipWith_zip_and sc op a b ha.1 hb.1 hs]; rfl
          · rw [if_neg hs, if_neg (show ¬ (zipMT a).shape = (zipMT b).shape from hs)]
        | [], _ => simp
        | [_], _ => simp
        | _ :: _ :: _ :: _, _ => simp
      | binScalar op r c =>
        match args, hinv with
        | [a], hinv =>
          have ha := hinv a (by simp)
          simp only [List.map_cons, List.map_nil]
          exact ⟨⟨aligned_map a _ ha.1, by simp [T.map, ha.2]⟩, by rw [map_fst_zipMT a (fun x => op.fn sc x c) ha.1]; rfl⟩
        | [], _ => simp
        | _ :: _ :: _, _ => simp
      | powScalar r c =>
        match args, hinv with
        | [a], hinv =>
          have ha := hinv a (by simp)
          simp only [List.map_cons, List.map_nil]
          exact ⟨⟨aligned_map a _ ha.1, by simp [T.map, ha.2]⟩, by rw [map_fst_zipMT a (fun x => sc.pow x c) ha.1]; rfl⟩
        | [], _ => simp
        | _ :: _ :: _, _ => simp
      | unary op r =>
        match args, hinv with
        | [a], hinv =>
          have ha := hinv a (by simp)
          simp only [List.map_cons, List.map_nil]
          exact ⟨⟨aligned_map a _ ha.1, by simp [T.map, ha.2]⟩, by rw [map_fst_zipMT a (op.fn sc) ha.1]; rfl⟩
        | [], _ => simp
        | _ :: _ :: _, _ => simp
      | fixNan r =>
        match args, hinv with
        | [a], hinv =>
          have ha := hinv a (by simp)
          simp only [List.map_cons, List.map_nil]
          cases fw with
          | torch =>
            simp only [fixNanTorch]
            exact ⟨⟨aligned_map a _ ha.1, by simp [T.map, ha.2]⟩, by rw [map_fst_zipMT a (fun x => if sc.isNaN x then sc.zero else x) ha.1]; rfl⟩
          | tf =>
            simp only [fixNanT]
            exact ⟨⟨aligned_map a _ ha.1, by simp [T.map, ha.2]⟩, by rw [map_fst_zipMT a (fun x => if sc.isFinite x then x else sc.zero) ha.1]; rfl⟩
        | [], _ => simp
        | _ :: _ :: _, _ => simp
      | sum r d =>
        match args, hinv with
        | [a], hinv =>
          have ha := hinv a (by simp)
          simp only [List.map_cons, List.map_nil]
          cases hax : normAxis a.tensor.shape.length d with
          | none =>
            have : normAxis (zipMT a).shape.length d = none := hax
            simp [this]
          | some ax =>
            have h2 : normAxis (zipMT a).shape.length d = some ax := hax
            simp only [Option.bind_some, h2, Option.pure_def, ← ha.1.1]
            refine ⟨⟨⟨rfl, by simp⟩, by simp [reduceGroups]⟩, ?_⟩
            simp only [zipMT, T.zip, Option.some.injEq]
            congr 1
            rw [List.zip_map']
            apply List.map_congr_left
            intro g _
            have e := fun i => getD_zipMT a ha.1 i
            simp only [zipMT, T.zip] at e
            simp only [e]
        | [], _ => simp
        | _ :: _ :: _, _ => simp
      | mean r lead =>
        match args, hinv with
        | [a], hinv =>
          have ha := hinv a (by simp)
          simp only [List.map_cons, List.map_nil]
          by_cases hc : fw = .tf ∧ lead ≤ a.tensor.shape.length ∧ 0 < lead
          · rw [if_pos hc, if_pos (show fw = .tf ∧ lead ≤ (zipMT a).shape.length ∧ 0 < lead from hc), unzip_zip a ha.1]
            exact ⟨⟨meanLead_aligned sc a lead, by simp [meanLead, fixNanT, T.map, leadGroups]⟩, rfl⟩
          · rw [if_neg hc, if_neg (show ¬ (fw = .tf ∧ lead ≤ (zipMT a).shape.length ∧ 0 < lead) from hc)]
        | [], _ => simp
        | _ :: _ :: _, _ => simp
      | variance r lead =>
        match args, hinv with
        | [a], hinv =>
          have ha := hinv a (by simp)
          simp only [List.map_cons, List.map_nil]
          by_cases hc : fw = .tf ∧ lead ≤ a.tensor.shape.length ∧ 0 < lead
          · rw [if_pos hc, if_pos (show fw = .tf ∧ lead ≤ (zipMT a).shape.length ∧ 0 < lead from hc), unzip_zip a ha.1]
            exact ⟨⟨varianceLead_aligned sc a lead, by simp [varianceLead, meanLead, fixNanT, T.map, leadGroups]⟩, rfl⟩
          · rw [if_neg hc, if_neg (show ¬ (fw = .tf ∧ lead ≤ (zipMT a).shape.length ∧ 0 < lead) from hc)]
        | [], _ => simp
        | _ :: _ :: _, _ => simp
      | std r lead =>
        match args, hinv with
        | [a], hinv =>
          have ha := hinv a (by simp)
          simp only [List.map_cons, List.map_nil]
          by_cases hc : fw = .tf ∧ lead ≤ a.tensor.shape.length ∧ 0 < lead
          · rw [if_pos hc, if_pos (show fw = .tf ∧ lead ≤ (zipMT a).shape.length ∧ 0 < lead from hc), unzip_zip a ha.1]
            have hv := varianceLead_aligned sc a lead
            exact ⟨⟨⟨hv.1, by simp [T.map, hv.2]⟩, by simp [varianceLead, meanLead, fixNanT, T.map, leadGroups]⟩, rfl⟩
          · rw [if_neg hc, if_neg (show ¬ (fw = .tf ∧ lead ≤ (zipMT a).shape.length ∧ 0 < lead) from hc)]
        | [], _ => simp
        | _ :: _ :: _, _ => simp
      | matmul r m =>
        have hsqm := hsq r m rfl
        match args, hinv with
        | [a], hinv =>
          have ha := hinv a (by simp)
          simp only [List.map_cons, List.map_nil, hsqm, if_true, map_fst_zipMT' a ha.1, map_snd_zipMT' a ha.1]
          cases hmm : matmulT sc a.tensor m with
          | none => simp
          | some t =>
            obtain ⟨hts, htl⟩ := matmulT_square_shape sc a.tensor m t hsqm ha.2 hmm
            simp only [Option.bind_some, Option.pure_def]
            exact ⟨⟨⟨by rw [hts]; exact ha.1.1, by rw [htl]; exact ha.1.2⟩, by rw [htl, hts]; exact ha.2⟩, rfl⟩
        | [], _ => simp
        | _ :: _ :: _, _ => simp

end PoseVerif.Props.C10

namespace PoseVerif.Props.C10
open PoseVerif
variable {S : Type}

/-! ### K1 (known finding): `matmul` by a non-square matrix leaves the mask in the input shape — proved on the 2×3 · 3×5 witness -/
def natScalar : Scalar Nat := { zero := 0, add := (· + ·), sub := (· - ·), mul := (· * ·), div := (· / ·), pow := (· ^ ·), sqrt := Nat.sqrt, ofNat := id, isFinite := fun _ => true, isNaN := fun _ => false }
def k1Input : MT Nat := ⟨⟨[2, 3], [1, 2, 3, 4, 5, 6]⟩, ⟨[2, 3], [true, false, true, true, true, false]⟩⟩
def k1Matrix : T Nat := ⟨[3, 5], List.replicate 15 1⟩

/-! non-vacuity: a 5-instruction program (permute, index, sum, stack, elementwise) on an aligned input satisfies the hypotheses and runs to the end -/
def demoProg : List (Instr Nat) := [.permute 0 [1, 0], .index 1 (-1), .sum 0 1, .stack [3, 3] 0, .bin .add 4 4]
end PoseVerif.Props.C10
