import PoseVerif.Proofs.Pose
/-! Reader → writer direction for the body and the whole file (used by C02 `rewrite_identity`). -/
namespace PoseVerif
open Prog

theorem Dec_rdBodyV02Full (h : Header) (f : Bytes) (body : Body) (n : Nat)
    (hr : runBR (rdBodyV02Full h) f 0 = some (body, n)) :
    n ≤ f.length ∧ encBody? body = some (f.take n) ∧ body.Fits h := by
  unfold rdBodyV02Full at hr
  obtain ⟨fps, n1, m1, h1, hle1, hr1, rfl⟩ := seq_dec
    (f := fun fps => Prog.bind rdU32 fun frames => Prog.bind rdU16 fun people => Prog.bind (Prog.ofOption h.numDims?) fun dims =>
      Prog.unpack (frames * (people * h.totalPoints * dims * 4)) fun db =>
      Prog.unpack (frames * (people * h.totalPoints * 4)) fun cb =>
      Prog.ofOption (mkBody? (.f32 fps) frames people h.totalPoints dims db cb))
    (fun _ => Rel_bind _ _ Rel_rdU32 fun _ => Rel_bind _ _ Rel_rdU16 fun _ => Rel_bind _ _ (Rel_ofOption _) fun _ => fun _ _ => Rel_ofOption _)
    (fun a o ho => (Dec_rdF32 f a o ho).1) hr
  obtain ⟨frames, n2, m2, h2, hle2, hr2, rfl⟩ := seq_dec
    (f := fun frames => Prog.bind rdU16 fun people => Prog.bind (Prog.ofOption h.numDims?) fun dims =>
      Prog.unpack (frames * (people * h.totalPoints * dims * 4)) fun db =>
      Prog.unpack (frames * (people * h.totalPoints * 4)) fun cb =>
      Prog.ofOption (mkBody? (.f32 fps) frames people h.totalPoints dims db cb))
    (fun _ => Rel_bind _ _ Rel_rdU16 fun _ => Rel_bind _ _ (Rel_ofOption _) fun _ => fun _ _ => Rel_ofOption _)
    (fun a o ho => (Dec_rdU32 _ a o ho).1) hr1
  obtain ⟨people, n3, m3, h3, hle3, hr3, rfl⟩ := seq_dec
    (f := fun people => Prog.bind (Prog.ofOption h.numDims?) fun dims =>
      Prog.unpack (frames * (people * h.totalPoints * dims * 4)) fun db =>
      Prog.unpack (frames * (people * h.totalPoints * 4)) fun cb =>
      Prog.ofOption (mkBody? (.f32 fps) frames people h.totalPoints dims db cb))
    (fun _ => Rel_bind _ _ (Rel_ofOption _) fun _ => fun _ _ => Rel_ofOption _)
    (fun a o ho => (Dec_rdU16 _ a o ho).1) hr2
  obtain ⟨_, e1⟩ := Dec_rdF32 _ _ _ h1
  obtain ⟨_, e2⟩ := Dec_rdU32 _ _ _ h2
  obtain ⟨_, e3⟩ := Dec_rdU16 _ _ _ h3
  cases hnd : h.numDims? with
  | none => rw [hnd] at hr3; simp [Prog.ofOption, Prog.bind, runBR] at hr3
  | some dims =>
    rw [hnd] at hr3
    simp only [Prog.ofOption, Prog.bind, runBR, Nat.zero_add, List.drop_zero] at hr3
    split at hr3
    · rename_i hc1
      split at hr3
      · rename_i hc2
        by_cases hd0 : dims = 0
        · simp [mkBody?, hd0, runBR] at hr3
        · simp only [mkBody?, if_neg hd0, runBR, Option.some.injEq, Prod.mk.injEq] at hr3
          obtain ⟨rfl, rfl⟩ := hr3
          have hFl : (List.drop n3 (List.drop n2 (List.drop n1 f))).length = f.length - n1 - n2 - n3 := by
            simp only [List.length_drop]
          generalize hF : List.drop n3 (List.drop n2 (List.drop n1 f)) = F at *
          generalize hD : frames * (people * h.totalPoints * dims * 4) = D at *
          generalize hC : frames * (people * h.totalPoints * 4) = C at *
          have hD4 : D = 4 * (frames * people * h.totalPoints * dims) := by rw [← hD]; ac_rfl
          have hC4 : C = 4 * (frames * people * h.totalPoints) := by rw [← hC]; ac_rfl
          simp only [List.length_drop] at hle2 hle3
          refine ⟨?_, ?_, ⟨rfl, hnd, Nat.pos_of_ne_zero hd0, by simp [getF32s_length], by simp [getF32s_length]⟩⟩
          · omega
          simp only [Option.some.injEq] at e1
          simp only [encBody?, Fps.toF32?, e2, e3, Option.bind_eq_bind, Option.bind_some, Option.pure_def]
          have p1 : putF32s (getF32s (frames * people * h.totalPoints * dims) (F.take D)) = F.take D := by
            rw [putF32s_getF32s _ _ (by rw [List.length_take]; omega), List.take_take]; congr 1; omega
          have p2 : putF32s (getF32s (frames * people * h.totalPoints) ((F.drop D).take C)) = (F.drop D).take C := by
            rw [putF32s_getF32s _ _ (by rw [List.length_take, List.length_drop]; omega), List.take_take]; congr 1; omega
          rw [p1, p2, e1]
          congr 1
          simp only [take_add_drop, List.append_assoc, hF]
      · cases hr3
    · cases hr3

/-- a full read that succeeds on a file whose version field is exactly the 0.2 pattern: what was read re-encodes to the bytes consumed -/
theorem rdPose_rewrite (f : Bytes) (p : Pose) (c : Option CacheEntry) (n : Nat)
    (hr : runBR (rdPose none {}) f 0 = some ((p, c), n)) (hv : p.header.version = v02bits) :
    n ≤ f.length ∧ p.write? = some (f.take n) ∧ p.body.Fits p.header := by
  simp only [rdPose, runBR, rdHeader] at hr
  obtain ⟨⟨hd, c'⟩, n1, h1, h2⟩ := runBR_bind_inv hr
  obtain ⟨hd', n1', h1', h1''⟩ := runBR_bind_inv h1
  simp only [runBR, Option.some.injEq, Prod.mk.injEq] at h1''
  obtain ⟨⟨rfl, rfl⟩, rfl⟩ := h1''
  obtain ⟨hle1, ehd⟩ := Dec_rdHeaderRaw _ _ _ h1'
  obtain ⟨body, n2, h3, h4⟩ := runBR_bind_inv h2
  simp only [runBR, Option.some.injEq, Prod.mk.injEq] at h4
  obtain ⟨⟨rfl, rfl⟩, rfl⟩ := h4
  simp only at hv
  simp only [rdBody, hv, versionClass_v02bits, rdBodyV02_full] at h3
  rw [runBR_drop _ (Rel_rdBodyV02Full _) _ _ hle1] at h3
  cases hq : runBR (rdBodyV02Full hd') (List.drop n1' f) 0 with
  | none => rw [hq] at h3; cases h3
  | some r =>
    rw [hq] at h3
    simp only [Option.map_some, Option.some.injEq, Prod.mk.injEq] at h3
    obtain ⟨rfl, rfl⟩ := h3
    obtain ⟨hle2, eb, hfit⟩ := Dec_rdBodyV02Full _ _ _ _ hq
    simp only [List.length_drop] at hle2
    refine ⟨by omega, ?_, hfit⟩
    have ehd' : encHeader? hd' = some (f.take n1') := by
      have : ({ hd' with version := v02bits } : Header) = hd' := by rw [← hv]
      rw [encHeader?, this]; exact ehd
    simp only [Pose.write?, hfit.dims, Option.bind_eq_bind, Option.bind_some, ne_eq, not_true_eq_false, if_false, ehd', eb, Option.pure_def]
    rw [take_add_drop]

end PoseVerif
