import PoseVerif.Proofs.Window
/-! Body and file level: window = slice; refused windows; the header cache does not change what is read. -/
namespace PoseVerif
open Prog

/-- what a successful full v0.2 body read tells about the file -/
theorem rdBodyV02Full_inv (h : Header) (f : Bytes) (e : Nat) (b : Body) (o : Nat)
    (hr : runBR (rdBodyV02Full h) f e = some (b, o)) :
    ∃ fps frames people dims,
      runBR rdF32 f e = some (fps, e + 4) ∧ runBR rdU32 f (e + 4) = some (frames, e + 8) ∧ runBR rdU16 f (e + 8) = some (people, e + 10) ∧
      h.numDims? = some dims ∧
      e + 10 + frames * (people * h.totalPoints * dims * 4) + frames * (people * h.totalPoints * 4) ≤ f.length ∧
      o = e + 10 + frames * (people * h.totalPoints * dims * 4) + frames * (people * h.totalPoints * 4) ∧
      mkBody? (.f32 fps) frames people h.totalPoints dims
        ((f.drop (e + 10)).take (frames * (people * h.totalPoints * dims * 4)))
        ((f.drop (e + 10 + frames * (people * h.totalPoints * dims * 4))).take (frames * (people * h.totalPoints * 4))) = some b := by
  unfold rdBodyV02Full at hr
  obtain ⟨fps, o1, h1, hr⟩ := runBR_bind_inv hr
  obtain ⟨frames, o2, h2, hr⟩ := runBR_bind_inv hr
  obtain ⟨people, o3, h3, hr⟩ := runBR_bind_inv hr
  have e1 : o1 = e + 4 := by
    simp only [rdF32, runBR] at h1; split at h1
    · simp only [Option.some.injEq, Prod.mk.injEq] at h1; omega
    · cases h1
  subst e1
  have e2 : o2 = e + 4 + 4 := by
    simp only [rdU32, runBR] at h2; split at h2
    · simp only [Option.some.injEq, Prod.mk.injEq] at h2; omega
    · cases h2
  subst e2
  have e3 : o3 = e + 4 + 4 + 2 := by
    simp only [rdU16, runBR] at h3; split at h3
    · simp only [Option.some.injEq, Prod.mk.injEq] at h3; omega
    · cases h3
  subst e3
  cases hnd : h.numDims? with
  | none => rw [hnd] at hr; simp [Prog.ofOption, Prog.bind, runBR] at hr
  | some dims =>
    rw [hnd] at hr
    simp only [Prog.ofOption, Prog.bind, runBR] at hr
    split at hr
    · rename_i hc1
      split at hr
      · rename_i hc2
        generalize hm : mkBody? _ _ _ _ _ _ _ = mb at hr
        cases mb with
        | none => simp [runBR] at hr
        | some b' =>
          simp only [runBR, Option.some.injEq, Prod.mk.injEq] at hr
          obtain ⟨rfl, rfl⟩ := hr
          exact ⟨fps, frames, people, dims, h1, h2, h3, rfl, by omega, by omega, hm⟩
      · cases hr
    · cases hr

/-- what a successful full read of the two blocks tells about the file -/
theorem rdBlocks_full_inv (fps : Fps) (frames people points dims : Nat) (f : Bytes) (off : Nat) (b : Body) (o : Nat)
    (hr : runBR (rdBlocks fps frames people points dims none none) f off = some (b, o)) :
    off + frames * (people * points * dims * 4) + frames * (people * points * 4) ≤ f.length ∧
    o = off + frames * (people * points * dims * 4) + frames * (people * points * 4) ∧
    mkBody? fps frames people points dims
      ((f.drop off).take (frames * (people * points * dims * 4)))
      ((f.drop (off + frames * (people * points * dims * 4))).take (frames * (people * points * 4))) = some b := by
  unfold rdBlocks at hr
  rw [readFrames_full, readFrames_full] at hr
  simp only [Prog.bind, runBR] at hr
  split at hr
  · rename_i hc1
    split at hr
    · rename_i hc2
      rw [runBR_ofOption] at hr
      generalize hm : mkBody? _ _ _ _ _ _ _ = mb at hr
      cases mb with
      | none => simp at hr
      | some b' =>
        simp only [Option.map_some, Option.some.injEq, Prod.mk.injEq] at hr
        obtain ⟨rfl, rfl⟩ := hr
        exact ⟨by omega, rfl, rfl⟩
    · cases hr
  · cases hr

/-- **Window = slice** for the two blocks, for every window the code accepts. -/
theorem rdBlocks_window (fps : Fps) (frames people points dims : Nat) (s e : Option Int) (f : Bytes) (off : Nat) (b : Body) (o : Nat)
    (hfull : runBR (rdBlocks fps frames people points dims none none) f off = some (b, o)) (hv : WinValid frames s e) :
    runBR (rdBlocks fps frames people points dims s e) f off = some (b.slice (winStart s) (winCount frames s e), o) := by
  obtain ⟨hfit, rfl, hmk⟩ := rdBlocks_full_inv fps frames people points dims f off b o hfull
  have hbf : b.people = people ∧ b.points = points ∧ b.dims = dims := by
    unfold mkBody? at hmk
    split at hmk
    · cases hmk
    · simp only [Option.some.injEq] at hmk; subst hmk; exact ⟨rfl, rfl, rfl⟩
  unfold rdBlocks
  rw [runBR_readFrames _ _ _ _ _ _ _ (by omega) hv]
  rw [runBR_readFrames _ _ _ _ _ _ _ (by omega) hv]
  rw [runBR_ofOption]
  have hcount : winStart s + winCount frames s e ≤ frames := by have := hv.2; unfold winCount; omega
  have := mkBody?_slice fps frames people points dims (winStart s) (winCount frames s e)
    ((f.drop off).take (frames * (people * points * dims * 4)))
    ((f.drop (off + frames * (people * points * dims * 4))).take (frames * (people * points * 4))) hcount
  rw [hmk] at this
  simp only [Option.map_some] at this
  have hA : winStart s * (people * points * dims * 4) + winCount frames s e * (people * points * dims * 4)
      ≤ frames * (people * points * dims * 4) := by
    rw [← Nat.add_mul]; exact Nat.mul_le_mul_right _ hcount
  have hB : winStart s * (people * points * 4) + winCount frames s e * (people * points * 4)
      ≤ frames * (people * points * 4) := by
    rw [← Nat.add_mul]; exact Nat.mul_le_mul_right _ hcount
  have r1 : (((f.drop off).take (frames * (people * points * dims * 4))).drop (winStart s * (people * points * dims * 4))).take
        (winCount frames s e * (people * points * dims * 4))
      = (f.drop (off + winStart s * (people * points * dims * 4))).take (winCount frames s e * (people * points * dims * 4)) := by
    rw [List.drop_take, List.take_take, List.drop_drop]
    congr 1
    · omega
  have r2 : (((f.drop (off + frames * (people * points * dims * 4))).take (frames * (people * points * 4))).drop (winStart s * (people * points * 4))).take
        (winCount frames s e * (people * points * 4))
      = (f.drop (off + frames * (people * points * dims * 4) + winStart s * (people * points * 4))).take (winCount frames s e * (people * points * 4)) := by
    rw [List.drop_take, List.take_take, List.drop_drop]
    congr 1
    · omega
  rw [r1, r2] at this
  simp only []
  rw [this]
  simp only [Option.map_some]

/-- **Window = slice** at the v0.2 body level. -/
theorem rdBodyV02_window (h : Header) (w : Window) (f : Bytes) (e : Nat) (b : Body) (o : Nat) (fps : F32) (se : Option Int × Option Int)
    (hfull : runBR (rdBodyV02Full h) f e = some (b, o)) (hfps : b.fps = .f32 fps)
    (hc : w.conflict = false) (hres : w.resolve fps = some se) (hv : WinValid b.frames se.1 se.2) :
    runBR (rdBodyV02 h w) f e = some (b.slice (winStart se.1) (winCount b.frames se.1 se.2), o) := by
  obtain ⟨fps', frames, people, dims, h1, h2, h3, hnd, hfit, rfl, hmk⟩ := rdBodyV02Full_inv h f e b o hfull
  have hbf : b.frames = frames ∧ b.fps = .f32 fps' := by
    unfold mkBody? at hmk
    split at hmk
    · cases hmk
    · simp only [Option.some.injEq] at hmk; subst hmk; exact ⟨rfl, rfl⟩
  obtain ⟨hF, hfps'⟩ := hbf
  rw [hfps'] at hfps; cases hfps
  rw [hF] at hv ⊢
  unfold rdBodyV02
  rw [hc]
  simp only [Bool.false_eq_true, if_false]
  rw [runBR_bind_some h1, runBR_bind_some h2, runBR_bind_some h3, hnd, hres]
  simp only [ofOption_some_bind]
  refine rdBlocks_window _ _ _ _ _ _ _ _ _ _ _ ?_ hv
  unfold rdBlocks
  rw [readFrames_full, readFrames_full]
  simp only [Prog.bind, runBR]
  rw [if_pos (by omega), if_pos (by omega), runBR_ofOption]
  rw [hmk]
  rfl

end PoseVerif
