import PoseVerif.Proofs.BodyInv
import PoseVerif.Props.C08
/-!
# The modelled operations on constructor-made bodies (`mkC`), and on two bodies that differ only under the mask (`V3`)
-/
namespace PoseVerif
variable {S : Type}
open PoseVerif.Props

theorem V3.sameShape {isZero : S → Bool} {d₁ d₂ : A4 S} {c : A3 S} (h : V3 isZero d₁ d₂ c) : SameShape3 d₁ c ∧ SameShape3 d₂ c := by
  constructor
  · exact F3.toF2_ac h fun _ _ _ h2 => F3.toF2_ac h2 fun _ _ _ h3 => h3.length_ac
  · exact F3.toF2_bc h fun _ _ _ h2 => F3.toF2_bc h2 fun _ _ _ h3 => by rw [← h3.length_ab, h3.length_ac]

theorem F3.headD {α β γ : Type} {R : α → β → γ → Prop} {a : List α} {b : List β} {c : List γ} (h : F3 R a b c) (da : α) (db : β) (dc : γ) (hd : R da db dc) :
    R (a.headD da) (b.headD db) (c.headD dc) := by
  cases h with
  | nil => exact hd
  | cons hxyz _ => exact hxyz

theorem V3.numDims [Inhabited S] {isZero : S → Bool} {d₁ d₂ : A4 S} {c : A3 S} (h : V3 isZero d₁ d₂ c) (fps : S) :
    numDimsBody (mkC isZero fps d₁ c) = numDimsBody (mkC isZero fps d₂ c) := by
  unfold numDimsBody
  simp only [mkC_data]
  have h1 := F3.headD h [] [] [] F3.nil
  have h2 := F3.headD h1 [] [] [] F3.nil
  have h3 := F3.headD h2 [] [] default ⟨rfl, fun _ => rfl⟩
  exact h3.1

/-! ## selections -/

theorem selectFrames_spec (be : Backend) (isZero : S → Bool) [Inhabited S] (ixs : List Nat) (fps : S) (d : A4 S) (c : A3 S) (hs : SameShape3 d c) :
    selectFrames be isZero ixs (mkC isZero fps d c) =
      if ixs.all (· < c.length) then some (mkC isZero fps (pickD ixs d) (pickD ixs c)) else none := by
  unfold selectFrames numFrames
  simp only [mkC_conf, mkC_fps, mkC_data, mkC_missing]
  rw [mkBody_mkC _ _ _ _ _ _ (C08.derive_selectFrames isZero d c hs ixs).symm]
  rfl

theorem getPoints_spec (be : Backend) (isZero : S → Bool) [Inhabited S] (ixs : List Nat) (fps : S) (d : A4 S) (c : A3 S) (hs : SameShape3 d c) :
    getPoints be isZero ixs (mkC isZero fps d c) =
      if ixs.all (· < ((c.headD []).headD []).length) then some (mkC isZero fps (d.map (List.map (pickD ixs))) (c.map (List.map (pickD ixs)))) else none := by
  unfold getPoints numPoints
  simp only [mkC_conf, mkC_fps, mkC_data, mkC_missing]
  rw [mkBody_mkC _ _ _ _ _ _ (C08.derive_getPoints isZero d c hs ixs).symm]
  rfl

theorem sliceStep_spec (be : Backend) (sc : Scalar S) (isZero : S → Bool) [Inhabited S] (k : Nat) (fps : S) (d : A4 S) (c : A3 S) (hs : SameShape3 d c) :
    sliceStep be sc isZero k (mkC isZero fps d c) =
      if k = 0 then none else some (mkC isZero (sc.div fps (sc.ofNat k)) (everyNth k d) (everyNth k c)) := by
  unfold sliceStep
  simp only [mkC_conf, mkC_fps, mkC_data, mkC_missing]
  rw [mkBody_mkC _ _ _ _ _ _ (C08.derive_sliceStep isZero d c hs k).symm]

theorem V3.pickFrames [Inhabited S] {isZero : S → Bool} {d₁ d₂ : A4 S} {c : A3 S} (h : V3 isZero d₁ d₂ c) (ixs : List Nat) :
    V3 isZero (pickD ixs d₁) (pickD ixs d₂) (pickD ixs c) := F3.pickD h F3.nil ixs

theorem V3.everyNth [Inhabited S] {isZero : S → Bool} {d₁ d₂ : A4 S} {c : A3 S} (h : V3 isZero d₁ d₂ c) (k : Nat) :
    V3 isZero (PoseVerif.everyNth k d₁) (PoseVerif.everyNth k d₂) (PoseVerif.everyNth k c) := F3.everyNth h F3.nil k

theorem V3.pickPoints [Inhabited S] {isZero : S → Bool} {d₁ d₂ : A4 S} {c : A3 S} (h : V3 isZero d₁ d₂ c) (ixs : List Nat) :
    V3 isZero (d₁.map (List.map (pickD ixs))) (d₂.map (List.map (pickD ixs))) (c.map (List.map (pickD ixs))) := by
  unfold V3 at *
  refine F3.map h _ _ _ ?_
  intro x y z h2
  refine F3.map h2 _ _ _ ?_
  intro pe₁ pe₂ cp h3
  exact F3.pickD h3 ⟨rfl, fun _ => rfl⟩ ixs

/-! ## zero fill -/

theorem zipWith_zipWith_left_self {α γ δ ε : Type} (h : δ → γ → ε) (k : α → γ → δ) (d : List α) (c : List γ) :
    List.zipWith h (List.zipWith k d c) c = List.zipWith (fun x z => h (k x z) z) d c := by
  induction d generalizing c with
  | nil => simp
  | cons x xs ih => cases c <;> simp [ih]

theorem derive_viewData (sc : Scalar S) (isZero : S → Bool) (d : A4 S) (c : A3 S) :
    deriveMissing isZero (viewData sc isZero d c) c = deriveMissing isZero d c := by
  simp only [deriveMissing_eq, viewData, zipWith_zipWith_left_self]
  congr 1; funext fr cf
  congr 1; funext pe cp
  congr 1; funext pt cc
  rw [kpt_eq_replicate, kpt_eq_replicate, vpt_length]

theorem zeroFilled_spec (sc : Scalar S) (isZero : S → Bool) (fps : S) (d : A4 S) (c : A3 S) :
    zeroFilledBody sc (mkC isZero fps d c) = mkC isZero fps (viewData sc isZero d c) c := by
  simp only [zeroFilledBody, mkC, zeroFill4_derive, derive_viewData]

/-! ## point-wise transforms -/

theorem flip_spec (sc : Scalar S) (isZero : S → Bool) (axis : Nat) (fps : S) (d : A4 S) (c : A3 S) :
    flipBody sc isZero axis (mkC isZero fps d c) =
      mkC isZero fps (d.map (List.map (List.map fun pt => pt.mapIdx fun dd x => if dd = axis then sc.mul x (sc.neg (sc.ofNat 1)) else sc.mul x (sc.ofNat 1)))) c := by
  unfold flipBody
  simp only [mkC_conf, mkC_fps, mkC_data, mkC_missing]
  rw [mkBody_mkC]
  exact (derive_map3 isZero _ (fun pt => by simp) d c).symm

/-! ## observed coordinates (what `focus` and `bbox` reduce over) -/

theorem getD_kpt_true (isZero : S → Bool) (p : List S) (c : S) (hz : isZero c = true) (dd : Nat) : (kpt isZero p c).getD dd true = true := by
  simp only [kpt, hz, List.getD_eq_getElem?_getD, List.getElem?_map]
  cases p[dd]? <;> rfl

theorem PtEq.obs [Inhabited S] {isZero : S → Bool} {p q : List S} {c : S} (h : PtEq isZero p q c) (dd : Nat) :
    (if (PoseVerif.kpt isZero p c).getD dd true then none else some (p.getD dd default)) =
      (if (PoseVerif.kpt isZero q c).getD dd true then none else some (q.getD dd default)) := by
  cases hz : isZero c with
  | false => rw [h.2 hz]
  | true => rw [getD_kpt_true _ _ _ hz, getD_kpt_true _ _ _ hz]; rfl

theorem obsPersonFrom_eq [Inhabited S] (isZero : S → Bool) (dd : Nat) (flt : Nat → Bool) {pe₁ pe₂ : List (List S)} {cp : List S}
    (h : F3 (PtEq isZero) pe₁ pe₂ cp) (s : Nat) :
    obsPersonFrom s dd flt pe₁ (List.zipWith (kpt isZero) pe₁ cp) = obsPersonFrom s dd flt pe₂ (List.zipWith (kpt isZero) pe₂ cp) := by
  induction h generalizing s with
  | nil => rfl
  | cons hxyz _ ih =>
    have ih' := ih (s + 1)
    unfold obsPersonFrom at ih' ⊢
    simp only [List.zipWith_cons_cons, List.zip_cons_cons, List.zipIdx_cons, List.filter_cons]
    cases flt s with
    | false => simpa using ih'
    | true =>
      simp only [if_true, List.filterMap_cons]
      rw [PtEq.obs hxyz dd, ih']

theorem F3.flatMap_zip_eq {α β γ δ δ' ε : Type} {R : α → β → γ → Prop} {a : List α} {b : List β} {c : List γ} (h : F3 R a b c)
    (k : α → γ → δ) (k' : β → γ → δ') (G : α × δ → List ε) (G' : β × δ' → List ε) (hr : ∀ x y z, R x y z → G (x, k x z) = G' (y, k' y z)) :
    (a.zip (List.zipWith k a c)).flatMap G = (b.zip (List.zipWith k' b c)).flatMap G' := by
  induction h with
  | nil => rfl
  | cons hxyz _ ih => simp only [List.zipWith_cons_cons, List.zip_cons_cons, List.flatMap_cons, hr _ _ _ hxyz, ih]

theorem F3.map_zip_eq {α β γ δ δ' ε : Type} {R : α → β → γ → Prop} {a : List α} {b : List β} {c : List γ} (h : F3 R a b c)
    (k : α → γ → δ) (k' : β → γ → δ') (G : α × δ → ε) (G' : β × δ' → ε) (hr : ∀ x y z, R x y z → G (x, k x z) = G' (y, k' y z)) :
    (a.zip (List.zipWith k a c)).map G = (b.zip (List.zipWith k' b c)).map G' := by
  induction h with
  | nil => rfl
  | cons hxyz _ ih => simp only [List.zipWith_cons_cons, List.zip_cons_cons, List.map_cons, hr _ _ _ hxyz, ih]

theorem observedCoord_eq [Inhabited S] {isZero : S → Bool} {d₁ d₂ : A4 S} {c : A3 S} (h : V3 isZero d₁ d₂ c) (fps : S) (dd : Nat) (flt : Nat → Bool) :
    observedCoord (mkC isZero fps d₁ c) dd flt = observedCoord (mkC isZero fps d₂ c) dd flt := by
  unfold observedCoord
  simp only [mkC_data, mkC_missing, deriveMissing_eq]
  refine F3.flatMap_zip_eq h _ _ _ _ ?_
  intro fr₁ fr₂ cf h2
  refine F3.flatMap_zip_eq h2 _ _ _ _ ?_
  intro pe₁ pe₂ cp h3
  exact obsPersonFrom_eq isZero dd flt h3 0

end PoseVerif
