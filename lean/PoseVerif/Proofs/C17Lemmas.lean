import PoseVerif.Model.Represent
import PoseVerif.Proofs.HeaderShape
import PoseVerif.Props.C13
/-! Definitions and helper lemmas for `Props/C17.lean` (the property theorems themselves are kept apart, in that file). -/
namespace PoseVerif.Props.C17
open PoseVerif PoseVerif.Props.C13
variable {S : Type}

def mkPoint (vs : List S) (ok : Bool) : List (MV S) := vs.map fun x => (x, ok)

/-! ### missing input ⇒ exactly 0 -/

theorem all_zipWith_false (f : MV S → MV S → MV S) (hf : ∀ a b, (f a b).2 = (a.2 && b.2)) (a b : List S) (oka okb : Bool)
    (hne : 0 < min a.length b.length) (hok : (oka && okb) = false) : (List.zipWith f (mkPoint a oka) (mkPoint b okb)).all (·.2) = false := by
  cases a with
  | nil => simp at hne
  | cons x xs =>
    cases b with
    | nil => simp at hne
    | cons y ys => simp [mkPoint, hf, hok]

/-! ### never NaN: the last step of each representation removes it (given that 0 is not NaN) -/

/-! ### the formulas, over ℝ. Three points of equal dimension are given as one list of coordinate triples `(p1_d, p2_d, p3_d)`. -/

section formulas

@[simp] theorem RS_isNaN (x : ℝ) : RS.isNaN x = false := rfl

abbrev c1 (l : List (ℝ × ℝ × ℝ)) : List ℝ := l.map (·.1)
abbrev c2 (l : List (ℝ × ℝ × ℝ)) : List ℝ := l.map (·.2.1)
abbrev c3 (l : List (ℝ × ℝ × ℝ)) : List ℝ := l.map (·.2.2)

theorem sum_div_const (l : List ℝ) (k : ℝ) : (l.map fun x => x / k).sum = l.sum / k := by
  induction l with
  | nil => simp
  | cons x xs ih => simp only [List.map_cons, List.sum_cons, ih]; rw [add_div]

/-- the masked distance of two valid points is `(√Σ(x − y)², valid)` -/
theorem mvDistance_valid {α : Type} (l : List α) (f g : α → ℝ) :
    mvDistance RS (mkPoint (l.map f) true) (mkPoint (l.map g) true) = (Real.sqrt ((l.map fun t => (f t - g t) * (f t - g t)).sum), true) := by
  unfold mvDistance mvUn mvSum mkPoint
  simp only [List.zipWith_map_left, List.zipWith_map_right, List.zipWith_self, List.map_map, mvBin, mvUn, sumList_eq, RS_sqrt, List.all_map, Function.comp_def]
  refine Prod.ext ?_ ?_
  · simp only [RS_mul, RS_sub]
  · simp

theorem sum_sq_diff (l : List (ℝ × ℝ × ℝ)) :
    (l.map fun t => (t.1 - t.2.2) * (t.1 - t.2.2)).sum =
      (l.map fun t => (t.1 - t.2.1) * (t.1 - t.2.1)).sum + (l.map fun t => (t.2.2 - t.2.1) * (t.2.2 - t.2.1)).sum
        - 2 * (l.map fun t => (t.1 - t.2.1) * (t.2.2 - t.2.1)).sum := by
  induction l with
  | nil => simp
  | cons t ts ih => simp only [List.map_cons, List.sum_cons, ih]; ring

theorem sqrt_four : Real.sqrt 4 = 2 := by rw [show (4 : ℝ) = 2 * 2 by norm_num]; exact Real.sqrt_mul_self (by norm_num)

end formulas

/-! ### the assembled representation: which points, how many rows, in which order -/

section layout

theorem flatten_length_const {α : Type} (bs : List (List α)) (k : Nat) (h : ∀ x ∈ bs, x.length = k) : bs.flatten.length = bs.length * k := by
  induction bs with
  | nil => simp
  | cons x xs ih =>
    simp only [List.flatten_cons, List.length_append, List.length_cons, h x (by simp), ih fun y hy => h y (List.mem_cons_of_mem _ hy), Nat.add_mul]
    omega

theorem flatMap_getD_block {α β : Type} (f : α → List β) (k : Nat) (hk : ∀ x, (f x).length = k) (d : β) :
    ∀ (l : List α) (i j : Nat) (hi : i < l.length), j < k → (l.flatMap f).getD (i * k + j) d = (f l[i]).getD j d
  | [], i, j, hi, _ => absurd hi (by simp)
  | x :: xs, 0, j, _, hj => by
    simp only [List.flatMap_cons, Nat.zero_mul, Nat.zero_add, List.getElem_cons_zero, List.getD_eq_getElem?_getD]
    rw [List.getElem?_append_left (by rw [hk]; exact hj)]
  | x :: xs, i + 1, j, hi, hj => by
    have ih := flatMap_getD_block f k hk d xs i j (by simpa using hi) hj
    simp only [List.flatMap_cons, List.getElem_cons_succ, List.getD_eq_getElem?_getD] at ih ⊢
    rw [List.getElem?_append_right (by rw [hk]; simp only [Nat.add_mul]; omega), hk, ← ih]
    congr 2
    simp only [Nat.add_mul]; omega

/-! ### rows of the assembled representation -/

theorem flatten_getD_block {β : Type} (k : Nat) (d : β) :
    ∀ (bs : List (List β)) (i j : Nat), (∀ x ∈ bs, x.length = k) → i < bs.length → j < k → bs.flatten.getD (i * k + j) d = (bs.getD i []).getD j d
  | [], i, j, _, hi, _ => absurd hi (by simp)
  | x :: xs, 0, j, h, _, hj => by
    simp only [List.flatten_cons, Nat.zero_mul, Nat.zero_add, List.getD_eq_getElem?_getD, List.getElem?_cons_zero, Option.getD_some]
    rw [List.getElem?_append_left (by rw [h x (by simp)]; exact hj)]
  | x :: xs, i + 1, j, h, hi, hj => by
    have ih := flatten_getD_block k d xs i j (fun y hy => h y (List.mem_cons_of_mem _ hy)) (by simpa using hi) hj
    simp only [List.flatten_cons, List.getD_eq_getElem?_getD, List.getElem?_cons_succ] at ih ⊢
    rw [List.getElem?_append_right (by rw [h x (by simp)]; simp only [Nat.add_mul]; omega), h x (by simp), ← ih]
    congr 2
    simp only [Nat.add_mul]; omega

theorem getD_append_mid {β : Type} (A Bs C : List β) (i : Nat) (d : β) (hi : i < Bs.length) : (A ++ Bs ++ C).getD (A.length + i) d = Bs.getD i d := by
  simp only [List.getD_eq_getElem?_getD, List.append_assoc]
  rw [List.getElem?_append_right (by omega), Nat.add_sub_cancel_left, List.getElem?_append_left hi]

theorem getD_append_last {β : Type} (A Bs C : List β) (i : Nat) (d : β) : (A ++ Bs ++ C).getD (A.length + Bs.length + i) d = C.getD i d := by
  simp only [List.getD_eq_getElem?_getD]
  rw [List.getElem?_append_right (by simp), List.length_append, Nat.add_sub_cancel_left]

theorem grid_getD [Inhabited S] (B L b l : Nat) (hb : b < B) (hl : l < L) (g : Nat → Nat → S) :
    ((((List.range B).map fun b => (List.range L).map fun l => g b l).getD b []).getD l default) = g b l := by
  simp [List.getD_eq_getElem?_getD, hb, hl]

theorem rep2Rows_length (f : List (MV S) → List (MV S) → S) (pts : List (List (List (List (MV S))))) (l1 l2 : List Nat) (B L : Nat) :
    (rep2Rows f pts l1 l2 B L).length = (l1.zip l2).length := by simp [rep2Rows]
theorem rep3Rows_length (f : List (MV S) → List (MV S) → List (MV S) → S) (pts : List (List (List (List (MV S))))) (tri : List (Nat × Nat × Nat)) (B L : Nat) :
    (rep3Rows f pts tri B L).length = tri.length := by simp [rep3Rows]

/-- the three groups of rows and their sizes -/
theorem rows_lengths (sc : Scalar S) (atanF acosF : S → S) [Inhabited S] (n1 : Nat) (m2 : List Rep2) (m3 : List Rep3)
    (pts : List (List (List (List (MV S))))) (dims : Nat) (l1 l2 : List Nat) (tri : List (Nat × Nat × Nat)) (B L : Nat) :
    (List.replicate n1 (pointsRepRows sc pts dims)).flatten.length = n1 * (pts.length * dims) ∧
    (m2.map fun m => rep2Rows (m.apply sc atanF) pts l1 l2 B L).flatten.length = m2.length * (l1.zip l2).length ∧
    (m3.map fun m => rep3Rows (m.apply sc acosF) pts tri B L).flatten.length = m3.length * tri.length := by
  refine ⟨?_, ?_, ?_⟩
  · rw [flatten_length_const _ (pts.length * dims)]
    · simp
    · intro x hx
      rw [(List.mem_replicate.mp hx).2]
      unfold pointsRepRows
      rw [List.length_flatMap]
      simp only [List.length_map, List.length_range]
      clear hx
      induction pts with
      | nil => simp
      | cons x xs ih => simp [Nat.add_mul] at ih ⊢; omega
  · rw [flatten_length_const _ (l1.zip l2).length]
    · simp
    · intro x hx
      obtain ⟨m, _, rfl⟩ := List.mem_map.mp hx
      exact rep2Rows_length _ _ _ _ _ _
  · rw [flatten_length_const _ tri.length]
    · simp
    · intro x hx
      obtain ⟨m, _, rfl⟩ := List.mem_map.mp hx
      exact rep3Rows_length _ _ _ _ _

/-- what the rows of the assembled representation are, before grouping -/
def fwdRows (sc : Scalar S) (atanF acosF : S → S) [Inhabited S] (comps : List Comp) (n1 : Nat) (m2 : List Rep2) (m3 : List Rep3)
    (pts : List (List (List (List (MV S))))) (B L : Nat) : List (List (List S)) :=
  (List.replicate n1 (pointsRepRows sc pts ((comps.headD default).format).length)
      ++ m2.map (fun m => rep2Rows (m.apply sc atanF) pts (limbPoints comps).1 (limbPoints comps).2 B L)
      ++ m3.map (fun m => rep3Rows (m.apply sc acosF) pts (trianglePoints (limbPoints comps).1 (limbPoints comps).2) B L)).flatten

theorem poseRepresentation_some (sc : Scalar S) (atanF acosF : S → S) [Inhabited S] (comps : List Comp) (n1 : Nat) (m2 : List Rep2) (m3 : List Rep3)
    (pts : List (List (List (List (MV S))))) (B L : Nat) (out : List (List (List S)))
    (h : poseRepresentation sc atanF acosF comps n1 m2 m3 pts B L = some out) :
    out = groupEmbeds (List.replicate n1 (pointsRepRows sc pts ((comps.headD default).format).length)
      ++ m2.map (fun m => rep2Rows (m.apply sc atanF) pts (limbPoints comps).1 (limbPoints comps).2 B L)
      ++ m3.map (fun m => rep3Rows (m.apply sc acosF) pts (trianglePoints (limbPoints comps).1 (limbPoints comps).2) B L)) B L := by
  unfold poseRepresentation at h
  simp only [] at h
  split at h
  · cases h
  · exact (Option.some.inj h).symm


end layout

end PoseVerif.Props.C17
