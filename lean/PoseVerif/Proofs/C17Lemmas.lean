import PoseVerif.Model.Represent
import PoseVerif.Proofs.HeaderShape
import PoseVerif.Props.C13
/-! Definitions and helper lemmas for `Props/C17.lean` (the property theorems themselves are kept apart, in that file). -/
namespace PoseVerif.Props.C17
open PoseVerif PoseVerif.Props.C13
variable {S : Type}

def mkPoint (vs : List S) (ok : Bool) : List (MV S) := vs.map fun x => (x, ok)

/-! ### missing input ⇒ exactly 0 -/

theorem all_zipWith_false (f : MV S → MV S → MV S) (hf : ∀ a b, (f a b).2 = (a.2 && b.2)) (a b : List S) (oka okb : Bool)
    (hne : 0 < min a.length b.length) (hok : (oka && okb) = false) : (List.zipWith f (mkPoint a oka) (mkPoint b okb)).all (·.2) = false := by
  cases a with
  | nil => simp at hne
  | cons x xs =>
    cases b with
    | nil => simp at hne
    | cons y ys => simp [mkPoint, hf, hok]

/-! ### never NaN: the last step of each representation removes it (given that 0 is not NaN) -/

/-! ### the formulas, over ℝ. Three points of equal dimension are given as one list of coordinate triples `(p1_d, p2_d, p3_d)`. -/

section formulas

@[simp] theorem RS_isNaN (x : ℝ) : RS.isNaN x = false := rfl

abbrev c1 (l : List (ℝ × ℝ × ℝ)) : List ℝ := l.map (·.1)
abbrev c2 (l : List (ℝ × ℝ × ℝ)) : List ℝ := l.map (·.2.1)
abbrev c3 (l : List (ℝ × ℝ × ℝ)) : List ℝ := l.map (·.2.2)

theorem sum_div_const (l : List ℝ) (k : ℝ) : (l.map fun x => x / k).sum = l.sum / k := by
  induction l with
  | nil => simp
  | cons x xs ih => simp only [List.map_cons, List.sum_cons, ih]; rw [add_div]

/-- the masked distance of two valid points is `(√Σ(x − y)², valid)` -/
theorem mvDistance_valid {α : Type} (l : List α) (f g : α → ℝ) :
    mvDistance RS (mkPoint (l.map f) true) (mkPoint (l.map g) true) = (Real.sqrt ((l.map fun t => (f t - g t) * (f t - g t)).sum), true) := by
  unfold mvDistance mvUn mvSum mkPoint
  simp only [List.zipWith_map_left, List.zipWith_map_right, List.zipWith_self, List.map_map, mvBin, mvUn, sumList_eq, RS_sqrt, List.all_map, Function.comp_def]
  refine Prod.ext ?_ ?_
  · simp only [RS_mul, RS_sub]
  · simp

theorem sum_sq_diff (l : List (ℝ × ℝ × ℝ)) :
    (l.map fun t => (t.1 - t.2.2) * (t.1 - t.2.2)).sum =
      (l.map fun t => (t.1 - t.2.1) * (t.1 - t.2.1)).sum + (l.map fun t => (t.2.2 - t.2.1) * (t.2.2 - t.2.1)).sum
        - 2 * (l.map fun t => (t.1 - t.2.1) * (t.2.2 - t.2.1)).sum := by
  induction l with
  | nil => simp
  | cons t ts ih => simp only [List.map_cons, List.sum_cons, ih]; ring

theorem sqrt_four : Real.sqrt 4 = 2 := by rw [show (4 : ℝ) = 2 * 2 by norm_num]; exact Real.sqrt_mul_self (by norm_num)

end formulas

/-! ### the assembled representation: which points, how many rows, in which order -/

section layout

theorem flatten_length_const {α : Type} (bs : List (List α)) (k : Nat) (h : ∀ x ∈ bs, x.length = k) : bs.flatten.length = bs.length * k := by
  induction bs with
  | nil => simp
  | cons x xs ih =>
    simp only [List.flatten_cons, List.length_append, List.length_cons, h x (by simp), ih fun y hy => h y (List.mem_cons_of_mem _ hy), Nat.add_mul]
    omega

theorem flatMap_getD_block {α β : Type} (f : α → List β) (k : Nat) (hk : ∀ x, (f x).length = k) (d : β) :
    ∀ (l : List α) (i j : Nat) (hi : i < l.length), j < k → (l.flatMap f).getD (i * k + j) d = (f l[i]).getD j d
  | [], i, j, hi, _ => absurd hi (by simp)
  | x :: xs, 0, j, _, hj => by
    simp only [List.flatMap_cons, Nat.zero_mul, Nat.zero_add, List.getElem_cons_zero, List.getD_eq_getElem?_getD]
    rw [List.getElem?_append_left (by rw [hk]; exact hj)]
  | x :: xs, i + 1, j, hi, hj => by
    have ih := flatMap_getD_block f k hk d xs i j (by simpa using hi) hj
    simp only [List.flatMap_cons, List.getElem_cons_succ, List.getD_eq_getElem?_getD] at ih ⊢
    rw [List.getElem?_append_right (by rw [hk]; simp only [Nat.add_mul]; omega), hk, ← ih]
    congr 2
    simp only [Nat.add_mul]; omega

end layout

end PoseVerif.Props.C17
