import PoseVerif.Proofs.Pose
import PoseVerif.Model.SpecEnc
/-!
Reference encoders written from `docs/specs/v0.{0,1,2}.md` as total functions (flat concatenations, field by field), and the fact
that the model writer produces exactly the documented header for representable headers.
-/
namespace PoseVerif

theorem mapM_flatten {α : Type} (f : α → Option Bytes) (g : α → Bytes) (xs : List α) (ys : List Bytes)
    (hfg : ∀ x b, f x = some b → b = g x) (h : xs.mapM f = some ys) : ys.flatten = xs.flatMap g := by
  induction xs generalizing ys with
  | nil => simp at h; subst h; rfl
  | cons x xs ih =>
    simp only [List.mapM_cons, Option.bind_eq_bind, Option.bind_eq_some_iff, Option.pure_def, Option.some.injEq] at h
    obtain ⟨b, hb, ys', hys, rfl⟩ := h
    simp [List.flatMap_cons, ih ys' hys, hfg x b hb]

theorem encComp_spec (c : Comp) (b : Bytes) (h : encComp? c = some b) : b = specComp c := by
  obtain ⟨n, f, cnt, ps, ls, cs, hn, hf, hcnt, hps, hls, hcs, rfl⟩ := encComp?_some h
  obtain ⟨_, rfl⟩ := packStr?_some hn
  obtain ⟨_, rfl⟩ := packStr?_some hf
  obtain ⟨_, _, _, rfl⟩ := pack3U16?_some hcnt
  rw [mapM_flatten _ specStr _ _ (fun x b hb => (packStr?_some hb).2) hps,
      mapM_flatten _ (fun l : Nat × Nat => putU16 l.1 ++ putU16 l.2) _ _ (fun x b hb => (pack2U16?_some hb).2.2) hls,
      mapM_flatten _ (fun k : Nat × Nat × Nat => putU16 k.1 ++ putU16 k.2.1 ++ putU16 k.2.2) _ _ (fun x b hb => (pack3U16?_some hb).2.2.2) hcs]
  simp [specComp, specStr, List.append_assoc]

theorem encHeaderAny_spec (h : Header) (b : Bytes) (hb : encHeaderAny? h = some b) : b = specHeader h h.version := by
  obtain ⟨d, n, cs, hd, hn, hcs, rfl⟩ := encHeaderAny?_some hb
  obtain ⟨_, _, _, rfl⟩ := pack3U16?_some hd
  obtain ⟨_, rfl⟩ := packU16?_some hn
  rw [mapM_flatten _ specComp _ _ encComp_spec hcs]
  simp [specHeader, List.append_assoc]

/-- every count, length (in UTF-8 bytes), index, colour and dimension of the header fits its field -/
structure Header.Rep (h : Header) : Prop where
  width : h.width < 65536
  height : h.height < 65536
  depth : h.depth < 65536
  ncomps : h.comps.length < 65536
  comps : ∀ c ∈ h.comps, c.Rep

theorem encHeaderAny?_of_rep (h : Header) (r : h.Rep) : encHeaderAny? h = some (specHeader h h.version) := by
  obtain ⟨d, hdm⟩ := (pack3U16?_iff _ _ _).mpr ⟨r.width, r.height, r.depth⟩
  obtain ⟨n, hn⟩ := (packU16?_iff _).mpr r.ncomps
  obtain ⟨cs, hcs⟩ := (mapM_some_iff encComp? _).mpr fun c hc => (encComp?_iff c).mpr (r.comps c hc)
  have : encHeaderAny? h = some (putF32 h.version ++ d ++ n ++ cs.flatten) := by
    simp [encHeaderAny?, hdm, hn, hcs]
  rw [this, ← encHeaderAny_spec h _ this]

theorem Header.rep_of_enc (h : Header) (b : Bytes) (hb : encHeaderAny? h = some b) : h.Rep := by
  obtain ⟨d, n, cs, hdm, hn, hcs, _⟩ := encHeaderAny?_some hb
  obtain ⟨h1, h2, h3⟩ := (pack3U16?_iff _ _ _).mp ⟨_, hdm⟩
  exact ⟨h1, h2, h3, (packU16?_iff _).mp ⟨_, hn⟩, fun c hc => (encComp?_iff c).mp ((mapM_some_iff _ _).mp ⟨_, hcs⟩ c hc)⟩

theorem Header.Rep_version {h : Header} (v : F32) (r : h.Rep) : ({ h with version := v } : Header).Rep :=
  ⟨r.width, r.height, r.depth, r.ncomps, r.comps⟩

end PoseVerif
