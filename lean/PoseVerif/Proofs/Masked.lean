import PoseVerif.Model.Masked
/-! Structural plans list exactly one source per output element. -/
namespace PoseVerif
theorem planFrom_len (a b : List Nat) (f) : (planFrom a b f).2.length = numel (planFrom a b f).1 := by simp [planFrom]
theorem planSameData_wf (a b : List Nat) (sh ix) (h : planSameData a b = some (sh, ix)) : ix.length = numel sh := by
  unfold planSameData at h; split at h
  · simp at h; obtain ⟨rfl, rfl⟩ := h; simp
  · cases h
theorem planPermute_wf (a p : List Nat) (sh ix) (h : planPermute a p = some (sh, ix)) : ix.length = numel sh := by
  unfold planPermute at h; split at h
  · simp [planFrom] at h; obtain ⟨rfl, rfl⟩ := h; simp
  · cases h
theorem plan_wf {S : Type} (fw : Framework) (shapes : List (List Nat)) (ins : Instr S) (sh : List Nat) (ix : List T.Src)
    (h : structuralPlan fw shapes ins = some (some (sh, ix))) : ix.length = numel sh := by
  cases ins <;> simp only [structuralPlan, Option.some.injEq] at h <;> try (cases h; done)
  case index r i =>
    unfold planIndex at h; split at h
    · cases h
    · split at h
      · cases h
      · simp [planFrom] at h; obtain ⟨rfl, rfl⟩ := h; simp
  case slice r a b =>
    unfold planSlice at h; split at h
    · cases h
    · simp [planFrom] at h; obtain ⟨rfl, rfl⟩ := h; simp
  case gather r ixs =>
    unfold planGather at h; split at h
    · cases h
    · split at h
      · simp [planFrom] at h; obtain ⟨rfl, rfl⟩ := h; simp
      · cases h
  case permute r p => exact planPermute_wf _ _ _ _ h
  case transpose r a b =>
    unfold planTranspose at h; split at h
    · exact planPermute_wf _ _ _ _ h
    · cases h
  case squeeze r d =>
    cases fw
    · simp only [planSqueezeTorch] at h; split at h
      · cases h
      · split at h <;> exact planSameData_wf _ _ _ _ h
    · simp only [planSqueezeTF] at h; split at h
      · cases h
      · split at h
        · exact planSameData_wf _ _ _ _ h
        · cases h
  case squeezeAll r => exact planSameData_wf _ _ _ _ h
  case unsqueeze r d =>
    unfold planUnsqueeze at h; split at h
    · cases h
    · exact planSameData_wf _ _ _ _ h
  case reshape r s =>
    unfold planReshape at h
    simp only [] at h
    split at h
    · exact planSameData_wf _ _ _ _ h
    · split at h
      · split at h
        · cases h
        · split at h
          · exact planSameData_wf _ _ _ _ h
          · cases h
      · cases h
  case narrow r a b c =>
    unfold planNarrow at h; split at h
    · simp [planFrom] at h; obtain ⟨rfl, rfl⟩ := h; simp
    · cases h
  case cat rs d =>
    unfold planCat at h; split at h
    · cases h
    · split at h
      · cases h
      · split at h
        · simp at h; obtain ⟨rfl, rfl⟩ := h; simp
        · cases h
  case stack rs d =>
    unfold planStack at h; split at h
    · cases h
    · split at h
      · cases h
      · split at h
        · simp at h; obtain ⟨rfl, rfl⟩ := h; simp
        · cases h

theorem numel_append_singleton (l : List Nat) (k : Nat) : numel (l ++ [k]) = numel l * k := by
  simp [numel, List.foldl_append]

theorem dropLast_append_of_getLast? {α : Type} (l : List α) (a : α) (h : l.getLast? = some a) : l.dropLast ++ [a] = l := by
  induction l with
  | nil => simp at h
  | cons x xs ih =>
    cases xs with
    | nil => simp at h; simp [h]
    | cons y ys =>
      simp only [List.getLast?_cons_cons] at h
      simp [List.dropLast, ih h]

end PoseVerif
