import PoseVerif.Proofs.Codec
/-! Composite codecs: pairs/triples of `<H`, strings, counted repetition. -/
namespace PoseVerif
open Prog

theorem pack2U16?_some {a b : Nat} {bs : Bytes} (h : pack2U16? a b = some bs) :
    a < 65536 ∧ b < 65536 ∧ bs = putU16 a ++ putU16 b := by
  simp only [pack2U16?, Option.bind_eq_bind, Option.bind_eq_some_iff, Option.pure_def, Option.some.injEq] at h
  obtain ⟨x, hx, y, hy, rfl⟩ := h
  obtain ⟨h1, rfl⟩ := packU16?_some hx
  obtain ⟨h2, rfl⟩ := packU16?_some hy
  exact ⟨h1, h2, rfl⟩

theorem pack3U16?_some {a b c : Nat} {bs : Bytes} (h : pack3U16? a b c = some bs) :
    a < 65536 ∧ b < 65536 ∧ c < 65536 ∧ bs = putU16 a ++ putU16 b ++ putU16 c := by
  simp only [pack3U16?, Option.bind_eq_bind, Option.bind_eq_some_iff, Option.pure_def, Option.some.injEq] at h
  obtain ⟨x, hx, y, hy, z, hz, rfl⟩ := h
  obtain ⟨h1, rfl⟩ := packU16?_some hx
  obtain ⟨h2, rfl⟩ := packU16?_some hy
  obtain ⟨h3, rfl⟩ := packU16?_some hz
  exact ⟨h1, h2, h3, rfl⟩

theorem pack2U16?_of_lt {a b : Nat} (ha : a < 65536) (hb : b < 65536) : pack2U16? a b = some (putU16 a ++ putU16 b) := by
  simp [pack2U16?, packU16?, ha, hb]
theorem pack3U16?_of_lt {a b c : Nat} (ha : a < 65536) (hb : b < 65536) (hc : c < 65536) :
    pack3U16? a b c = some (putU16 a ++ putU16 b ++ putU16 c) := by
  simp [pack3U16?, packU16?, ha, hb, hc]

theorem Enc_rd2U16 : Enc rd2U16 (fun l => pack2U16? l.1 l.2) := by
  intro ⟨a, b⟩ bs r h
  obtain ⟨ha, hb, rfl⟩ := pack2U16?_some h
  simp only [rd2U16, runBR]
  rw [if_pos (by simp [putU16])]
  simp only [List.drop_zero, List.append_assoc]
  have e : (putU16 a ++ (putU16 b ++ r)).take 4 = putU16 a ++ putU16 b := by simp [putU16]
  rw [e, List.take_left' (putU16_length a), List.drop_left' (putU16_length a), leNat_putU16 a ha, leNat_putU16 b hb]
  rfl

theorem Dec_rd2U16 : Dec rd2U16 (fun l => pack2U16? l.1 l.2) := by
  intro f x n h
  simp only [rd2U16, runBR] at h
  split at h
  · rename_i hc
    simp only [Option.some.injEq, Prod.mk.injEq, List.drop_zero] at h
    obtain ⟨rfl, rfl⟩ := h
    have hl1 : ((f.take 4).take 2).length = 2 := by simp; omega
    have hl2 : ((f.take 4).drop 2).length = 2 := by simp; omega
    obtain ⟨h1, h1'⟩ := putU16_leNat _ hl1
    obtain ⟨h2, h2'⟩ := putU16_leNat _ hl2
    refine ⟨by omega, ?_⟩
    simp only []
    rw [pack2U16?_of_lt h1' h2', h1, h2, List.take_append_drop]
  · cases h

theorem Enc_rd3U16 : Enc rd3U16 (fun l => pack3U16? l.1 l.2.1 l.2.2) := by
  intro ⟨a, b, c⟩ bs r h
  obtain ⟨ha, hb, hc, rfl⟩ := pack3U16?_some h
  simp only [rd3U16, runBR]
  rw [if_pos (by simp [putU16])]
  simp only [List.drop_zero, List.append_assoc]
  have e : (putU16 a ++ (putU16 b ++ (putU16 c ++ r))).take 6 = putU16 a ++ (putU16 b ++ putU16 c) := by simp [putU16]
  rw [e, List.take_left' (putU16_length a), List.drop_left' (putU16_length a), List.take_left' (putU16_length b),
    leNat_putU16 a ha, leNat_putU16 b hb]
  have e2 : (putU16 a ++ (putU16 b ++ putU16 c)).drop 4 = putU16 c := by simp [putU16]
  rw [e2, leNat_putU16 c hc]
  rfl

theorem Dec_rd3U16 : Dec rd3U16 (fun l => pack3U16? l.1 l.2.1 l.2.2) := by
  intro f x n h
  simp only [rd3U16, runBR] at h
  split at h
  · rename_i hc
    simp only [Option.some.injEq, Prod.mk.injEq, List.drop_zero] at h
    obtain ⟨rfl, rfl⟩ := h
    have hl1 : ((f.take 6).take 2).length = 2 := by simp; omega
    have hl2 : (((f.take 6).drop 2).take 2).length = 2 := by simp; omega
    have hl3 : ((f.take 6).drop 4).length = 2 := by simp; omega
    obtain ⟨h1, h1'⟩ := putU16_leNat _ hl1
    obtain ⟨h2, h2'⟩ := putU16_leNat _ hl2
    obtain ⟨h3, h3'⟩ := putU16_leNat _ hl3
    refine ⟨by omega, ?_⟩
    simp only []
    rw [pack3U16?_of_lt h1' h2' h3', h1, h2, h3]
    congr 1
    have : (f.take 6).drop 4 = ((f.take 6).drop 2).drop 2 := by simp
    rw [this, List.append_assoc, List.take_append_drop, List.take_append_drop]
  · cases h

/-! ### strings -/

theorem packStr?_some {s : String} {b : Bytes} (h : packStr? s = some b) :
    (bytesOfString s).length < 65536 ∧ b = putU16 (bytesOfString s).length ++ bytesOfString s := by
  simp only [packStr?] at h
  split at h
  · exact ⟨by assumption, by cases h; rfl⟩
  · cases h

theorem Enc_rdStr : Enc rdStr packStr? := by
  intro s b r h
  obtain ⟨hl, rfl⟩ := packStr?_some h
  simp only [rdStr, runBR]
  rw [if_pos (by simp [putU16])]
  simp only [List.drop_zero, List.append_assoc, Nat.zero_add]
  rw [List.take_left' (putU16_length _), leNat_putU16 _ hl]
  rw [if_pos (by simp [putU16]; omega)]
  have : (putU16 (bytesOfString s).length ++ (bytesOfString s ++ r)).drop 2 = bytesOfString s ++ r := by simp [putU16]
  rw [this, List.take_left' rfl, stringOfBytes_bytesOfString]
  simp [Prog.ofOption, runBR, putU16]; omega

theorem Dec_rdStr : Dec rdStr packStr? := by
  intro f x n h
  simp only [rdStr, runBR] at h
  split at h
  · rename_i hc
    simp only [List.drop_zero, Nat.zero_add] at h
    split at h
    · rename_i hc2
      rw [runBR_ofOption] at h
      cases hs : stringOfBytes? ((f.drop 2).take (leNat (f.take 2))) with
      | none => rw [hs] at h; cases h
      | some s =>
        rw [hs] at h
        simp only [Option.map_some, Option.some.injEq, Prod.mk.injEq] at h
        obtain ⟨rfl, rfl⟩ := h
        have hb := bytesOfString_of_stringOfBytes _ _ hs
        have hl1 : (f.take 2).length = 2 := by simp; omega
        obtain ⟨h1, h1'⟩ := putU16_leNat _ hl1
        have hlen : (bytesOfString s).length = leNat (f.take 2) := by rw [hb]; simp; omega
        refine ⟨by omega, ?_⟩
        have hlen' : (List.take (leNat (List.take 2 f)) (List.drop 2 f)).length = leNat (List.take 2 f) := by rw [← hb]; exact hlen
        simp only [packStr?, hb, hlen', h1', if_true, h1]
        congr 1
        rw [List.take_add]
    · cases h
  · cases h

/-! ### counted repetition -/

theorem Enc_many {α : Type} {p : Prog α} {enc : α → Option Bytes} (hrel : Rel p) (h : Enc p enc) :
    ∀ (xs : List α) (bs : List Bytes) (r : Bytes), xs.mapM enc = some bs →
      runBR (Prog.many p xs.length) (bs.flatten ++ r) 0 = some (xs, bs.flatten.length) := by
  intro xs
  induction xs with
  | nil => intro bs r hm; simp at hm; subst hm; rfl
  | cons x xs ih =>
    intro bs r hm
    simp only [List.mapM_cons, Option.bind_eq_bind, Option.bind_eq_some_iff, Option.pure_def, Option.some.injEq] at hm
    obtain ⟨b, hb, bs', hbs, rfl⟩ := hm
    simp only [List.length_cons, Prog.many, List.flatten_cons, List.append_assoc, List.length_append]
    refine seq_enc (h x b _ hb) (Rel_bind _ _ (Rel_many p hrel _) fun _ => trivial) ?_
    have := ih bs' r hbs
    rw [runBR_bind_some this]
    rfl

theorem Dec_many {α : Type} {p : Prog α} {enc : α → Option Bytes} (hrel : Rel p) (h : Dec p enc) :
    ∀ (k : Nat) (f : Bytes) (xs : List α) (n : Nat), runBR (Prog.many p k) f 0 = some (xs, n) →
      n ≤ f.length ∧ xs.length = k ∧ ∃ bs, xs.mapM enc = some bs ∧ bs.flatten = f.take n := by
  intro k
  induction k with
  | zero =>
    intro f xs n hr
    simp only [Prog.many, runBR, Option.some.injEq, Prod.mk.injEq] at hr
    obtain ⟨rfl, rfl⟩ := hr
    exact ⟨by omega, rfl, [], rfl, by simp⟩
  | succ k ih =>
    intro f xs n hr
    simp only [Prog.many] at hr
    obtain ⟨x, n1, n2, hp, hle, hrest, rfl⟩ :=
      seq_dec (f := fun x => Prog.bind (Prog.many p k) fun xs => Prog.ret (x :: xs))
        (fun _ => Rel_bind _ _ (Rel_many p hrel _) fun _ => trivial) (fun a o ho => (h f a o ho).1) hr
    obtain ⟨ys, m, hm, hret⟩ := runBR_bind_inv hrest
    simp only [runBR, Option.some.injEq, Prod.mk.injEq] at hret
    obtain ⟨rfl, rfl⟩ := hret
    obtain ⟨hm1, hm2, bs, hbs, hfl⟩ := ih _ _ _ hm
    obtain ⟨_, hx⟩ := h f x n1 hp
    simp only [List.length_drop] at hm1
    refine ⟨by omega, by simp [hm2], f.take n1 :: bs, ?_, ?_⟩
    · simp [List.mapM_cons, hx, hbs]
    · simp only [List.flatten_cons, hfl, List.take_drop]
      have e : List.take n1 f = List.take n1 (List.take (n1 + m) f) := by rw [List.take_take]; congr 1; omega
      rw [e, List.take_append_drop]

end PoseVerif
