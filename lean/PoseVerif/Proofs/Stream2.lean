import PoseVerif.Proofs.Stream
/-! `SR.run` and `bind`; closure of `Core`; the "buffer is a prefix of the file" invariant of skip-free programs. -/
namespace PoseVerif
open Prog SR

theorem SR.run_bind {α β : Type} (p : Prog α) (f : α → Prog β) (s : SR) :
    SR.run (Prog.bind p f) s =
      match SR.run p s with
      | none => none
      | some (a, s') => SR.run (f a) s' := by
  induction p generalizing s with
  | ret a => simp [Prog.bind, SR.run]
  | fail => simp [Prog.bind, SR.run]
  | expect n k ih =>
    simp only [Prog.bind, SR.run]
    cases s.expect n with
    | none => rfl
    | some s' => exact ih s'
  | unpack n k ih =>
    simp only [Prog.bind, SR.run]
    cases s.expect n with
    | none => rfl
    | some s' =>
      simp only []
      split
      · exact ih _ _
      · rfl
  | skip n k ih => simp only [Prog.bind, SR.run]; exact ih _
  | advance n k ih => simp only [Prog.bind, SR.run]; exact ih _
  | setOff n k ih => simp only [Prog.bind, SR.run]; exact ih _
  | fileLeft k ih => simp only [Prog.bind, SR.run]; exact ih _ _
  | peek n k ih => simp only [Prog.bind, SR.run]; exact ih _ _
  | getOff k ih => simp only [Prog.bind, SR.run]; exact ih _ _

theorem SR.run_bind_some {α β : Type} {p : Prog α} {f : α → Prog β} {s s' : SR} {a : α}
    (h : SR.run p s = some (a, s')) : SR.run (Prog.bind p f) s = SR.run (f a) s' := by
  rw [SR.run_bind, h]

theorem Core_bind {α β : Type} (p : Prog α) (f : α → Prog β) (hp : Core p) (hf : ∀ a, Core (f a)) : Core (Prog.bind p f) := by
  induction p with
  | ret a => exact hf a
  | fail => trivial
  | expect n k ih => exact absurd hp (by simp [Core])
  | unpack n k ih => intro b; exact ih b (hp b)
  | skip n k ih => exact ih hp
  | advance n k ih => exact ih hp
  | setOff n k ih => exact absurd hp (by simp [Core])
  | fileLeft k ih => intro i; exact ih i (hp i)
  | peek n k ih => exact absurd hp (by simp [Core])
  | getOff k ih => exact absurd hp (by simp [Core])

theorem Core_ofOption {α : Type} (x : Option α) : Core (Prog.ofOption x) := by cases x <;> trivial
theorem Core_many {α : Type} (p : Prog α) (hp : Core p) : ∀ n, Core (Prog.many p n)
  | 0 => trivial
  | n + 1 => Core_bind _ _ hp fun _ => Core_bind _ _ (Core_many p hp n) fun _ => trivial

theorem Core_rdU16 : Core rdU16 := fun _ => trivial
theorem Core_rdU32 : Core rdU32 := fun _ => trivial
theorem Core_rdF32 : Core rdF32 := fun _ => trivial
theorem Core_rd2U16 : Core rd2U16 := fun _ => trivial
theorem Core_rd3U16 : Core rd3U16 := fun _ => trivial
theorem Core_rdStr : Core rdStr := fun _ _ => Core_ofOption _
theorem Core_rdComp : Core rdComp :=
  Core_bind _ _ Core_rdStr fun _ => Core_bind _ _ Core_rdStr fun _ => Core_bind _ _ Core_rd3U16 fun _ =>
  Core_bind _ _ (Core_many _ Core_rdStr _) fun _ => Core_bind _ _ (Core_many _ Core_rd2U16 _) fun _ => fun _ => trivial
theorem Core_rdHeaderRaw : Core rdHeaderRaw :=
  Core_bind _ _ Core_rdF32 fun _ => Core_bind _ _ Core_rd3U16 fun _ => Core_bind _ _ Core_rdU16 fun _ =>
  Core_bind _ _ (Core_many _ Core_rdComp _) fun _ => trivial

theorem Core_readFrames (frames row : Nat) (s e : Option Int) : Core (readFrames frames row s e) := by
  unfold readFrames
  simp only []
  split
  · trivial
  · split
    · trivial
    · split
      · intro b; cases winRem frames e <;> trivial
      · intro b; cases winRem frames e <;> trivial

theorem Core_rdBodyV02 (h : Header) (w : Window) : Core (rdBodyV02 h w) := by
  unfold rdBodyV02
  split
  · trivial
  · exact Core_bind _ _ Core_rdF32 fun _ => Core_bind _ _ Core_rdU32 fun _ => Core_bind _ _ Core_rdU16 fun _ =>
      Core_bind _ _ (Core_ofOption _) fun _ => Core_bind _ _ (Core_ofOption _) fun _ =>
      Core_bind _ _ (Core_readFrames _ _ _ _) fun _ => Core_bind _ _ (Core_readFrames _ _ _ _) fun _ => Core_ofOption _

theorem Core_rdBodyV01 (h : Header) (w : Window) : Core (rdBodyV01 h w) := by
  unfold rdBodyV01
  refine Core_bind _ _ Core_rd2U16 fun _ => Core_bind _ _ Core_rdU16 fun _ => Core_bind _ _ (Core_ofOption _) fun _ => ?_
  simp only []
  split
  · trivial
  · intro left
    exact Core_bind _ _ (Core_readFrames _ _ _ _) fun _ => Core_bind _ _ (Core_readFrames _ _ _ _) fun _ => Core_ofOption _

theorem Core_rdPersonV00_go : ∀ comps, Core (rdPersonV00.go comps)
  | [] => trivial
  | c :: cs => by
    unfold rdPersonV00.go
    intro b
    split
    · trivial
    · exact Core_bind _ _ (Core_rdPersonV00_go cs) fun _ => trivial

theorem Core_rdPersonV00 (comps : List Comp) : Core (rdPersonV00 comps) := Core_rdPersonV00_go comps

theorem Core_rdBodyV00 (h : Header) : Core (rdBodyV00 h) := by
  unfold rdBodyV00
  refine Core_bind _ _ Core_rd2U16 fun _ => Core_bind _ _ (Core_ofOption _) fun _ => Core_bind _ _ (Core_many _ ?_ _) fun frames => ?_
  · unfold rdFrameV00
    refine Core_bind _ _ Core_rdU16 fun _ => Core_bind _ _ (Core_many _ (Core_rdPersonV00 _) _) fun persons => ?_
    cases persons with
    | nil => trivial
    | cons a _ => exact Core_ofOption _
  · simp only []
    split
    · trivial
    · split <;> trivial

theorem Core_rdBody (h : Header) (w : Window) : Core (rdBody h w) := by
  unfold rdBody
  split
  · exact Core_rdBodyV00 h
  · exact Core_rdBodyV01 h w
  · exact Core_rdBodyV02 h w
  · trivial

end PoseVerif
