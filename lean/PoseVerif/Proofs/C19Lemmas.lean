import PoseVerif.Model.OpenPose
import PoseVerif.Proofs.PoseOps
/-! Definitions and helper lemmas for `Props/C19.lean` (the property theorems themselves are kept apart, in that file). -/
namespace PoseVerif.Props.C19
open PoseVerif
variable {S : Type}

/-! ### a component's numbers → its keypoints -/

theorem triplesOf_length : ∀ (nums : List S) (n : Nat), nums.length = 3 * n → (triplesOf nums).length = n
  | [], n, h => by simp at h; have : n = 0 := by omega
                   subst this; rfl
  | [_], n, h => by simp at h; omega
  | [_, _], n, h => by simp at h; omega
  | x :: y :: c :: rest, n, h => by
    cases n with
    | zero => simp at h
    | succ n =>
      simp only [triplesOf, List.length_cons]
      rw [triplesOf_length rest n (by simp at h; omega)]

/-! ### the loaded body -/

/-! ### the literal loops -/

theorem writeTriples_length {α : Type} : ∀ (ts row : List α) (off : Nat), (writeTriples row off ts).length = row.length
  | [], _, _ => rfl
  | t :: ts, row, off => by simp [writeTriples, writeTriples_length ts]

/-- after the inner loop: cells `off … off + |ts|` hold the triples, every other cell is untouched -/
theorem writeTriples_getD {α : Type} (d : α) : ∀ (ts row : List α) (off k : Nat), off + ts.length ≤ row.length →
    (writeTriples row off ts).getD k d = if off ≤ k ∧ k < off + ts.length then ts.getD (k - off) d else row.getD k d
  | [], row, off, k, _ => by simp [writeTriples]; omega
  | t :: ts, row, off, k, h => by
    have ih := writeTriples_getD d ts (row.set off t) (off + 1) k (by simp at h ⊢; omega)
    simp only [writeTriples, ih, List.length_cons]
    by_cases h1 : off + 1 ≤ k ∧ k < off + 1 + ts.length
    · rw [if_pos h1, if_pos (by omega)]
      have : k - off = (k - (off + 1)) + 1 := by omega
      rw [this]; simp [List.getD_eq_getElem?_getD]
    · rw [if_neg h1]
      by_cases h2 : k = off
      · subst h2
        rw [if_pos (by omega)]
        simp only [List.length_cons] at h
        simp [List.getD_eq_getElem?_getD, List.getElem?_set_self (by omega : k < row.length)]
      · rw [if_neg (by omega)]
        simp [List.getD_eq_getElem?_getD, List.getElem?_set_ne (Ne.symm h2)]

/-- the outer loop, from any intermediate state `(row, keypoint_id)`: cells before `keypoint_id` are final, each later cell is written by the component it belongs to
    (when that component's list reaches it) and by nothing else -/
theorem loop_getD (d : S × S × S) : ∀ (ps : List (List S)) (szs : List Nat) (row : List (S × S × S)) (off k : Nat), ps.length = szs.length →
    (∀ ns ∈ ps.zip szs, (triplesOf ns.1).length ≤ ns.2) → off + szs.sum ≤ row.length →
    ((ps.zip szs).foldl (fun (acc : List (S × S × S) × Nat) ns => (writeTriples acc.1 acc.2 (triplesOf ns.1), acc.2 + ns.2)) (row, off)).1.getD k d =
      if k < off then row.getD k d else
        match locate szs (k - off) with
        | some (c, j) => if j < (triplesOf (ps.getD c [])).length then (triplesOf (ps.getD c [])).getD j d else row.getD k d
        | none => row.getD k d
  | [], [], row, off, k, _, _, _ => by simp [locate]
  | [], _ :: _, _, _, _, h, _, _ => by simp at h
  | _ :: _, [], _, _, _, h, _, _ => by simp at h
  | nums :: ps, sz :: szs, row, off, k, hl, hdom, hfit => by
    have hle : (triplesOf nums).length ≤ sz := hdom (nums, sz) (by simp)
    simp only [List.sum_cons] at hfit
    have hw := writeTriples_getD d (triplesOf nums) row off k (by omega)
    have ih := loop_getD d ps szs (writeTriples row off (triplesOf nums)) (off + sz) k (by simpa using hl)
      (fun ns hns => hdom ns (by simp only [List.zip_cons_cons]; exact List.mem_cons_of_mem _ hns)) (by rw [writeTriples_length]; omega)
    simp only [List.zip_cons_cons, List.foldl_cons]
    rw [ih]
    by_cases h1 : k < off
    · rw [if_pos (by omega), if_pos h1, hw, if_neg (by omega)]
    · rw [if_neg h1]
      by_cases h2 : k < off + sz
      · rw [if_pos h2, hw]
        have hloc : locate (sz :: szs) (k - off) = some (0, k - off) := by simp [locate]; omega
        rw [hloc]
        simp only [List.getD_cons_zero]
        by_cases h3 : k - off < (triplesOf nums).length
        · rw [if_pos h3, if_pos (by omega)]
        · rw [if_neg h3, if_neg (by omega)]
      · rw [if_neg h2]
        have hloc : locate (sz :: szs) (k - off) = (locate szs (k - (off + sz))).map fun cj => (cj.1 + 1, cj.2) := by
          simp only [locate]
          rw [if_neg (by omega)]
          congr 2; omega
        rw [hloc]
        have hrow : (writeTriples row off (triplesOf nums)).getD k d = row.getD k d := by rw [hw, if_neg (by omega)]
        cases hl2 : locate szs (k - (off + sz)) with
        | none => simp only [Option.map_none, hrow]
        | some cj =>
          obtain ⟨c, j⟩ := cj
          simp only [Option.map_some, List.getD_cons_succ, hrow]


/-! ### `get_frame_id` on conforming names with a digit-free prefix (e.g. `video_000000000012_keypoints.json`) -/

theorem matchTail_conforming (digits : List Char) (hd : digits ≠ []) (hall : ∀ c ∈ digits, isDigit c = true) :
    matchTail (digits ++ "_keypoints.json".toList) = some (digits, []) := by
  have htw : (digits ++ "_keypoints.json".toList).takeWhile isDigit = digits := by
    rw [List.takeWhile_append_of_pos hall]
    simp [List.takeWhile, isDigit]
  have hdw : (digits ++ "_keypoints.json".toList).dropWhile isDigit = "_keypoints.json".toList := by
    rw [List.dropWhile_append_of_pos hall]
    simp [List.dropWhile, isDigit]
  unfold matchTail
  simp only [htw, hdw]
  have : digits.isEmpty = false := by cases digits <;> simp_all
  simp only [this, Bool.false_eq_true, if_false]
  have e1 : List.take "_keypoints".toList.length "_keypoints.json".toList = "_keypoints".toList := by decide
  have e2 : List.drop "_keypoints".toList.length "_keypoints.json".toList = '.' :: "json".toList := by decide
  simp only [e1, if_true, e2]
  have e3 : ('.' ≠ '\n' ∧ List.take 4 "json".toList = "json".toList) := by decide
  simp only [e3, and_self, if_true]
  have e4 : List.drop 4 "json".toList = [] := by decide
  rw [e4]
  have e5 : ('.' ≠ '\n' ∧ True) := ⟨by decide, trivial⟩
  rw [if_pos e5]

theorem matchTail_nondigit (c : Char) (cs : List Char) (hc : isDigit c = false) : matchTail (c :: cs) = none := by
  simp [matchTail, List.takeWhile, hc]

/-- scanning a digit-free prefix finds nothing until the digit group starts, then exactly that group -/
theorem findAll_conforming (pre digits : List Char) (hpre : ∀ c ∈ pre, isDigit c = false) (hd : digits ≠ []) (hall : ∀ c ∈ digits, isDigit c = true)
    (fuel : Nat) (hf : pre.length + 1 ≤ fuel) (atStart : Bool) (hs : pre = [] → atStart = true) :
    findAll fuel atStart (pre ++ digits ++ "_keypoints.json".toList) = [digits] := by
  induction pre generalizing fuel atStart with
  | nil =>
    have hst := hs rfl
    subst hst
    cases fuel with
    | zero => simp at hf
    | succ fuel =>
      cases digits with
      | nil => exact absurd rfl hd
      | cons d ds =>
        have hm := matchTail_conforming (d :: ds) hd hall
        simp only [List.nil_append, List.cons_append] at hm ⊢
        simp only [findAll, if_true, hm]
        cases fuel <;> simp [findAll]
  | cons p ps ih =>
    cases fuel with
    | zero => simp at hf
    | succ fuel =>
      have hp : isDigit p = false := hpre p (by simp)
      simp only [List.cons_append, findAll]
      have h1 : (if atStart = true then matchTail (p :: (ps ++ digits ++ "_keypoints.json".toList)) else none) = none := by
        split
        · simpa [List.append_assoc] using matchTail_nondigit p _ hp
        · rfl
      simp only [List.append_assoc] at h1 ⊢
      rw [h1]
      simp only [hp, Bool.not_false, if_true]
      cases ps with
      | nil =>
        -- the last prefix character is consumed as `\\D`, the digit group follows
        cases digits with
        | nil => exact absurd rfl hd
        | cons d ds =>
          have hm := matchTail_conforming (d :: ds) hd hall
          simp only [List.nil_append, List.cons_append] at hm ⊢
          simp only [hm]
          cases fuel <;> simp [findAll]
      | cons q qs =>
        have hq : isDigit q = false := hpre q (by simp)
        have hnone : matchTail (q :: (qs ++ (digits ++ "_keypoints.json".toList))) = none := matchTail_nondigit q _ hq
        simp only [List.cons_append] at hnone ⊢
        rw [hnone]
        have := ih (fun c hc => hpre c (by simp [hc])) fuel (by simp at hf ⊢; omega) false (by intro h; cases h)
        simpa [List.append_assoc] using this

/-! ### `get_frame_id` on names with an arbitrary prefix -/

def kLit : List Char := "_keypoints".toList
def kJson : List Char := "json".toList
def kTail : List Char := "_keypoints.json".toList

theorem kLit_nodigit : ∀ x ∈ kLit, isDigit x = false := by decide
theorem kJson_nodigit : ∀ x ∈ kJson, isDigit x = false := by decide

theorem takeWhile_append_stop (b T : List Char) (h : ∃ x ∈ b, isDigit x = false) :
    (b ++ T).takeWhile isDigit = b.takeWhile isDigit ∧ (b ++ T).dropWhile isDigit = b.dropWhile isDigit ++ T := by
  induction b with
  | nil => obtain ⟨x, hx, _⟩ := h; cases hx
  | cons y ys ih =>
    cases hy : isDigit y
    · simp [List.takeWhile, List.dropWhile, hy]
    · have : ∃ x ∈ ys, isDigit x = false := by
        obtain ⟨x, hx, hxd⟩ := h
        rcases List.mem_cons.mp hx with rfl | hx
        · rw [hy] at hxd; cases hxd
        · exact ⟨x, hx, hxd⟩
      simp [List.takeWhile, List.dropWhile, hy, ih this]

theorem dropWhile_suffix (b : List Char) : b.dropWhile isDigit <:+ b := List.dropWhile_suffix _

/-- the shape a successful `matchTail` forces on its input -/
theorem matchTail_some (s g rest : List Char) (h : matchTail s = some (g, rest)) :
    g = s.takeWhile isDigit ∧ g ≠ [] ∧ ∃ dot, s.dropWhile isDigit = kLit ++ dot :: kJson ++ rest := by
  unfold matchTail at h
  simp only [] at h
  have hk : "_keypoints".toList = kLit := rfl
  have hj' : "json".toList = kJson := rfl
  rw [hk, hj'] at h
  generalize kLit = L at *
  generalize kJson = J at *
  by_cases hne : (s.takeWhile isDigit).isEmpty = true
  · rw [if_pos hne] at h; cases h
  · rw [if_neg hne] at h
    by_cases hlit : List.take L.length (s.dropWhile isDigit) = L
    · rw [if_pos hlit] at h
      cases hdrop : List.drop L.length (s.dropWhile isDigit) with
      | nil => rw [hdrop] at h; cases h
      | cons dot r2 =>
        rw [hdrop] at h
        simp only [] at h
        by_cases hj : dot ≠ '\n' ∧ List.take 4 r2 = J
        · rw [if_pos hj] at h
          simp only [Option.some.injEq, Prod.mk.injEq] at h
          refine ⟨h.1.symm, ?_, dot, ?_⟩
          · rw [← h.1]; intro he; rw [he] at hne; simp at hne
          · have e1 := List.take_append_drop L.length (s.dropWhile isDigit)
            have e2 := List.take_append_drop 4 r2
            rw [hlit, hdrop] at e1
            rw [hj.2, h.2] at e2
            rw [← e1, ← e2]
            simp
        · rw [if_neg hj] at h; cases h
    · rw [if_neg hlit] at h; cases h

theorem kTail_head_ne (ds rest : List Char) (hds : ∀ x ∈ ds, isDigit x = true) : ds ++ kTail ≠ kJson ++ rest := by
  intro h
  cases ds with
  | nil =>
    have : (kTail).head? = (kJson ++ rest).head? := by rw [← h]; rfl
    have e : (kJson ++ rest).head? = some 'j' := rfl
    rw [e] at this
    revert this; decide
  | cons d ds =>
    have hd := hds d (by simp)
    have : some d = (kJson ++ rest).head? := by rw [← h]; rfl
    have : d = 'j' := by
      have e : (kJson ++ rest).head? = some 'j' := rfl
      rw [e] at this; exact Option.some.inj this
    rw [this] at hd
    revert hd; decide

/-- a match attempted inside the prefix `b` of `b ++ d0 :: ds ++ "_keypoints.json"` (digits `d0 :: ds`, a non-digit somewhere in `b`) ends inside `b` -/
theorem matchTail_inside (b ds : List Char) (d0 : Char) (hnd : ∃ x ∈ b, isDigit x = false) (hd0 : isDigit d0 = true) (hds : ∀ x ∈ ds, isDigit x = true)
    (g rest : List Char) (h : matchTail (b ++ (d0 :: ds ++ kTail)) = some (g, rest)) :
    ∃ b', rest = b' ++ (d0 :: ds ++ kTail) ∧ b'.length < b.length ∧ b' <:+ b ∧ (b' = [] → ∃ c, (kLit ++ c :: kJson) <:+ b) := by
  obtain ⟨_, _, dot, hshape⟩ := matchTail_some _ g rest h
  rw [(takeWhile_append_stop b _ hnd).2] at hshape
  have hsuf : b.dropWhile isDigit <:+ b := dropWhile_suffix b
  have hbpos : 0 < b.length := by
    obtain ⟨x, hx, _⟩ := hnd
    exact List.length_pos_of_mem hx
  generalize b.dropWhile isDigit = r at hshape hsuf
  have hshape' : r ++ (d0 :: ds ++ kTail) = (kLit ++ dot :: kJson) ++ rest := by simpa using hshape
  rcases List.append_eq_append_iff.mp hshape' with ⟨a', hP, hT⟩ | ⟨c', hr, hT⟩
  · cases a' with
    | nil =>
      refine ⟨[], by simpa using hT.symm, hbpos, List.nil_suffix, fun _ => ⟨dot, ?_⟩⟩
      rw [hP, List.append_nil]; exact hsuf
    | cons x a'' =>
      exfalso
      simp only [List.cons_append, List.cons.injEq] at hT
      obtain ⟨hx, hT⟩ := hT
      subst hx
      -- kLit ++ dot :: kJson = r ++ d0 :: a''
      rcases List.append_eq_append_iff.mp hP with ⟨a, hr, hdj⟩ | ⟨c, hl, hdj⟩
      · -- r = kLit ++ a, dot :: kJson = a ++ d0 :: a''
        cases a with
        | nil =>
          simp only [List.nil_append, List.cons.injEq] at hdj
          exact kTail_head_ne ds rest hds (by rw [hT, hdj.2])
        | cons z a2 =>
          simp only [List.cons_append, List.cons.injEq] at hdj
          have : d0 ∈ kJson := by rw [hdj.2]; simp
          have := kJson_nodigit d0 this
          rw [hd0] at this; cases this
      · -- kLit = r ++ c, d0 :: a'' = c ++ dot :: kJson
        cases c with
        | nil =>
          simp only [List.nil_append, List.cons.injEq] at hdj
          exact kTail_head_ne ds rest hds (by rw [hT, hdj.2])
        | cons y c2 =>
          simp only [List.cons_append, List.cons.injEq] at hdj
          have : d0 ∈ kLit := by rw [hl, ← hdj.1]; simp
          have := kLit_nodigit d0 this
          rw [hd0] at this; cases this
  · refine ⟨c', hT, ?_, ?_, ?_⟩
    · have := hsuf.length_le
      rw [hr] at this
      simp only [List.length_append] at this
      simp only [List.length_cons] at this
      omega
    · exact List.IsSuffix.trans (by rw [hr]; exact List.suffix_append _ _) hsuf
    · intro hc
      refine ⟨dot, ?_⟩
      rw [hc, List.append_nil] at hr
      rw [← hr]; exact hsuf

/-- no complete `_keypoints.json`-shaped literal ends exactly where `s` ends -/
def NoEnd (s : List Char) : Prop := ∀ c, ¬ (kLit ++ c :: kJson) <:+ s

theorem getLast?_cons_of_some {α : Type} (g : α) (tail : List α) (v : α) (h : tail.getLast? = some v) : (g :: tail).getLast? = some v := by
  cases tail with
  | nil => cases h
  | cons x xs => rw [List.getLast?_cons_cons]; exact h

theorem getLast?_of_suffix {α : Type} (b s : List α) (h : b <:+ s) (hb : b ≠ []) : b.getLast? = s.getLast? := by
  obtain ⟨t, rfl⟩ := h
  rw [List.getLast?_append]
  cases b with
  | nil => exact absurd rfl hb
  | cons x xs => rw [List.getLast?_eq_some_getLast (by simp : x :: xs ≠ [])]; rfl

theorem findAll_general (ds : List Char) (d0 : Char) (hd0 : isDigit d0 = true) (hds : ∀ x ∈ ds, isDigit x = true) :
    ∀ (n : Nat) (s : List Char), s.length ≤ n → ∀ (fuel : Nat) (atStart : Bool), s.length + 1 ≤ fuel →
      (s = [] → atStart = true) → (∀ x, s.getLast? = some x → isDigit x = false) → NoEnd s →
      (findAll fuel atStart (s ++ (d0 :: ds ++ kTail))).getLast? = some (d0 :: ds) := by
  have hall : ∀ c ∈ d0 :: ds, isDigit c = true := by
    intro c hc; rcases List.mem_cons.mp hc with rfl | hc
    · exact hd0
    · exact hds c hc
  have hconf : matchTail (d0 :: ds ++ kTail) = some (d0 :: ds, []) := matchTail_conforming (d0 :: ds) (by simp) hall
  intro n
  induction n with
  | zero =>
    intro s hs fuel atStart hf hst _ _
    have : s = [] := List.eq_nil_of_length_eq_zero (by omega)
    subst this
    have := hst rfl; subst this
    cases fuel with
    | zero => simp at hf
    | succ fuel =>
      simp only [List.nil_append, List.cons_append] at hconf ⊢
      simp only [findAll, if_true, hconf]
      cases fuel <;> simp [findAll]
  | succ n ih =>
    intro s hs fuel atStart hf hst hlast hno
    cases s with
    | nil => exact ih [] (by simp) fuel atStart hf hst hlast hno
    | cons p ps =>
      cases fuel with
      | zero => simp at hf
      | succ fuel =>
        -- continuing after a match that ended inside the prefix
        have cont : ∀ (b : List Char), b <:+ p :: ps → (∃ x ∈ b, isDigit x = false) → ∀ g rest, matchTail (b ++ (d0 :: ds ++ kTail)) = some (g, rest) →
            (g :: findAll fuel false rest).getLast? = some (d0 :: ds) := by
          intro b hb hnd g rest hm
          obtain ⟨b', hrest, hlen, hsuf, hnil⟩ := matchTail_inside b ds d0 hnd hd0 hds g rest hm
          have hsuf' : b' <:+ p :: ps := hsuf.trans hb
          have hb' : b' ≠ [] := by
            intro he
            obtain ⟨c, hc⟩ := hnil he
            exact hno c (hc.trans hb)
          apply getLast?_cons_of_some
          rw [hrest]
          have hbl := hb.length_le
          simp only [List.length_cons] at hs hf hbl
          apply ih b' (by omega) fuel false (by omega) (fun h => absurd h hb')
          · intro x hx; rw [getLast?_of_suffix b' _ hsuf' hb'] at hx; exact hlast x hx
          · intro c hc; exact hno c (hc.trans hsuf')
        have hndS : ∃ x ∈ p :: ps, isDigit x = false := by
          have hne : (p :: ps) ≠ [] := by simp
          refine ⟨(p :: ps).getLast hne, List.getLast_mem hne, hlast _ (List.getLast?_eq_some_getLast hne)⟩
        simp only [List.cons_append, findAll]
        cases h1 : (if atStart = true then matchTail (p :: (ps ++ (d0 :: (ds ++ kTail)))) else none) with
        | some gr =>
          obtain ⟨g, rest⟩ := gr
          simp only []
          have hm : matchTail ((p :: ps) ++ (d0 :: ds ++ kTail)) = some (g, rest) := by
            split at h1
            · simpa using h1
            · cases h1
          exact cont (p :: ps) (List.suffix_refl _) hndS g rest hm
        | none =>
          simp only []
          cases ps with
          | nil =>
            have hp : isDigit p = false := hlast p rfl
            simp only [hp, Bool.not_false, if_true, List.nil_append]
            simp only [List.cons_append] at hconf
            simp only [hconf]
            cases fuel <;> simp [findAll]
          | cons q qs =>
            have hndQ : ∃ x ∈ q :: qs, isDigit x = false := by
              have hne : (q :: qs) ≠ [] := by simp
              refine ⟨(q :: qs).getLast hne, List.getLast_mem hne, hlast _ ?_⟩
              rw [List.getLast?_cons_cons]; exact List.getLast?_eq_some_getLast hne
            have hrec : (findAll fuel false ((q :: qs) ++ (d0 :: ds ++ kTail))).getLast? = some (d0 :: ds) := by
              apply ih (q :: qs) (by simp at hs ⊢; omega) fuel false (by simp at hf ⊢; omega) (fun h => by cases h)
              · intro x hx; apply hlast x; rw [List.getLast?_cons_cons]; exact hx
              · intro c hc; exact hno c (hc.trans (List.suffix_cons _ _))
            cases h2 : (if (!isDigit p) = true then matchTail (q :: qs ++ (d0 :: (ds ++ kTail))) else none) with
            | some gr =>
              obtain ⟨g, rest⟩ := gr
              simp only []
              have hm : matchTail ((q :: qs) ++ (d0 :: ds ++ kTail)) = some (g, rest) := by
                split at h2
                · simpa using h2
                · cases h2
              exact cont (q :: qs) (List.suffix_cons _ _) hndQ g rest hm
            | none =>
              simp only []
              simpa using hrec


/-! non-vacuity -/
def natSc : Scalar Nat := { zero := 0, add := (· + ·), sub := (· - ·), mul := (· * ·), div := (· / ·), pow := (· ^ ·), sqrt := Nat.sqrt, ofNat := id, isFinite := fun _ => true, isNaN := fun _ => false }
end PoseVerif.Props.C19

namespace PoseVerif.Props.C19
open PoseVerif
variable {S : Type}

theorem getD_range_map {α : Type} (n i : Nat) (f : Nat → α) (d : α) (h : i < n) : ((List.range n).map f).getD i d = f i := by
  simp [List.getD_eq_getElem?_getD, h]

end PoseVerif.Props.C19
