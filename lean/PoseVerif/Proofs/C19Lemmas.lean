import PoseVerif.Model.OpenPose
import PoseVerif.Proofs.PoseOps
/-! Definitions and helper lemmas for `Props/C19.lean` (the property theorems themselves are kept apart, in that file). -/
namespace PoseVerif.Props.C19
open PoseVerif
variable {S : Type}

/-! ### a component's numbers → its keypoints -/

theorem triplesOf_length : ∀ (nums : List S) (n : Nat), nums.length = 3 * n → (triplesOf nums).length = n
  | [], n, h => by simp at h; have : n = 0 := by omega
                   subst this; rfl
  | [_], n, h => by simp at h; omega
  | [_, _], n, h => by simp at h; omega
  | x :: y :: c :: rest, n, h => by
    cases n with
    | zero => simp at h
    | succ n =>
      simp only [triplesOf, List.length_cons]
      rw [triplesOf_length rest n (by simp at h; omega)]

/-! ### the loaded body -/

/-! ### `get_frame_id` on conforming names with a digit-free prefix (e.g. `video_000000000012_keypoints.json`) -/

theorem matchTail_conforming (digits : List Char) (hd : digits ≠ []) (hall : ∀ c ∈ digits, isDigit c = true) :
    matchTail (digits ++ "_keypoints.json".toList) = some (digits, []) := by
  have htw : (digits ++ "_keypoints.json".toList).takeWhile isDigit = digits := by
    rw [List.takeWhile_append_of_pos hall]
    simp [List.takeWhile, isDigit]
  have hdw : (digits ++ "_keypoints.json".toList).dropWhile isDigit = "_keypoints.json".toList := by
    rw [List.dropWhile_append_of_pos hall]
    simp [List.dropWhile, isDigit]
  unfold matchTail
  simp only [htw, hdw]
  have : digits.isEmpty = false := by cases digits <;> simp_all
  simp only [this, Bool.false_eq_true, if_false]
  have e1 : List.take "_keypoints".toList.length "_keypoints.json".toList = "_keypoints".toList := by decide
  have e2 : List.drop "_keypoints".toList.length "_keypoints.json".toList = '.' :: "json".toList := by decide
  simp only [e1, if_true, e2]
  have e3 : ('.' ≠ '\n' ∧ List.take 4 "json".toList = "json".toList) := by decide
  simp only [e3, and_self, if_true]
  have e4 : List.drop 4 "json".toList = [] := by decide
  rw [e4]
  have e5 : ('.' ≠ '\n' ∧ True) := ⟨by decide, trivial⟩
  rw [if_pos e5]

theorem matchTail_nondigit (c : Char) (cs : List Char) (hc : isDigit c = false) : matchTail (c :: cs) = none := by
  simp [matchTail, List.takeWhile, hc]

/-- scanning a digit-free prefix finds nothing until the digit group starts, then exactly that group -/
theorem findAll_conforming (pre digits : List Char) (hpre : ∀ c ∈ pre, isDigit c = false) (hd : digits ≠ []) (hall : ∀ c ∈ digits, isDigit c = true)
    (fuel : Nat) (hf : pre.length + 1 ≤ fuel) (atStart : Bool) (hs : pre = [] → atStart = true) :
    findAll fuel atStart (pre ++ digits ++ "_keypoints.json".toList) = [digits] := by
  induction pre generalizing fuel atStart with
  | nil =>
    have hst := hs rfl
    subst hst
    cases fuel with
    | zero => simp at hf
    | succ fuel =>
      cases digits with
      | nil => exact absurd rfl hd
      | cons d ds =>
        have hm := matchTail_conforming (d :: ds) hd hall
        simp only [List.nil_append, List.cons_append] at hm ⊢
        simp only [findAll, if_true, hm]
        cases fuel <;> simp [findAll]
  | cons p ps ih =>
    cases fuel with
    | zero => simp at hf
    | succ fuel =>
      have hp : isDigit p = false := hpre p (by simp)
      simp only [List.cons_append, findAll]
      have h1 : (if atStart = true then matchTail (p :: (ps ++ digits ++ "_keypoints.json".toList)) else none) = none := by
        split
        · simpa [List.append_assoc] using matchTail_nondigit p _ hp
        · rfl
      simp only [List.append_assoc] at h1 ⊢
      rw [h1]
      simp only [hp, Bool.not_false, if_true]
      cases ps with
      | nil =>
        -- the last prefix character is consumed as `\\D`, the digit group follows
        cases digits with
        | nil => exact absurd rfl hd
        | cons d ds =>
          have hm := matchTail_conforming (d :: ds) hd hall
          simp only [List.nil_append, List.cons_append] at hm ⊢
          simp only [hm]
          cases fuel <;> simp [findAll]
      | cons q qs =>
        have hq : isDigit q = false := hpre q (by simp)
        have hnone : matchTail (q :: (qs ++ (digits ++ "_keypoints.json".toList))) = none := matchTail_nondigit q _ hq
        simp only [List.cons_append] at hnone ⊢
        rw [hnone]
        have := ih (fun c hc => hpre c (by simp [hc])) fuel (by simp at hf ⊢; omega) false (by intro h; cases h)
        simpa [List.append_assoc] using this

/-! non-vacuity -/
def natSc : Scalar Nat := { zero := 0, add := (· + ·), sub := (· - ·), mul := (· * ·), div := (· / ·), pow := (· ^ ·), sqrt := Nat.sqrt, ofNat := id, isFinite := fun _ => true, isNaN := fun _ => false }
end PoseVerif.Props.C19

namespace PoseVerif.Props.C19
open PoseVerif
variable {S : Type}

theorem getD_range_map {α : Type} (n i : Nat) (f : Nat → α) (d : α) (h : i < n) : ((List.range n).map f).getD i d = f i := by
  simp [List.getD_eq_getElem?_getD, h]

end PoseVerif.Props.C19
