import PoseVerif.Proofs.BodyOps
/-!
# Shapes: every modelled operation maps an `(F, P, N, D)` body to a body of the shape the documentation promises
-/
namespace PoseVerif
variable {S : Type}
open PoseVerif.Props

/-- a constructor-made body of shape `(F, P, N, D)` -/
structure BInv (isZero : S → Bool) (F P N D : Nat) (b : PBody S) : Prop where
  consistent : b.missing = deriveMissing isZero b.data b.conf
  data : Rect4 F P N D b.data
  conf : Rect3 F P N b.conf

theorem BInv.eq_mkC {isZero : S → Bool} {F P N D : Nat} {b : PBody S} (h : BInv isZero F P N D b) : b = mkC isZero b.fps b.data b.conf := by
  cases b with
  | mk fps d c m => simp only [mkC, PBody.mk.injEq, true_and]; exact h.consistent

theorem BInv.mkC (isZero : S → Bool) (fps : S) {F P N D : Nat} {d : A4 S} {c : A3 S} (hd : Rect4 F P N D d) (hc : Rect3 F P N c) :
    BInv isZero F P N D (PoseVerif.mkC isZero fps d c) := ⟨rfl, hd, hc⟩

theorem BInv.sameShape {isZero : S → Bool} {F P N D : Nat} {b : PBody S} (h : BInv isZero F P N D b) : SameShape3 b.data b.conf :=
  rect_sameShape3 h.data h.conf

/-! ## selections -/

theorem all_lt_iff (ixs : List Nat) (n : Nat) : (ixs.all (· < n)) = true ↔ ∀ i ∈ ixs, i < n := by simp

theorem selectFrames_inv (be : Backend) [Inhabited S] {isZero : S → Bool} {F P N D : Nat} {b : PBody S} (h : BInv isZero F P N D b) (ixs : List Nat) :
    (∀ r, selectFrames be isZero ixs b = some r → BInv isZero ixs.length P N D r ∧ r.fps = b.fps) ∧
    (selectFrames be isZero ixs b = none ↔ ¬ ∀ i ∈ ixs, i < F) := by
  rw [h.eq_mkC, selectFrames_spec _ _ _ _ _ _ h.sameShape, h.conf.1]
  by_cases hg : ∀ i ∈ ixs, i < F
  · have hg' := (all_lt_iff ixs F).mpr hg
    simp only [hg', if_true]
    refine ⟨?_, by simp; exact hg⟩
    intro r hr; cases hr
    exact ⟨BInv.mkC _ _ (RectL.pickD h.data ixs hg) (RectL.pickD h.conf ixs hg), rfl⟩
  · have hg' : ¬ (ixs.all (· < F)) = true := fun hh => hg ((all_lt_iff ixs F).mp hh)
    simp only [hg', if_false]
    exact ⟨fun r hr => (nomatch hr), ⟨fun _ => hg, fun _ => rfl⟩⟩

theorem numPoints_of_rect {α : Type} {F P N : Nat} {c : A3 α} (hc : Rect3 F P N c) (hF : 0 < F) (hP : 0 < P) : ((c.headD []).headD []).length = N := by
  cases c with
  | nil => have := hc.1; simp at this; omega
  | cons fr rest =>
    have hfr := hc.2 fr (by simp)
    cases fr with
    | nil => have := hfr.1; simp at this; omega
    | cons pe r2 => exact hfr.2 pe (by simp)

theorem getPoints_inv (be : Backend) [Inhabited S] {isZero : S → Bool} {F P N D : Nat} {b : PBody S} (h : BInv isZero F P N D b) (hF : 0 < F) (hP : 0 < P) (ixs : List Nat) :
    (∀ r, getPoints be isZero ixs b = some r → BInv isZero F P ixs.length D r ∧ r.fps = b.fps) ∧
    (getPoints be isZero ixs b = none ↔ ¬ ∀ i ∈ ixs, i < N) := by
  rw [h.eq_mkC, getPoints_spec _ _ _ _ _ _ h.sameShape, numPoints_of_rect h.conf hF hP]
  by_cases hg : ∀ i ∈ ixs, i < N
  · have hg' := (all_lt_iff ixs N).mpr hg
    simp only [hg', if_true]
    refine ⟨?_, by simp; exact hg⟩
    intro r hr; cases hr
    refine ⟨BInv.mkC _ _ ?_ ?_, rfl⟩
    · exact RectL.map h.data _ fun fr hfr => RectL.map hfr _ fun pe hpe => RectL.pickD hpe ixs hg
    · exact RectL.map h.conf _ fun fr hfr => RectL.map hfr _ fun pe hpe => by simp [pickD]
  · have hg' : ¬ (ixs.all (· < N)) = true := fun hh => hg ((all_lt_iff ixs N).mp hh)
    simp only [hg', if_false]
    exact ⟨fun r hr => (nomatch hr), ⟨fun _ => hg, fun _ => rfl⟩⟩

theorem sliceStep_inv (be : Backend) [Inhabited S] (sc : Scalar S) {isZero : S → Bool} {F P N D : Nat} {b : PBody S} (h : BInv isZero F P N D b) (k : Nat) (hk : 0 < k) :
    ∃ r, sliceStep be sc isZero k b = some r ∧ BInv isZero ((F + k - 1) / k) P N D r ∧ r.fps = sc.div b.fps (sc.ofNat k) := by
  rw [h.eq_mkC, sliceStep_spec _ _ _ _ _ _ _ h.sameShape]
  have hk' : k ≠ 0 := by omega
  simp only [hk', if_false]
  exact ⟨_, rfl, BInv.mkC _ _ (RectL.everyNth h.data k hk) (RectL.everyNth h.conf k hk), rfl⟩

/-! ## zero fill, point-wise transforms -/

theorem zeroFilled_inv (sc : Scalar S) {isZero : S → Bool} {F P N D : Nat} {b : PBody S} (h : BInv isZero F P N D b) :
    BInv isZero F P N D (zeroFilledBody sc b) ∧ (zeroFilledBody sc b).conf = b.conf := by
  rw [h.eq_mkC, zeroFilled_spec]
  exact ⟨BInv.mkC _ _ (Rect4.viewData sc isZero h.data h.conf) h.conf, rfl⟩

/-- any transform that maps each point to a point with the same number of coordinates and is re-wrapped by the constructor (flip, the translation of focus,
    the affine maps of the normalisers when their preconditions hold) keeps shape, confidences and missing pattern -/
theorem mapPoints_inv (be : Backend) {isZero : S → Bool} {F P N D : Nat} {b : PBody S} (h : BInv isZero F P N D b) (g : List S → List S) (hg : ∀ pt, (g pt).length = pt.length) (fps' : S) :
    BInv isZero F P N D (mkBody be isZero fps' (b.data.map (List.map (List.map g))) b.conf (some b.missing)) ∧
    (mkBody be isZero fps' (b.data.map (List.map (List.map g))) b.conf (some b.missing)).missing = b.missing := by
  have hm : b.missing = deriveMissing isZero (b.data.map (List.map (List.map g))) b.conf := by
    rw [derive_map3 isZero g hg]; exact h.consistent
  rw [mkBody_mkC _ _ _ _ _ _ hm]
  exact ⟨BInv.mkC _ _ (h.data.map3 g D fun pt hpt => by rw [hg, hpt]) h.conf, hm.symm⟩

theorem flip_inv (sc : Scalar S) {isZero : S → Bool} {F P N D : Nat} {b : PBody S} (h : BInv isZero F P N D b) (axis : Nat) :
    BInv isZero F P N D (flipBody sc isZero axis b) ∧ (flipBody sc isZero axis b).conf = b.conf ∧ (flipBody sc isZero axis b).missing = b.missing := by
  unfold flipBody
  have := mapPoints_inv .numpy h (fun pt => pt.mapIdx fun d x => if d = axis then sc.mul x (sc.neg (sc.ofNat 1)) else sc.mul x (sc.ofNat 1)) (fun pt => by simp) b.fps
  refine ⟨this.1, ?_, this.2⟩
  rw [mkBody_mkC]
  · rfl
  · rw [derive_map3 isZero _ (fun pt => by simp)]; exact h.consistent

theorem focus_inv [Inhabited S] (sc : Scalar S) {isZero : S → Bool} {F P N D : Nat} {b : PBody S} (h : BInv isZero F P N D b) (r : PBody S) (dims : Nat × Nat × Nat)
    (hr : focusBody sc isZero b = some (r, dims)) : BInv isZero F P N D r ∧ r.conf = b.conf ∧ r.missing = b.missing ∧ r.fps = b.fps := by
  unfold focusBody at hr
  simp only [Option.bind_eq_bind, Option.bind_eq_some_iff] at hr
  obtain ⟨mins, _, maxs, _, hr⟩ := hr
  split at hr
  · cases hr
  · simp only [Option.some.injEq, Prod.mk.injEq] at hr
    obtain ⟨rfl, _⟩ := hr
    refine ⟨?_, rfl, rfl, rfl⟩
    split
    · have hm : b.missing = deriveMissing isZero (b.data.map (List.map (List.map fun pt => List.mapIdx (fun d x => sc.sub x (mins.getD d sc.zero)) pt))) b.conf := by
        rw [derive_map3 isZero _ (fun pt => by simp)]; exact h.consistent
      exact ⟨hm, h.data.map3 _ D fun pt hpt => by simp [hpt], h.conf⟩
    · exact ⟨h.consistent, h.data, h.conf⟩

end PoseVerif

namespace PoseVerif
variable {S : Type}

/-! ## matrix product (NumPy) -/

theorem rowMat_len [Inhabited S] (sc : Scalar S) (row : List S) (m : List (List S)) : (rowMat sc row m).length = (m.headD []).length := by
  cases m <;> simp [rowMat]

theorem all_id_replicate (n : Nat) (z : Bool) (hn : 0 < n) : (List.replicate n z).all id = z := by
  cases n with
  | zero => omega
  | succ k => cases z <;> simp [List.replicate_succ]

theorem matmul_inv [Inhabited S] (sc : Scalar S) {isZero : S → Bool} {F P N D : Nat} {b : PBody S} (h : BInv isZero F P N D b) (hD : 0 < D) (m : List (List S)) :
    BInv isZero F P N (m.headD []).length (matmulBody .numpy sc isZero m b) ∧ (matmulBody .numpy sc isZero m b).conf = b.conf ∧
      (matmulBody .numpy sc isZero m b).fps = b.fps := by
  rw [h.eq_mkC]
  simp only [matmulBody, mkC_conf, mkC_fps, mkC_data, mkC_missing, zeroFill4_derive]
  have hm : (List.map (List.map (List.map fun pm => List.replicate (m.headD []).length (pm.all id))) (deriveMissing isZero b.data b.conf)) =
      deriveMissing isZero (List.map (List.map (List.map fun pt => rowMat sc pt m)) (viewData sc isZero b.data b.conf)) b.conf := by
    simp only [deriveMissing_eq, viewData, List.map_zipWith, zipWith_zipWith_left_self]
    apply zipWith_congr_fun
    intro fr hfr cf _
    apply zipWith_congr_fun
    intro pe hpe cp _
    apply zipWith_congr_fun
    intro pt hpt cc _
    have hlen : pt.length = D := ((h.data.2 fr hfr).2 pe hpe).2 pt hpt
    rw [kpt_eq_replicate, kpt_eq_replicate, rowMat_len, hlen, all_id_replicate D _ hD]
  rw [mkBody_mkC _ _ _ _ _ _ hm]
  refine ⟨BInv.mkC _ _ ?_ h.conf, rfl, rfl⟩
  exact (Rect4.viewData sc isZero h.data h.conf).map3 _ _ fun pt _ => rowMat_len sc pt m

end PoseVerif

namespace PoseVerif
variable {S : Type}

/-! ## interpolation -/

theorem linspace01_length (sc : Scalar S) (n : Nat) : (linspace01 sc n).length = n := by
  unfold linspace01
  split
  · rename_i h; simp [h]
  · simp

theorem lerpAt_length (sc : Scalar S) [Inhabited S] (xs : List S) (ys : List (List S)) (x : S) (w : Nat) (hxy : xs.length = ys.length) (h2 : 2 ≤ xs.length)
    (hys : ∀ y ∈ ys, y.length = w) : (lerpAt sc xs ys x).length = w := by
  unfold lerpAt
  simp only [List.length_zipWith]
  have hhi : max 1 (min (firstIdx (fun xi => leS sc x xi) xs) (xs.length - 1)) < ys.length := by omega
  have hlo : max 1 (min (firstIdx (fun xi => leS sc x xi) xs) (xs.length - 1)) - 1 < ys.length := by omega
  rw [hys _ (getD_mem ys _ [] hlo), hys _ (getD_mem ys _ [] hhi), Nat.min_self]

theorem interpTrack_rect (sc : Scalar S) [Inhabited S] (steps newSteps : List S) (rows : List (Option (List S))) (w : Nat)
    (hrows : ∀ r ∈ rows, ∀ v, r = some v → v.length = w) :
    RectL newSteps.length (fun row : List S => row.length = w) (interpTrack sc steps newSteps rows w) := by
  unfold interpTrack
  have hobs : ∀ sv ∈ (steps.zip rows).filterMap (fun (x : S × Option (List S)) => x.2.map fun v => (x.1, v)), sv.2.length = w := by
    intro sv hsv
    obtain ⟨⟨s, r⟩, hmem, hmap⟩ := List.mem_filterMap.mp hsv
    cases r with
    | none => simp at hmap
    | some v =>
      simp at hmap; subst hmap
      exact hrows (some v) (List.of_mem_zip hmem).2 v rfl
  generalize (steps.zip rows).filterMap (fun (x : S × Option (List S)) => x.2.map fun v => (x.1, v)) = obs at hobs
  cases obs with
  | nil => exact ⟨by simp, by intro y hy; simp at hy; obtain ⟨_, rfl⟩ := hy; simp⟩
  | cons o rest =>
    obtain ⟨first, v0⟩ := o
    refine ⟨by simp, ?_⟩
    intro y hy
    obtain ⟨i, hi, rfl⟩ := List.getElem_of_mem hy
    simp only [List.getElem_mapIdx]
    split
    · cases rest with
      | nil => exact hobs (first, v0) (by simp)
      | cons o2 rest2 =>
        simp only []
        apply lerpAt_length
        · simp
        · simp
        · intro y hy
          obtain ⟨sv, hsv, rfl⟩ := List.mem_map.mp hy
          exact hobs sv hsv
    · simp

end PoseVerif

namespace PoseVerif
variable {S : Type}

theorem numDims_of_rect {α : Type} {F P N D : Nat} {d : A4 α} (hd : Rect4 F P N D d) (hF : 0 < F) (hP : 0 < P) (hN : 0 < N) :
    (((d.headD []).headD []).headD []).length = D := by
  cases d with
  | nil => have := hd.1; simp at this; omega
  | cons fr rest =>
    have hfr := hd.2 fr (by simp)
    cases fr with
    | nil => have := hfr.1; simp at this; omega
    | cons pe r2 =>
      have hpe := hfr.2 pe (by simp)
      cases pe with
      | nil => have := hpe.1; simp at this; omega
      | cons pt r3 => exact hpe.2 pt (by simp)

theorem numPeople_of_rect {α : Type} {F P N : Nat} {c : A3 α} (hc : Rect3 F P N c) (hF : 0 < F) : (c.headD []).length = P := by
  cases c with
  | nil => have := hc.1; simp at this; omega
  | cons fr rest => exact (hc.2 fr (by simp)).1

theorem interpolate_inv [Inhabited S] (sc : Scalar S) {isZero : S → Bool} {F P N D : Nat} {b : PBody S} (h : BInv isZero F P N D b)
    (hF : 2 ≤ F) (hP : 0 < P) (hN : 0 < N) (newFps : S) (newFrames : Nat) :
    ∃ r, interpolateBody sc isZero newFps newFrames b = some r ∧ BInv isZero newFrames P N D r ∧ r.fps = newFps := by
  unfold interpolateBody
  have hF1 : b.data.length ≠ 1 := by rw [h.data.1]; omega
  simp only [hF1, if_false]
  rw [numPeople_of_rect h.conf (by omega), numPoints_of_rect h.conf (by omega) hP, numDims_of_rect h.data (by omega) hP hN, h.data.1]
  refine ⟨_, rfl, ?_, rfl⟩
  have hmk : ∀ (d : A4 S) (c : A3 S), mkBody Backend.numpy isZero newFps d c none = mkC isZero newFps d c := fun _ _ => rfl
  rw [hmk]
  have htrack : ∀ p n, p < P → n < N →
      RectL newFrames (fun row : List S => row.length = D + 1)
        (interpTrack sc (linspace01 sc F) (linspace01 sc newFrames)
          ((List.range F).map fun f =>
            if isZero (((b.conf.getD f []).getD p []).getD n default) then none
            else some ((((b.data.getD f []).getD p []).getD n []) ++ [((b.conf.getD f []).getD p []).getD n default])) (D + 1)) := by
    intro p n hp hn
    have := interpTrack_rect sc (linspace01 sc F) (linspace01 sc newFrames)
      ((List.range F).map fun f =>
            if isZero (((b.conf.getD f []).getD p []).getD n default) then none
            else some ((((b.data.getD f []).getD p []).getD n []) ++ [((b.conf.getD f []).getD p []).getD n default])) (D + 1) ?_
    · rwa [linspace01_length] at this
    · intro r hr v hv
      obtain ⟨f, hf, rfl⟩ := List.mem_map.mp hr
      have hf' : f < F := List.mem_range.mp hf
      split at hv
      · cases hv
      · cases hv
        have h1 := RectL.getD h.data f [] hf'
        have h2 := RectL.getD h1 p [] hp
        have h3 := RectL.getD h2 n [] hn
        rw [List.length_append, h3]; rfl
  refine BInv.mkC _ _ ?_ ?_
  · refine RectL.range_map _ _ fun t ht => RectL.range_map _ _ fun p hp => RectL.range_map _ _ fun n hn => ?_
    have hrow := RectL.getD (htrack p n hp hn) t (List.replicate (D + 1) sc.zero) ht
    simp only [List.length_take, hrow]
    omega
  · exact RectL.range_map _ _ fun t _ => RectL.range_map _ _ fun p _ => by simp

end PoseVerif

namespace PoseVerif
variable {S : Type}

/-! ## interpolation of any kind -/

/-- an interpolant that returns rows as wide as its samples (every scipy kind does: it interpolates along axis 0) -/
def KeepsWidth (kind : List S → List (List S) → S → List S) : Prop :=
  ∀ (w : Nat) (xs : List S) (ys : List (List S)) (x : S), (∀ y ∈ ys, y.length = w) → (kind xs ys x).length = w

theorem interpTrackWith_rect (sc : Scalar S) (kind : List S → List (List S) → S → List S) (hk : KeepsWidth kind) (steps newSteps : List S) (rows : List (Option (List S))) (w : Nat)
    (hrows : ∀ r ∈ rows, ∀ v, r = some v → v.length = w) :
    RectL newSteps.length (fun row : List S => row.length = w) (interpTrackWith sc kind steps newSteps rows w) := by
  unfold interpTrackWith
  have hobs : ∀ sv ∈ (steps.zip rows).filterMap (fun (x : S × Option (List S)) => x.2.map fun v => (x.1, v)), sv.2.length = w := by
    intro sv hsv
    obtain ⟨⟨s, r⟩, hmem, hmap⟩ := List.mem_filterMap.mp hsv
    cases r with
    | none => simp at hmap
    | some v =>
      simp at hmap; subst hmap
      exact hrows (some v) (List.of_mem_zip hmem).2 v rfl
  generalize (steps.zip rows).filterMap (fun (x : S × Option (List S)) => x.2.map fun v => (x.1, v)) = obs at hobs
  cases obs with
  | nil => exact ⟨by simp, by intro y hy; simp at hy; obtain ⟨_, rfl⟩ := hy; simp⟩
  | cons o rest =>
    obtain ⟨first, v0⟩ := o
    refine ⟨by simp, ?_⟩
    intro y hy
    obtain ⟨i, hi, rfl⟩ := List.getElem_of_mem hy
    simp only [List.getElem_mapIdx]
    split
    · cases rest with
      | nil => exact hobs (first, v0) (by simp)
      | cons o2 rest2 =>
        simp only []
        apply hk
        intro y hy
        obtain ⟨sv, hsv, rfl⟩ := List.mem_map.mp hy
        exact hobs sv hsv
    · simp

/-- **interpolation of any kind keeps a body well-formed**: shapes `(new frames, people, points, dims)`, confidences `(new frames, people, points)`, and the missing pattern is
    the one derived from the (interpolated) confidences -/
theorem interpolateWith_inv [Inhabited S] (sc : Scalar S) {isZero : S → Bool} (kind : List S → List (List S) → S → List S) (hk : KeepsWidth kind)
    {F P N D : Nat} {b : PBody S} (h : BInv isZero F P N D b) (hF : 2 ≤ F) (hP : 0 < P) (hN : 0 < N) (newFps : S) (newFrames : Nat) :
    ∃ r, interpolateBodyWith sc isZero kind newFps newFrames b = some r ∧ BInv isZero newFrames P N D r ∧ r.fps = newFps := by
  unfold interpolateBodyWith
  have hF1 : b.data.length ≠ 1 := by rw [h.data.1]; omega
  simp only [hF1, if_false]
  rw [numPeople_of_rect h.conf (by omega), numPoints_of_rect h.conf (by omega) hP, numDims_of_rect h.data (by omega) hP hN, h.data.1]
  refine ⟨_, rfl, ?_, rfl⟩
  have hmk : ∀ (d : A4 S) (c : A3 S), mkBody Backend.numpy isZero newFps d c none = mkC isZero newFps d c := fun _ _ => rfl
  rw [hmk]
  have htrack : ∀ p n, p < P → n < N →
      RectL newFrames (fun row : List S => row.length = D + 1)
        (interpTrackWith sc kind (linspace01 sc F) (linspace01 sc newFrames)
          ((List.range F).map fun f =>
            if isZero (((b.conf.getD f []).getD p []).getD n default) then none
            else some ((((b.data.getD f []).getD p []).getD n []) ++ [((b.conf.getD f []).getD p []).getD n default])) (D + 1)) := by
    intro p n hp hn
    have := interpTrackWith_rect sc kind hk (linspace01 sc F) (linspace01 sc newFrames)
      ((List.range F).map fun f =>
            if isZero (((b.conf.getD f []).getD p []).getD n default) then none
            else some ((((b.data.getD f []).getD p []).getD n []) ++ [((b.conf.getD f []).getD p []).getD n default])) (D + 1) ?_
    · rwa [linspace01_length] at this
    · intro r hr v hv
      obtain ⟨f, hf, rfl⟩ := List.mem_map.mp hr
      have hf' : f < F := List.mem_range.mp hf
      split at hv
      · cases hv
      · cases hv
        have h1 := RectL.getD h.data f [] hf'
        have h2 := RectL.getD h1 p [] hp
        have h3 := RectL.getD h2 n [] hn
        rw [List.length_append, h3]; rfl
  refine BInv.mkC _ _ ?_ ?_
  · refine RectL.range_map _ _ fun t ht => RectL.range_map _ _ fun p hp => RectL.range_map _ _ fun n hn => ?_
    have hrow := RectL.getD (htrack p n hp hn) t (List.replicate (D + 1) sc.zero) ht
    simp only [List.length_take, hrow]
    omega
  · exact RectL.range_map _ _ fun t _ => RectL.range_map _ _ fun p _ => by simp

/-! ## bounding boxes -/

theorem minOpt_isNone (sc : Scalar S) (l : List S) : (minOpt sc l).isNone = l.isEmpty := by cases l <;> rfl
theorem maxOpt_isNone (sc : Scalar S) (l : List S) : (maxOpt sc l).isNone = l.isEmpty := by cases l <;> rfl

theorem mem_zip_zipWith {α γ δ : Type} (K : α → γ → δ) {a : List α} {c : List γ} {x : α} {y : δ} (h : (x, y) ∈ a.zip (List.zipWith K a c)) :
    x ∈ a ∧ ∃ z ∈ c, y = K x z := by
  induction a generalizing c with
  | nil => simp at h
  | cons a0 as ih =>
    cases c with
    | nil => simp at h
    | cons c0 cs =>
      simp only [List.zipWith_cons_cons, List.zip_cons_cons, List.mem_cons, Prod.mk.injEq] at h
      rcases h with ⟨rfl, rfl⟩ | h
      · exact ⟨by simp, c0, by simp, rfl⟩
      · obtain ⟨h1, z, hz, h2⟩ := ih h
        exact ⟨List.mem_cons_of_mem _ h1, z, List.mem_cons_of_mem _ hz, h2⟩

/-- the flags of one person of a consistent body: per point either out of range (`[]`) or the same flag for all `D` coordinates -/
def UniformFlags (D : Nat) (mpe : List (List Bool)) : Prop := ∀ i, mpe.getD i [] = [] ∨ ∃ z, mpe.getD i [] = List.replicate D z

theorem uniformFlags_kpt (isZero : S → Bool) {N D : Nat} {pe : List (List S)} (hpe : RectL N (fun pt : List S => pt.length = D) pe) (cp : List S) :
    UniformFlags D (List.zipWith (kpt isZero) pe cp) := by
  intro i
  simp only [List.getD_eq_getElem?_getD, List.getElem?_zipWith]
  cases h1 : pe[i]? with
  | none => left; rfl
  | some x =>
    cases h2 : cp[i]? with
    | none => left; rfl
    | some y =>
      right
      refine ⟨isZero y, ?_⟩
      simp only [Option.getD_some]
      rw [kpt_eq_replicate, hpe.2 x (List.mem_of_getElem? h1)]

theorem uniform_getD {D : Nat} {mpe : List (List Bool)} (hu : UniformFlags D mpe) (i d : Nat) (hd : d < D) : (mpe.getD i []).getD d true = (mpe.getD i []).getD 0 true := by
  rcases hu i with h | ⟨z, h⟩
  · rw [h]; rfl
  · rw [h]
    simp only [List.getD_eq_getElem?_getD, List.getElem?_replicate, hd, if_true, Option.getD_some]
    have : 0 < D := by omega
    simp [this]

/-- one corner of a box: its per-coordinate flags are the flags the constructor would derive from its confidence -/
def GoodBox (isZero : S → Bool) (D : Nat) (t : List S × List Bool × S) : Prop := t.1.length = D ∧ t.2.1 = kpt isZero t.1 t.2.2

theorem bboxBoxes_good [Inhabited S] (sc : Scalar S) (isZero : S → Bool) (hz : isZero sc.zero = true) (h1 : isZero (sc.ofNat 1) = false)
    (sizes : List Nat) (D : Nat) (pe : List (List S)) (mpe : List (List Bool)) (hu : UniformFlags D mpe) :
    (bboxBoxes sc sizes D pe mpe).length = 2 * sizes.length ∧ ∀ t ∈ bboxBoxes sc sizes D pe mpe, GoodBox isZero D t := by
  unfold bboxBoxes
  have hobs : ∀ (n off d : Nat), d < D →
      ((List.range n).filterMap fun j => if (mpe.getD (off + j) []).getD d true then none else some ((pe.getD (off + j) []).getD d default)).isEmpty =
      ((List.range n).filterMap fun j => if (mpe.getD (off + j) []).getD 0 true then none else some ((pe.getD (off + j) []).getD 0 default)).isEmpty := by
    intro n off d hd
    rw [Bool.eq_iff_iff]
    simp only [List.isEmpty_iff, List.filterMap_eq_nil_iff]
    constructor
    · intro h j hj
      have := h j hj
      rw [uniform_getD hu _ d hd] at this
      split at this
      · rename_i hc; rw [if_pos hc]
      · cases this
    · intro h j hj
      have := h j hj
      rw [uniform_getD hu _ d hd]
      split at this
      · rename_i hc; rw [if_pos hc]
      · cases this
  constructor
  · rw [List.length_flatMap]
    have : ∀ l : List (Nat × Nat), (l.map fun x => (2 : Nat)).sum = 2 * l.length := by
      intro l; induction l with
      | nil => rfl
      | cons a as ih => simp [ih]; omega
    have hl : (sizes.zip (compOffs sizes)).length = sizes.length := by
      simp only [List.length_zip]
      have : (compOffs sizes).length = sizes.length := by
        unfold compOffs
        have gen : ∀ (l : List Nat) (acc : List Nat × Nat), (l.foldl (fun (acc : List Nat × Nat) n => (acc.1 ++ [acc.2], acc.2 + n)) acc).1.length = acc.1.length + l.length := by
          intro l; induction l with
          | nil => intro acc; rfl
          | cons a as ih => intro acc; simp only [List.foldl_cons, ih, List.length_append, List.length_cons, List.length_nil]; omega
        simpa using gen sizes ([], 0)
      omega
    simp only [List.length_cons, List.length_nil]
    rw [this, hl]
  · intro t ht
    obtain ⟨⟨n, off⟩, _, ht⟩ := List.mem_flatMap.mp ht
    simp only [List.mem_cons, List.not_mem_nil, or_false] at ht
    have key : ∀ (f : List S → Option S) (hf : ∀ l, (f l).isNone = l.isEmpty),
        GoodBox isZero D
          (((List.range D).map fun d => f ((List.range n).filterMap fun j => if (mpe.getD (off + j) []).getD d true then none else some ((pe.getD (off + j) []).getD d default))).map (·.getD sc.zero),
           ((List.range D).map fun d => f ((List.range n).filterMap fun j => if (mpe.getD (off + j) []).getD d true then none else some ((pe.getD (off + j) []).getD d default))).map (·.isNone),
           if ((((List.range D).map fun d => f ((List.range n).filterMap fun j => if (mpe.getD (off + j) []).getD d true then none else some ((pe.getD (off + j) []).getD d default))).headD none).isNone) then sc.zero else sc.ofNat 1) := by
      intro f hf
      refine ⟨by simp, ?_⟩
      simp only [kpt_eq_replicate, List.length_map, List.length_range]
      cases D with
      | zero => rfl
      | succ k =>
        apply List.ext_getElem
        · simp
        · intro i hi1 hi2
          simp only [List.length_map, List.length_range] at hi1
          simp only [List.getElem_map, List.getElem_range, List.getElem_replicate, hf]
          rw [hobs n off i hi1]
          have h0 : (List.range (k + 1)) = 0 :: (List.range' 1 k) := by rw [List.range_eq_range', List.range'_succ]
          simp only [h0, List.map_cons, List.headD_cons, hf]
          cases hc : ((List.range n).filterMap fun j => if (mpe.getD (off + j) []).getD 0 true then none else some ((pe.getD (off + j) []).getD 0 default)).isEmpty with
          | true => simp [hz]
          | false => simp [h1]
    rcases ht with rfl | rfl
    · exact key (minOpt sc) (minOpt_isNone sc)
    · exact key (maxOpt sc) (maxOpt_isNone sc)

end PoseVerif

namespace PoseVerif
variable {S : Type}

theorem zipWith_kpt_boxes (isZero : S → Bool) (D : Nat) (B : List (List S × List Bool × S)) (h : ∀ t ∈ B, GoodBox isZero D t) :
    List.zipWith (kpt isZero) (B.map (·.1)) (B.map (·.2.2)) = B.map (·.2.1) := by
  induction B with
  | nil => rfl
  | cons t ts ih =>
    simp only [List.map_cons, List.zipWith_cons_cons]
    rw [ih fun u hu => h u (List.mem_cons_of_mem _ hu), (h t (by simp)).2]

theorem bbox_inv [Inhabited S] (sc : Scalar S) {isZero : S → Bool} (hz : isZero sc.zero = true) (h1 : isZero (sc.ofNat 1) = false) {F P N D : Nat} {b : PBody S}
    (h : BInv isZero F P N D b) (hF : 0 < F) (hP : 0 < P) (hN : 0 < N) (sizes : List Nat) :
    BInv isZero F P (2 * sizes.length) D (bboxBody sc isZero sizes b) ∧ (bboxBody sc isZero sizes b).fps = b.fps := by
  unfold bboxBody numDimsBody
  rw [numDims_of_rect h.data hF hP hN, h.consistent, deriveMissing_eq]
  -- facts about every (person, flags) pair of the body
  have hpair : ∀ x ∈ b.data.zip (List.zipWith (List.zipWith (List.zipWith (kpt isZero))) b.data b.conf),
      x.1.length = P ∧ x.2.length = P ∧ ∀ y ∈ x.1.zip x.2, UniformFlags D y.2 := by
    intro ⟨fr, mfr⟩ hx
    obtain ⟨hfr, cf, hcf, rfl⟩ := mem_zip_zipWith _ hx
    have hfrR := h.data.2 fr hfr
    have hcfR := h.conf.2 cf hcf
    refine ⟨hfrR.1, by simp [hfrR.1, hcfR.1], ?_⟩
    intro ⟨pe, mpe⟩ hy
    obtain ⟨hpe, cp, _, rfl⟩ := mem_zip_zipWith _ hy
    exact uniformFlags_kpt isZero (hfrR.2 pe hpe) cp
  have hm : ((b.data.zip (List.zipWith (List.zipWith (List.zipWith (kpt isZero))) b.data b.conf)).map fun x =>
        (x.1.zip x.2).map fun y => (bboxBoxes sc sizes D y.1 y.2).map (·.2.1)) =
      deriveMissing isZero
        ((b.data.zip (List.zipWith (List.zipWith (List.zipWith (kpt isZero))) b.data b.conf)).map fun x =>
          (x.1.zip x.2).map fun y => (bboxBoxes sc sizes D y.1 y.2).map (·.1))
        ((b.data.zip (List.zipWith (List.zipWith (List.zipWith (kpt isZero))) b.data b.conf)).map fun x =>
          (x.1.zip x.2).map fun y => (bboxBoxes sc sizes D y.1 y.2).map (·.2.2)) := by
    rw [deriveMissing_eq]
    simp only [List.zipWith_map_left, List.zipWith_map_right, List.zipWith_self]
    apply List.map_congr_left
    intro x hx
    apply List.map_congr_left
    intro y hy
    apply List.map_congr_left
    intro t ht
    exact ((bboxBoxes_good sc isZero hz h1 sizes D y.1 y.2 ((hpair x hx).2.2 y hy)).2 t ht).2
  have hL : (b.data.zip (List.zipWith (List.zipWith (List.zipWith (kpt isZero))) b.data b.conf)).length = F := by
    simp [h.data.1, h.conf.1]
  show BInv isZero F P (2 * sizes.length) D (mkBody Backend.numpy isZero b.fps _ _ (some _)) ∧ _
  rw [mkBody_mkC _ _ _ _ _ _ hm]
  refine ⟨BInv.mkC _ _ ?_ ?_, rfl⟩
  · refine ⟨by simp [hL], ?_⟩
    intro fr' hfr'
    obtain ⟨x, hx, rfl⟩ := List.mem_map.mp hfr'
    obtain ⟨hx1, hx2, hx3⟩ := hpair x hx
    refine ⟨by simp [hx1, hx2], ?_⟩
    intro pe' hpe'
    obtain ⟨y, hy, rfl⟩ := List.mem_map.mp hpe'
    have hg := bboxBoxes_good sc isZero hz h1 sizes D y.1 y.2 (hx3 y hy)
    refine ⟨by simp [hg.1], ?_⟩
    intro pt hpt
    obtain ⟨t, ht, rfl⟩ := List.mem_map.mp hpt
    exact (hg.2 t ht).1
  · refine ⟨by simp [hL], ?_⟩
    intro fr' hfr'
    obtain ⟨x, hx, rfl⟩ := List.mem_map.mp hfr'
    obtain ⟨hx1, hx2, hx3⟩ := hpair x hx
    refine ⟨by simp [hx1, hx2], ?_⟩
    intro pe' hpe'
    obtain ⟨y, hy, rfl⟩ := List.mem_map.mp hpe'
    have hg := bboxBoxes_good sc isZero hz h1 sizes D y.1 y.2 (hx3 y hy)
    simp [hg.1]

end PoseVerif
