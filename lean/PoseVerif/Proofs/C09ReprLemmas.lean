import PoseVerif.Props.C17
/-! Definitions and helper lemmas for `Props/C09Repr.lean` (feature representations do not look under the mask). -/
namespace PoseVerif.Props.C09Repr
open PoseVerif PoseVerif.Props.C17
variable {S : Type}

/-! ### the representations do not look under the mask (C09, feature representations) -/

/-- two fillings of one point: as many coordinates, and the same ones when the point is observed -/
def PtAgree (a a' : List S) (ok : Bool) : Prop := a.length = a'.length ∧ (ok = true → a = a')

theorem angle_missing (sc : Scalar S) [Inhabited S] (atanF : S → S) (a b : List S) (oka okb : Bool) (hok : (oka && okb) = false) :
    angleRep sc atanF (mkPoint a oka) (mkPoint b okb) = atanF sc.zero := by
  unfold angleRep
  simp only []
  have hflag : ∀ i, ((List.zipWith (mvBin sc.sub) (mkPoint b okb) (mkPoint a oka)).getD i (default, false)).2 = false := by
    intro i
    simp only [List.getD_eq_getElem?_getD, List.getElem?_zipWith, mkPoint, List.getElem?_map]
    cases b[i]? <;> cases a[i]? <;> simp [mvBin, Bool.and_comm, hok]
  have : (mvFixNan sc (mvBin sc.div ((List.zipWith (mvBin sc.sub) (mkPoint b okb) (mkPoint a oka)).getD 1 (default, false))
      ((List.zipWith (mvBin sc.sub) (mkPoint b okb) (mkPoint a oka)).getD 0 (default, false)))).2 = false := by
    show ((_ : MV S).2 && _) = false
    rw [hflag 1]; rfl
  simp only [mvZeroFilled, this, Bool.false_eq_true, if_false]

theorem innerAngle_missing (sc : Scalar S) (acosF : S → S) (a b c : List S) (oka okb okc : Bool)
    (hne : 0 < min a.length (min b.length c.length)) (hok : (oka && okb && okc) = false) :
    innerAngleRep sc acosF (mkPoint a oka) (mkPoint b okb) (mkPoint c okc) = sc.zero := by
  cases a with
  | nil => simp at hne
  | cons x xs =>
    cases b with
    | nil => simp at hne
    | cons y ys =>
      cases c with
      | nil => simp at hne
      | cons z zs =>
        unfold innerAngleRep
        simp only []
        have hfl : (mvSum sc (List.zipWith (mvBin sc.mul) (mvNormalize sc (List.zipWith (mvBin sc.sub) (mkPoint (x :: xs) oka) (mkPoint (y :: ys) okb)))
            (mvNormalize sc (List.zipWith (mvBin sc.sub) (mkPoint (z :: zs) okc) (mkPoint (y :: ys) okb))))).2 = false := by
          simp only [mvSum, mvNormalize, mkPoint, List.map_cons, List.zipWith_cons_cons, List.all_cons, mvBin, mvUn]
          cases oka <;> cases okb <;> cases okc <;> simp_all
        simp only [mvZeroFilled, mvUn, hfl, Bool.false_eq_true, if_false]
        split <;> rfl


/-- input as the pose body gives it: per (point, batch, len) the stored coordinates and whether the point is observed -/
abbrev RawPts (S : Type) := List (List (List (List S × Bool)))
def mkPts (raw : RawPts S) : List (List (List (List (MV S)))) := raw.map (List.map (List.map fun t => mkPoint t.1 t.2))
def rawCell (raw : RawPts S) (i b l : Nat) : List S × Bool := ((raw.getD i []).getD b []).getD l ([], false)
/-- same flag, as many coordinates, the same ones when observed -/
def PtRel (t t' : List S × Bool) : Prop := t.2 = t'.2 ∧ PtAgree t.1 t'.1 t.2

theorem cellPt_mkPts (raw : RawPts S) (i b l : Nat) : cellPt (mkPts raw) i b l = mkPoint (rawCell raw i b l).1 (rawCell raw i b l).2 := by
  unfold cellPt mkPts rawCell
  simp only [List.getD_eq_getElem?_getD, List.getElem?_map]
  cases raw[i]? with
  | none => rfl
  | some g =>
    simp only [Option.map_some, Option.getD_some, List.getElem?_map]
    cases g[b]? with
    | none => rfl
    | some r =>
      simp only [Option.map_some, Option.getD_some, List.getElem?_map]
      cases r[l]? with
      | none => rfl
      | some t => rfl

theorem rawCell_rel (raw raw' : RawPts S) (h : F2 (F2 (F2 PtRel)) raw raw') (i b l : Nat) : PtRel (rawCell raw i b l) (rawCell raw' i b l) := by
  unfold rawCell
  have h1 : F2 (F2 PtRel) (raw.getD i []) (raw'.getD i []) := h.getD F2.nil i
  have h2 : F2 PtRel ((raw.getD i []).getD b []) ((raw'.getD i []).getD b []) := h1.getD F2.nil b
  exact h2.getD ⟨rfl, rfl, fun _ => rfl⟩ l

theorem F2_map_eq {α β γ : Type} {R : α → β → Prop} {a : List α} {b : List β} (h : F2 R a b) (f : α → γ) (g : β → γ) (hfg : ∀ x y, R x y → f x = g y) :
    a.map f = b.map g := by
  induction h with
  | nil => rfl
  | cons hxy _ ih => simp only [List.map_cons, hfg _ _ hxy, ih]


end PoseVerif.Props.C09Repr
