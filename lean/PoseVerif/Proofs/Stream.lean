import PoseVerif.Model.Stream
import PoseVerif.Proofs.Prog
/-!
Simulation of `BufferReader` by `BytesIOReader` (`SR`), for every reader program made of the core operations.
Invariants: `Al` — the buffer from the cursor on is the file from the read offset on; `Disc` — once a skip happened there are
no unread bytes in the buffer (so `buffer[:read_offset]` in `skip` drops nothing that is still needed).
-/
namespace PoseVerif
open Prog

namespace SR

structure Al (s : SR) : Prop where
  le : s.skipped ≤ s.off
  tail : s.buf.drop s.k = (s.file.drop s.off).take (s.buf.length - s.k)

def Disc (s : SR) : Prop := s.skipped = 0 ∨ s.buf.length ≤ s.k

theorem Al.avail {s : SR} (h : Al s) : s.buf.length - s.k ≤ s.file.length - s.off := by
  have := congrArg List.length h.tail
  simp only [List.length_drop, List.length_take] at this
  omega

theorem k_add_skipped {s : SR} (h : s.skipped ≤ s.off) : s.k + s.skipped = s.off := by
  unfold k; omega

/-- reading a chunk keeps the buffer aligned with the file -/
theorem readChunk_al (s : SR) (c : Nat) (h : Al s) : Al (s.readChunk c) := by
  have hav := h.avail
  obtain ⟨hle, htail⟩ := h
  have hk := k_add_skipped hle
  refine ⟨hle, ?_⟩
  show (s.buf ++ (s.file.drop (s.buf.length + s.skipped)).take c).drop s.k =
    (s.file.drop s.off).take ((s.buf ++ (s.file.drop (s.buf.length + s.skipped)).take c).length - s.k)
  by_cases hc : s.k ≤ s.buf.length
  · rw [List.drop_append_of_le_length hc, htail]
    have hpos : s.buf.length + s.skipped = s.off + (s.buf.length - s.k) := by omega
    rw [hpos, ← List.drop_drop, ← List.take_add, List.take_eq_take_iff]
    simp only [List.length_append, List.length_take, List.length_drop]
    omega
  · have hlt : s.buf.length < s.k := by omega
    rw [List.drop_append, List.drop_eq_nil_of_le (by omega), List.nil_append, List.drop_take, List.drop_drop]
    have hpos : s.buf.length + s.skipped + (s.k - s.buf.length) = s.off := by omega
    rw [hpos, List.take_eq_take_iff]
    simp only [List.length_append, List.length_take, List.length_drop]
    omega

theorem readChunk_len (s : SR) (c : Nat) :
    (s.readChunk c).buf.length = s.buf.length + min c (s.file.length - (s.buf.length + s.skipped)) := by
  simp [readChunk, List.length_append, List.length_take, List.length_drop]

theorem readChunk_same (s : SR) (c : Nat) :
    (s.readChunk c).off = s.off ∧ (s.readChunk c).skipped = s.skipped ∧ (s.readChunk c).file = s.file := ⟨rfl, rfl, rfl⟩

/-- what `expect_to_read(n)` achieves when the file has the `n` bytes -/
theorem expect_ok (s : SR) (n : Nat) (h : Al s) (hfile : s.off + n ≤ s.file.length) :
    ∃ s1, s.expect n = some s1 ∧ Al s1 ∧ s1.off = s.off ∧ s1.skipped = s.skipped ∧ s1.file = s.file ∧ s1.k + n ≤ s1.buf.length ∧
      s.buf.length ≤ s1.buf.length ∧ (s.k + n ≤ s.buf.length → s1 = s) ∧
      s1.pulled + (s.buf.length : Int) ≤ s.pulled + max (s.buf.length : Int) (s.k + n) ∧
      s1.buf.length ≤ max s.buf.length (s.k + n) := by
  have hav := h.avail
  have hle := h.le
  have hk := k_add_skipped hle
  unfold expect
  by_cases hlt : s.bytesLeft < n
  · rw [if_pos hlt]
    have hbl : s.bytesLeft = (s.buf.length : Int) - s.k := by unfold bytesLeft; omega
    have hc : ((n : Int) - s.bytesLeft).toNat = n + s.k - s.buf.length := by omega
    rw [hc]
    have hlen := readChunk_len s (n + s.k - s.buf.length)
    have hA := readChunk_al s (n + s.k - s.buf.length) h
    have hge : s.k + n ≤ (s.readChunk (n + s.k - s.buf.length)).buf.length := by rw [hlen]; omega
    have hne : (s.readChunk (n + s.k - s.buf.length)).buf.isEmpty = false := by
      rw [List.isEmpty_eq_false_iff]; intro hnil
      have : (s.readChunk (n + s.k - s.buf.length)).buf.length = 0 := by rw [hnil]; rfl
      rw [hlen] at this; rw [hbl] at hlt; omega
    simp only [hne, Bool.false_eq_true, if_false]
    refine ⟨_, rfl, hA, rfl, rfl, rfl, hge, by rw [hlen]; omega, ?_, ?_, by rw [hlen]; omega⟩
    · intro hfit; rw [hbl] at hlt; omega
    · have : (s.readChunk (n + s.k - s.buf.length)).pulled = s.pulled + min (n + s.k - s.buf.length) (s.file.length - (s.buf.length + s.skipped)) := by
        simp [readChunk, List.length_take, List.length_drop]
      rw [this]; omega
  · rw [if_neg hlt]
    have hbl : s.bytesLeft = (s.buf.length : Int) - s.k := by unfold bytesLeft; omega
    rw [hbl] at hlt
    exact ⟨s, rfl, h, rfl, rfl, rfl, by omega, by omega, fun _ => rfl, by omega, by omega⟩

end SR

open SR

/-- **Simulation.** Whatever `BufferReader` returns for a core program, `BytesIOReader` returns too, from any aligned state. -/
theorem sr_sim {α : Type} (p : Prog α) (hp : Core p) (s : SR) (hA : Al s) (hD : Disc s) (x : α) (o : Nat)
    (hbr : runBR p s.file s.off = some (x, o)) :
    ∃ s', SR.run p s = some (x, s') ∧ s'.off = o ∧ s'.file = s.file ∧ Al s' ∧ Disc s' := by
  induction p generalizing s with
  | ret a =>
    simp only [runBR, Option.some.injEq, Prod.mk.injEq] at hbr
    obtain ⟨rfl, rfl⟩ := hbr
    exact ⟨s, rfl, rfl, rfl, hA, hD⟩
  | fail => simp [runBR] at hbr
  | expect n k ih => exact absurd hp (by simp [Core])
  | setOff n k ih => exact absurd hp (by simp [Core])
  | peek n k ih => exact absurd hp (by simp [Core])
  | getOff k ih => exact absurd hp (by simp [Core])
  | fileLeft k ih =>
    simp only [runBR] at hbr
    simp only [SR.run]
    exact ih _ (hp _) s hA hD hbr
  | advance n k ih =>
    simp only [runBR] at hbr
    simp only [SR.run]
    have hle := hA.le
    have hk : ({ s with off := s.off + n } : SR).k = s.k + n := by simp only [SR.k]; omega
    have hA' : Al { s with off := s.off + n } := by
      refine ⟨by show s.skipped ≤ s.off + n; omega, ?_⟩
      rw [hk]
      show s.buf.drop (s.k + n) = (s.file.drop (s.off + n)).take (s.buf.length - (s.k + n))
      rw [← List.drop_drop, hA.tail, List.drop_take, List.drop_drop]
      congr 1; omega
    have hD' : Disc { s with off := s.off + n } := by
      rcases hD with h0 | h1
      · exact Or.inl h0
      · right; rw [hk]; show s.buf.length ≤ s.k + n; omega
    obtain ⟨s', h1, h2, h3, h4, h5⟩ := ih hp { s with off := s.off + n } hA' hD' hbr
    exact ⟨s', h1, h2, h3, h4, h5⟩
  | skip n k ih =>
    simp only [runBR] at hbr
    simp only [SR.run]
    have hle := hA.le
    have hkk : (s.skip n).k = s.k := by simp only [SR.skip, SR.k]; omega
    have hlen : (s.skip n).buf.length = min s.off s.buf.length := by simp [SR.skip]
    have hlek : (s.skip n).buf.length ≤ s.k := by
      rcases hD with h0 | h1
      · have : s.k = s.off := by unfold SR.k; omega
        omega
      · omega
    have hA' : Al (s.skip n) := by
      refine ⟨by show s.skipped + n ≤ s.off + n; omega, ?_⟩
      rw [hkk, List.drop_eq_nil_of_le hlek]
      have : (s.skip n).buf.length - s.k = 0 := by omega
      rw [this]; simp
    have hD' : Disc (s.skip n) := Or.inr (by rw [hkk]; exact hlek)
    obtain ⟨s', h1, h2, h3, h4, h5⟩ := ih hp (s.skip n) hA' hD' hbr
    exact ⟨s', h1, h2, h3, h4, h5⟩
  | unpack n k ih =>
    simp only [runBR] at hbr
    split at hbr
    · rename_i hfit
      obtain ⟨s1, he, hA1, hoff, hsk, hfile, hge, _, _, _, hmax⟩ := SR.expect_ok s n hA hfit
      have hle := hA.le
      have hk1 : s1.k = s.k := by simp only [SR.k, hoff, hsk]
      simp only [SR.run, he]
      rw [if_pos ⟨by rw [hsk, hoff]; exact hle, hge⟩]
      have hbytes : (s1.buf.drop s1.k).take n = (s.file.drop s.off).take n := by
        rw [hA1.tail, hoff, hfile, List.take_take]; congr 1; omega
      rw [hbytes]
      have hk2 : ({ s1 with off := s1.off + n } : SR).k = s1.k + n := by simp only [SR.k]; omega
      have hA' : Al { s1 with off := s1.off + n } := by
        refine ⟨by show s1.skipped ≤ s1.off + n; omega, ?_⟩
        rw [hk2]
        show s1.buf.drop (s1.k + n) = (s1.file.drop (s1.off + n)).take (s1.buf.length - (s1.k + n))
        rw [← List.drop_drop, hA1.tail, List.drop_take, List.drop_drop]
        congr 1; omega
      have hD' : Disc { s1 with off := s1.off + n } := by
        rcases hD with h0 | h1
        · exact Or.inl (by show s1.skipped = 0; omega)
        · right; rw [hk2]; show s1.buf.length ≤ s1.k + n; omega
      have hbr' : runBR (k ((s.file.drop s.off).take n)) ({ s1 with off := s1.off + n } : SR).file ({ s1 with off := s1.off + n } : SR).off = some (x, o) := by
        show runBR (k ((s.file.drop s.off).take n)) s1.file (s1.off + n) = some (x, o)
        rw [hfile, hoff]; exact hbr
      obtain ⟨s', h1, h2, h3, h4, h5⟩ := ih _ (hp _) { s1 with off := s1.off + n } hA' hD' hbr'
      exact ⟨s', h1, h2, by rw [h3]; exact hfile, h4, h5⟩
    · cases hbr

end PoseVerif
