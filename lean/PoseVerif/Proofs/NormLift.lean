import PoseVerif.Proofs.BodyRect
import PoseVerif.Model.Normalize
/-!
# A coordinate-wise transform of a well-formed body transforms every observed column value and nothing else
-/
namespace PoseVerif
variable {S : Type}

theorem flatMap_congr_mem {α β : Type} {l : List α} {f g : α → List β} (h : ∀ a ∈ l, f a = g a) : l.flatMap f = l.flatMap g := by
  induction l with
  | nil => rfl
  | cons x xs ih => simp only [List.flatMap_cons, h x (by simp), ih fun a ha => h a (List.mem_cons_of_mem _ ha)]

theorem getD_mapIdx_lt [Inhabited S] (g : Nat → S → S) (pt : List S) (d : Nat) (hd : d < pt.length) : (pt.mapIdx g).getD d default = g d (pt.getD d default) := by
  simp [List.getD_eq_getElem?_getD, List.getElem?_mapIdx, List.getElem?_eq_getElem hd]

theorem getD_map_nil {α : Type} (f : List α → List α) (hf : f [] = []) (l : List (List α)) (n : Nat) : (l.map f).getD n [] = f (l.getD n []) := by
  simp only [List.getD_eq_getElem?_getD, List.getElem?_map]
  cases l[n]? <;> simp [hf]

theorem getD_flag_lt (fl : List Bool) (d : Nat) (h : fl.getD d true = false) : d < fl.length := by
  apply Nat.lt_of_not_le
  intro hc
  simp [List.getD_eq_getElem?_getD, List.getElem?_eq_none hc] at h

/-- the body that a point-wise, index-respecting transform produces -/
def mapCoords (isZero : S → Bool) (g : Nat → S → S) (fps' : S) (b : PBody S) : PBody S :=
  mkBody .numpy isZero fps' (b.data.map (List.map (List.map fun pt => pt.mapIdx g))) b.conf (some b.missing)

theorem mapCoords_eq {isZero : S → Bool} {F P N D : Nat} {b : PBody S} (h : BInv isZero F P N D b) (g : Nat → S → S) (fps' : S) :
    mapCoords isZero g fps' b = ⟨fps', b.data.map (List.map (List.map fun pt => pt.mapIdx g)), b.conf, b.missing⟩ := by
  unfold mapCoords
  have hm : b.missing = deriveMissing isZero (b.data.map (List.map (List.map fun pt => pt.mapIdx g))) b.conf := by
    rw [derive_map3 isZero _ (fun pt => by simp)]; exact h.consistent
  rw [mkBody_mkC _ _ _ _ _ _ hm, mkC, ← hm]

theorem cellVals_mapCoords [Inhabited S] {isZero : S → Bool} {F P N D : Nat} {b : PBody S} (h : BInv isZero F P N D b) (g : Nat → S → S) (fps' : S) (n d : Nat) :
    cellVals (mapCoords isZero g fps' b) n d = (cellVals b n d).map (Option.map (g d)) := by
  rw [mapCoords_eq h]
  unfold cellVals
  simp only [List.zip_map_left, List.flatMap_map, List.map_flatMap, List.map_map]
  rw [h.consistent, deriveMissing_eq]
  apply flatMap_congr_mem
  intro ⟨fr, mfr⟩ hx
  obtain ⟨hfr, cf, hcf, rfl⟩ := mem_zip_zipWith _ hx
  simp only [Function.comp, Prod.map_apply, id, List.zip_map_left, List.map_map]
  apply List.map_congr_left
  intro ⟨pe, mpe⟩ hy
  obtain ⟨hpe, cp, hcp, rfl⟩ := mem_zip_zipWith _ hy
  simp only [Function.comp, Prod.map_apply, id]
  have hlen : pe.length = cp.length := by
    rw [((h.data.2 fr hfr).2 pe hpe).1, (h.conf.2 cf hcf).2 cp hcp]
  have hfl : (List.zipWith (kpt isZero) pe cp).getD n [] = kpt isZero (pe.getD n []) (cp.getD n default) := by
    have := getD_zipWith' (kpt isZero) pe cp hlen n [] default
    simpa [kpt] using this
  by_cases hflag : ((List.zipWith (kpt isZero) pe cp).getD n []).getD d true = true
  · rw [if_pos hflag, if_pos hflag]; rfl
  · have hflag' : ((List.zipWith (kpt isZero) pe cp).getD n []).getD d true = false := by simpa using hflag
    simp only [hflag', Bool.false_eq_true, if_false, Option.map_some]
    congr 1
    have hd : d < (pe.getD n []).length := by
      have := getD_flag_lt _ d hflag'
      rw [hfl, kpt_length] at this
      exact this
    rw [getD_map_nil (fun pt => pt.mapIdx g) (by simp) pe n, getD_mapIdx_lt g _ d hd]

end PoseVerif
