import PoseVerif.Proofs.Rect
import PoseVerif.Model.Spatial
import PoseVerif.Model.Interp
/-!
# Well-formed bodies and what each operation makes of them

`mkC fps d c` is the body every constructor produces from coordinates `d` and confidences `c`: the missing flags are derived from the confidences.
`Rect4 F P N D d`, `Rect3 F P N c`: the nested lists are ndarrays of shape `(F, P, N, D)` and `(F, P, N)`.
For each modelled operation a `*_spec` lemma computes its result on such a body in the same form.
`V3 d₁ d₂ c`: two coordinate arrays of the same shape that agree at every point whose confidence is not 0 (they may differ arbitrarily under the mask).
-/
namespace PoseVerif
variable {S : Type}

def Rect4 {α : Type} (F P N D : Nat) (d : A4 α) : Prop := RectL F (RectL P (RectL N (fun pt : List α => pt.length = D))) d
def Rect3 {α : Type} (F P N : Nat) (c : A3 α) : Prop := RectL F (RectL P (fun pe : List α => pe.length = N)) c

/-- the body a constructor builds from plain coordinates and confidences -/
def mkC (isZero : S → Bool) (fps : S) (d : A4 S) (c : A3 S) : PBody S := ⟨fps, d, c, deriveMissing isZero d c⟩

theorem rect_sameShape3 {α β : Type} {F P N D : Nat} {d : A4 α} {c : A3 β} (hd : Rect4 F P N D d) (hc : Rect3 F P N c) : SameShape3 d c := by
  refine (RectL.toF2 hd hc).mono ?_
  intro fr cf ⟨h1, h2⟩
  refine (RectL.toF2 h1 h2).mono ?_
  intro pe cp ⟨h3, h4⟩
  rw [h3.1, h4]

/-! ### the visible part of a point: its coordinates, or zeros when the confidence is 0 -/

def kpt (isZero : S → Bool) (pt : List S) (c : S) : List Bool := pt.map fun _ => isZero c

def vpt (sc : Scalar S) (isZero : S → Bool) (pt : List S) (c : S) : List S :=
  List.zipWith (fun x (m : Bool) => if m then sc.zero else x) pt (kpt isZero pt c)

def viewData (sc : Scalar S) (isZero : S → Bool) (d : A4 S) (c : A3 S) : A4 S := List.zipWith (List.zipWith (List.zipWith (vpt sc isZero))) d c

theorem deriveMissing_eq (isZero : S → Bool) (d : A4 S) (c : A3 S) : deriveMissing isZero d c = List.zipWith (List.zipWith (List.zipWith (kpt isZero))) d c := rfl

theorem zeroFill4_derive (sc : Scalar S) (isZero : S → Bool) (d : A4 S) (c : A3 S) :
    zeroFill4 sc d (deriveMissing isZero d c) = viewData sc isZero d c := by
  simp only [zeroFill4, deriveMissing_eq, viewData, zipWith_zipWith_self]
  rfl

@[simp] theorem kpt_length (isZero : S → Bool) (pt : List S) (c : S) : (kpt isZero pt c).length = pt.length := by simp [kpt]
@[simp] theorem vpt_length (sc : Scalar S) (isZero : S → Bool) (pt : List S) (c : S) : (vpt sc isZero pt c).length = pt.length := by simp [vpt]

theorem kpt_eq_replicate (isZero : S → Bool) (pt : List S) (c : S) : kpt isZero pt c = List.replicate pt.length (isZero c) := by
  simp [kpt, List.map_const']

theorem vpt_false (sc : Scalar S) (isZero : S → Bool) (pt : List S) (c : S) (h : isZero c = false) : vpt sc isZero pt c = pt := by
  simp only [vpt, kpt, h, List.zipWith_map_right, List.zipWith_self]
  simp

theorem vpt_true (sc : Scalar S) (isZero : S → Bool) (pt : List S) (c : S) (h : isZero c = true) : vpt sc isZero pt c = List.replicate pt.length sc.zero := by
  simp only [vpt, kpt, h, List.zipWith_map_right, List.zipWith_self]
  simp [List.map_const']

/-- same number of coordinates, and the same coordinates when the point is observed -/
def PtEq (isZero : S → Bool) (p q : List S) (c : S) : Prop := p.length = q.length ∧ (isZero c = false → p = q)

theorem PtEq.refl (isZero : S → Bool) (p : List S) (c : S) : PtEq isZero p p c := ⟨rfl, fun _ => rfl⟩

theorem PtEq.kpt {isZero : S → Bool} {p q : List S} {c : S} (h : PtEq isZero p q c) : kpt isZero p c = kpt isZero q c := by
  rw [kpt_eq_replicate, kpt_eq_replicate, h.1]

theorem PtEq.vpt (sc : Scalar S) {isZero : S → Bool} {p q : List S} {c : S} (h : PtEq isZero p q c) : vpt sc isZero p c = vpt sc isZero q c := by
  cases hz : isZero c with
  | false => rw [h.2 hz]
  | true => rw [vpt_true _ _ _ _ hz, vpt_true _ _ _ _ hz, h.1]

def V3 (isZero : S → Bool) (d₁ d₂ : A4 S) (c : A3 S) : Prop := F3 (F3 (F3 (PtEq isZero))) d₁ d₂ c

theorem V3.derive {isZero : S → Bool} {d₁ d₂ : A4 S} {c : A3 S} (h : V3 isZero d₁ d₂ c) : deriveMissing isZero d₁ c = deriveMissing isZero d₂ c := by
  rw [deriveMissing_eq, deriveMissing_eq]
  exact F3.zipWith_eq h _ _ fun _ _ _ h2 => F3.zipWith_eq h2 _ _ fun _ _ _ h3 => F3.zipWith_eq h3 _ _ fun _ _ _ h4 => h4.kpt

theorem V3.viewData (sc : Scalar S) {isZero : S → Bool} {d₁ d₂ : A4 S} {c : A3 S} (h : V3 isZero d₁ d₂ c) : viewData sc isZero d₁ c = viewData sc isZero d₂ c := by
  unfold PoseVerif.viewData
  exact F3.zipWith_eq h _ _ fun _ _ _ h2 => F3.zipWith_eq h2 _ _ fun _ _ _ h3 => F3.zipWith_eq h3 _ _ fun _ _ _ h4 => h4.vpt sc

/-- a well-shaped body is `V3`-related to itself -/
theorem V3.refl (isZero : S → Bool) {F P N D : Nat} {d : A4 S} {c : A3 S} (hd : Rect4 F P N D d) (hc : Rect3 F P N c) : V3 isZero d d c := by
  refine F3.ofF2 (RectL.toF2 hd hc) ?_
  intro fr cf ⟨h1, h2⟩
  refine F3.ofF2 (RectL.toF2 h1 h2) ?_
  intro pe cp ⟨h3, h4⟩
  have h5 : RectL N (fun _ : S => True) cp := ⟨h4, fun _ _ => trivial⟩
  refine F3.ofF2 (RectL.toF2 h3 h5) ?_
  intro pt cc _
  exact PtEq.refl isZero pt cc

/-! ### shape of derived arrays -/

theorem Rect4.viewData (sc : Scalar S) (isZero : S → Bool) {F P N D : Nat} {d : A4 S} {c : A3 S} (hd : Rect4 F P N D d) (hc : Rect3 F P N c) :
    Rect4 F P N D (viewData sc isZero d c) := by
  have h := (V3.refl isZero hd hc)
  unfold PoseVerif.viewData
  refine ⟨by rw [List.length_zipWith, ← h.length_ac, Nat.min_self]; exact hd.1, ?_⟩
  intro x hx
  obtain ⟨i, hi, rfl⟩ := List.getElem_of_mem hx
  simp only [List.getElem_zipWith]
  simp only [List.length_zipWith] at hi
  have hfr := hd.2 d[i] (List.getElem_mem _)
  have hcf := hc.2 c[i] (List.getElem_mem _)
  refine ⟨by rw [List.length_zipWith, hfr.1, hcf.1, Nat.min_self], ?_⟩
  intro y hy
  obtain ⟨j, hj, rfl⟩ := List.getElem_of_mem hy
  simp only [List.getElem_zipWith]
  simp only [List.length_zipWith] at hj
  have hpe := hfr.2 d[i][j] (List.getElem_mem _)
  have hcp := hcf.2 c[i][j] (List.getElem_mem _)
  refine ⟨by rw [List.length_zipWith, hpe.1, hcp, Nat.min_self], ?_⟩
  intro z hz
  obtain ⟨k, hk, rfl⟩ := List.getElem_of_mem hz
  simp only [List.getElem_zipWith, vpt_length]
  exact hpe.2 _ (List.getElem_mem _)

/-- the derived flags depend on the coordinates only through their shape -/
theorem derive_map3 (isZero : S → Bool) (g : List S → List S) (hg : ∀ pt, (g pt).length = pt.length) (d : A4 S) (c : A3 S) :
    deriveMissing isZero (d.map (List.map (List.map g))) c = deriveMissing isZero d c := by
  simp only [deriveMissing_eq, List.zipWith_map_left]
  congr 1; funext fr cf
  congr 1; funext pe cp
  congr 1; funext pt cc
  rw [kpt_eq_replicate, kpt_eq_replicate, hg]

theorem Rect4.map3 {F P N D : Nat} {d : A4 S} (hd : Rect4 F P N D d) (g : List S → List S) (D' : Nat) (hg : ∀ pt, pt.length = D → (g pt).length = D') :
    Rect4 F P N D' (d.map (List.map (List.map g))) :=
  RectL.map hd _ fun _ h1 => RectL.map h1 _ fun _ h2 => RectL.map h2 _ hg

theorem V3.map3 {isZero : S → Bool} {d₁ d₂ : A4 S} {c : A3 S} (h : V3 isZero d₁ d₂ c) (g : List S → List S)
    (hg : ∀ p q : List S, p.length = q.length → (g p).length = (g q).length) :
    V3 isZero (d₁.map (List.map (List.map g))) (d₂.map (List.map (List.map g))) c := by
  unfold V3 at *
  have := F3.map (R' := F3 (F3 (PtEq isZero))) h (List.map (List.map g)) (List.map (List.map g)) id ?_
  · simpa using this
  intro x y z h2
  have := F3.map (R' := F3 (PtEq isZero)) h2 (List.map g) (List.map g) id ?_
  · simpa using this
  intro x y z h3
  have := F3.map (R' := PtEq isZero) h3 g g id ?_
  · simpa using this
  intro p q cc h4
  exact ⟨hg p q h4.1, fun hz => by rw [h4.2 hz]⟩

/-! ### what the constructor does with an already consistent mask -/

theorem mkBody_mkC (be : Backend) (isZero : S → Bool) (fps : S) (d : A4 S) (c : A3 S) (m : A4 Bool) (hm : m = deriveMissing isZero d c) :
    mkBody be isZero fps d c (some m) = mkC isZero fps d c := by
  subst hm
  cases be
  · simp only [mkBody, or4_self]; rfl
  · rfl
  · rfl

@[simp] theorem mkC_fps (isZero : S → Bool) (fps : S) (d : A4 S) (c : A3 S) : (mkC isZero fps d c).fps = fps := rfl
@[simp] theorem mkC_data (isZero : S → Bool) (fps : S) (d : A4 S) (c : A3 S) : (mkC isZero fps d c).data = d := rfl
@[simp] theorem mkC_conf (isZero : S → Bool) (fps : S) (d : A4 S) (c : A3 S) : (mkC isZero fps d c).conf = c := rfl
@[simp] theorem mkC_missing (isZero : S → Bool) (fps : S) (d : A4 S) (c : A3 S) : (mkC isZero fps d c).missing = deriveMissing isZero d c := rfl

end PoseVerif
