import PoseVerif.Proofs.Stream2
import PoseVerif.Proofs.Codec4
/-! Lifting the simulation through `rdPose` (prefetch hint, header cache): a stream read returns what a byte-string read returns. -/
namespace PoseVerif
open Prog SR

/-- the buffer is a prefix of the file, nothing was skipped, the cursor is inside the buffer -/
structure SR.Pre (s : SR) : Prop where
  noskip : s.skipped = 0
  pre : s.buf = s.file.take s.buf.length
  inb : s.off ≤ s.buf.length

theorem SR.expect_pre (s s1 : SR) (n : Nat) (h : s.Pre) (he : s.expect n = some s1) :
    s1.skipped = 0 ∧ s1.buf = s1.file.take s1.buf.length ∧ s1.off = s.off ∧ s1.file = s.file ∧ s.buf.length ≤ s1.buf.length := by
  unfold SR.expect at he
  simp only [] at he
  split at he
  · split at he
    · cases he
    · simp only [Option.some.injEq] at he
      subst he
      refine ⟨h.noskip, ?_, rfl, rfl, by simp [SR.readChunk]⟩
      show (s.buf ++ (s.file.drop (s.buf.length + s.skipped)).take _) = s.file.take (s.buf ++ (s.file.drop (s.buf.length + s.skipped)).take _).length
      rw [h.noskip, Nat.add_zero]
      generalize (↑n - s.bytesLeft : Int).toNat = c
      have hlen : (s.buf ++ (s.file.drop s.buf.length).take c).length = s.buf.length + min c (s.file.length - s.buf.length) := by
        simp [List.length_append, List.length_take, List.length_drop]
      rw [hlen]
      have e1 : s.buf ++ (s.file.drop s.buf.length).take c = s.file.take (s.buf.length + c) := by
        rw [List.take_add, ← h.pre]
      rw [e1, List.take_eq_take_iff]
      omega
  · simp only [Option.some.injEq] at he
    subst he
    exact ⟨h.noskip, h.pre, rfl, rfl, Nat.le_refl _⟩

theorem SR.run_pre {α : Type} (p : Prog α) (hc : Core p) (hs : SkipFree p) (s s' : SR) (x : α)
    (hr : SR.run p s = some (x, s')) (h : s.Pre) : s'.Pre := by
  induction p generalizing s with
  | ret a => simp only [SR.run, Option.some.injEq, Prod.mk.injEq] at hr; rw [← hr.2]; exact h
  | fail => simp [SR.run] at hr
  | expect n k ih => exact absurd hc (by simp [Core])
  | setOff n k ih => exact absurd hc (by simp [Core])
  | peek n k ih => exact absurd hc (by simp [Core])
  | getOff k ih => exact absurd hc (by simp [Core])
  | skip n k ih => exact absurd hs (by simp [SkipFree])
  | advance n k ih => exact absurd hs (by simp [SkipFree])
  | fileLeft k ih => simp only [SR.run] at hr; exact ih _ (hc _) (hs _) s hr h
  | unpack n k ih =>
    simp only [SR.run] at hr
    cases he : s.expect n with
    | none => rw [he] at hr; cases hr
    | some s1 =>
      rw [he] at hr
      simp only [] at hr
      split at hr
      · rename_i hg
        obtain ⟨h1, h2, h3, h4, h5⟩ := SR.expect_pre s s1 n h he
        have hk : s1.k = s1.off := by simp [SR.k, h1]
        refine ih _ (hc _) (hs _) { s1 with off := s1.off + n } hr ⟨h1, h2, ?_⟩
        show s1.off + n ≤ s1.buf.length
        rw [← hk]; exact hg.2
      · cases hr

/-- a body decoder needs at least four bytes at the cursor -/
theorem rdBody_needs_bytes (h : Header) (w : Window) (f : Bytes) (e : Nat) (r : Body × Nat)
    (hr : runBR (rdBody h w) f e = some r) : e + 4 ≤ f.length := by
  unfold rdBody at hr
  split at hr
  · unfold rdBodyV00 at hr
    obtain ⟨a, o, h1, _⟩ := runBR_bind_inv hr
    simp only [rd2U16, runBR] at h1
    split at h1
    · assumption
    · cases h1
  · unfold rdBodyV01 at hr
    obtain ⟨a, o, h1, _⟩ := runBR_bind_inv hr
    simp only [rd2U16, runBR] at h1
    split at h1
    · assumption
    · cases h1
  · unfold rdBodyV02 at hr
    split at hr
    · simp [runBR] at hr
    · obtain ⟨a, o, h1, _⟩ := runBR_bind_inv hr
      simp only [rdF32, runBR] at h1
      split at h1
      · assumption
      · cases h1
  · simp [runBR] at hr

/-- the state after `Pose.read`'s initial `expect_to_read` on a non-empty file -/
def SR.afterHint (file : Bytes) (hint : Nat) : SR :=
  { file, buf := file.take hint, off := 0, skipped := 0, pulled := min hint file.length }

theorem SR.expect_hint (file : Bytes) (hint : Nat) (hne : 0 < file.length) (hh : 0 < hint) :
    SR.expect { file } hint = some (SR.afterHint file hint) := by
  unfold SR.expect
  have hbl : ({ file } : SR).bytesLeft = 0 := by simp [SR.bytesLeft]
  rw [hbl, if_pos (by omega)]
  have hc : ((hint : Int) - 0).toNat = hint := by omega
  rw [hc]
  have hrc : ({ file } : SR).readChunk hint = SR.afterHint file hint := by
    simp [SR.readChunk, SR.afterHint, List.length_take]
  rw [hrc]
  have : (SR.afterHint file hint).buf.isEmpty = false := by
    rw [List.isEmpty_eq_false_iff]; intro hnil
    have : (file.take hint).length = 0 := by show (SR.afterHint file hint).buf.length = 0; rw [hnil]; rfl
    rw [List.length_take] at this; omega
  simp [this]

theorem SR.afterHint_al (file : Bytes) (hint : Nat) : Al (SR.afterHint file hint) ∧ Disc (SR.afterHint file hint) ∧ (SR.afterHint file hint).Pre := by
  refine ⟨⟨Nat.le_refl _, ?_⟩, Or.inl rfl, ⟨rfl, ?_, Nat.zero_le _⟩⟩
  · show (file.take hint).drop 0 = (file.drop 0).take ((file.take hint).length - 0)
    simp only [List.drop_zero, Nat.sub_zero, List.length_take, List.take_eq_take_iff]; omega
  · show file.take hint = file.take (file.take hint).length
    rw [List.length_take, List.take_eq_take_iff]; omega

/-- **A stream read returns what a byte-string read returns** (pose and new cache), for every file, window and cache state. -/
theorem stream_of_bytes (file : Bytes) (cache : Option CacheEntry) (w : Window) (p : Pose) (c : Option CacheEntry)
    (h : readBytes file cache w = some (p, c)) : ∃ s, readStream file cache w = some ((p, c), s) := by
  simp only [readBytes, Option.map_eq_some_iff] at h
  obtain ⟨⟨⟨p', c'⟩, o⟩, hrun, heq⟩ := h
  simp only [Prod.mk.injEq] at heq
  obtain ⟨rfl, rfl⟩ := heq
  simp only [rdPose, runBR] at hrun
  obtain ⟨⟨hd, c1⟩, e, hh, hb⟩ := runBR_bind_inv hrun
  obtain ⟨body, o', hbody, hret⟩ := runBR_bind_inv hb
  simp only [runBR, Option.some.injEq, Prod.mk.injEq] at hret
  obtain ⟨⟨rfl, rfl⟩, rfl⟩ := hret
  have hlen := rdBody_needs_bytes _ _ _ _ _ hbody
  have hne : 0 < file.length := by omega
  -- the stream side
  simp only [readStream, rdPose, SR.run]
  have hhint : 0 < prefetchHint cache := by unfold prefetchHint; omega
  have hexp := SR.expect_hint file (prefetchHint cache) hne hhint
  rw [hexp]
  simp only []
  obtain ⟨hA0, hD0, hP0⟩ := SR.afterHint_al file (prefetchHint cache)
  generalize hs0 : SR.afterHint file (prefetchHint cache) = s0 at *
  have hs0f : s0.file = file := by rw [← hs0]; rfl
  have hs0o : s0.off = 0 := by rw [← hs0]; rfl
  -- header
  have hheader : ∃ s1, SR.run (rdHeader cache) s0 = some ((hd, c1), s1) ∧ s1.off = e ∧ s1.file = file ∧ Al s1 ∧ Disc s1 := by
    have hmiss : ∀ (hm : runBR (Prog.bind rdHeaderRaw fun h => Prog.getOff fun e => Prog.peek e fun key =>
          Prog.ret (h, some ({ key, endOff := e, header := h } : CacheEntry))) file 0 = some ((hd, c1), e)),
        ∃ s1, SR.run (Prog.bind rdHeaderRaw fun h => Prog.getOff fun e => Prog.peek e fun key =>
          Prog.ret (h, some ({ key, endOff := e, header := h } : CacheEntry))) s0 = some ((hd, c1), s1) ∧ s1.off = e ∧ s1.file = file ∧ Al s1 ∧ Disc s1 := by
      intro hm
      obtain ⟨hd', e', hraw, hrest⟩ := runBR_bind_inv hm
      simp only [runBR, Option.some.injEq, Prod.mk.injEq] at hrest
      obtain ⟨⟨rfl, rfl⟩, rfl⟩ := hrest
      have hraw' : runBR rdHeaderRaw s0.file s0.off = some (hd', e') := by rw [hs0f, hs0o]; exact hraw
      obtain ⟨s1, hr1, ho1, hf1, hA1, hD1⟩ := sr_sim rdHeaderRaw Core_rdHeaderRaw s0 hA0 hD0 _ _ hraw'
      have hP1 := SR.run_pre rdHeaderRaw Core_rdHeaderRaw SkipFree_rdHeaderRaw s0 s1 _ hr1 hP0
      refine ⟨s1, ?_, ho1, by rw [hf1, hs0f], hA1, hD1⟩
      rw [SR.run_bind_some hr1]
      simp only [SR.run, ho1]
      have hkey : s1.buf.take e' = file.take e' := by
        rw [hP1.pre, hf1, hs0f, List.take_take]
        congr 1
        have := hP1.inb
        rw [ho1] at this
        omega
      rw [hkey]
    cases cache with
    | none => exact hmiss hh
    | some cc =>
      simp only [rdHeader, runBR] at hh
      simp only [rdHeader, SR.run]
      have hpk : s0.buf.take cc.endOff = file.take cc.endOff := by
        rw [← hs0]
        show (file.take _).take cc.endOff = file.take cc.endOff
        rw [List.take_take]; congr 1
        simp only [prefetchHint]
        split <;> omega
      rw [hpk]
      by_cases hhit : file.take cc.endOff = cc.key
      · rw [if_pos hhit] at hh ⊢
        simp only [runBR, Option.some.injEq, Prod.mk.injEq] at hh
        obtain ⟨⟨rfl, rfl⟩, rfl⟩ := hh
        simp only [SR.run]
        refine ⟨{ s0 with off := cc.endOff }, rfl, rfl, hs0f, ⟨?_, ?_⟩, Or.inl ?_⟩
        · show s0.skipped ≤ cc.endOff; rw [hP0.noskip]; omega
        · have hk : ({ s0 with off := cc.endOff } : SR).k = cc.endOff := by simp [SR.k, hP0.noskip]
          rw [hk]
          show s0.buf.drop cc.endOff = (s0.file.drop cc.endOff).take (s0.buf.length - cc.endOff)
          conv => lhs; rw [hP0.pre]
          rw [List.drop_take]
        · exact hP0.noskip
      · rw [if_neg hhit] at hh ⊢
        exact hmiss hh
  obtain ⟨s1, hr1, ho1, hf1, hA1, hD1⟩ := hheader
  rw [SR.run_bind_some hr1]
  have hbody' : runBR (rdBody hd w) s1.file s1.off = some (body, o') := by rw [hf1, ho1]; exact hbody
  obtain ⟨s2, hr2, _, _, _, _⟩ := sr_sim _ (Core_rdBody hd w) s1 hA1 hD1 _ _ hbody'
  rw [SR.run_bind_some hr2]
  exact ⟨s2, rfl⟩

end PoseVerif
