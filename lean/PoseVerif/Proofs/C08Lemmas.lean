import PoseVerif.Proofs.PoseOps
/-! Definitions and helper lemmas for `Props/C08.lean` (the property theorems themselves are kept apart, in that file). -/
namespace PoseVerif.Props.C08
open PoseVerif
variable {S : Type}

def Consistent (isZero : S → Bool) (b : PBody S) : Prop := b.missing = deriveMissing isZero b.data b.conf

end PoseVerif.Props.C08

namespace PoseVerif.Props.C08
open PoseVerif
variable {S : Type}

/-! ### the shared operations give the same result on every backend -/

theorem derive_selectFrames (isZero : S → Bool) (data : A4 S) (conf : A3 S) (hs : SameShape3 data conf) (ixs : List Nat) :
    deriveMissing isZero (pickD ixs data) (pickD ixs conf) = pickD ixs (deriveMissing isZero data conf) := by
  unfold deriveMissing
  rw [pickD_zipWith _ (by rfl) ixs data conf hs.length_eq]

theorem derive_sliceStep (isZero : S → Bool) (data : A4 S) (conf : A3 S) (hs : SameShape3 data conf) (k : Nat) :
    deriveMissing isZero (everyNth k data) (everyNth k conf) = everyNth k (deriveMissing isZero data conf) := by
  unfold deriveMissing
  rw [everyNth_zipWith _ (by rfl) k data conf hs.length_eq]

theorem derive_getPoints [Inhabited S] (isZero : S → Bool) (data : A4 S) (conf : A3 S) (hs : SameShape3 data conf) (ixs : List Nat) :
    deriveMissing isZero (data.map (List.map (pickD ixs))) (conf.map (List.map (pickD ixs))) =
      (deriveMissing isZero data conf).map (List.map (pickD ixs)) := by
  unfold deriveMissing
  rw [List.zipWith_map_left, List.zipWith_map_right, List.map_zipWith]
  apply zipWith_congr_F2 _ _ data conf hs
  intro fr cf hfr
  rw [List.zipWith_map_left, List.zipWith_map_right, List.map_zipWith]
  apply zipWith_congr_F2 _ _ fr cf hfr
  intro pts cs hlen
  exact (pickD_zipWith _ (by rfl) ixs pts cs hlen).symm

theorem mkBody_consistent_some (be : Backend) (isZero : S → Bool) (fps : S) (data : A4 S) (conf : A3 S) (m : A4 Bool)
    (hm : m = deriveMissing isZero data conf) : mkBody be isZero fps data conf (some m) = ⟨fps, data, conf, m⟩ := by
  cases be
  · simp only [mkBody]; rw [← hm, or4_self]
  · rfl
  · rfl

/-- one point's coordinates with the flagged ones replaced by exactly 0 -/
def zfRow (sc : Scalar S) (row : List S) (fl : List Bool) : List S := List.zipWith (fun x (mm : Bool) => if mm then sc.zero else x) row fl

theorem rowMat_length [Inhabited S] (sc : Scalar S) (a b : List S) (m : List (List S)) : (rowMat sc a m).length = (rowMat sc b m).length := by
  cases m <;> simp [rowMat]

end PoseVerif.Props.C08
