import PoseVerif.Proofs.StreamRev
import PoseVerif.Proofs.Cache
/-! The windowed stream read of a prefix against the read of the whole file, for every state of the header cache (helper lemmas and the two results `Props/C07.lean` restates). -/
namespace PoseVerif
open Prog SR

theorem CacheOK.key_length {cc : CacheEntry} (h : CacheOK cc) : cc.key.length = cc.endOff := by
  obtain ⟨f0, hr, hk⟩ := h
  have := (Dec_rdHeaderRaw f0 _ _ hr).1
  rw [hk, List.length_take]; omega

/-- the parse-and-store branch of `PoseHeader.read` -/
def missProg : Prog (Header × Option CacheEntry) :=
  Prog.bind rdHeaderRaw fun h => .getOff fun e => .peek e fun key => .ret (h, some { key, endOff := e, header := h })

/-- the miss branch on a stream prefix agrees with the miss branch on any extension of it -/
theorem miss_agree (f ext : Bytes) (hint : Nat) (hd hd' : Header) (c1 c1' : Option CacheEntry) (s1 : SR) (e' : Nat)
    (hs : SR.run missProg (SR.afterHint f hint) = some ((hd, c1), s1)) (hb : runBR missProg (f ++ ext) 0 = some ((hd', c1'), e')) :
    hd = hd' ∧ c1 = c1' ∧ s1.off = e' ∧ s1.file = f ∧ Al s1 ∧ Disc s1 := by
  obtain ⟨hA0, hD0, hP0⟩ := SR.afterHint_al f hint
  generalize hs0 : SR.afterHint f hint = s0 at *
  have hs0f : s0.file = f := by rw [← hs0]; rfl
  have hs0o : s0.off = 0 := by rw [← hs0]; rfl
  unfold missProg at hs hb
  obtain ⟨hraw, s1a, hrawrun, hrest2⟩ := SR.run_bind_inv hs
  simp only [SR.run, Option.some.injEq, Prod.mk.injEq] at hrest2
  obtain ⟨⟨rfl, rfl⟩, rfl⟩ := hrest2
  obtain ⟨hraw', e2, hrawrun', hrest'⟩ := runBR_bind_inv hb
  simp only [runBR, Option.some.injEq, Prod.mk.injEq] at hrest'
  obtain ⟨⟨rfl, rfl⟩, rfl⟩ := hrest'
  have hrawbr : runBR rdHeaderRaw (s0.file ++ ext) s0.off = some (hraw', e2) := by rw [hs0f, hs0o]; exact hrawrun'
  obtain ⟨rfl, ho1, hf1, hA1, hD1⟩ := sr_agree rdHeaderRaw Core_rdHeaderRaw Blind_rdHeaderRaw s0 ext hA0 hD0 _ _ _ _ hrawrun hrawbr
  have hP1 := SR.run_pre rdHeaderRaw Core_rdHeaderRaw SkipFree_rdHeaderRaw s0 s1a _ hrawrun hP0
  have hkey : s1a.buf.take s1a.off = (f ++ ext).take e2 := by
    rw [ho1, hP1.pre, hf1, hs0f, List.take_take]
    have hin := hP1.inb
    rw [ho1] at hin
    have hbl : s1a.buf.length ≤ f.length := by
      have := congrArg List.length hP1.pre
      rw [hf1, hs0f, List.length_take] at this; omega
    rw [Nat.min_eq_left hin, List.take_append_of_le_length (by omega)]
  refine ⟨rfl, ?_, ho1, by rw [hf1, hs0f], hA1, hD1⟩
  rw [hkey, ho1]

theorem rdHeader_none : rdHeader none = missProg := rfl
theorem rdHeader_some (cc : CacheEntry) :
    rdHeader (some cc) = .peek cc.endOff fun b => if b = cc.key then .setOff cc.endOff (.ret (cc.header, some cc)) else missProg := rfl

/-- `PoseHeader.read` on a stream prefix agrees with `PoseHeader.read` on any extension, whatever (consistent) entry the header cache holds -/
theorem header_agree (f ext : Bytes) (cache : Option CacheEntry) (hok : ∀ cc, cache = some cc → CacheOK cc)
    (hd hd' : Header) (c1 c1' : Option CacheEntry) (s1 : SR) (e' : Nat)
    (hs : SR.run (rdHeader cache) (SR.afterHint f (prefetchHint cache)) = some ((hd, c1), s1))
    (hb : runBR (rdHeader cache) (f ++ ext) 0 = some ((hd', c1'), e')) :
    hd = hd' ∧ c1 = c1' ∧ s1.off = e' ∧ s1.file = f ∧ Al s1 ∧ Disc s1 := by
  cases cache with
  | none => exact miss_agree f ext _ hd hd' c1 c1' s1 e' hs hb
  | some cc =>
    have hcc := hok cc rfl
    have hkl := CacheOK.key_length hcc
    obtain ⟨f0, hparse, hkey⟩ := hcc
    rw [rdHeader_some] at hs hb
    simp only [SR.run, runBR] at hs hb
    obtain ⟨hA0, hD0, hP0⟩ := SR.afterHint_al f (prefetchHint (some cc))
    -- what the stream reader sees of the first endOff bytes
    have hpk : (SR.afterHint f (prefetchHint (some cc))).buf.take cc.endOff = f.take cc.endOff := by
      show (f.take _).take cc.endOff = f.take cc.endOff
      rw [List.take_take]; congr 1
      simp only [prefetchHint]
      split <;> omega
    rw [hpk] at hs
    by_cases hhitB : (f ++ ext).take cc.endOff = cc.key
    · rw [if_pos hhitB] at hb
      simp only [runBR, Option.some.injEq, Prod.mk.injEq] at hb
      obtain ⟨⟨rfl, rfl⟩, rfl⟩ := hb
      by_cases hhitS : f.take cc.endOff = cc.key
      · -- both hit
        rw [if_pos hhitS] at hs
        simp only [SR.run, Option.some.injEq, Prod.mk.injEq] at hs
        obtain ⟨⟨rfl, rfl⟩, rfl⟩ := hs
        refine ⟨rfl, rfl, rfl, rfl, ⟨?_, ?_⟩, Or.inl ?_⟩
        · show (SR.afterHint f (prefetchHint (some cc))).skipped ≤ cc.endOff; rw [hP0.noskip]; omega
        · have hk : ({ SR.afterHint f (prefetchHint (some cc)) with off := cc.endOff } : SR).k = cc.endOff := by simp [SR.k, hP0.noskip]
          rw [hk]
          show (SR.afterHint f (prefetchHint (some cc))).buf.drop cc.endOff =
            ((SR.afterHint f (prefetchHint (some cc))).file.drop cc.endOff).take ((SR.afterHint f (prefetchHint (some cc))).buf.length - cc.endOff)
          conv => lhs; rw [hP0.pre]
          rw [List.drop_take]
        · exact hP0.noskip
      · -- the stream misses although the whole file hits: the stream parse would need the whole header region, which it then has — contradiction
        exfalso
        rw [if_neg hhitS] at hs
        have hfull : runBR rdHeaderRaw (f ++ ext) 0 = some (cc.header, cc.endOff) :=
          rdHeaderRaw_prefixDet f0 (f ++ ext) _ _ hparse (by rw [hhitB, hkey])
        have hbm : runBR missProg (f ++ ext) 0 = some ((cc.header, some { key := (f ++ ext).take cc.endOff, endOff := cc.endOff, header := cc.header }), cc.endOff) := by
          unfold missProg
          rw [runBR_bind_some hfull]; rfl
        obtain ⟨_, _, ho, hfl, _, _⟩ := miss_agree f ext _ _ _ _ _ _ _ hs hbm
        -- the stream cursor is inside what was pulled from f
        unfold missProg at hs
        obtain ⟨hraw, s1a, hrawrun, hrest2⟩ := SR.run_bind_inv hs
        simp only [SR.run, Option.some.injEq, Prod.mk.injEq] at hrest2
        obtain ⟨_, rfl⟩ := hrest2
        have hP1 := SR.run_pre rdHeaderRaw Core_rdHeaderRaw SkipFree_rdHeaderRaw _ s1a _ hrawrun hP0
        have hle : cc.endOff ≤ f.length := by
          have h1 := hP1.inb
          have h2 := congrArg List.length hP1.pre
          rw [hfl, List.length_take] at h2
          rw [ho] at h1; omega
        apply hhitS
        rw [← hhitB, List.take_append_of_le_length hle]
    · rw [if_neg hhitB] at hb
      by_cases hhitS : f.take cc.endOff = cc.key
      · -- the stream hits, so the prefix already holds the whole key, and the whole file hits too
        exfalso
        apply hhitB
        have hle : cc.endOff ≤ f.length := by
          have := congrArg List.length hhitS
          rw [List.length_take, hkl] at this; omega
        rw [List.take_append_of_le_length hle]; exact hhitS
      · rw [if_neg hhitS] at hs
        exact miss_agree f ext _ hd hd' c1 c1' s1 e' hs hb

/-- **A windowed stream read of a prefix agrees with a read of the whole file, for every state of the header cache**: if `Pose.read(BytesIO(prefix), window)`
    returns at all, it returns the pose (and leaves the cache entry) that reading the complete bytes with the same window and the same cache returns. -/
theorem prefix_stream_agrees_cache (f ext : Bytes) (w : Window) (cache : Option CacheEntry) (hok : ∀ cc, cache = some cc → CacheOK cc)
    (q q' : Pose) (c c' : Option CacheEntry) (s : SR)
    (hs : readStream f cache w = some ((q, c), s)) (hb : readBytes (f ++ ext) cache w = some (q', c'))
    (hv : versionClass q'.header.version = .v02) : q = q' ∧ c = c' := by
  simp only [readBytes, Option.map_eq_some_iff] at hb
  obtain ⟨⟨⟨p', c1'⟩, o⟩, hrun, heq⟩ := hb
  simp only [Prod.mk.injEq] at heq
  obtain ⟨rfl, rfl⟩ := heq
  simp only [rdPose, runBR] at hrun
  obtain ⟨⟨hd', cc'⟩, e', hh', hb'⟩ := runBR_bind_inv hrun
  obtain ⟨body', o', hbody', hret'⟩ := runBR_bind_inv hb'
  simp only [runBR, Option.some.injEq, Prod.mk.injEq] at hret'
  obtain ⟨⟨rfl, rfl⟩, rfl⟩ := hret'
  have hhint : 0 < prefetchHint cache := by unfold prefetchHint; omega
  have hne : 0 < f.length := by
    rcases Nat.eq_zero_or_pos f.length with h0 | h0
    · have hnil : f = [] := List.eq_nil_of_length_eq_zero h0
      subst hnil
      exfalso
      have hex : SR.expect ({ file := [] } : SR) (prefetchHint cache) = none := by
        unfold SR.expect
        have hbl : ({ file := ([] : Bytes) } : SR).bytesLeft = 0 := by simp [SR.bytesLeft]
        rw [hbl, if_pos (by omega)]
        simp [SR.readChunk]
      simp only [readStream, rdPose, SR.run, hex] at hs
      cases hs
    · exact h0
  simp only [readStream, rdPose, SR.run] at hs
  rw [SR.expect_hint f (prefetchHint cache) hne hhint] at hs
  simp only [] at hs
  obtain ⟨⟨hd, cc⟩, s1, hh, hrest⟩ := SR.run_bind_inv hs
  obtain ⟨body, s2, hbody, hret⟩ := SR.run_bind_inv hrest
  simp only [SR.run, Option.some.injEq, Prod.mk.injEq] at hret
  obtain ⟨⟨rfl, rfl⟩, rfl⟩ := hret
  obtain ⟨rfl, rfl, ho1, hf1, hA1, hD1⟩ := header_agree f ext cache hok hd hd' cc cc' s1 e' hh hh'
  have hvb : versionClass hd.version = .v02 := hv
  have hbodybr : runBR (rdBodyV02 hd w) (s1.file ++ ext) s1.off = some (body', o') := by
    rw [hf1, ho1]
    have := hbody'
    unfold rdBody at this
    rw [hvb] at this
    exact this
  have hbodysr : SR.run (rdBodyV02 hd w) s1 = some (body, s2) := by
    have := hbody
    unfold rdBody at this
    rw [hvb] at this
    exact this
  obtain ⟨rfl, _, _, _, _⟩ := sr_agree (rdBodyV02 hd w) (Core_rdBodyV02 _ _) (Blind_rdBodyV02 _ _) s1 ext hA1 hD1 _ _ _ _ hbodysr hbodybr
  exact ⟨rfl, rfl⟩

/-- the hypothesis is the invariant reads maintain: whatever entry a read leaves in the cache is consistent again (and the empty cache is, trivially) -/
theorem read_leaves_ok (file : Bytes) (cache : Option CacheEntry) (hok : ∀ cc, cache = some cc → CacheOK cc) (w : Window) (p : Pose) (c : Option CacheEntry)
    (h : readBytes file cache w = some (p, c)) : ∀ cc, c = some cc → CacheOK cc := by
  simp only [readBytes, Option.map_eq_some_iff] at h
  obtain ⟨⟨⟨p', c1⟩, o⟩, hrun, heq⟩ := h
  simp only [Prod.mk.injEq] at heq
  obtain ⟨rfl, rfl⟩ := heq
  simp only [rdPose, runBR] at hrun
  obtain ⟨⟨hd, c1'⟩, e, hh, hb⟩ := runBR_bind_inv hrun
  obtain ⟨body, o', _, hret⟩ := runBR_bind_inv hb
  simp only [runBR, Option.some.injEq, Prod.mk.injEq] at hret
  obtain ⟨⟨rfl, rfl⟩, rfl⟩ := hret
  have hmiss : ∀ (hm : runBR missProg file 0 = some ((hd, c1'), e)), ∀ cc, c1' = some cc → CacheOK cc := by
    intro hm cc hcc
    unfold missProg at hm
    obtain ⟨hraw, e2, hr, hrest⟩ := runBR_bind_inv hm
    simp only [runBR, Option.some.injEq, Prod.mk.injEq] at hrest
    obtain ⟨⟨rfl, rfl⟩, rfl⟩ := hrest
    cases hcc
    exact ⟨file, hr, rfl⟩
  cases cache with
  | none => exact hmiss hh
  | some c0 =>
    rw [rdHeader_some] at hh
    simp only [runBR] at hh
    split at hh
    · simp only [runBR, Option.some.injEq, Prod.mk.injEq] at hh
      obtain ⟨⟨rfl, rfl⟩, rfl⟩ := hh
      intro cc hcc; exact hok cc hcc
    · exact hmiss hh

/-- with a consistent entry in the cache the header step of a byte-string read succeeds exactly as with an empty cache: same header, same end offset -/
theorem rdHeader_warm (file : Bytes) (cache : Option CacheEntry) (hok : ∀ cc, cache = some cc → CacheOK cc) (h : Header) (e : Nat)
    (hraw : runBR rdHeaderRaw file 0 = some (h, e)) : ∃ c1, runBR (rdHeader cache) file 0 = some ((h, c1), e) := by
  have hmiss : runBR missProg file 0 = some ((h, some { key := file.take e, endOff := e, header := h }), e) := by
    unfold missProg; rw [runBR_bind_some hraw]; rfl
  cases cache with
  | none => exact ⟨_, hmiss⟩
  | some cc =>
    obtain ⟨f0, hparse, hkey⟩ := hok cc rfl
    rw [rdHeader_some]
    simp only [runBR]
    by_cases hhit : file.take cc.endOff = cc.key
    · rw [if_pos hhit]
      have := rdHeaderRaw_prefixDet f0 file _ _ hparse (by rw [hhit, hkey])
      rw [hraw] at this
      simp only [Option.some.injEq, Prod.mk.injEq] at this
      obtain ⟨rfl, rfl⟩ := this
      exact ⟨_, rfl⟩
    · rw [if_neg hhit]; exact ⟨_, hmiss⟩

/-- **The windowed stream clause in full**: for a file that a full read accepts as v0.2, ANY prefix of it, ANY window and ANY consistent cache state — if the
    windowed stream read of the prefix returns, then the read of the intact bytes with the same window returns, and returns the same pose and cache entry.
    (So where the intact read raises — conflicting bounds, a start beyond the last frame — the prefix read raises too.) -/
theorem prefix_stream_complete (f ext : Bytes) (w : Window) (cache : Option CacheEntry) (hok : ∀ cc, cache = some cc → CacheOK cc)
    (p : Pose) (hfull : readFull (f ++ ext) = some p) (hv02 : versionClass p.header.version = .v02)
    (q : Pose) (c : Option CacheEntry) (s : SR) (hs : readStream f cache w = some ((q, c), s)) :
    readBytes (f ++ ext) cache w = some (q, c) := by
  -- the intact file: header, then the three counts of the body
  simp only [readFull, Option.map_eq_some_iff] at hfull
  obtain ⟨⟨⟨p0, c0⟩, n0⟩, hrun, rfl⟩ := hfull
  obtain ⟨e, hh, hb⟩ := rdPose_none_inv hrun
  simp only [rdBody, hv02, rdBodyV02_full] at hb
  obtain ⟨fps', frames, people, dims, h1, h2, h3, hnd, hfit, rfl, hmk⟩ := rdBodyV02Full_inv p0.header (f ++ ext) e p0.body _ hb
  have hbf : p0.body.frames = frames ∧ p0.body.fps = .f32 fps' := by
    unfold mkBody? at hmk
    split at hmk
    · cases hmk
    · simp only [Option.some.injEq] at hmk; rw [← hmk]; exact ⟨rfl, rfl⟩
  obtain ⟨c1', hhw⟩ := rdHeader_warm (f ++ ext) cache hok p0.header e hh
  -- the stream side
  have hhint : 0 < prefetchHint cache := by unfold prefetchHint; omega
  have hne : 0 < f.length := by
    rcases Nat.eq_zero_or_pos f.length with h0 | h0
    · have hnil : f = [] := List.eq_nil_of_length_eq_zero h0
      subst hnil
      exfalso
      have hex : SR.expect ({ file := [] } : SR) (prefetchHint cache) = none := by
        unfold SR.expect
        have hbl : ({ file := ([] : Bytes) } : SR).bytesLeft = 0 := by simp [SR.bytesLeft]
        rw [hbl, if_pos (by omega)]
        simp [SR.readChunk]
      simp only [readStream, rdPose, SR.run, hex] at hs
      cases hs
    · exact h0
  have hs' := hs
  simp only [readStream, rdPose, SR.run] at hs'
  rw [SR.expect_hint f (prefetchHint cache) hne hhint] at hs'
  simp only [] at hs'
  obtain ⟨⟨hd, cc⟩, s1, hhs, hrest⟩ := SR.run_bind_inv hs'
  obtain ⟨body, s2, hbody, hret⟩ := SR.run_bind_inv hrest
  simp only [SR.run, Option.some.injEq, Prod.mk.injEq] at hret
  obtain ⟨⟨rfl, rfl⟩, rfl⟩ := hret
  obtain ⟨rfl, rfl, ho1, hf1, hA1, hD1⟩ := header_agree f ext cache hok hd p0.header cc c1' s1 e hhs hhw
  -- the body decoder on the stream: the window checks see the counts of the intact file
  simp only [rdBody, hv02] at hbody
  have hconf : w.conflict = false := by
    cases hc : w.conflict with
    | false => rfl
    | true => rw [rdBodyV02_conflict _ _ hc] at hbody; simp [SR.run] at hbody
  unfold rdBodyV02 at hbody
  rw [if_neg (by simp [hconf])] at hbody
  obtain ⟨fpsS, s3, hr3, hbody⟩ := SR.run_bind_inv hbody
  obtain ⟨rfl, ho3, hf3, hA3, hD3⟩ := sr_agree rdF32 Core_rdF32 Blind_rdF32 s1 ext hA1 hD1 _ _ _ _ hr3 (by rw [hf1, ho1]; exact h1)
  obtain ⟨framesS, s4, hr4, hbody⟩ := SR.run_bind_inv hbody
  obtain ⟨rfl, ho4, hf4, hA4, hD4⟩ := sr_agree rdU32 Core_rdU32 Blind_rdU32 s3 ext hA3 hD3 _ _ _ _ hr4 (by rw [hf3, hf1, ho3]; exact h2)
  obtain ⟨peopleS, s5, hr5, hbody⟩ := SR.run_bind_inv hbody
  obtain ⟨rfl, ho5, hf5, hA5, hD5⟩ := sr_agree rdU16 Core_rdU16 Blind_rdU16 s4 ext hA4 hD4 _ _ _ _ hr5 (by rw [hf4, hf3, hf1, ho4]; exact h3)
  rw [hnd] at hbody
  simp only [ofOption_some_bind] at hbody
  cases hres : w.resolve fpsS with
  | none => rw [hres] at hbody; simp [SR.run] at hbody
  | some se =>
    rw [hres] at hbody
    simp only [ofOption_some_bind] at hbody
    have hvalid : WinValid framesS se.1 se.2 := by
      apply Classical.byContradiction
      intro hv
      unfold rdBlocks at hbody
      rw [readFrames_invalid _ _ _ _ hv] at hbody
      simp [Prog.bind, SR.run] at hbody
    -- so the intact read succeeds …
    have hwin := rdBodyV02_window p0.header w (f ++ ext) e p0.body _ fpsS se hb hbf.2 hconf hres (by rw [hbf.1]; exact hvalid)
    have hbytes : readBytes (f ++ ext) cache w = some (⟨p0.header, p0.body.slice (winStart se.1) (winCount p0.body.frames se.1 se.2)⟩, cc) := by
      simp only [readBytes, rdPose, runBR]
      rw [runBR_bind_some hhw]
      have hbd : runBR (rdBody p0.header w) (f ++ ext) e = runBR (rdBodyV02 p0.header w) (f ++ ext) e := by simp only [rdBody, hv02]
      rw [runBR_bind_some (hbd.trans hwin)]
      rfl
    -- … and the prefix read returned the same
    obtain ⟨hq, hc'⟩ := prefix_stream_agrees_cache f ext w cache hok _ _ _ _ _ hs hbytes hv02
    rw [hbytes, hq, hc']
end PoseVerif
