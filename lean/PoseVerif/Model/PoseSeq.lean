import PoseVerif.Model.Select
import PoseVerif.Model.Spatial
import PoseVerif.Model.Interp
/-!
# Poses (header components + NumPy body) and the public operations as one instruction set (`pose.py`, `numpy/pose_body.py`, `pose_body.py`)

`Pose.__getattr__` pairs the result of a body method with the header; `get_components`, `bbox` and `focus` also produce a new header.
Only the parts of the header that the shape invariant needs are kept: the components (names, formats, point names, limbs, colours).
-/
namespace PoseVerif
variable {S : Type}

structure PPose (S : Type) where
  comps : List Comp
  body : PBody S

/-- `PoseHeader.bbox()`: every component becomes the two corners of its box, same name and format -/
def bboxComps (comps : List Comp) : List Comp :=
  comps.map fun c => { c with points := ["TOP_LEFT", "BOTTOM_RIGHT"], limbs := [(0, 1)], colors := [(255, 0, 0)] }

inductive POp (S : Type) where
  | getComponents (request : List String) (points : Option (List (String × List String)))
  | removeComponents (remove : List String) (points : Option (List (String × List String)))
  | selectFrames (ixs : List Nat)                       -- `select_frames`, and what the frame dropouts do with the indexes they draw
  | sliceStep (k : Nat)
  | zeroFilled
  | copy
  | convert (be : Backend)                             -- `torch()` / `tensorflow()` / `numpy()`: raw coordinates and confidences to another constructor
  | flip (axis : Nat)
  | matmul (m : List (List S))                         -- `matmul`, and `augment2d` (one D × D matrix)
  | transform (T : A4 S → A4 S)                        -- `normalize`, `normalize_distribution`, `unnormalize_distribution`: new coordinates of the same shape, re-wrapped
  | bbox
  | focus
  | interpolate (newFps : S) (newFrames : Nat)

def POp.apply (sc : Scalar S) (isZero : S → Bool) [Inhabited S] : POp S → PPose S → Option (PPose S)
  | .getComponents req pts, p => do
    let (comps', ixs) ← PoseVerif.getComponents p.comps req pts
    let body' ← getPoints .numpy isZero ixs p.body
    pure ⟨comps', body'⟩
  | .removeComponents rm pts, p => do
    let (comps', ixs) ← PoseVerif.removeComponents p.comps rm pts
    let body' ← getPoints .numpy isZero ixs p.body
    pure ⟨comps', body'⟩
  | .selectFrames ixs, p => (PoseVerif.selectFrames .numpy isZero ixs p.body).map fun b => ⟨p.comps, b⟩
  | .sliceStep k, p => (PoseVerif.sliceStep .numpy sc isZero k p.body).map fun b => ⟨p.comps, b⟩
  | .zeroFilled, p => some ⟨p.comps, zeroFilledBody sc p.body⟩
  | .copy, p => some p
  | .convert be, p => some ⟨p.comps, mkBody be isZero p.body.fps p.body.data p.body.conf none⟩
  | .flip axis, p => some ⟨p.comps, flipBody sc isZero axis p.body⟩
  | .matmul m, p => some ⟨p.comps, matmulBody .numpy sc isZero m p.body⟩
  | .transform T, p => some ⟨p.comps, mkBody .numpy isZero p.body.fps (T p.body.data) p.body.conf (some p.body.missing)⟩
  | .bbox, p => some ⟨bboxComps p.comps, bboxBody sc isZero (p.comps.map (·.points.length)) p.body⟩
  | .focus, p => (focusBody sc isZero p.body).map fun r => ⟨p.comps, r.1⟩
  | .interpolate nf n, p => (interpolateBody sc isZero nf n p.body).map fun b => ⟨p.comps, b⟩

def runPose (sc : Scalar S) (isZero : S → Bool) [Inhabited S] : List (POp S) → PPose S → Option (PPose S)
  | [], p => some p
  | op :: ops, p => (op.apply sc isZero p).bind (runPose sc isZero ops)

end PoseVerif
