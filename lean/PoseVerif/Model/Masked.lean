import PoseVerif.Model.Tensor
/-!
# Masked tensors (torch / tensorflow `MaskedTensor`, `MaskedTorch`, `MaskedTensorflow`) as pairs (values, validity)

`runMasked` interprets a straight-line program the way the Python classes do: every operation is applied to the value tensor and to the mask
separately. `runRef` interprets the same program on ONE tensor of `(value, valid)` pairs. Props/C10 proves they agree (alignment).
The scalar type `S` is arbitrary with a record of operations and NO laws, so everything proved holds for IEEE arithmetic with NaN and ±inf.
-/
namespace PoseVerif

structure Scalar (S : Type) where
  zero : S
  add : S → S → S
  sub : S → S → S
  mul : S → S → S
  div : S → S → S
  pow : S → S → S
  sqrt : S → S
  ofNat : Nat → S
  isFinite : S → Bool
  isNaN : S → Bool
  /-- strict order on values (`<`), used by min / max reductions -/
  lt : S → S → Bool := fun _ _ => false
  neg : S → S := id
  /-- `math.ceil` of a non-negative finite value, as a natural number -/
  ceilNat : S → Nat := fun _ => 0

/-- a masked tensor as the Python classes hold it: two tensors -/
structure MT (S : Type) where
  tensor : T S
  mask : T Bool
deriving Repr

inductive Framework where
  | torch | tf
deriving DecidableEq, Repr

inductive BinOp where
  | add | sub | mul | div
deriving DecidableEq, Repr

inductive UnOp where
  | square | sqrt
deriving DecidableEq, Repr

inductive Instr (S : Type) where
  | index (r : Nat) (i : Int)
  | slice (r : Nat) (a b : Nat)
  | gather (r : Nat) (ixs : List Nat)
  | permute (r : Nat) (perm : List Nat)
  | transpose (r : Nat) (d0 d1 : Int)
  | squeeze (r : Nat) (dim : Int)
  | squeezeAll (r : Nat)
  | unsqueeze (r : Nat) (dim : Int)
  | reshape (r : Nat) (shape : List Int)
  | narrow (r : Nat) (axis start len : Nat)            -- one part of `split`
  | cat (rs : List Nat) (dim : Int)
  | stack (rs : List Nat) (dim : Int)
  | bin (op : BinOp) (r1 r2 : Nat)                      -- masked ⊕ masked, same shape
  | binScalar (op : BinOp) (r : Nat) (c : S)            -- masked ⊕ plain scalar
  | powScalar (r : Nat) (c : S)
  | unary (op : UnOp) (r : Nat)
  | sum (r : Nat) (dim : Int)
  | mean (r : Nat) (lead : Nat)                         -- tf: mean over the first `lead` axes (`lead = rank`: axis=None)
  | variance (r : Nat) (lead : Nat)
  | std (r : Nat) (lead : Nat)
  | matmul (r : Nat) (m : T S)
  | fixNan (r : Nat)

variable {S : Type}

def BinOp.fn (sc : Scalar S) : BinOp → S → S → S
  | .add => sc.add | .sub => sc.sub | .mul => sc.mul | .div => sc.div

def UnOp.fn (sc : Scalar S) : UnOp → S → S
  | .square => fun x => sc.mul x x
  | .sqrt => sc.sqrt

/-! ### reductions -/

/-- for every output position (shape without `axis`): the flat positions of the elements along `axis` -/
def reduceGroups (shape : List Nat) (axis : Nat) : List Nat × List (List Nat) :=
  let outShape := shape.eraseIdx axis
  (outShape, (List.range (numel outShape)).map fun o =>
    let idx := unravel outShape o
    (List.range (shape.getD axis 0)).map fun k => ravel shape (idx.take axis ++ [k] ++ idx.drop axis))

/-- groups of a reduction over the first `lead` axes: output position `j` collects `i * inner + j` -/
def leadGroups (shape : List Nat) (lead : Nat) : List Nat × List (List Nat) :=
  let outShape := shape.drop lead
  let inner := numel outShape
  let outer := numel (shape.take lead)
  (outShape, (List.range inner).map fun j => (List.range outer).map fun i => i * inner + j)

def sumList (sc : Scalar S) (l : List S) : S := l.foldl sc.add sc.zero

/-- **repaired** `zero_filled`: the value where valid, exactly zero elsewhere (no arithmetic on the masked value) -/
def zeroFilled (sc : Scalar S) (v : T S) (m : T Bool) : T S :=
  T.zipWith (fun x ok => if ok then x else sc.zero) v m

/-- tf `fix_nan`: every non-finite value becomes 0 -/
def fixNanT (sc : Scalar S) (v : T S) : T S := v.map fun x => if sc.isFinite x then x else sc.zero
/-- torch `fix_nan`: `tensor[tensor != tensor] = 0` — NaN only -/
def fixNanTorch (sc : Scalar S) (v : T S) : T S := v.map fun x => if sc.isNaN x then sc.zero else x

/-- tf `mean` over the first `lead` axes: sum of zero-filled values / number of valid ones; valid where at least one is; non-finite results → 0 -/
def meanLead (sc : Scalar S) [Inhabited S] (x : MT S) (lead : Nat) : MT S :=
  let zf := zeroFilled sc x.tensor x.mask
  let (outShape, groups) := leadGroups x.tensor.shape lead
  let sums := groups.map fun g => sumList sc (g.map fun i => zf.data.getD i default)
  let counts := groups.map fun g => (g.filter fun i => x.mask.data.getD i false).length
  { tensor := fixNanT sc ⟨outShape, List.zipWith (fun s c => sc.div s (sc.ofNat c)) sums counts⟩,
    mask := ⟨outShape, counts.map (· != 0)⟩ }

/-- `self - means` with trailing-axes broadcasting (`means` has the shape of the last `rank - lead` axes) -/
def subBroadcast (sc : Scalar S) [Inhabited S] (x m : MT S) : MT S :=
  let inner := numel m.tensor.shape
  { tensor := ⟨x.tensor.shape, x.tensor.data.mapIdx fun i v => sc.sub v (m.tensor.data.getD (i % inner) default)⟩,
    mask := ⟨x.mask.shape, x.mask.data.mapIdx fun i b => b && m.mask.data.getD (i % inner) false⟩ }

def varianceLead (sc : Scalar S) [Inhabited S] (x : MT S) (lead : Nat) : MT S :=
  let means := meanLead sc x lead
  let diff := subBroadcast sc x means
  let sq : MT S := { tensor := diff.tensor.map fun v => sc.mul v v, mask := diff.mask }
  meanLead sc sq lead

/-- `matmul` with a plain `k × m` matrix on the last axis (values only) -/
def matmulT (sc : Scalar S) [Inhabited S] (v : T S) (m : T S) : Option (T S) :=
  match m.shape, v.shape.getLast? with
  | [k, n], some k' =>
    if k = k' then
      let rows := numel v.shape / (if k = 0 then 1 else k)
      some ⟨v.shape.dropLast ++ [n], (List.range (rows * n)).map fun o =>
        let r := o / n; let c := o % n
        sumList sc ((List.range k).map fun j => sc.mul (v.data.getD (r * k + j) default) (m.data.getD (j * n + c) default))⟩
    else none
  | _, _ => none

/-! ### the interpreter on pairs (what the Python classes do) -/

def structuralPlan (fw : Framework) (shapes : List (List Nat)) : Instr S → Option Plan
  | .index _ i => some (planIndex (shapes.getD 0 []) i)
  | .slice _ a b => some (planSlice (shapes.getD 0 []) a b)
  | .gather _ ixs => some (planGather (shapes.getD 0 []) ixs)
  | .permute _ p => some (planPermute (shapes.getD 0 []) p)
  | .transpose _ a b => some (planTranspose (shapes.getD 0 []) a b)
  | .squeeze _ d => some (match fw with
      | .torch => planSqueezeTorch (shapes.getD 0 []) d
      | .tf => planSqueezeTF (shapes.getD 0 []) d)
  | .squeezeAll _ => some (planSqueezeAll (shapes.getD 0 []))
  | .unsqueeze _ d => some (planUnsqueeze (shapes.getD 0 []) d)
  | .reshape _ s => some (planReshape (shapes.getD 0 []) s)
  | .narrow _ ax st ln => some (planNarrow (shapes.getD 0 []) ax st ln)
  | .cat _ d => some (planCat shapes d)
  | .stack _ d => some (planStack shapes d)
  | _ => none

def Instr.inputs : Instr S → List Nat
  | .index r _ | .slice r _ _ | .gather r _ | .permute r _ | .transpose r _ _ | .squeeze r _ | .squeezeAll r | .unsqueeze r _
  | .reshape r _ | .narrow r _ _ _ | .binScalar _ r _ | .powScalar r _ | .unary _ r | .sum r _ | .mean r _ | .variance r _ | .std r _
  | .matmul r _ | .fixNan r => [r]
  | .cat rs _ | .stack rs _ => rs
  | .bin _ r1 r2 => [r1, r2]

/-- one instruction on pairs; `none` = the framework raises / the operation is not offered -/
def stepMasked (sc : Scalar S) [Inhabited S] (fw : Framework) (env : List (MT S)) (ins : Instr S) : Option (MT S) := do
  let args ← ins.inputs.mapM fun r => env[r]?
  match structuralPlan fw (args.map (·.tensor.shape)) ins with
  | some plan =>
    -- structural: the SAME plan applied to the value tensors and to the masks, separately
    let t ← applyPlan (args.map (·.tensor)) plan
    let maskPlan ← structuralPlan fw (args.map (·.mask.shape)) ins
    let m ← applyPlan (args.map (·.mask)) maskPlan
    pure ⟨t, m⟩
  | none =>
    match ins, args with
    | .bin op _ _, [a, b] =>
      if a.tensor.shape = b.tensor.shape then pure ⟨T.zipWith (op.fn sc) a.tensor b.tensor, T.zipWith (· && ·) a.mask b.mask⟩ else none
    | .binScalar op _ c, [a] => pure ⟨a.tensor.map fun x => op.fn sc x c, a.mask⟩
    | .powScalar _ c, [a] => pure ⟨a.tensor.map fun x => sc.pow x c, a.mask⟩
    | .unary op _, [a] => pure ⟨a.tensor.map (op.fn sc), a.mask⟩
    | .sum _ d, [a] =>
      let ax ← normAxis a.tensor.shape.length d
      let (outShape, groups) := reduceGroups a.tensor.shape ax
      let (mShape, mGroups) := reduceGroups a.mask.shape ax
      pure ⟨⟨outShape, groups.map fun g => sumList sc (g.map fun i => a.tensor.data.getD i default)⟩,
            ⟨mShape, mGroups.map fun g => g.all fun i => a.mask.data.getD i false⟩⟩
    | .mean _ lead, [a] => if fw = .tf ∧ lead ≤ a.tensor.shape.length ∧ 0 < lead then pure (meanLead sc a lead) else none
    | .variance _ lead, [a] => if fw = .tf ∧ lead ≤ a.tensor.shape.length ∧ 0 < lead then pure (varianceLead sc a lead) else none
    | .std _ lead, [a] =>
      if fw = .tf ∧ lead ≤ a.tensor.shape.length ∧ 0 < lead then
        let v := varianceLead sc a lead
        pure ⟨v.tensor.map sc.sqrt, v.mask⟩
      else none
    | .matmul _ m, [a] => do
      let t ← matmulT sc a.tensor m
      pure ⟨t, a.mask⟩                        -- the mask keeps its shape: aligned only for a square matrix (known finding K1)
    | .fixNan _, [a] => pure ⟨(match fw with | .torch => fixNanTorch sc a.tensor | .tf => fixNanT sc a.tensor), a.mask⟩
    | _, _ => none

/-- run a program: each instruction appends its result to the register file; stops at the first failing instruction -/
def runMasked (sc : Scalar S) [Inhabited S] (fw : Framework) : List (Instr S) → List (MT S) → List (MT S) × Bool
  | [], env => (env, true)
  | ins :: rest, env =>
    match stepMasked sc fw env ins with
    | some r => runMasked sc fw rest (env ++ [r])
    | none => (env, false)

end PoseVerif
