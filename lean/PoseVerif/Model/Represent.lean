import PoseVerif.Model.Select
/-!
# Feature representations (`torch/representation/*.py`, `numpy/representation/distance.py`) and the assembled representation (`pose_representation.py`)

Element model of the masked arithmetic: a value with its validity flag; `a ∘ b` is valid when both are, `sum(dim=-1)` when every coordinate is
(`mask.prod`), unary functions keep the flag, `zero_filled` selects 0 where invalid, `fix_nan` replaces NaN by 0.
`x.pow_(2)` / `square` are written `x · x`. `atan` / `acos` are parameters (the platform's functions).
A point is a list of coordinates (any number of them), each with its flag.
-/
namespace PoseVerif
variable {S : Type}

abbrev MV (S : Type) := S × Bool

def mvBin (f : S → S → S) (a b : MV S) : MV S := (f a.1 b.1, a.2 && b.2)
def mvUn (f : S → S) (a : MV S) : MV S := (f a.1, a.2)
def mvZeroFilled (sc : Scalar S) (a : MV S) : S := if a.2 then a.1 else sc.zero
def mvFixNan (sc : Scalar S) (a : MV S) : MV S := (if sc.isNaN a.1 then sc.zero else a.1, a.2)
/-- `sum(dim=-1)`: the values are added up regardless of the flags; the result is valid when all summands are -/
def mvSum (sc : Scalar S) (l : List (MV S)) : MV S := (sumList sc (l.map (·.1)), l.all (·.2))

/-- `DistanceRepresentation.distance(p1s, p2s)`: `sqrt(((p1 − p2) ** 2).sum(-1))` -/
def mvDistance (sc : Scalar S) (p q : List (MV S)) : MV S :=
  mvUn sc.sqrt (mvSum sc (List.zipWith (fun a b => mvUn (fun d => sc.mul d d) (mvBin sc.sub a b)) p q))

def distanceRep (sc : Scalar S) (p q : List (MV S)) : S := mvZeroFilled sc (mvDistance sc p q)

/-- `AngleRepresentation`: `atan(fix_nan((q − p)_y / (q − p)_x))`, zero-filled before the `atan` -/
def angleRep (sc : Scalar S) (atanF : S → S) [Inhabited S] (p q : List (MV S)) : S :=
  let d := List.zipWith (mvBin sc.sub) q p
  let xs := d.getD 0 (default, false)
  let ys := d.getD 1 (default, false)
  atanF (mvZeroFilled sc (mvFixNan sc (mvBin sc.div ys xs)))

/-- `get_vectors_norm`: `v / stack([|v|] * dims)` -/
def mvNormalize (sc : Scalar S) (v : List (MV S)) : List (MV S) :=
  let mag := mvUn sc.sqrt (mvSum sc (v.map (mvUn fun x => sc.mul x x)))
  v.map fun x => mvBin sc.div x mag

/-- `InnerAngleRepresentation`: angle at `p2` between `p1 − p2` and `p3 − p2`; NaN → 0 at the end -/
def innerAngleRep (sc : Scalar S) (acosF : S → S) (p1 p2 p3 : List (MV S)) : S :=
  let v1 := List.zipWith (mvBin sc.sub) p1 p2
  let v2 := List.zipWith (mvBin sc.sub) p3 p2
  let slopes := mvSum sc (List.zipWith (mvBin sc.mul) (mvNormalize sc v1) (mvNormalize sc v2))
  let a := mvZeroFilled sc (mvUn acosF slopes)
  if sc.isNaN a then sc.zero else a

/-- `PointLineDistanceRepresentation`: Heron's formula, height over the side `p2 p3` -/
def pointLineRep (sc : Scalar S) (p1 p2 p3 : List (MV S)) : S :=
  let a := mvDistance sc p1 p2
  let b := mvDistance sc p2 p3
  let c := mvDistance sc p1 p3
  let two : S := sc.ofNat 2
  let s := mvUn (fun x => sc.div x two) (mvBin sc.add (mvBin sc.add a b) c)
  let squared := mvBin sc.mul (mvBin sc.mul (mvBin sc.mul s (mvBin sc.sub s a)) (mvBin sc.sub s b)) (mvBin sc.sub s c)
  let area := mvUn sc.sqrt squared
  let dist := mvBin sc.div (mvUn (fun x => sc.mul x two) area) b
  mvZeroFilled sc (mvFixNan sc dist)

/-! ## the assembled representation: index lists and sizes -/

/-- `get_limbs_points`: every limb of every component, shifted by the number of points of the components before it -/
def limbPoints (comps : List Comp) : List Nat × List Nat :=
  let r := comps.foldl (fun (acc : List Nat × List Nat × Nat) c =>
    (acc.1 ++ c.limbs.map (fun l => l.1 + acc.2.2), acc.2.1 ++ c.limbs.map (fun l => l.2 + acc.2.2), acc.2.2 + c.points.length)) ([], [], 0)
  (r.1, r.2.1)

/-- `get_triangles_points`: chains — a limb continuing where another ended — in the order of the double loop -/
def trianglePoints (l1 l2 : List Nat) : List (Nat × Nat × Nat) :=
  (l1.zip l2).flatMap fun (p1, p2) => ((l1.zip l2).filter fun (p3, _) => p2 == p3).map fun (_, p4) => (p1, p2, p4)

/-- `calc_output_size` with `dims = len(components[0].format)` (every letter is a channel) -/
def repOutputSize (comps : List Comp) (n1 n2 n3 : Nat) : Nat :=
  let N := (comps.map (·.points.length)).sum
  let dims := ((comps.headD default).format).length
  let (l1, l2) := limbPoints comps
  n1 * (N * dims) + n2 * l1.length + n3 * (trianglePoints l1 l2).length

/-- `PointsRepresentation`: rows `point · dims + dim`, each row the (batch, len) grid of that coordinate, zero-filled.
    `pts[point][batch][len]` is a point (list of coordinates with flags). -/
def pointsRepRows (sc : Scalar S) (pts : List (List (List (List (MV S))))) (dims : Nat) [Inhabited S] : List (List (List S)) :=
  pts.flatMap fun grid => (List.range dims).map fun d => grid.map (List.map fun pt => mvZeroFilled sc (pt.getD d (default, false)))

/-- `group_embeds`: concatenate the row blocks, then `(embed, batch, len) → (batch, len, embed)` -/
def groupEmbeds [Inhabited S] (blocks : List (List (List (List S)))) (B L : Nat) : List (List (List S)) :=
  let rows := blocks.flatten
  (List.range B).map fun b => (List.range L).map fun l => rows.map fun r => (r.getD b []).getD l default

/-! ## the assembled representation, end to end (`PoseRepresentation.__call__`) -/

inductive Rep2 where | distance | angle deriving DecidableEq, Repr
inductive Rep3 where | innerAngle | pointLine deriving DecidableEq, Repr

def Rep2.apply (sc : Scalar S) (atanF : S → S) [Inhabited S] : Rep2 → List (MV S) → List (MV S) → S
  | .distance, p, q => distanceRep sc p q
  | .angle, p, q => angleRep sc atanF p q

def Rep3.apply (sc : Scalar S) (acosF : S → S) : Rep3 → List (MV S) → List (MV S) → List (MV S) → S
  | .innerAngle, a, b, c => innerAngleRep sc acosF a b c
  | .pointLine, a, b, c => pointLineRep sc a b c

/-- `points[i][batch][len]` of the `(points, batch, len, dims)` view -/
def cellPt (pts : List (List (List (List (MV S))))) (i b l : Nat) : List (MV S) := ((pts.getD i []).getD b []).getD l []

/-- a limb module on `points[limb_pt1s]`, `points[limb_pt2s]`: one row per limb, each the `(batch, len)` grid of the module's value -/
def rep2Rows (f : List (MV S) → List (MV S) → S) (pts : List (List (List (List (MV S))))) (l1 l2 : List Nat) (B L : Nat) : List (List (List S)) :=
  (l1.zip l2).map fun ij => (List.range B).map fun b => (List.range L).map fun l => f (cellPt pts ij.1 b l) (cellPt pts ij.2 b l)

def rep3Rows (f : List (MV S) → List (MV S) → List (MV S) → S) (pts : List (List (List (List (MV S))))) (tri : List (Nat × Nat × Nat)) (B L : Nat) : List (List (List S)) :=
  tri.map fun t => (List.range B).map fun b => (List.range L).map fun l => f (cellPt pts t.1 b l) (cellPt pts t.2.1 b l) (cellPt pts t.2.2 b l)

/-- `PoseRepresentation(header, rep_modules1, rep_modules2, rep_modules3)(src)`: `n1` copies of the points module, the limb modules `m2`, the triple modules `m3`,
    grouped to `(batch, len, embed)`. `none`: the constructor raises (a header without limbs fails an `assert`, one without a chain fails to unpack). -/
def poseRepresentation (sc : Scalar S) (atanF acosF : S → S) [Inhabited S] (comps : List Comp) (n1 : Nat) (m2 : List Rep2) (m3 : List Rep3)
    (pts : List (List (List (List (MV S))))) (B L : Nat) : Option (List (List (List S))) :=
  let l1 := (limbPoints comps).1
  let l2 := (limbPoints comps).2
  let tri := trianglePoints l1 l2
  if l1.isEmpty || tri.isEmpty then none
  else some (groupEmbeds (List.replicate n1 (pointsRepRows sc pts ((comps.headD default).format).length)
      ++ m2.map (fun m => rep2Rows (m.apply sc atanF) pts l1 l2 B L) ++ m3.map (fun m => rep3Rows (m.apply sc acosF) pts tri B L)) B L)

end PoseVerif
