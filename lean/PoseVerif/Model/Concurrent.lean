import PoseVerif.Model.Cache
/-!
# Concurrent reads against the process-global header cache (C18)

Small-step semantics at the granularity the repaired code has: the cache lookup (compare hash, fetch header, fetch end offset, copy)
is one critical section, the cache update (store copy, key, offsets) is another; parsing is thread-local.
Any number of threads; a schedule is a list of thread ids (who takes the next step).
-/
namespace PoseVerif

structure CEntry (H : Type) where
  key : Bytes
  endOff : Nat
  hdr : H

inductive PC (H : Type) where
  | start
  /-- only in the unsynchronised variant: the hash comparison succeeded, header and end offset not fetched yet -/
  | matched
  | parsed (h : H) (e : Nat)
  | done (r : Option (H × Nat))
deriving DecidableEq

structure CState (H : Type) where
  cache : Option (CEntry H)
  pc : Nat → PC H

def CEntry.hit {H : Type} (c : CEntry H) (file : Bytes) : Bool := file.take c.endOff == c.key

/-- one atomic step of thread `t`, which reads `files t` -/
def cstep {H : Type} (parse : Bytes → Option (H × Nat)) (files : Nat → Bytes) (s : CState H) (t : Nat) : CState H :=
  let miss : CState H := match parse (files t) with
    | some (h, e) => { s with pc := fun u => if u = t then .parsed h e else s.pc u }
    | none => { s with pc := fun u => if u = t then .done none else s.pc u }
  match s.pc t with
  | .start =>
    match s.cache with
    | some c => if c.hit (files t) then { s with pc := fun u => if u = t then .done (some (c.hdr, c.endOff)) else s.pc u } else miss
    | none => miss
  | .parsed h e => { cache := some ⟨(files t).take e, e, h⟩, pc := fun u => if u = t then .done (some (h, e)) else s.pc u }
  | .matched => s
  | .done _ => s

/-- the protocol as the code had it before the repair: the hash comparison and the fetch of header / end offset are separate steps -/
def cstepSplit {H : Type} (parse : Bytes → Option (H × Nat)) (files : Nat → Bytes) (s : CState H) (t : Nat) : CState H :=
  match s.pc t with
  | .start =>
    match s.cache with
    | some c => if c.hit (files t) then { s with pc := fun u => if u = t then .matched else s.pc u } else cstep parse files s t
    | none => cstep parse files s t
  | .matched =>
    match s.cache with
    | some c => { s with pc := fun u => if u = t then .done (some (c.hdr, c.endOff)) else s.pc u }
    | none => { s with pc := fun u => if u = t then .done none else s.pc u }
  | _ => cstep parse files s t

def crun {H : Type} (parse : Bytes → Option (H × Nat)) (files : Nat → Bytes) (s0 : CState H) (sched : List Nat) : CState H :=
  sched.foldl (cstep parse files) s0

end PoseVerif
