import PoseVerif.Model.PoseOps
/-!
# Temporal interpolation (`NumPyPoseBody.interpolate`), linear kind

Per point and person ("track"): the observed steps, the index window of the new grid inside `[first observation, last observation]`, zero padding outside,
and piecewise-linear interpolation inside (scipy `interp1d(kind="linear")`: `slope * (x − x_lo) + y_lo` with `hi = clip(searchsorted(x, x_new), 1, n − 1)`).
Confidence is interpolated as one more coordinate; the missing pattern of the result is re-derived from it by the constructor.
The spline kinds (`quadratic`, `cubic`) share everything except the interpolant itself, which is not modelled.
-/
namespace PoseVerif
variable {S : Type}

/-- `np.linspace(0, 1, n)`: `i * (1 / (n − 1))`, the last point set to exactly 1 -/
def linspace01 (sc : Scalar S) (n : Nat) : List S :=
  if n = 1 then [sc.zero] else
  (List.range n).map fun i => if i + 1 = n then sc.ofNat 1 else sc.mul (sc.ofNat i) (sc.div (sc.ofNat 1) (sc.ofNat (n - 1)))

def leS (sc : Scalar S) (a b : S) : Bool := !sc.lt b a

/-- first index whose element satisfies `p`, or the length -/
def firstIdx {α : Type} (p : α → Bool) (l : List α) : Nat := (l.findIdx p)

/-- scipy linear `interp1d` at `x` over the observed `(xs, ys)` (`xs` increasing, at least two) -/
def lerpAt (sc : Scalar S) [Inhabited S] (xs : List S) (ys : List (List S)) (x : S) : List S :=
  let n := xs.length
  let raw := firstIdx (fun xi => leS sc x xi) xs                -- searchsorted(xs, x, side="left")
  let hi := max 1 (min raw (n - 1))
  let lo := hi - 1
  let xlo := xs.getD lo default
  let xhi := xs.getD hi default
  List.zipWith (fun ylo yhi => sc.add (sc.mul (sc.div (sc.sub yhi ylo) (sc.sub xhi xlo)) (sc.sub x xlo)) ylo) (ys.getD lo []) (ys.getD hi [])

/-- one track: `rows[i] = some values` (coordinates followed by the confidence) when frame `i` is observed. Result: one row per new step. -/
def interpTrack (sc : Scalar S) [Inhabited S] (steps newSteps : List S) (rows : List (Option (List S))) (width : Nat) : List (List S) :=
  let obs := (steps.zip rows).filterMap fun (s, r) => r.map fun v => (s, v)
  let zeros := List.replicate width sc.zero
  match obs with
  | [] => newSteps.map fun _ => zeros
  | (first, _) :: _ =>
    let last := (obs.getLast?.map (·.1)).getD first
    let firstIdx' := firstIdx (fun t => leS sc first t) newSteps       -- first new step ≥ first observation
    let lastIdx := firstIdx (fun t => sc.lt last t) newSteps             -- first new step > last observation
    newSteps.mapIdx fun i t =>
      if firstIdx' ≤ i ∧ i < lastIdx then
        match obs with
        | [(_, v)] => v                                                   -- a single observation: its own values
        | _ => lerpAt sc (obs.map (·.1)) (obs.map (·.2)) t
      else zeros

/-- `interpolate(new_fps, kind="linear")` on a consistent NumPy body; `newFrames = round(frames · new_fps / fps)` is computed by the caller (binary64, half-to-even).
    `none`: a single frame ("Can't interpolate single frame"). -/
def interpolateBody (sc : Scalar S) (isZero : S → Bool) [Inhabited S] (newFps : S) (newFrames : Nat) (b : PBody S) : Option (PBody S) :=
  let F := b.data.length
  if F = 1 then none else
  let P := (b.conf.headD []).length
  let N := ((b.conf.headD []).headD []).length
  let D := (((b.data.headD []).headD []).headD []).length
  let steps := linspace01 sc F
  let newSteps := linspace01 sc newFrames
  -- tracks[p][n] : list over new frames of rows (D + 1 values)
  let track (p n : Nat) : List (List S) :=
    let rows := (List.range F).map fun f =>
      let c := ((b.conf.getD f []).getD p []).getD n default
      if isZero c then none else some ((((b.data.getD f []).getD p []).getD n []) ++ [c])
    interpTrack sc steps newSteps rows (D + 1)
  let cell (t p n : Nat) : List S := ((track p n).getD t (List.replicate (D + 1) sc.zero))
  let data : A4 S := (List.range newFrames).map fun t => (List.range P).map fun p => (List.range N).map fun n => (cell t p n).take D
  let conf : A3 S := (List.range newFrames).map fun t => (List.range P).map fun p => (List.range N).map fun n => (cell t p n).getD D sc.zero
  some (mkBody .numpy isZero newFps data conf none)

/-! ## interpolation of any kind

`kind xs ys x` stands for `scipy.interpolate.interp1d(xs, ys, axis=0, kind=this_kind)(x)` over the OBSERVED samples of one track (at least two of them), `this_kind`
being chosen by the code from their number (`cubic` needs > 3, `quadratic` > 2, else linear). It is an uninterpreted parameter: everything around it is the code's. -/

def interpTrackWith (sc : Scalar S) (kind : List S → List (List S) → S → List S) (steps newSteps : List S) (rows : List (Option (List S))) (width : Nat) : List (List S) :=
  let obs := (steps.zip rows).filterMap fun (s, r) => r.map fun v => (s, v)
  let zeros := List.replicate width sc.zero
  match obs with
  | [] => newSteps.map fun _ => zeros
  | (first, _) :: _ =>
    let last := (obs.getLast?.map (·.1)).getD first
    let firstIdx' := firstIdx (fun t => leS sc first t) newSteps
    let lastIdx := firstIdx (fun t => sc.lt last t) newSteps
    newSteps.mapIdx fun i t =>
      if firstIdx' ≤ i ∧ i < lastIdx then
        match obs with
        | [(_, v)] => v
        | _ => kind (obs.map (·.1)) (obs.map (·.2)) t
      else zeros

def interpolateBodyWith (sc : Scalar S) (isZero : S → Bool) [Inhabited S] (kind : List S → List (List S) → S → List S) (newFps : S) (newFrames : Nat) (b : PBody S) : Option (PBody S) :=
  let F := b.data.length
  if F = 1 then none else
  let P := (b.conf.headD []).length
  let N := ((b.conf.headD []).headD []).length
  let D := (((b.data.headD []).headD []).headD []).length
  let steps := linspace01 sc F
  let newSteps := linspace01 sc newFrames
  let track (p n : Nat) : List (List S) :=
    let rows := (List.range F).map fun f =>
      let c := ((b.conf.getD f []).getD p []).getD n default
      if isZero c then none else some ((((b.data.getD f []).getD p []).getD n []) ++ [c])
    interpTrackWith sc kind steps newSteps rows (D + 1)
  let cell (t p n : Nat) : List S := ((track p n).getD t (List.replicate (D + 1) sc.zero))
  let data : A4 S := (List.range newFrames).map fun t => (List.range P).map fun p => (List.range N).map fun n => (cell t p n).take D
  let conf : A3 S := (List.range newFrames).map fun t => (List.range P).map fun p => (List.range N).map fun n => (cell t p n).getD D sc.zero
  some (mkBody .numpy isZero newFps data conf none)

/-- the linear kind is the instance the rest of the model uses -/
theorem interpTrack_eq_with (sc : Scalar S) [Inhabited S] (steps newSteps : List S) (rows : List (Option (List S))) (width : Nat) :
    interpTrack sc steps newSteps rows width = interpTrackWith sc (lerpAt sc) steps newSteps rows width := rfl
theorem interpolateBody_eq_with (sc : Scalar S) (isZero : S → Bool) [Inhabited S] (newFps : S) (newFrames : Nat) (b : PBody S) :
    interpolateBody sc isZero newFps newFrames b = interpolateBodyWith sc isZero (lerpAt sc) newFps newFrames b := rfl

end PoseVerif
