import PoseVerif.Model.Stream
/-!
# The JavaScript reader (`src/js/pose_format/src/parser.ts`), v0.1 / v0.2 bodies

`parsePose` parses the header with the same grammar as the Python reader (`u16`-length strings, counts, points, limbs, colours;
`saveOffset` = header length), dispatches on `Math.round(version * 1000) / 1000`, and for v0.1 / v0.2 reads the info fields, then two flat
`Float32Array`s (coordinates, confidences) and exposes frames lazily through index arithmetic. The v0.0 body parser (all people, with ids)
is compared with the Python reader by the correspondence check only.
-/
namespace PoseVerif

structure JSBody where
  fps : Fps
  /-- `_frames` as stored in the file (v0.1: the 16-bit field; v0.2: the 32-bit field) -/
  frames : Nat
  people : Nat
  points : Nat
  dims : Nat
  data : List F32
  conf : List F32
deriving DecidableEq, Repr

/-- `Math.round(x)` for the small positive values that occur here: `floor(x + 0.5)` -/
def jsRound (x : Float) : Float := Float.floor (x + 0.5)

/-- `Math.round(header.version * 1000) / 1000` switched on `0`, `0.1`, `0.2` (binary64 arithmetic on the float32 value; `-0 === 0`) -/
def jsVersionClass (w : F32) : VersionClass :=
  let v := jsRound (F32.toFloat w * 1000.0) / 1000.0
  if v == 0.0 then .v00 else if v == 0.1 then .v01 else if v == 0.2 then .v02 else .other

/-- `Math.max(...header.components.map(c => c.format.length)) - 1`; no components: `-Infinity` (array lengths become NaN → nothing is read; modelled as failure) -/
def jsDims? (h : Header) : Option Nat :=
  match h.comps.map (·.format.length) with
  | [] => none
  | l :: ls => some (ls.foldl max l - 1)

/-- the two `parseFloat32Array` calls: `DataView.getFloat32` throws a `RangeError` beyond the buffer -/
def jsBlocks (fps : Fps) (frames people points dims : Nat) : Prog JSBody :=
  .unpack (frames * people * points * dims * 4) fun db =>
  .unpack (frames * people * points * 4) fun cb =>
  .ret { fps, frames, people, points, dims,
         data := getF32s (frames * people * points * dims) db, conf := getF32s (frames * people * points) cb }

def jsBody (h : Header) (cls : VersionClass) : Prog JSBody :=
  match cls with
  | .v01 =>
    Prog.bind rd2U16 fun ff => Prog.bind rdU16 fun people => Prog.bind (Prog.ofOption (jsDims? h)) fun dims =>
      jsBlocks (.int ff.1) ff.2 people h.totalPoints dims
  | .v02 =>
    Prog.bind rdF32 fun fps => Prog.bind rdU32 fun frames => Prog.bind rdU16 fun people => Prog.bind (Prog.ofOption (jsDims? h)) fun dims =>
      jsBlocks (.f32 fps) frames people h.totalPoints dims
  | _ => .fail

/-- `parsePose` for v0.1 / v0.2: header, header length, body. `cls` is the outcome of the version switch. -/
def jsParse (cls : F32 → VersionClass) (b : Bytes) : Option (Header × Nat × JSBody) :=
  match runBR rdHeaderRaw b 0 with
  | none => none
  | some (h, e) => (runBR (jsBody h (cls h.version)) b e).map fun r => (h, e, r.1)

/-- `frameRepresentation`: the flat index of frame `i`, person `j`, component offset `k`, point `l` -/
def jsPlace (people points i j k l : Nat) : Nat := i * (people * points) + j * points + k + l

/-- coordinate `dimIndex` and confidence of a point as the lazily built frame object reports them -/
def JSBody.coord (b : JSBody) (i j k l dimIndex : Nat) : F32 := b.data.getD (jsPlace b.people b.points i j k l * b.dims + dimIndex) 0
def JSBody.confidence (b : JSBody) (i j k l : Nat) : F32 := b.conf.getD (jsPlace b.people b.points i j k l) 0

/-! ## parser.ts, v0.0 body (`getBodyParserV0_0`) -/

/-- a person as `binary-parser` returns it: the id and, per component, its points, each point the values of its format letters -/
structure JSPersonV00 where
  id : Nat
  comps : List (List (List F32))
deriving DecidableEq, Repr

/-- one point: a `floatle` per letter of the format -/
def jsPointV00 (len : Nat) : Prog (List F32) := .unpack (len * 4) fun b => .ret (getF32s len b)

def jsCompsV00 : List Comp → Prog (List (List (List F32)))
  | [] => .ret []
  | c :: cs => Prog.bind (Prog.many (jsPointV00 c.format.length) c.points.length) fun pts => Prog.bind (jsCompsV00 cs) fun rest => .ret (pts :: rest)

def jsPersonV00 (comps : List Comp) : Prog JSPersonV00 :=
  Prog.bind rdU16 fun id => Prog.bind (jsCompsV00 comps) fun cs => .ret ⟨id, cs⟩

def jsFrameV00 (comps : List Comp) : Prog (List JSPersonV00) := Prog.bind rdU16 fun n => Prog.many (jsPersonV00 comps) n

/-- `.seek(headerLength).uint16("fps").uint16("_frames").array("frames", …)` -/
def jsBodyV00 (h : Header) : Prog (Nat × List (List JSPersonV00)) :=
  Prog.bind rd2U16 fun ff => Prog.bind (Prog.many (jsFrameV00 h.comps) ff.2) fun frames => .ret (ff.1, frames)

/-- `parsePose` on a file whose version switch says 0: header, header length, fps, frames -/
def jsParseV00 (b : Bytes) : Option (Header × Nat × Nat × List (List JSPersonV00)) :=
  match runBR rdHeaderRaw b 0 with
  | none => none
  | some (h, e) => (runBR (jsBodyV00 h) b e).map fun r => (h, e, r.1.1, r.1.2)


end PoseVerif
