import PoseVerif.Model.Prim
/-!
# Reader programs

`pose_format` writes its decoders once, against the interface of `BufferReader`
(`expect_to_read`, `unpack*`, `advance`, `skip`, `bytes_left`, direct assignment of `read_offset`,
and the header cache looking at `reader.buffer`).  `Prog α` is that interface as a free monad; the
decoders in `Model/Header.lean` and `Model/Body.lean` are values of it and are interpreted by
`runBR` (this file: `BufferReader` over a byte string) and by `SR.run` (`Model/Stream.lean`:
`BytesIOReader` over a seekable stream).
-/
namespace PoseVerif

inductive Prog (α : Type) where
  | ret (a : α)
  | fail
  /-- `reader.expect_to_read(n)` -/
  | expect (n : Nat) (k : Prog α)
  /-- `reader.unpack(struct of size n)` / `unpack_numpy` of `n` bytes: the `n` bytes at the cursor, cursor += n -/
  | unpack (n : Nat) (k : Bytes → Prog α)
  /-- `reader.skip(s, times)` with `s.size * times = n` -/
  | skip (n : Nat) (k : Prog α)
  /-- `reader.advance(s, times)`: cursor += n, nothing else -/
  | advance (n : Nat) (k : Prog α)
  /-- `reader.read_offset = n` (header-cache hit) -/
  | setOff (n : Nat) (k : Prog α)
  /-- bytes between the cursor and the end of the underlying data (`file_bytes_left()`, v0.1 frame count) -/
  | fileLeft (k : Int → Prog α)
  /-- `reader.buffer[0:n]` as the header cache sees it -/
  | peek (n : Nat) (k : Bytes → Prog α)
  /-- current `read_offset` -/
  | getOff (k : Nat → Prog α)

namespace Prog

def bind {α β : Type} : Prog α → (α → Prog β) → Prog β
  | ret a, f => f a
  | fail, _ => fail
  | expect n k, f => expect n (bind k f)
  | unpack n k, f => unpack n (fun b => bind (k b) f)
  | skip n k, f => skip n (bind k f)
  | advance n k, f => advance n (bind k f)
  | setOff n k, f => setOff n (bind k f)
  | fileLeft k, f => fileLeft (fun i => bind (k i) f)
  | peek n k, f => peek n (fun b => bind (k b) f)
  | getOff k, f => getOff (fun o => bind (k o) f)

instance : Monad Prog where
  pure := ret
  bind := bind

def ofOption {α : Type} : Option α → Prog α
  | some a => ret a
  | none => fail

/-- counted repetition (`[f() for _ in range(n)]`) -/
def many {α : Type} (p : Prog α) : Nat → Prog (List α)
  | 0 => ret []
  | n + 1 => bind p fun x => bind (many p n) fun xs => ret (x :: xs)

/-- no `skip`, `advance`, `setOff`: the cursor only moves by reading -/
def SkipFree {α : Type} : Prog α → Prop
  | ret _ => True
  | fail => True
  | expect _ k => SkipFree k
  | unpack _ k => ∀ b, SkipFree (k b)
  | skip _ _ => False
  | advance _ _ => False
  | setOff _ _ => False
  | fileLeft k => ∀ i, SkipFree (k i)
  | peek _ k => ∀ b, SkipFree (k b)
  | getOff k => ∀ o, SkipFree (k o)

/-- does not look at the amount of data that follows the cursor (`fileLeft`) nor at the raw buffer (`peek`) -/
def Blind {α : Type} : Prog α → Prop
  | ret _ => True
  | fail => True
  | expect _ k => Blind k
  | unpack _ k => ∀ b, Blind (k b)
  | skip _ k => Blind k
  | advance _ k => Blind k
  | setOff _ k => Blind k
  | fileLeft _ => False
  | peek _ _ => False
  | getOff k => ∀ o, Blind (k o)

/-- position independent: no absolute cursor (`setOff`, `getOff`) and no look at the raw buffer (`peek`) -/
def Rel {α : Type} : Prog α → Prop
  | ret _ => True
  | fail => True
  | expect _ k => Rel k
  | unpack _ k => ∀ b, Rel (k b)
  | skip _ k => Rel k
  | advance _ k => Rel k
  | setOff _ _ => False
  | fileLeft k => ∀ i, Rel (k i)
  | peek _ _ => False
  | getOff _ => False

/-- the operations decoders are made of once the prefetch hint and the header-cache lookup are set aside -/
def Core {α : Type} : Prog α → Prop
  | ret _ => True
  | fail => True
  | expect _ _ => False
  | unpack _ k => ∀ b, Core (k b)
  | skip _ k => Core k
  | advance _ k => Core k
  | setOff _ _ => False
  | fileLeft k => ∀ i, Core (k i)
  | peek _ _ => False
  | getOff _ => False

end Prog

/-! ## `BufferReader` -/

/-- run a reader program on a byte string with the cursor at `off`; result and final cursor, `none` = an exception -/
def runBR {α : Type} : Prog α → Bytes → Nat → Option (α × Nat)
  | .ret a, _, off => some (a, off)
  | .fail, _, _ => none
  | .expect _ k, f, off => runBR k f off
  | .unpack n k, f, off => if off + n ≤ f.length then runBR (k ((f.drop off).take n)) f (off + n) else none
  | .skip n k, f, off => runBR k f (off + n)
  | .advance n k, f, off => runBR k f (off + n)
  | .setOff n k, f, _ => runBR k f n
  | .fileLeft k, f, off => runBR (k ((f.length : Int) - off)) f off
  | .peek n k, f, off => runBR (k (f.take n)) f off
  | .getOff k, f, off => runBR (k off) f off

end PoseVerif
