import PoseVerif.Model.PoseOps
import PoseVerif.Model.Header
/-!
# Selecting / removing components and points by name (`Pose.get_components`, `Pose.remove_components`, `PoseHeader.get_point_index`)

Transcribed from `pose.py` and `pose_header.py`. `none` = the call raises (`ValueError` from `list.index`, `KeyError` from the component dictionary).
-/
namespace PoseVerif

/-- `list.index(x)` -/
def indexOf? (l : List String) (x : String) : Option Nat :=
  let i := l.idxOf x
  if i < l.length then some i else none

/-- `PoseHeader._get_point_index(component, point)`: offset of the first component with that name + index of the point in it -/
def pointIndex? (comps : List Comp) (component point : String) : Option Nat :=
  go comps 0
where
  go : List Comp → Nat → Option Nat
    | [], _ => none
    | c :: cs, idx => if c.name = component then (indexOf? c.points point).map (idx + ·) else go cs (idx + c.points.length)

/-- offset of every component (running sum of the point counts) -/
def compOffsets (comps : List Comp) : List Nat :=
  (comps.foldl (fun (acc : List Nat × Nat) c => (acc.1 ++ [acc.2], acc.2 + c.points.length)) ([], 0)).1

/-- the new component and its source point indexes when component `c` (at flat offset `idx`) is requested, with an optional point list -/
def selectComp (c : Comp) (idx : Nat) (pts : Option (List String)) : Option (Comp × List Nat) :=
  match pts with
  | none => some (c, (List.range c.points.length).map (idx + ·))
  | some newPts => do
    let olds ← newPts.mapM (indexOf? c.points)                        -- `component.points.index(point)` for each requested point
    -- `{old: new}`: for repeated names the LAST position wins (dict comprehension)
    let mapOf (old : Nat) : Option Nat := (olds.zipIdx.reverse.find? (·.1 == old)).map (·.2)
    let limbs := c.limbs.filterMap fun l => do
      let a ← mapOf l.1
      let b ← mapOf l.2
      pure (a, b)
    pure ({ c with points := newPts, limbs }, olds.map (idx + ·))

/-- `Pose.get_components(components, points)` on the header: the new components (in the requested order) and the flat list of source point indexes -/
def getComponents (comps : List Comp) (request : List String) (points : Option (List (String × List String))) : Option (List Comp × List Nat) := do
  let offs := compOffsets comps
  -- first pass, in header order: every header component whose name is requested (a later duplicate name overwrites an earlier one in the dictionaries)
  let table ← (comps.zip offs).filterMapM fun (c, off) =>
    if request.contains c.name then
      let pts := points.bind fun ps => (ps.find? (·.1 == c.name)).map (·.2)
      (selectComp c off pts).map fun r => some (c.name, r)
    else some none
  let lookup (name : String) : Option (Comp × List Nat) := (table.reverse.find? (·.1 == name)).map (·.2)
  let picked ← request.mapM lookup                                      -- `new_components[c]` raises `KeyError` for an unknown name
  pure (picked.map (·.1), (picked.map (·.2)).flatten)

/-- `Pose.remove_components(components_to_remove, points_to_remove)` on the header -/
def removeComponents (comps : List Comp) (remove : List String) (pointsToRemove : Option (List (String × List String))) : Option (List Comp × List Nat) :=
  let keep := comps.filter fun c => !remove.contains c.name
  let pointsDict : List (String × List String) := keep.map fun c =>
    match pointsToRemove with
    | some ptr =>
      let rm := ((ptr.find? (·.1 == c.name)).map (·.2)).getD []
      (c.name, c.points.filter fun p => !rm.contains p)
    | none => (c.name, c.points)
  -- `if points_to_remove:` — an empty dict is falsy, every point is kept either way
  getComponents comps (keep.map (·.name)) (some pointsDict)

end PoseVerif
