import PoseVerif.Model.Normalize
/-!
# The 3-D plane / line normaliser (`utils/normalization_3d.py`, `PoseNormalizer.__call__`)

Per frame and person, on the raw coordinates (`np.cross`, `np.einsum`, `np.arctan2` do not look at the mask):
normal of the plane triangle, change of basis with the **non-normalised** vectors `y = x₀ × z`, `x = z × y` exactly as written, rotation about z by
`−(90° + atan2(v_y, v_x))` — expressed by its algebraic meaning `cos θ = −v_y / r`, `sin θ = v_x / r`, `r = |(v_x, v_y)|` —, scaling by `size / |line|₃`, translation of
`line.p1` to the origin, and `filled(0)` under the unchanged mask.
-/
namespace PoseVerif
variable {S : Type}

abbrev V3S (S : Type) := S × S × S

def v3sub (sc : Scalar S) (a b : V3S S) : V3S S := (sc.sub a.1 b.1, sc.sub a.2.1 b.2.1, sc.sub a.2.2 b.2.2)
def v3scale (sc : Scalar S) (k : S) (a : V3S S) : V3S S := (sc.mul a.1 k, sc.mul a.2.1 k, sc.mul a.2.2 k)
def v3dot (sc : Scalar S) (a b : V3S S) : S := sc.add (sc.add (sc.mul a.1 b.1) (sc.mul a.2.1 b.2.1)) (sc.mul a.2.2 b.2.2)
def v3cross (sc : Scalar S) (a b : V3S S) : V3S S :=
  (sc.sub (sc.mul a.2.1 b.2.2) (sc.mul a.2.2 b.2.1), sc.sub (sc.mul a.2.2 b.1) (sc.mul a.1 b.2.2), sc.sub (sc.mul a.1 b.2.1) (sc.mul a.2.1 b.1))
def v3norm (sc : Scalar S) (a : V3S S) : S := sc.sqrt (v3dot sc a a)

def toV3 [Inhabited S] (pt : List S) : V3S S := (pt.getD 0 default, pt.getD 1 default, pt.getD 2 default)
def ofV3 (a : V3S S) : List S := [a.1, a.2.1, a.2.2]

structure Norm3DInfo where
  plane : Nat × Nat × Nat
  line : Nat × Nat

/-- change of basis around the first plane point: coordinates of every point along `x = z × y`, `y = x₀ × z`, `z = normal / |normal|` -/
def stage1 (sc : Scalar S) [Inhabited S] (info : Norm3DInfo) (pts : List (V3S S)) : List (V3S S) :=
  let at' (i : Nat) : V3S S := pts.getD i default
  let t0 := at' info.plane.1
  let v1 := v3sub sc (at' info.plane.2.1) t0
  let v2 := v3sub sc (at' info.plane.2.2) t0
  let n := v3cross sc v1 v2
  let len := v3norm sc n
  let z : V3S S := (sc.div n.1 len, sc.div n.2.1 len, sc.div n.2.2 len)
  let y := v3cross sc (sc.ofNat 1, sc.zero, sc.zero) z
  let x := v3cross sc z y
  pts.map fun p => let q := v3sub sc p t0; (v3dot sc q x, v3dot sc q y, v3dot sc q z)

/-- in-plane rotation that puts the line's projection on the negative Y axis (`cos θ = −v_y / r`, `sin θ = v_x / r`) -/
def stage2 (sc : Scalar S) [Inhabited S] (info : Norm3DInfo) (rot1 : List (V3S S)) : List (V3S S) :=
  let l1 := rot1.getD info.line.1 default
  let l2 := rot1.getD info.line.2 default
  let v := v3sub sc l2 l1
  let r := sc.sqrt (sc.add (sc.mul v.1 v.1) (sc.mul v.2.1 v.2.1))
  let cosT := sc.div (sc.neg v.2.1) r
  let sinT := sc.div v.1 r
  rot1.map fun p => (sc.add (sc.mul cosT p.1) (sc.mul sinT p.2.1), sc.add (sc.mul (sc.neg sinT) p.1) (sc.mul cosT p.2.1), p.2.2)

/-- scale by `size / |line|₃`, then move the first line point to the origin -/
def stage3 (sc : Scalar S) [Inhabited S] (info : Norm3DInfo) (size : S) (rot2 : List (V3S S)) : List (V3S S) :=
  let m1 := rot2.getD info.line.1 default
  let m2 := rot2.getD info.line.2 default
  let cur := v3norm sc (v3sub sc m2 m1)
  let s := sc.div size cur
  let scaled := rot2.map (v3scale sc s)
  let origin := scaled.getD info.line.1 default
  scaled.map fun p => v3sub sc p origin

/-- one frame and person: the list of points → the normalised list of points -/
def normalize3DPerson (sc : Scalar S) [Inhabited S] (info : Norm3DInfo) (size : S) (pts : List (V3S S)) : List (V3S S) :=
  stage3 sc info size (stage2 sc info (stage1 sc info pts))

/-- the whole body: every frame and person independently; the mask is kept and the result zero-filled. `none`: fewer than 3 coordinates. -/
def normalize3DBody (sc : Scalar S) (isZero : S → Bool) [Inhabited S] (info : Norm3DInfo) (size : S) (b : PBody S) : Option (A4 S × A4 Bool) :=
  if numDimsBody b ≠ 3 then none else
  let out := b.data.map (List.map fun pe => (normalize3DPerson sc info size (pe.map toV3)).map ofV3)
  some (zeroFill4 sc out b.missing, b.missing)

end PoseVerif
