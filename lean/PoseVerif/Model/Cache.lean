import PoseVerif.Model.Stream
/-!
# Reads under a process-global header memo, with callers mutating what they were handed (C06)

An explicit object store so that aliasing is expressible. `H` is the type of header values and `parse` the header decoder
(`fun b => runBR rdHeaderRaw b 0` in the driver and in the final theorems). The model is of the *repaired* code: the memo keeps
and hands out private deep copies, and `Pose.copy()` deep-copies the header.
-/
namespace PoseVerif

structure Store (H : Type) where
  heap : Nat → Option H
  next : Nat
  /-- key bytes, end offset, address of the memo's own header object -/
  cache : Option (Bytes × Nat × Nat)
  /-- addresses callers hold -/
  handed : List Nat

def Store.empty {H : Type} : Store H := { heap := fun _ => none, next := 0, cache := none, handed := [] }

inductive Op (H : Type) where
  | read (file : Bytes)
  | mutate (addr : Nat) (f : H → H)          -- any in-place edit through a reference a caller holds
  | copy (addr : Nat)                        -- `Pose.copy()`
  | clear                                    -- `PoseHeaderCache.clear_cache()`

def Store.alloc {H : Type} (s : Store H) (v : H) : Store H × Nat :=
  ({ s with heap := fun a => if a = s.next then some v else s.heap a, next := s.next + 1 }, s.next)

/-- one API call; returns the new store and, for reads/copies, the address handed to the caller (`none` = raised / nothing returned) -/
def Store.exec {H : Type} (parse : Bytes → Option (H × Nat)) (s : Store H) : Op H → Store H × Option Nat
  | .read file =>
    let hitv : Option H := match s.cache with
      | some (key, e, a) => if file.take e == key then s.heap a else none
      | none => none
    match hitv with
    | some v =>                                   -- hit: hand out a deep copy
      let (s1, r) := s.alloc v
      ({ s1 with handed := r :: s1.handed }, some r)
    | none =>
      match parse file with
      | none => (s, none)                          -- raises
      | some (h, e) =>
        let (s1, r) := s.alloc h                   -- the caller's object
        let (s2, c) := s1.alloc h                  -- the memo's private deep copy
        ({ s2 with cache := some (file.take e, e, c), handed := r :: s2.handed }, some r)
  | .mutate a f =>
    if a ∈ s.handed then ({ s with heap := fun b => if b = a then (s.heap a).map f else s.heap b }, none) else (s, none)
  | .copy a =>
    if a ∈ s.handed then
      match s.heap a with
      | some v => let (s1, r) := s.alloc v; ({ s1 with handed := r :: s1.handed }, some r)
      | none => (s, none)
    else (s, none)
  | .clear => ({ s with cache := none }, none)

def Store.run {H : Type} (parse : Bytes → Option (H × Nat)) (s : Store H) (ops : List (Op H)) : Store H :=
  ops.foldl (fun s op => (s.exec parse op).1) s

/-! ## header mutations offered to callers (a value-level view of the in-place edits the Python API allows) -/

inductive HMut where
  | setWidth (v : Nat)                         -- `header.dimensions.width = v`
  | setDims (w h d : Nat)                      -- `header.dimensions = PoseHeaderDimensions(w, h, d)` (what `focus()` does)
  | renameComp (i : Nat) (s : String)
  | renamePoint (i j : Nat) (s : String)
  | setLimb (i k : Nat) (a b : Nat)
  | appendLimb (i : Nat) (a b : Nat)
  | setColor (i k : Nat) (r g b : Nat)
  | popComp
deriving Repr

def modifyNth {α : Type} (l : List α) (n : Nat) (f : α → α) : List α :=
  l.mapIdx fun i x => if i = n then f x else x

def HMut.apply : HMut → Header → Header
  | .setWidth v, h => { h with width := v }
  | .setDims w hh d, h => { h with width := w, height := hh, depth := d }
  | .renameComp i s, h => { h with comps := modifyNth h.comps i fun c => { c with name := s } }
  | .renamePoint i j s, h => { h with comps := modifyNth h.comps i fun c => { c with points := modifyNth c.points j fun _ => s } }
  | .setLimb i k a b, h => { h with comps := modifyNth h.comps i fun c => { c with limbs := modifyNth c.limbs k fun _ => (a, b) } }
  | .appendLimb i a b, h => { h with comps := modifyNth h.comps i fun c => { c with limbs := c.limbs ++ [(a, b)] } }
  | .setColor i k r g b, h => { h with comps := modifyNth h.comps i fun c => { c with colors := modifyNth c.colors k fun _ => (r, g, b) } }
  | .popComp, h => { h with comps := h.comps.dropLast }

/-- the header decoder the store is instantiated with -/
def parseHeader (b : Bytes) : Option (Header × Nat) := runBR rdHeaderRaw b 0

end PoseVerif
