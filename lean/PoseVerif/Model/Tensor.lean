/-!
# Dense tensors as (shape, row-major data) and the structural operations of the masked-tensor API

Every structural operation (indexing, transpose / permute, squeeze / unsqueeze, reshape, split, concatenate, stack, gather) is
*(new shape, source position of every output element)*, computed from shapes only and applied by one polymorphic `pick`.
That is what makes "values and validity move together" a theorem about `pick` alone (Props/C10).
Core Lean only.
-/
namespace PoseVerif

structure T (α : Type) where
  shape : List Nat
  data : List α
deriving Repr, DecidableEq

def numel (shape : List Nat) : Nat := shape.foldl (· * ·) 1

/-- multi-index of flat position `i` in a row-major array of the given shape -/
def unravel : List Nat → Nat → List Nat
  | [], _ => []
  | _ :: rest, i => (i / numel rest) :: unravel rest (i % numel rest)

/-- flat position of a multi-index -/
def ravel : List Nat → List Nat → Nat
  | _ :: rest, i :: is => i * numel rest + ravel rest is
  | _, _ => 0

namespace T

def wf {α : Type} (t : T α) : Bool := t.data.length == numel t.shape

/-- a source position: which input tensor, which flat element -/
abbrev Src := Nat × Nat

/-- build a tensor by picking every element from one of the inputs -/
def pick {α : Type} [Inhabited α] (srcs : List (T α)) (newShape : List Nat) (ix : List Src) : T α :=
  ⟨newShape, ix.map fun s => ((srcs.getD s.1 ⟨[], []⟩).data.getD s.2 default)⟩

def map {α β : Type} (f : α → β) (t : T α) : T β := ⟨t.shape, t.data.map f⟩
def zip {α β : Type} (a : T α) (b : T β) : T (α × β) := ⟨a.shape, a.data.zip b.data⟩
def zipWith {α β γ : Type} (f : α → β → γ) (a : T α) (b : T β) : T γ := ⟨a.shape, List.zipWith f a.data b.data⟩
def full {α : Type} (shape : List Nat) (v : α) : T α := ⟨shape, List.replicate (numel shape) v⟩

end T

/-! ## structural operations: shapes and index maps (no element type involved) -/

/-- a structural operation on `n` inputs of given shapes: the output shape and, for every output element, its source — or `none` when the
    framework raises (bad axis, incompatible shapes, …) -/
abbrev Plan := Option (List Nat × List T.Src)

def normAxis (rank : Nat) (ax : Int) : Option Nat :=
  if 0 ≤ ax ∧ ax < rank then some ax.toNat
  else if ax < 0 ∧ -ax ≤ rank then some (rank - (-ax).toNat)
  else none

/-- generic single-input plan from an output-multi-index → input-multi-index map -/
def planFrom (inShape outShape : List Nat) (f : List Nat → List Nat) : List Nat × List T.Src :=
  (outShape, (List.range (numel outShape)).map fun o => (0, ravel inShape (f (unravel outShape o))))

/-- `x[i]` on the first axis (negative `i` counts from the end) -/
def planIndex (shape : List Nat) (i : Int) : Plan :=
  match shape with
  | [] => none
  | n :: rest =>
    match normAxis n i with
    | none => none
    | some k => some (planFrom shape rest fun idx => k :: idx)

/-- `x[a:b]` on the first axis, Python slice semantics for `0 ≤ a`, `0 ≤ b` (clamped) -/
def planSlice (shape : List Nat) (a b : Nat) : Plan :=
  match shape with
  | [] => none
  | n :: rest =>
    let a' := min a n
    let b' := max a' (min b n)
    some (planFrom shape ((b' - a') :: rest) fun idx => match idx with
      | i :: r => (i + a') :: r
      | [] => [])

/-- `x[[i₀, i₁, …]]` / `tf.gather(x, indexes)` on the first axis -/
def planGather (shape : List Nat) (ixs : List Nat) : Plan :=
  match shape with
  | [] => none
  | n :: rest =>
    if ixs.all (· < n) then
      some (planFrom shape (ixs.length :: rest) fun idx => match idx with
        | i :: r => ixs.getD i 0 :: r
        | [] => [])
    else none

def isPerm (perm : List Nat) (rank : Nat) : Bool :=
  perm.length == rank && (List.range rank).all fun k => perm.contains k

/-- `permute(dims)` / `tf.transpose(perm)`: output axis `k` is input axis `perm[k]` -/
def planPermute (shape : List Nat) (perm : List Nat) : Plan :=
  if isPerm perm shape.length then
    let outShape := perm.map fun p => shape.getD p 0
    some (planFrom shape outShape fun idx =>
      (List.range shape.length).map fun inAx => idx.getD (perm.idxOf inAx) 0)
  else none

/-- `transpose(d0, d1)` -/
def planTranspose (shape : List Nat) (d0 d1 : Int) : Plan :=
  match normAxis shape.length d0, normAxis shape.length d1 with
  | some a, some b =>
    planPermute shape ((List.range shape.length).map fun k => if k = a then b else if k = b then a else k)
  | _, _ => none

/-- reshape / squeeze / unsqueeze keep the row-major order: the data is untouched -/
def planSameData (shape newShape : List Nat) : Plan :=
  if numel shape = numel newShape then some (newShape, (List.range (numel newShape)).map fun o => (0, o)) else none

/-- torch `squeeze(dim)`: drops the axis when its extent is 1, otherwise returns the tensor unchanged -/
def planSqueezeTorch (shape : List Nat) (dim : Int) : Plan :=
  match normAxis shape.length dim with
  | none => none
  | some a => if shape.getD a 0 = 1 then planSameData shape (shape.eraseIdx a) else planSameData shape shape

/-- tf `squeeze(axis)`: raises when the extent is not 1 -/
def planSqueezeTF (shape : List Nat) (dim : Int) : Plan :=
  match normAxis shape.length dim with
  | none => none
  | some a => if shape.getD a 0 = 1 then planSameData shape (shape.eraseIdx a) else none

/-- `squeeze()` of every unit axis -/
def planSqueezeAll (shape : List Nat) : Plan := planSameData shape (shape.filter (· ≠ 1))

/-- `unsqueeze(dim)`: `dim` in `[-rank-1, rank]` -/
def planUnsqueeze (shape : List Nat) (dim : Int) : Plan :=
  match normAxis (shape.length + 1) dim with
  | none => none
  | some a => planSameData shape (shape.take a ++ [1] ++ shape.drop a)

/-- `reshape(shape)` with at most one `-1` -/
def planReshape (shape : List Nat) (req : List Int) : Plan :=
  let known := (req.filter (· ≥ 0)).map Int.toNat
  let nneg := (req.filter (· < 0)).length
  if nneg = 0 then planSameData shape known
  else if nneg = 1 ∧ req.all (· ≥ -1) then
    let k := numel known
    if k = 0 then none
    else if numel shape % k = 0 then planSameData shape (req.map fun r => if r < 0 then numel shape / k else r.toNat) else none
  else none

/-- the sub-block `[start, start+len)` along `axis` -/
def planNarrow (shape : List Nat) (axis start len : Nat) : Plan :=
  if axis < shape.length ∧ start + len ≤ shape.getD axis 0 then
    some (planFrom shape (shape.set axis len) fun idx => idx.set axis (idx.getD axis 0 + start))
  else none

/-- `cat(tensors, dim)`: all shapes equal except along `dim` -/
def planCat (shapes : List (List Nat)) (dim : Int) : Plan :=
  match shapes with
  | [] => none
  | s0 :: _ =>
    match normAxis s0.length dim with
    | none => none
    | some a =>
      if shapes.all (fun s => s.length = s0.length ∧ s.eraseIdx a = s0.eraseIdx a) then
        let extents := shapes.map fun s => s.getD a 0
        let total := extents.foldl (· + ·) 0
        let outShape := s0.set a total
        -- for a position `p` along the axis: which input and the offset inside it
        let locate (p : Nat) : Nat × Nat := Id.run do
          let mut rem := p
          let mut k := 0
          for e in extents do
            if rem < e then return (k, rem)
            rem := rem - e
            k := k + 1
          return (k, rem)
        some (outShape, (List.range (numel outShape)).map fun o =>
          let idx := unravel outShape o
          let (k, off) := locate (idx.getD a 0)
          (k, ravel (shapes.getD k []) (idx.set a off)))
      else none

/-- `stack(tensors, dim)`: all shapes equal; a new axis of extent `n` at `dim` -/
def planStack (shapes : List (List Nat)) (dim : Int) : Plan :=
  match shapes with
  | [] => none
  | s0 :: _ =>
    match normAxis (s0.length + 1) dim with
    | none => none
    | some a =>
      if shapes.all (· = s0) then
        let outShape := s0.take a ++ [shapes.length] ++ s0.drop a
        some (outShape, (List.range (numel outShape)).map fun o =>
          let idx := unravel outShape o
          (idx.getD a 0, ravel s0 (idx.eraseIdx a)))
      else none

def applyPlan {α : Type} [Inhabited α] (srcs : List (T α)) (p : Plan) : Option (T α) :=
  p.map fun (sh, ix) => T.pick srcs sh ix

end PoseVerif
