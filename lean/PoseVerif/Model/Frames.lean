import PoseVerif.Model.PoseOps
/-!
# Frame dropout (`PoseBody.frame_dropout_given_percent` and the TensorFlow variant)

The random draw is an explicit argument, so the theorems hold for every draw.
`kReq = int(data_len * dropout_percent)` and `kCap = int(data_len * 0.99)` are computed in binary64 by the code (and by the driver); the model takes them as numbers.
-/
namespace PoseVerif

/-- generic dropout: `dropped` is the set `sample(range(n), k)` returned (only its members `< n` matter); kept = the other frames, in order -/
def dropoutKept (n : Nat) (dropped : List Nat) : List Nat := (List.range n).filter fun i => !dropped.contains i

/-- number of frames the generic variant drops -/
def dropCount (kReq kCap : Nat) : Nat := min kReq kCap

/-- TensorFlow variant (repaired): keep `m = max 1 (round(n · (1 − p)))` frames: the first `m` of a shuffle of `range(n)`, sorted -/
def tfDropoutKept (n m : Nat) (shuffle : List Nat) : List Nat := (shuffle.take m).mergeSort (· ≤ ·)

end PoseVerif
