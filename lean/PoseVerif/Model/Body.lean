import PoseVerif.Model.Header
/-!
# Body: data, writer (`NumPyPoseBody.write`), readers (`PoseBody.read*`, `NumPyPoseBody.read_v0_0`, the NumPy constructor)

Transcribed from `src/python/pose_format/pose_body.py`, `numpy/pose_body.py` and `pose.py` (`Pose.read`, `Pose.write`).
-/
namespace PoseVerif

/-- `body.fps`: a Python float that came from / goes to a float32 field (v0.2), or a Python int read from a `<H` field (v0.0, v0.1) -/
inductive Fps where
  | f32 (w : F32)
  | int (n : Nat)
deriving DecidableEq, Repr, Inhabited

/-- what `struct.pack("<f", fps)` writes. Modelled for float32-representable floats and for ints below 2^24
    (every int a legacy file can hold); larger ints are outside the modelled domain (`none`). -/
def Fps.toF32? : Fps → Option F32
  | .f32 w => some w
  | .int n => if n < 2 ^ 24 then some (F32.ofSmallNat n) else none

structure Body where
  fps : Fps
  frames : Nat
  people : Nat
  points : Nat
  dims : Nat
  /-- row-major `(frames, people, points, dims)`, float32 patterns (raw values, also under the mask) -/
  data : List F32
  /-- row-major `(frames, people, points)` -/
  conf : List F32
  /-- row-major `(frames, people, points)`: the point is masked (in all its dimensions) -/
  missing : List Bool
deriving DecidableEq, Repr, Inhabited

structure Pose where
  header : Header
  body : Body
deriving DecidableEq, Repr, Inhabited

/-! ## writer -/

/-- `NumPyPoseBody.write` (v0.2 layout; the `version` argument is ignored by the code as well) -/
def encBody? (b : Body) : Option Bytes := do
  let f ← b.fps.toF32?
  let n ← packU32? b.frames
  let p ← packU16? b.people
  pure (putF32 f ++ n ++ p ++ putF32s b.data ++ putF32s b.conf)

/-- `Pose.write`: the dimension sanity check, then header, then body -/
def Pose.write? (p : Pose) : Option Bytes := do
  let hd ← p.header.numDims?
  if hd ≠ p.body.dims then none else
  let h ← encHeader? p.header
  let b ← encBody? p.body
  pure (h ++ b)

/-! ## which decoder a version number selects (`PoseBody.read`) -/

inductive VersionClass where
  | v00 | v01 | v02 | other
deriving DecidableEq, Repr

/-- `version == 0`, else `round(version, 3) == 0.1`, else `round(version, 3) == 0.2`, else `NotImplementedError`.
    `round(x, 3)` is correctly rounded on the exact value of `x`, and no float32 value is an exact decimal tie,
    so the test is `0.0995 < x < 0.1005` (resp. `0.1995 < x < 0.2005`) on the exact rational value. -/
def versionClass (w : F32) : VersionClass :=
  match F32.toFrac? w with
  | none => .other
  | some (neg, num, den) =>
    if num = 0 then .v00
    else if neg then .other
    else if 995 * den < 10000 * num ∧ 10000 * num < 1005 * den then .v01
    else if 1995 * den < 10000 * num ∧ 10000 * num < 2005 * den then .v02
    else .other

/-! ## frame windows -/

/-- keyword arguments of `Pose.read` -/
structure Window where
  startFrame : Option Int := none
  endFrame : Option Int := none
  startTime : Option Int := none
  endTime : Option Int := none
deriving DecidableEq, Repr, Inhabited

def F32.toFloat (w : F32) : Float := (Float32.ofBits w).toFloat

/-- exact integer value of an integral, finite `Float` (decoded from its bits; `none` for NaN / ±inf) -/
def floatToInt? (x : Float) : Option Int :=
  let w := x.toBits
  let neg := (w >>> 63) == 1
  let e := ((w >>> 52) &&& 0x7FF).toNat
  let m := (w &&& 0xFFFFFFFFFFFFF).toNat
  if e == 2047 then none
  else
    let mag : Nat :=
      if e == 0 then 0                                         -- |x| < 1 and integral ⇒ 0 (subnormals are not integral)
      else if e ≥ 1075 then (m + 2 ^ 52) * 2 ^ (e - 1075)
      else (m + 2 ^ 52) / 2 ^ (1075 - e)
    some (if neg then -(mag : Int) else mag)

/-- `math.floor(t / 1000 * fps)` in binary64 (`t` an int of magnitude below 2^53); raises for NaN / ±inf -/
def timeToFrameFloor (t : Int) (fps : F32) : Option Int :=
  floatToInt? (Float.floor (Float.ofInt t / 1000.0 * F32.toFloat fps))
def timeToFrameCeil (t : Int) (fps : F32) : Option Int :=
  floatToInt? (Float.ceil (Float.ofInt t / 1000.0 * F32.toFloat fps))

/-- `read_v0_2`: the two conflict checks happen before anything is read; times are mapped to frames after `fps` is known -/
def Window.conflict (w : Window) : Bool :=
  (w.startTime.isSome && w.startFrame.isSome) || (w.endTime.isSome && w.endFrame.isSome)

def Window.resolve (w : Window) (fps : F32) : Option (Option Int × Option Int) := do
  let s ← match w.startTime with
    | some t => (timeToFrameFloor t fps).map some
    | none => some w.startFrame
  let e ← match w.endTime with
    | some t => (timeToFrameCeil t fps).map some
    | none => some w.endFrame
  pure (s, e)

/-- frames skipped before the window: `start_frame` when it is given and positive -/
def winStart (s : Option Int) : Nat :=
  match s with
  | some x => if x > 0 then x.toNat else 0
  | none => 0

/-- frames skipped after the window: `frames - min(end_frame, frames)` when `end_frame` is given (never negative) -/
def winRem (frames : Nat) (e : Option Int) : Option Nat :=
  e.map fun x => ((frames : Int) - min x (frames : Int)).toNat

/-- `read_v0_1_frames`: skip to the start frame, read the window, skip the rest of the block.
    `row` is the byte size of one frame of the block. Returns the number of frames read and their bytes.
    Raises when the start is at or beyond the last frame, and (in numpy) when the window has negative length. -/
def readFrames (frames row : Nat) (s e : Option Int) : Prog (Nat × Bytes) :=
  let st := winStart s
  let rem := winRem frames e
  if 0 < st ∧ frames ≤ st then .fail
  else if frames < st + rem.getD 0 then .fail
  else
    let n := frames - st - rem.getD 0
    let tail : Prog (Nat × Bytes) :=
      .unpack (n * row) fun b =>
        match rem with
        | some r => .skip (r * row) (.ret (n, b))
        | none => .ret (n, b)
    if 0 < st then .skip (st * row) tail else tail

/-- the NumPy constructor: mask = `confidence == 0`, replicated over the coordinate axis (`np.stack([mask] * dims)` raises for `dims = 0`) -/
def mkBody? (fps : Fps) (frames people points dims : Nat) (db cb : Bytes) : Option Body :=
  if dims = 0 then none else
  let conf := getF32s (frames * people * points) cb
  some { fps, frames, people, points, dims,
         data := getF32s (frames * people * points * dims) db,
         conf, missing := conf.map F32.isZero }

/-- the two blocks of a v0.1 / v0.2 body (coordinates, then confidences), each read through `read_v0_1_frames` with the same window, and the NumPy constructor -/
def rdBlocks (fps : Fps) (frames people points dims : Nat) (s e : Option Int) : Prog Body :=
  Prog.bind (readFrames frames (people * points * dims * 4) s e) fun d =>
  Prog.bind (readFrames frames (people * points * 4) s e) fun c =>
  Prog.ofOption (mkBody? fps d.1 people points dims d.2 c.2)

def rdBodyV02 (h : Header) (w : Window) : Prog Body :=
  if w.conflict then .fail else
  Prog.bind rdF32 fun fps =>
  Prog.bind rdU32 fun frames =>
  Prog.bind rdU16 fun people =>
  Prog.bind (Prog.ofOption h.numDims?) fun dims =>
  Prog.bind (Prog.ofOption (w.resolve fps)) fun se =>
  rdBlocks (.f32 fps) frames people h.totalPoints dims se.1 se.2

/-- `read_v0_1`: the on-disk frame count is ignored, the count comes from the payload size (`file_bytes_left`); time bounds are ignored -/
def rdBodyV01 (h : Header) (w : Window) : Prog Body :=
  Prog.bind rd2U16 fun ff =>
  Prog.bind rdU16 fun people =>
  Prog.bind (Prog.ofOption h.numDims?) fun dims =>
  let denom := people * h.totalPoints * (dims + 1) * 4
  if denom = 0 then .fail else
  .fileLeft fun left =>
  rdBlocks (.int ff.1) (left / denom).toNat people h.totalPoints dims w.startFrame w.endFrame

/-! ### v0.0: people lists per frame, interleaved X,Y,C; only the first person is kept -/

/-- one person's component block `(points, len(format))` split into coordinate columns and the confidence column -/
def splitPoints (npoints len : Nat) (b : Bytes) : List F32 × List F32 :=
  let rows := (List.range npoints).map fun i => getF32s len (b.drop (i * len * 4))
  ((rows.map fun r => r.take (len - 1)).flatten, rows.map fun r => r.getD (len - 1) 0)

/-- read one person: the id is skipped with `advance`, then one block per component. Fails where numpy does:
    a format shorter than 2 letters (`column_stack(())`). -/
def rdPersonV00 (comps : List Comp) : Prog (List (Nat × List F32 × List F32)) :=
  .advance 2 (go comps)
where
  go : List Comp → Prog (List (Nat × List F32 × List F32))
    | [] => .ret []
    | c :: cs =>
      .unpack (c.points.length * c.format.length * 4) fun b =>
        if c.format.length < 2 then .fail else
        Prog.bind (go cs) fun rest => .ret ((c.format.length - 1, splitPoints c.points.length c.format.length b) :: rest)

/-- `ma.concatenate(person_d)`: all components must have the same number of coordinate columns -/
def concatPerson (blocks : List (Nat × List F32 × List F32)) : Option (List F32 × List F32) :=
  match blocks with
  | [] => none                                       -- `ma.concatenate([])` raises
  | (w, _) :: _ =>
    if blocks.all (fun b => b.1 = w) then some ((blocks.map (·.2.1)).flatten, (blocks.map (·.2.2)).flatten) else none

def rdFrameV00 (comps : List Comp) (points dims : Nat) : Prog (List F32 × List F32) :=
  Prog.bind rdU16 fun people =>
  Prog.bind (Prog.many (rdPersonV00 comps) people) fun persons =>
  match persons with
  | [] => .ret (List.replicate (points * dims) 0, List.replicate points 0)     -- "In case no person, should all be zeros"
  | first :: _ => Prog.ofOption (concatPerson first)

/-- `NumPyPoseBody.read_v0_0`; window arguments are swallowed by `**unused_kwargs`.
    Fails where the code does: no frames (`ma.stack([])`), frames of different widths, `dims = 0`. -/
def rdBodyV00 (h : Header) : Prog Body :=
  Prog.bind rd2U16 fun ff =>
  Prog.bind (Prog.ofOption h.numDims?) fun dims =>
  let points := h.totalPoints
  Prog.bind (Prog.many (rdFrameV00 h.comps points dims) ff.2) fun frames =>
  if ff.2 = 0 ∨ dims = 0 then .fail
  else if frames.any (fun f => f.1.length ≠ points * dims) then .fail
  else
    let conf := (frames.map (·.2)).flatten
    .ret { fps := .int ff.1, frames := ff.2, people := 1, points, dims,
           data := (frames.map (·.1)).flatten, conf,
           missing := conf.map fun c => !F32.gtZero c }

def rdBody (h : Header) (w : Window) : Prog Body :=
  match versionClass h.version with
  | .v00 => rdBodyV00 h
  | .v01 => rdBodyV01 h w
  | .v02 => rdBodyV02 h w
  | .other => .fail

/-- `(PoseHeaderCache.end_offset or 10 * 1024) + 100` -/
def prefetchHint (cache : Option CacheEntry) : Nat :=
  (match cache with | some c => if c.endOff = 0 then 10240 else c.endOff | none => 10240) + 100

/-- `Pose.read`: prefetch hint, header (through the cache), body -/
def rdPose (cache : Option CacheEntry) (w : Window) : Prog (Pose × Option CacheEntry) :=
  .expect (prefetchHint cache) <|
  Prog.bind (rdHeader cache) fun hc =>
  Prog.bind (rdBody hc.1 w) fun b =>
  .ret (⟨hc.1, b⟩, hc.2)

/-- full read of a byte string with an empty cache -/
def readFull (b : Bytes) : Option Pose := (runBR (rdPose none {}) b 0).map (·.1.1)

end PoseVerif
