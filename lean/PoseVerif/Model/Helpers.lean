import PoseVerif.Model.Select
/-!
# Known-format helpers of `utils/generic.py` on the body

`pose_hide_legs(remove=False)` and `correct_wrist` edit named points in place; which names they use for which format are tables of the library
(`OPENPOSE_BODY_POINTS`, the Holistic landmark names) and are parameters here. `pose_hide_legs(remove=True)` and `reduce_holistic` are calls of
`remove_components` / `get_components` (`Model/Select.lean`).
-/
namespace PoseVerif
variable {S : Type}

/-! ## known-format helpers (`utils/generic.py`) on the body: in-place edits of named points -/

/-- `body.data[:, :, ixs, :] = 0; body.confidence[:, :, ixs] = 0` on a NumPy body: assigning a plain value also clears the mask at those entries -/
def hidePoints (sc : Scalar S) (ixs : List Nat) (b : PBody S) : PBody S :=
  { b with data := b.data.map (List.map fun pe => pe.mapIdx fun n pt => if ixs.contains n then pt.map (fun _ => sc.zero) else pt),
           conf := b.conf.map (List.map fun pe => pe.mapIdx fun n c => if ixs.contains n then sc.zero else c),
           missing := b.missing.map (List.map fun pe => pe.mapIdx fun n m => if ixs.contains n then m.map (fun _ => false) else m) }

/-- the point indexes `pose_hide_legs` collects: `get_point_index(component, point)` for every listed pair, pairs that are not in the header skipped (`except ValueError: pass`) -/
def namedIndexes (comps : List Comp) (pairs : List (String × String)) : List Nat := pairs.filterMap fun cp => pointIndex? comps cp.1 cp.2

/-- `pose_hide_legs(pose, remove=False)` given the format's table of (component, point) names -/
def hideNamed (sc : Scalar S) (comps : List Comp) (pairs : List (String × String)) (b : PBody S) : PBody S := hidePoints sc (namedIndexes comps pairs) b

/-- `correct_wrist`: the body wrist `bw` takes the hand wrist `hw`'s coordinates, confidence and mask wherever the hand wrist's confidence is not 0 -/
def correctWrist (isZero : S → Bool) [Inhabited S] (hw bw : Nat) (b : PBody S) : PBody S :=
  let pick {α : Type} (d : α) (cf : List S) (pe : List α) : List α :=
    pe.mapIdx fun n x => if n = bw then (if isZero (cf.getD hw default) then x else pe.getD hw d) else x
  { b with data := List.zipWith (List.zipWith fun (pe : List (List S)) (cf : List S) => pick [] cf pe) b.data b.conf,
           conf := b.conf.map (List.map fun cf => pick default cf cf),
           missing := List.zipWith (List.zipWith fun (pe : List (List Bool)) (cf : List S) => pick [] cf pe) b.missing b.conf }

/-! cell accessors -/
def dataAt (b : PBody S) (f p n : Nat) : List S := ((b.data.getD f []).getD p []).getD n []
def confAt [Inhabited S] (b : PBody S) (f p n : Nat) : S := ((b.conf.getD f []).getD p []).getD n default
def missAt (b : PBody S) (f p n : Nat) : List Bool := ((b.missing.getD f []).getD p []).getD n []

/-! ## `reduce_holistic`: a selection by name tables -/

/-- Python's `needle in hay` for strings (as lists of code points) -/
def isInfix (needle : List Char) : List Char → Bool
  | [] => needle.isPrefixOf []
  | c :: cs => needle.isPrefixOf (c :: cs) || isInfix needle cs

/-- the body points `reduce_holistic` keeps: those in which none of the ignore names occurs -/
def reduceKeep (ignore : List String) (points : List String) : List String :=
  points.filter fun p => ignore.all fun i => !isInfix i.toList p.toList

/-- `utils.generic.reduce_holistic` on a Holistic header (`detect_known_pose_format` said "holistic"): ONE call of `get_components` — every component but the
    world landmarks, the face reduced to the contour points, the body to the points that are not face / finger / foot points. `none` = the call raises
    (no POSE_LANDMARKS component: `IndexError`; a contour point the face component lacks: `ValueError`). -/
def reduceHolistic (ignore contours : List String) (comps : List Comp) : Option (List Comp × List Nat) := do
  let body ← comps.find? (·.name == "POSE_LANDMARKS")
  let names := (comps.filter (·.name != "POSE_WORLD_LANDMARKS")).map (·.name)
  getComponents comps names (some [("FACE_LANDMARKS", contours), ("POSE_LANDMARKS", reduceKeep ignore body.points)])


end PoseVerif

