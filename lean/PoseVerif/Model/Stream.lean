import PoseVerif.Model.Body
/-!
# `BytesIOReader`: the same reader programs over a seekable stream

State machine transcribed from `src/python/pose_format/utils/reader.py` (`BytesIOReader`), with `read_chunk`
positioning the stream at the file offset of the first byte not yet buffered (`len(buffer) + read_skipped`).
`pulled` counts the bytes actually obtained from the stream (what a counting wrapper around the stream observes).
-/
namespace PoseVerif

structure SR where
  file : Bytes
  buf : Bytes := []
  off : Nat := 0
  skipped : Nat := 0
  pulled : Nat := 0
deriving Repr

namespace SR

/-- buffer index of the cursor -/
def k (s : SR) : Nat := s.off - s.skipped
def bytesLeft (s : SR) : Int := (s.buf.length : Int) - s.off + s.skipped

def readChunk (s : SR) (c : Nat) : SR :=
  let new := (s.file.drop (s.buf.length + s.skipped)).take c
  { s with buf := s.buf ++ new, pulled := s.pulled + new.length }

/-- `expect_to_read`; `none` is the `EOFError` raised when the buffer is still empty after a read -/
def expect (s : SR) (n : Nat) : Option SR :=
  if s.bytesLeft < n then
    let s' := s.readChunk ((n : Int) - s.bytesLeft).toNat
    if s'.buf.isEmpty then none else some s'
  else some s

def skip (s : SR) (n : Nat) : SR :=
  { s with buf := s.buf.take s.off, skipped := s.skipped + n, off := s.off + n }

def run {α : Type} : Prog α → SR → Option (α × SR)
  | .ret a, s => some (a, s)
  | .fail, _ => none
  | .expect n k, s => match s.expect n with
    | some s' => run k s'
    | none => none
  | .unpack n k, s => match s.expect n with
    | some s' => if s'.skipped ≤ s'.off ∧ s'.k + n ≤ s'.buf.length then run (k ((s'.buf.drop s'.k).take n)) { s' with off := s'.off + n } else none
    | none => none
  | .skip n k, s => run k (s.skip n)
  | .advance n k, s => run k { s with off := s.off + n }
  | .setOff n k, s => run k { s with off := n }
  | .fileLeft k, s => run (k ((s.file.length : Int) - s.off)) s
  | .peek n k, s => run (k (s.buf.take n)) s
  | .getOff k, s => run (k s.off) s

end SR

/-- some window bound was passed (`is not None`) -/
def Window.given (w : Window) : Bool :=
  w.startFrame.isSome || w.endFrame.isSome || w.startTime.isSome || w.endTime.isSome

/-- `Pose.read(BytesIO(file), **window)` when the stream reader is chosen -/
def readStream (file : Bytes) (cache : Option CacheEntry) (w : Window) : Option ((Pose × Option CacheEntry) × SR) :=
  SR.run (rdPose cache w) { file }

/-- `Pose.read(file_bytes, **window)` -/
def readBytes (file : Bytes) (cache : Option CacheEntry) (w : Window) : Option (Pose × Option CacheEntry) :=
  (runBR (rdPose cache w) file 0).map (·.1)

/-- `Pose.read(BytesIO(file), **window)`: the stream reader is used iff a window bound is given, otherwise the whole stream
    is read into a `BufferReader`. Returns the pose, the new cache and the number of bytes pulled from the stream. -/
def readSource (file : Bytes) (cache : Option CacheEntry) (w : Window) : Option (Pose × Option CacheEntry × Nat) :=
  if w.given then (readStream file cache w).map fun r => (r.1.1, r.1.2, r.2.pulled)
  else (readBytes file cache w).map fun r => (r.1, r.2, file.length)

end PoseVerif
