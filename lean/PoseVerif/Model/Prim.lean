/-!
# Primitive byte codecs of the `.pose` format

Model of what CPython's `struct` does for the formats `pose_format.utils.reader.ConstStructs`
uses (`<H`, `<HH`, `<HHH`, `<I`, `<f`, `<Ns`), over `List UInt8`.
Floats are never computed with by the codec: they are carried as IEEE-754 binary32 *bit patterns*.
Core Lean only (no Mathlib) so that the driver can be compiled.
-/
namespace PoseVerif

abbrev Bytes := List UInt8
/-- IEEE-754 binary32 bit pattern -/
abbrev F32 := UInt32

/-! ## little-endian unsigned integers -/

def putU16 (n : Nat) : Bytes := [UInt8.ofNat (n % 256), UInt8.ofNat (n / 256 % 256)]

def putU32 (n : Nat) : Bytes :=
  [UInt8.ofNat (n % 256), UInt8.ofNat (n / 256 % 256), UInt8.ofNat (n / 65536 % 256), UInt8.ofNat (n / 16777216 % 256)]

/-- value of a little-endian byte string (any length) -/
def leNat : Bytes → Nat
  | [] => 0
  | b :: r => b.toNat + 256 * leNat r

def putF32 (w : F32) : Bytes := putU32 w.toNat
def getF32 (b : Bytes) : F32 := UInt32.ofNat (leNat b)

/-- `struct.pack("<H", n)` raises `struct.error` outside `0 ≤ n ≤ 65535` -/
def packU16? (n : Nat) : Option Bytes := if n < 65536 then some (putU16 n) else none
def packU32? (n : Nat) : Option Bytes := if n < 4294967296 then some (putU32 n) else none

/-! ## float32 bit-pattern predicates the codec uses -/

/-- `x == 0` for a float32: +0.0 and -0.0, not NaN -/
def F32.isZero (w : F32) : Bool := (w &&& 0x7FFFFFFF) == 0
def F32.isNaN (w : F32) : Bool := ((w >>> 23) &&& 0xFF) == 0xFF && (w &&& 0x7FFFFF) != 0
/-- `x > 0` for a float32: sign clear, not zero, not NaN -/
def F32.gtZero (w : F32) : Bool := (w >>> 31) == 0 && !F32.isZero w && !F32.isNaN w

/-- exact value of a finite pattern as `(negative, numerator, denominator)` with `denominator = 2^k`; `none` for NaN/±inf -/
def F32.toFrac? (w : F32) : Option (Bool × Nat × Nat) :=
  let s := (w >>> 31) == 1
  let e := ((w >>> 23) &&& 0xFF).toNat
  let m := (w &&& 0x7FFFFF).toNat
  if e == 255 then none
  else if e == 0 then some (s, m, 2 ^ 149)
  else if e ≥ 150 then some (s, (m + 2 ^ 23) * 2 ^ (e - 150), 1)
  else some (s, m + 2 ^ 23, 2 ^ (150 - e))

/-- float32 pattern of a natural number below 2^24 (exactly representable): what `struct.pack("<f", n)` writes for such an `int` -/
def F32.ofSmallNat (n : Nat) : F32 :=
  if n == 0 then 0
  else
    let l := Nat.log2 n                                  -- 2^l ≤ n < 2^(l+1), l ≤ 23
    let mant := (n * 2 ^ (23 - l)) % 2 ^ 23
    UInt32.ofNat ((127 + l) * 2 ^ 23 + mant)

/-! ## strings: `<H` byte length, then UTF-8 -/

def bytesOfString (s : String) : Bytes := s.toUTF8.data.toList
def stringOfBytes? (b : Bytes) : Option String := String.fromUTF8? (ByteArray.mk b.toArray)

/-- the *repaired* `_write_str`: length in UTF-8 bytes. `struct.pack` raises when the length does not fit `H`. -/
def packStr? (s : String) : Option Bytes :=
  let b := bytesOfString s
  if b.length < 65536 then some (putU16 b.length ++ b) else none

/-! ## splitting a byte block into float32 patterns -/

def getF32s : Nat → Bytes → List F32
  | 0, _ => []
  | n + 1, b => getF32 (b.take 4) :: getF32s n (b.drop 4)

def putF32s (l : List F32) : Bytes := l.flatMap putF32

end PoseVerif
