import PoseVerif.Model.PoseOps
/-!
# OpenPose import (`pose_format/utils/openpose.py`)

`loadOpenpose`: frames are `(frame id, people)`; a person is one list of numbers per header component (`x, y, c` interleaved). The loops of the code
(every component written from its own offset — the sum of the header sizes of the components before it —, stride 3) are written here in closed form:
header point `k` lies in component `c` at position `j` (`locate`), and holds the `j`-th triple of the person's list for `c`, or zeros when that list is
shorter (a part OpenPose was not asked to detect is an empty list); the correspondence check (distinct value in every cell) ties that to the loops.
`frameId`: a matcher for the regular expression `(?:^|\D)(\d+)_keypoints.json` with `re.findall` semantics (leftmost, non-overlapping, greedy), last match.
-/
namespace PoseVerif

variable {S : Type}

structure OPFrame (S : Type) where
  id : Nat
  /-- per person, per header component: the flat `x, y, c, x, y, c, …` list -/
  people : List (List (List S))

def triplesOf : List S → List (S × S × S)
  | x :: y :: c :: rest => (x, y, c) :: triplesOf rest
  | _ => []

/-- the keypoints of a person, in header order (all components concatenated) -/
def personKeypoints (person : List (List S)) : List (S × S × S) := person.flatMap triplesOf

def maxL : List Nat → Option Nat
  | [] => none
  | x :: xs => some (xs.foldl max x)

/-- header point `k` ↦ (component index, position inside the component), for components of the given sizes -/
def locate : List Nat → Nat → Option (Nat × Nat)
  | [], _ => none
  | n :: ns, k => if k < n then some (0, k) else (locate ns (k - n)).map fun cj => (cj.1 + 1, cj.2)

/-- what the loops leave in cell `(frame f, person p, header point k)`: the `j`-th keypoint of the person's list for the component `c` that point `k` belongs to,
    if frame `f` is present, has a person `p`, and that list is long enough; zeros otherwise -/
def opCell (sc : Scalar S) (sizes : List Nat) (frames : List (OPFrame S)) (f p k : Nat) : S × S × S :=
  match frames.find? (·.id == f) with
  | some fr => match fr.people[p]? with
    | some person => match locate sizes k with
      | some (c, j) => (triplesOf (person.getD c [])).getD j (sc.zero, sc.zero, sc.zero)
      | none => (sc.zero, sc.zero, sc.zero)
    | none => (sc.zero, sc.zero, sc.zero)
  | none => (sc.zero, sc.zero, sc.zero)

/-- `load_openpose`; `sizes`: points per header component. `none`: `max()` of no frames, a frame id beyond the frame count, a person without a list for every
    component (`KeyError`), a component list with more keypoints than the header component has points or whose length is not a multiple of 3. -/
def loadOpenpose (sc : Scalar S) (isZero : S → Bool) (sizes : List Nat) (frames : List (OPFrame S)) (fps : S) (numFrames : Option Nat) : Option (PBody S) := do
  let totalPoints := sizes.sum
  let maxId ← maxL (frames.map (·.id))
  let people ← maxL (frames.map (·.people.length))
  let n := numFrames.getD (maxId + 1)
  if frames.any (fun fr => fr.id ≥ n) then none
  else if frames.any (fun fr => fr.people.any fun person =>
      person.length ≠ sizes.length ∨ (List.zipWith (fun nums sz => decide ((triplesOf nums).length > sz ∨ nums.length % 3 ≠ 0)) person sizes).any id) then none
  else
    let cell := opCell sc sizes frames
    let data : A4 S := (List.range n).map fun f => (List.range people).map fun p => (List.range totalPoints).map fun k => [(cell f p k).1, (cell f p k).2.1]
    let conf : A3 S := (List.range n).map fun f => (List.range people).map fun p => (List.range totalPoints).map fun k => (cell f p k).2.2
    some (mkBody .numpy isZero fps data conf (some (deriveMissing isZero data conf)))

/-! ## the loops of `load_openpose`, literally -/

/-- the inner loop for one component: `for i, k in enumerate(range(0, len(numbers), 3)): row[keypoint_id + i] = numbers[k : k + 3]` -/
def writeTriples {α : Type} (row : List α) (off : Nat) : List α → List α
  | [] => row
  | t :: ts => writeTriples (row.set off t) (off + 1) ts

/-- one person: `keypoint_id = 0; for component in header.components: …; keypoint_id += len(component.points)` on a row of `total_points` zeros -/
def loopPerson (zero : S × S × S) (sizes : List Nat) (person : List (List S)) : List (S × S × S) :=
  ((person.zip sizes).foldl (fun (acc : List (S × S × S) × Nat) ns => (writeTriples acc.1 acc.2 (triplesOf ns.1), acc.2 + ns.2)) (List.replicate sizes.sum zero, 0)).1


/-! ## `get_frame_id` -/

def isDigit (c : Char) : Bool := '0' ≤ c ∧ c ≤ '9'

/-- try to match `(\d+)_keypoints.json` at the head of `s` (the `(?:^|\D)` part already consumed); returns the digit group and the rest after the match -/
def matchTail (s : List Char) : Option (List Char × List Char) :=
  let digits := s.takeWhile isDigit
  let rest := s.dropWhile isDigit
  if digits.isEmpty then none
  else
    let lit := "_keypoints".toList
    if rest.take lit.length = lit then
      match rest.drop lit.length with
      | dot :: r2 => if dot ≠ '\n' ∧ r2.take 4 = "json".toList then some (digits, r2.drop 4) else none
      | [] => none
    else none

/-- all matches of the pattern in `s`, scanning left to right; `atStart`: the scan position is the start of the string -/
def findAll : (fuel : Nat) → (atStart : Bool) → List Char → List (List Char)
  | 0, _, _ => []
  | _, _, [] => []
  | fuel + 1, atStart, c :: cs =>
    -- alternative `^` (only at the start), then alternative `\D` (consumes one non-digit)
    match (if atStart then matchTail (c :: cs) else none) with
    | some (g, rest) => g :: findAll fuel false rest
    | none =>
      match (if !isDigit c then matchTail cs else none) with
      | some (g, rest) => g :: findAll fuel false rest
      | none => findAll fuel false cs

def digitsToNat (ds : List Char) : Nat := ds.foldl (fun acc c => acc * 10 + (c.toNat - '0'.toNat)) 0

/-- `int(re.findall(pattern, filename)[-1])`; `none` when there is no match (`IndexError`) -/
def frameId (name : String) : Option Nat :=
  ((findAll (name.length + 1) true name.toList).getLast?).map digitsToNat

end PoseVerif
