import PoseVerif.Model.Masked
/-!
# Pose bodies as nested arrays and the operations the three backends share

A body is `[frame][person][point][dim]` coordinates, `[frame][person][point]` confidences and a per-element `missing` flag (NumPy polarity: `True` = masked;
the torch / tensorflow bodies keep the negation, "valid"). Nested lists keep every selection a `map` / `getD`, so the index arithmetic of
the flat representation does not enter the proofs; the correspondence harness flattens.
The scalar type `S` is arbitrary (`Scalar S`, no laws).
-/
namespace PoseVerif

abbrev A3 (α : Type) := List (List (List α))
abbrev A4 (α : Type) := List (List (List (List α)))

inductive Backend where
  | numpy | torch | tf
deriving DecidableEq, Repr

structure PBody (S : Type) where
  fps : S
  data : A4 S
  conf : A3 S
  missing : A4 Bool
deriving Repr

variable {S : Type}

/-- `[mask] * data.shape[-1]` stacked on the last axis: one flag per coordinate of the point -/
def deriveMissing (isZero : S → Bool) (data : A4 S) (conf : A3 S) : A4 Bool :=
  List.zipWith (List.zipWith (List.zipWith fun pt c => pt.map fun _ => isZero c)) data conf

def or4 (a b : A4 Bool) : A4 Bool := List.zipWith (List.zipWith (List.zipWith (List.zipWith (· || ·)))) a b

/-- the body constructors. NumPy: `isinstance(data, np.ndarray)` is true for masked arrays too, so the mask is ALWAYS re-derived from the confidence and
    united with an existing one (`keep_mask=True`). torch / tensorflow: derived (`confidence != 0`) only when plain data is passed, an existing mask is kept. -/
def mkBody (be : Backend) (isZero : S → Bool) (fps : S) (data : A4 S) (conf : A3 S) (existing : Option (A4 Bool)) : PBody S :=
  match be, existing with
  | .numpy, some m => { fps, data, conf, missing := or4 m (deriveMissing isZero data conf) }
  | _, none => { fps, data, conf, missing := deriveMissing isZero data conf }
  | _, some m => { fps, data, conf, missing := m }

/-! ## selections -/

def pickD {α : Type} [Inhabited α] (ixs : List Nat) (l : List α) : List α := ixs.map fun i => l.getD i default

/-- every `k`-th element starting at 0 (`[::k]`, `k ≥ 1`) -/
def everyNth {α : Type} [Inhabited α] (k : Nat) (l : List α) : List α :=
  (List.range ((l.length + k - 1) / k)).map fun j => l.getD (j * k) default

def numPoints (b : PBody S) : Nat := ((b.conf.headD []).headD []).length
def numFrames (b : PBody S) : Nat := b.conf.length

/-- `get_points(indexes)`: transpose to points-first, index, transpose back — for data, confidence and mask alike; then the constructor -/
def getPoints (be : Backend) (isZero : S → Bool) [Inhabited S] (ixs : List Nat) (b : PBody S) : Option (PBody S) :=
  if ixs.all (· < numPoints b) then
    some (mkBody be isZero b.fps (b.data.map (List.map (pickD ixs))) (b.conf.map (List.map (pickD ixs))) (some (b.missing.map (List.map (pickD ixs)))))
  else none

/-- `select_frames(frame_indexes)` -/
def selectFrames (be : Backend) (isZero : S → Bool) [Inhabited S] (ixs : List Nat) (b : PBody S) : Option (PBody S) :=
  if ixs.all (· < numFrames b) then
    some (mkBody be isZero b.fps (pickD ixs b.data) (pickD ixs b.conf) (some (pickD ixs b.missing)))
  else none

/-- `slice_step(by)`: every `by`-th frame, `fps / by` -/
def sliceStep (be : Backend) (sc : Scalar S) (isZero : S → Bool) [Inhabited S] (k : Nat) (b : PBody S) : Option (PBody S) :=
  if k = 0 then none
  else some (mkBody be isZero (sc.div b.fps (sc.ofNat k)) (everyNth k b.data) (everyNth k b.conf) (some (everyNth k b.missing)))

/-- one bound of Python's `slice(a, b, step).indices(n)` for a positive step: absent = the default end, negative = counted from the end, clamped to `[0, n]` -/
def pyBound (x : Option Int) (dflt n : Nat) : Nat :=
  match x with
  | none => dflt
  | some v => if v < 0 then (v + n).toNat else min v.toNat n

/-- `range(*slice(a, b, step).indices(n))` for `step ≥ 1` -/
def pySliceIndexes (a b : Option Int) (step n : Nat) : List Nat :=
  let s := pyBound a 0 n
  let e := pyBound b n n
  (List.range ((e - s + step - 1) / step)).map fun j => s + j * step

/-- `body[a:b:step]` (`PoseBody.__getitem__` with a slice): the frames Python's slice names; a non-positive step is refused (torch cannot, the others would reverse) -/
def sliceFrames (be : Backend) (isZero : S → Bool) [Inhabited S] (a b : Option Int) (step : Nat) (body : PBody S) : Option (PBody S) :=
  if step = 0 then none else selectFrames be isZero (pySliceIndexes a b step (numFrames body)) body

/-- `zero_filled()`: missing coordinates become exactly 0 (`filled(0)` / `where(mask, x, 0)`) -/
def zeroFill4 (sc : Scalar S) (data : A4 S) (missing : A4 Bool) : A4 S :=
  List.zipWith (List.zipWith (List.zipWith (List.zipWith fun x m => if m then sc.zero else x))) data missing

def zeroFilledBody (sc : Scalar S) (b : PBody S) : PBody S := { b with data := zeroFill4 sc b.data b.missing }

/-- what users see of a body: confidences, the missing pattern, and the coordinates with missing ones zero-filled -/
def view (sc : Scalar S) (b : PBody S) : A3 S × A4 Bool × A4 S := (b.conf, b.missing, zeroFill4 sc b.data b.missing)

/-- row · matrix (`k × n`, row-major) -/
def rowMat (sc : Scalar S) [Inhabited S] (row : List S) (m : List (List S)) : List S :=
  match m with
  | [] => []
  | r0 :: _ => (List.range r0.length).map fun c => sumList sc ((List.range row.length).map fun j => sc.mul (row.getD j default) ((m.getD j []).getD c default))

/-- `matmul(matrix)`. NumPy: `ma.dot` fills masked coordinates with 0 before multiplying and masks a result coordinate when every contributing
    product involves a masked coordinate; the constructor then unites with `confidence == 0`. torch / tensorflow: raw product, mask unchanged. -/
def matmulBody (be : Backend) (sc : Scalar S) (isZero : S → Bool) [Inhabited S] (m : List (List S)) (b : PBody S) : PBody S :=
  match be with
  | .numpy =>
    let zf := zeroFill4 sc b.data b.missing
    let data' := zf.map (List.map (List.map fun pt => rowMat sc pt m))
    let ncols := (m.headD []).length
    let mask' := b.missing.map (List.map (List.map fun pm => List.replicate ncols (pm.all id)))
    mkBody .numpy isZero b.fps data' b.conf (some mask')
  | be => mkBody be isZero b.fps (b.data.map (List.map (List.map fun pt => rowMat sc pt m))) b.conf (some b.missing)

/-- `flatten()`: one row (frame/fps, person, point, confidence, coordinates…) per point whose confidence is not 0 (raw coordinates) -/
def flattenBody (sc : Scalar S) (isZero : S → Bool) (b : PBody S) : List (List S) :=
  (b.data.zipIdx.zip b.conf).flatMap fun ((fr, f), cf) =>
    (fr.zipIdx.zip cf).flatMap fun ((pe, p), cp) =>
      ((pe.zipIdx.zip cp).filter fun (_, c) => !isZero c).map fun ((pt, n), c) =>
        [sc.mul (sc.ofNat f) (sc.div (sc.ofNat 1) b.fps), sc.ofNat p, sc.ofNat n, c] ++ pt

end PoseVerif
