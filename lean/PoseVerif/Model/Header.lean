import PoseVerif.Model.Prog
/-!
# Header: data, writer (`PoseHeader.write`), reader (`PoseHeader.read` with its process-global cache)

Transcribed from `src/python/pose_format/pose_header.py`; the byte layout is the one of `docs/specs/v0.2.md`
(the header is identical in v0.0 and v0.1).
-/
namespace PoseVerif

structure Comp where
  name : String
  format : String
  points : List String
  limbs : List (Nat × Nat)
  colors : List (Nat × Nat × Nat)
deriving DecidableEq, Repr, Inhabited

structure Header where
  version : F32
  width : Nat
  height : Nat
  depth : Nat
  comps : List Comp
deriving DecidableEq, Repr, Inhabited

/-- bit pattern of `np.float32(0.2)`: what `struct.pack("<f", VERSION)` writes -/
def v02bits : F32 := 0x3E4CCCCD
def v01bits : F32 := 0x3DCCCCCD

def Header.totalPoints (h : Header) : Nat := (h.comps.map (·.points.length)).sum

/-- `max([len(c.format) for c in components]) - 1`; `none` when `max([])` raises or the result is negative.
    (`String.length` counts code points, as Python's `len` does.) -/
def Header.numDims? (h : Header) : Option Nat :=
  match h.comps.map (·.format.length) with
  | [] => none
  | l :: ls => let m := ls.foldl max l; if m = 0 then none else some (m - 1)

/-! ## writer -/

def pack2U16? (a b : Nat) : Option Bytes := do
  let x ← packU16? a; let y ← packU16? b; pure (x ++ y)
def pack3U16? (a b c : Nat) : Option Bytes := do
  let x ← packU16? a; let y ← packU16? b; let z ← packU16? c; pure (x ++ y ++ z)

def encComp? (c : Comp) : Option Bytes := do
  let n ← packStr? c.name
  let f ← packStr? c.format
  let cnt ← pack3U16? c.points.length c.limbs.length c.colors.length
  let ps ← c.points.mapM packStr?
  let ls ← c.limbs.mapM fun l => pack2U16? l.1 l.2
  let cs ← c.colors.mapM fun c => pack3U16? c.1 c.2.1 c.2.2
  pure (n ++ f ++ cnt ++ ps.flatten ++ ls.flatten ++ cs.flatten)

/-- the header layout of `docs/specs` with the version field as given (shared by v0.0, v0.1, v0.2) -/
def encHeaderAny? (h : Header) : Option Bytes := do
  let d ← pack3U16? h.width h.height h.depth
  let n ← packU16? h.comps.length
  let cs ← h.comps.mapM encComp?
  pure (putF32 h.version ++ d ++ n ++ cs.flatten)

/-- `PoseHeader.write`: always writes `VERSION = 0.2`, whatever `header.version` says -/
def encHeader? (h : Header) : Option Bytes := encHeaderAny? { h with version := v02bits }

/-! ## reader -/

def rdU16 : Prog Nat := .unpack 2 fun b => .ret (leNat b)
def rdU32 : Prog Nat := .unpack 4 fun b => .ret (leNat b)
def rdF32 : Prog F32 := .unpack 4 fun b => .ret (getF32 b)
def rd2U16 : Prog (Nat × Nat) := .unpack 4 fun b => .ret (leNat (b.take 2), leNat (b.drop 2))
def rd3U16 : Prog (Nat × Nat × Nat) :=
  .unpack 6 fun b => .ret (leNat (b.take 2), leNat ((b.drop 2).take 2), leNat (b.drop 4))

/-- `unpack_str`: `<H` length, that many bytes, strict UTF-8 decode (raises on invalid input) -/
def rdStr : Prog String :=
  .unpack 2 fun l => .unpack (leNat l) fun b => Prog.ofOption (stringOfBytes? b)

/-- split a block of `6·n` bytes into `n` `<HHH` triples (`unpack_numpy(ushort, (n, 3))`) -/
def triples : Nat → Bytes → List (Nat × Nat × Nat)
  | 0, _ => []
  | n + 1, b => (leNat (b.take 2), leNat ((b.drop 2).take 2), leNat ((b.drop 4).take 2)) :: triples n (b.drop 6)

def rdComp : Prog Comp :=
  Prog.bind rdStr fun name =>
  Prog.bind rdStr fun format =>
  Prog.bind rd3U16 fun cnt =>
  Prog.bind (Prog.many rdStr cnt.1) fun points =>
  Prog.bind (Prog.many rd2U16 cnt.2.1) fun limbs =>
  .unpack (6 * cnt.2.2) fun cb =>
  .ret { name, format, points, limbs, colors := triples cnt.2.2 cb }

/-- the part of `PoseHeader.read` after a cache miss -/
def rdHeaderRaw : Prog Header :=
  Prog.bind rdF32 fun version =>
  Prog.bind rd3U16 fun d =>
  Prog.bind rdU16 fun n =>
  Prog.bind (Prog.many rdComp n) fun comps =>
  .ret { version, width := d.1, height := d.2.1, depth := d.2.2, comps }

/-- `PoseHeaderCache`, with `md5` idealised as the identity on the hashed byte range (`start_offset` is always 0) -/
structure CacheEntry where
  key : Bytes
  endOff : Nat
  header : Header
deriving DecidableEq, Repr

/-- `PoseHeader.read`: cache lookup on `reader.buffer`, else parse and store. Returns the header and the new cache. -/
def rdHeader (cache : Option CacheEntry) : Prog (Header × Option CacheEntry) :=
  let miss : Prog (Header × Option CacheEntry) :=
    Prog.bind rdHeaderRaw fun h =>
    .getOff fun e =>
    .peek e fun key =>
    .ret (h, some { key, endOff := e, header := h })
  match cache with
  | none => miss
  | some c => .peek c.endOff fun b => if b = c.key then .setOff c.endOff (.ret (c.header, cache)) else miss

end PoseVerif
