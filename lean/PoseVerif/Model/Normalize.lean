import PoseVerif.Model.Spatial
/-!
# Normalisers (`Pose.normalize`, `Pose.normalize_distribution`, `Pose.unnormalize_distribution`; `pose.py`, `utils/fast_math.py`)

`numpy.ma` semantics made explicit: a reduction (`mean`, `sum`, `std`) ranges over the unmasked entries and is masked when there is none; an element-wise
operation is masked where an operand is. `x ** 2` is written `x · x` and `x ** 0.5` is the scalar record's `sqrt`.
`none` = the stated precondition fails (reference points never jointly observed, mean distance not computable): the real call then masks every coordinate.
-/
namespace PoseVerif
variable {S : Type}

/-- coordinate `d` of point `n` in every (frame, person), `none` where it is masked -/
def cellVals [Inhabited S] (b : PBody S) (n d : Nat) : List (Option S) :=
  (b.data.zip b.missing).flatMap fun (fr, mfr) => (fr.zip mfr).map fun (pe, mpe) =>
    if (mpe.getD n []).getD d true then none else some ((pe.getD n []).getD d default)

/-- `ma.mean` of the unmasked values -/
def meanOpt (sc : Scalar S) (l : List S) : Option S := if l.isEmpty then none else some (sc.div (sumList sc l) (sc.ofNat l.length))

def both (f : S → S → S) : Option S → Option S → Option S
  | some x, some y => some (f x y)
  | _, _ => none

/-- per (frame, person): the midpoint coordinate `d` of the two reference points, where both are unmasked -/
def midVals (sc : Scalar S) [Inhabited S] (b : PBody S) (p1 p2 d : Nat) : List S :=
  (List.zipWith (both fun x y => sc.div (sc.add y x) (sc.ofNat 2)) (cellVals b p1 d) (cellVals b p2 d)).filterMap id

/-- per (frame, person): `sqrt(Σ_d (p1_d − p2_d)²)` over the unmasked coordinates, where there is one (`distance_batch`) -/
def distVals (sc : Scalar S) [Inhabited S] (b : PBody S) (p1 p2 D : Nat) : List S :=
  let cols := (List.range D).map fun d => List.zipWith (both fun x y => sc.mul (sc.sub x y) (sc.sub x y)) (cellVals b p1 d) (cellVals b p2 d)
  let cells := (cols.headD []).length
  (List.range cells).filterMap fun i =>
    let terms := cols.filterMap fun col => col.getD i none
    if terms.isEmpty then none else some (sc.sqrt (sumList sc terms))

/-- the affine map `normalize` applies to every coordinate: `(x − centre_d) · (scale / mean distance)` -/
def normalizePoint (sc : Scalar S) (center : List S) (scale : S) (pt : List S) : List S :=
  pt.mapIdx fun d x => sc.mul (sc.sub x (center.getD d sc.zero)) scale

/-- `Pose.normalize(info, scale_factor)` on a NumPy body; returns the body and `(centre, mean distance)` -/
def normalizeBody (sc : Scalar S) (isZero : S → Bool) [Inhabited S] (p1 p2 : Nat) (scaleFactor : S) (b : PBody S) : Option (PBody S × List S × S) := do
  let D := numDimsBody b
  let center ← (List.range D).mapM fun d => meanOpt sc (midVals sc b p1 p2 d)
  let meanDist ← meanOpt sc (distVals sc b p1 p2 D)
  let scale := sc.div scaleFactor meanDist
  some (mkBody .numpy isZero b.fps (b.data.map (List.map (List.map (normalizePoint sc center scale)))) b.conf (some b.missing), center, meanDist)

/-! ## distribution -/

/-- the unmasked values of coordinate `d` over all frames and people of point `n` (`axis = (0, 1)`), or of all points (`axis = (0, 1, 2)`) -/
def columnVals [Inhabited S] (b : PBody S) (allPoints : Bool) (n d : Nat) : List S :=
  if allPoints then
    (b.data.zip b.missing).flatMap fun (fr, mfr) => (fr.zip mfr).flatMap fun (pe, mpe) => obsPersonFrom 0 d (fun _ => true) pe mpe
  else (cellVals b n d).filterMap id

/-- `ma.std` (population): `sqrt(mean((x − mean)²))` -/
def stdOpt (sc : Scalar S) (l : List S) : Option S := do
  let mu ← meanOpt sc l
  let v ← meanOpt sc (l.map fun x => sc.mul (sc.sub x mu) (sc.sub x mu))
  some (sc.sqrt v)

/-- `(x − μ) / σ` where both statistics are defined (unmasked); a value whose column has no statistic is left as it is (it is masked anyway) -/
def distMap (sc : Scalar S) (m s : Option S) (x : S) : S :=
  match m, s with
  | some m, some s => sc.div (sc.sub x m) s
  | _, _ => x

/-- `x · σ + μ` -/
def undistMap (sc : Scalar S) (m s : Option S) (x : S) : S :=
  match m, s with
  | some m, some s => sc.add (sc.mul x s) m
  | _, _ => x

/-- `Pose.normalize_distribution(axis)`: `(x − μ) / σ` with `μ, σ` per (point, coordinate) or per coordinate. A coordinate column without any unmasked value keeps
    its (masked) values. Returns the body, `μ` and `σ` as `[point][coordinate]` tables (`none` = masked). -/
def normalizeDistribution (sc : Scalar S) (isZero : S → Bool) [Inhabited S] (allPoints : Bool) (b : PBody S) :
    PBody S × List (List (Option S)) × List (List (Option S)) :=
  let D := numDimsBody b
  let N := numPoints b
  let mu := (List.range N).map fun n => (List.range D).map fun d => meanOpt sc (columnVals b allPoints n d)
  let sd := (List.range N).map fun n => (List.range D).map fun d => stdOpt sc (columnVals b allPoints n d)
  let f (n : Nat) (pt : List S) : List S := pt.mapIdx fun d x => distMap sc ((mu.getD n []).getD d none) ((sd.getD n []).getD d none) x
  (mkBody .numpy isZero b.fps (b.data.map (List.map fun pe => pe.mapIdx f)) b.conf (some b.missing), mu, sd)

/-- `unnormalize_distribution(mu, std)`: `x · σ + μ` -/
def unnormalizeDistribution (sc : Scalar S) (isZero : S → Bool) [Inhabited S] (mu sd : List (List (Option S))) (b : PBody S) : PBody S :=
  let f (n : Nat) (pt : List S) : List S := pt.mapIdx fun d x => undistMap sc ((mu.getD n []).getD d none) ((sd.getD n []).getD d none) x
  mkBody .numpy isZero b.fps (b.data.map (List.map fun pe => pe.mapIdx f)) b.conf (some b.missing)

end PoseVerif
