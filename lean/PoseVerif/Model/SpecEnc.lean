import PoseVerif.Model.Body
/-!
# Reference encoders written from `docs/specs/v0.{0,1,2}.md`

Total functions, flat concatenations, field by field as the documents list them. They are *specifications*, not transcriptions of the writer:
theorems relate them to the model of `Pose.write` / `Pose.read` (Props/C02, C04), and the correspondence check compares their bytes with an
independent Python encoder on generated content (driver operation `spec_file`).
-/
namespace PoseVerif

def specStr (s : String) : Bytes := putU16 (bytesOfString s).length ++ bytesOfString s

def specComp (c : Comp) : Bytes :=
  specStr c.name ++ specStr c.format ++
  putU16 c.points.length ++ putU16 c.limbs.length ++ putU16 c.colors.length ++
  c.points.flatMap specStr ++
  c.limbs.flatMap (fun l => putU16 l.1 ++ putU16 l.2) ++
  c.colors.flatMap (fun k => putU16 k.1 ++ putU16 k.2.1 ++ putU16 k.2.2)

/-- `# Header` of the specs (identical in the three versions) with the given version pattern -/
def specHeader (h : Header) (version : F32) : Bytes :=
  putF32 version ++ putU16 h.width ++ putU16 h.height ++ putU16 h.depth ++
  putU16 h.comps.length ++ h.comps.flatMap specComp

/-- the body `docs/specs/v0.1.md` describes: `u16` fps, `u16` frame count field, `u16` people, coordinate block, confidence block -/
def specBodyV01 (b : Body) (fps framesField : Nat) : Bytes :=
  putU16 fps ++ putU16 framesField ++ putU16 b.people ++ putF32s b.data ++ putF32s b.conf


/-! ## v0.0 reference encoder (from `docs/specs/v0.0.md`) -/

/-- a v0.0 person as the file holds it: the id (a `short`; the reader skips it) and, per header component, the interleaved values `points × letters` -/
structure PersonV00 where
  id : Nat
  blocks : List (List F32)

def specPersonV00 (p : PersonV00) : Bytes := putU16 p.id ++ (p.blocks.map putF32s).flatten
def specFrameV00 (ps : List PersonV00) : Bytes := putU16 ps.length ++ (ps.map specPersonV00).flatten
def specBodyV00 (fps : Nat) (frames : List (List PersonV00)) : Bytes := putU16 fps ++ putU16 frames.length ++ (frames.map specFrameV00).flatten

/-! ## whole files -/

/-- the file `docs/specs/v0.2.md` describes for this content (`fps` = the float32 pattern of the frame rate):
    the header (`specHeader`: version, width, height, depth, component count, components — above), then the body -/
def specFile (p : Pose) (fps : F32) : Bytes :=
  specHeader p.header v02bits ++
  putF32 fps ++ putU32 p.body.frames ++ putU16 p.body.people ++
  p.body.data.flatMap putF32 ++ p.body.conf.flatMap putF32


/-- the file `docs/specs/v0.1.md` describes: header with the 0.1 version pattern; `u16` fps, `u16` frame-count field, `u16` people; blocks -/
def specFileV01 (p : Pose) (fps framesField : Nat) : Bytes :=
  specHeader p.header v01bits ++ specBodyV01 p.body fps framesField


/-- the file `docs/specs/v0.0.md` describes -/
def specFileV00 (h : Header) (fps : Nat) (frames : List (List PersonV00)) : Bytes := specHeader h 0 ++ specBodyV00 fps frames



end PoseVerif
