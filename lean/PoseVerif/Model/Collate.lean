import PoseVerif.Model.Masked
/-!
# Batch collation (`pose_format/torch/masked/collator.py`)

`pad_tensors` pads every example along its first axis to the longest length (pad value, mask `False`) and stacks the examples on a new first axis.
Concatenation along axis 0 of row-major tensors is list append and stacking on axis 0 is list concatenation of the rows (torch primitive semantics,
trusted base), which is how the model is written. `collate` follows the type dispatch and recursion of `collate_tensors` / `zero_pad_collator`.
The model is of the repaired shortcut: examples are stacked directly when all lengths are equal.
-/
namespace PoseVerif

variable {S : Type}

/-- `len(t)`: the first extent; a 0-d tensor has no `len()` -/
def tlen (shape : List Nat) : Option Nat := shape.head?

/-- one example padded to `maxLen` rows of `inner` elements each -/
def padData {α : Type} (data : List α) (len maxLen inner : Nat) (pad : α) : List α :=
  data ++ List.replicate ((maxLen - len) * inner) pad

def maxList : List Nat → Nat
  | [] => 0
  | x :: xs => max x (maxList xs)

/-- `pad_tensors` on masked tensors. `none`: `max()` of an empty batch, a 0-d tensor, or trailing shapes that differ (cat / stack raise). -/
def padMasked (batch : List (MT S)) (pad : S) : Option (MT S) :=
  match batch with
  | [] => none
  | x0 :: _ =>
    match x0.tensor.shape with
    | [] => none
    | _ :: trail =>
      if batch.all (fun x => x.tensor.shape.tail = trail ∧ x.tensor.shape ≠ [] ∧ x.mask.shape = x.tensor.shape) then
        let lens := batch.map fun x => x.tensor.shape.headD 0
        let maxLen := maxList lens
        let inner := numel trail
        let shape := batch.length :: maxLen :: trail
        some { tensor := ⟨shape, (batch.map fun x => padData x.tensor.data (x.tensor.shape.headD 0) maxLen inner pad).flatten⟩,
               mask := ⟨shape, (batch.map fun x => padData x.mask.data (x.tensor.shape.headD 0) maxLen inner false).flatten⟩ }
      else none

/-- `pad_tensors` on plain tensors -/
def padPlain (batch : List (T S)) (pad : S) : Option (T S) :=
  (padMasked (batch.map fun t => ⟨t, ⟨t.shape, List.replicate t.data.length true⟩⟩) pad).map (·.tensor)

/-- an example: what a dataset item may contain -/
inductive Datum (S : Type) where
  | masked (x : MT S)
  | plain (t : T S)
  | int (n : Int)
  | str (s : String)
  | dict (fields : List (String × Datum S))
  | tuple (items : List (Datum S))

/-- a collated batch -/
inductive Collated (S : Type) where
  | masked (x : MT S)
  | plain (t : T S)
  | ints (ns : List Int)                        -- one integer tensor
  | list (items : List (Datum S))               -- passed through in order (strings; anything `collate_tensors` does not know)
  | dict (fields : List (String × Collated S))
  | tuple (items : List (Collated S))

def Datum.asInt? : Datum S → Option Int
  | .int n => some n
  | _ => none
def Datum.asMasked? : Datum S → Option (MT S)
  | .masked x => some x
  | _ => none
def Datum.asPlain? : Datum S → Option (T S)
  | .plain x => some x
  | _ => none

def Datum.field? : Datum S → String → Option (Datum S)
  | .dict fs, k => (fs.find? (·.1 == k)).map (·.2)
  | _, _ => none
def Datum.item? : Datum S → Nat → Option (Datum S)
  | .tuple is, i => is[i]?
  | _, _ => none

mutual
/-- `collate_tensors(batch, pad_value)`; `pad` is the pad value (the callers inside `zero_pad_collator` use 0) -/
def collateTensors (pad : S) (fuel : Nat) (batch : List (Datum S)) : Option (Collated S) :=
  match fuel with
  | 0 => none
  | fuel + 1 =>
    match batch with
    | [] => none                                                 -- `batch[0]` raises
    | .dict _ :: _ => zeroPadCollator pad fuel batch
    | .int _ :: _ => (batch.mapM Datum.asInt?).map Collated.ints
    | .masked _ :: _ => (batch.mapM Datum.asMasked?).bind fun xs => (padMasked xs pad).map Collated.masked
    | .plain _ :: _ => (batch.mapM Datum.asPlain?).bind fun xs => (padPlain xs pad).map Collated.plain
    | _ => some (Collated.list batch)
/-- `zero_pad_collator(batch)` -/
def zeroPadCollator (pad : S) (fuel : Nat) (batch : List (Datum S)) : Option (Collated S) :=
  match fuel with
  | 0 => none
  | fuel + 1 =>
    match batch with
    | [] => none
    | .str _ :: _ => some (Collated.list batch)
    | .tuple items :: _ =>
      ((List.range items.length).mapM fun i => (batch.mapM fun (b : Datum S) => b.item? i).bind (collateTensors pad fuel)).map Collated.tuple
    | .masked _ :: _ => collateTensors pad fuel batch
    | .dict fields :: _ =>
      (fields.mapM fun kv => ((batch.mapM fun (b : Datum S) => b.field? kv.1).bind (collateTensors pad fuel)).map fun c => (kv.1, c)).map Collated.dict
    | _ => none                                                  -- `datum.keys()` raises for ints and plain tensors
end

end PoseVerif
