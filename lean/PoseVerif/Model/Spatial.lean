import PoseVerif.Model.PoseOps
/-!
# Spatial transforms of the NumPy body: flip, focus, bounding boxes (`numpy/pose_body.py`, `pose.py`, `pose_header.py`)

`numpy.ma` semantics are explicit: reductions (`ma.min`, `ma.max`) range over the unmasked entries only and are masked when there is none.
-/
namespace PoseVerif

variable {S : Type}

def minOpt (sc : Scalar S) : List S → Option S
  | [] => none
  | x :: xs => some (xs.foldl (fun m y => if sc.lt y m then y else m) x)
def maxOpt (sc : Scalar S) : List S → Option S
  | [] => none
  | x :: xs => some (xs.foldl (fun m y => if sc.lt m y then y else m) x)

/-- `flip(axis)`: `data * vec` with `vec[axis] = -1`, then the constructor -/
def flipBody (sc : Scalar S) (isZero : S → Bool) (axis : Nat) (b : PBody S) : PBody S :=
  mkBody .numpy isZero b.fps (b.data.map (List.map (List.map fun pt => pt.mapIdx fun d x => if d = axis then sc.mul x (sc.neg (sc.ofNat 1)) else sc.mul x (sc.ofNat 1)))) b.conf (some b.missing)

/-- the unmasked values of coordinate `d` of one frame and person, over the points (numbered from `s`) that pass the filter -/
def obsPersonFrom [Inhabited S] (s d : Nat) (pointFilter : Nat → Bool) (pe : List (List S)) (mpe : List (List Bool)) : List S :=
  (((pe.zip mpe).zipIdx s).filter fun (_, n) => pointFilter n).filterMap fun ((pt, mpt), _) =>
    if mpt.getD d true then none else some (pt.getD d default)

/-- the unmasked values of coordinate `d` over all frames, people and the given points -/
def observedCoord [Inhabited S] (b : PBody S) (d : Nat) (pointFilter : Nat → Bool) : List S :=
  (b.data.zip b.missing).flatMap fun (fr, mfr) => (fr.zip mfr).flatMap fun (pe, mpe) => obsPersonFrom 0 d pointFilter pe mpe

def numDimsBody (b : PBody S) : Nat := (((b.data.headD []).headD []).headD []).length

/-- `Pose.focus()`: per-dimension min / max over the observed coordinates; translate by the minima (only when some minimum is non-zero); header dimensions
    := ceil(max − min). Returns the new body and `(width, height, depth)`. `none`: a dimension without any observed value, or fewer than 2 dimensions. -/
def focusBody (sc : Scalar S) (isZero : S → Bool) [Inhabited S] (b : PBody S) : Option (PBody S × Nat × Nat × Nat) := do
  let D := numDimsBody b
  let mins ← (List.range D).mapM fun d => minOpt sc (observedCoord b d fun _ => true)
  let maxs ← (List.range D).mapM fun d => maxOpt sc (observedCoord b d fun _ => true)
  if D < 2 then none else
  let translate := mins.any fun m => !isZero m
  let data := if translate then b.data.map (List.map (List.map fun pt => pt.mapIdx fun d x => sc.sub x (mins.getD d sc.zero))) else b.data
  let ext := List.zipWith sc.sub maxs mins
  some ({ b with data }, sc.ceilNat (ext.getD 0 sc.zero), sc.ceilNat (ext.getD 1 sc.zero), if D ≥ 3 then sc.ceilNat (ext.getD 2 sc.zero) else 0)

/-- per-component offsets (running sums of the component sizes) -/
def compOffs (sizes : List Nat) : List Nat := (sizes.foldl (fun (acc : List Nat × Nat) n => (acc.1 ++ [acc.2], acc.2 + n)) ([], 0)).1

/-- the boxes of one frame and person: per component `(coordinates, per-dimension missing flags, confidence)` for the lower and the upper corner -/
def bboxBoxes (sc : Scalar S) [Inhabited S] (sizes : List Nat) (D : Nat) (pe : List (List S)) (mpe : List (List Bool)) : List (List S × List Bool × S) :=
  (sizes.zip (compOffs sizes)).flatMap fun (n, off) =>
    let obs (d : Nat) : List S := (List.range n).filterMap fun j => if (mpe.getD (off + j) []).getD d true then none else some ((pe.getD (off + j) []).getD d default)
    let lo := (List.range D).map fun d => minOpt sc (obs d)
    let hi := (List.range D).map fun d => maxOpt sc (obs d)
    let conf (l : List (Option S)) : S := if (l.headD none).isNone then sc.zero else sc.ofNat 1
    [(lo.map (·.getD sc.zero), lo.map (·.isNone), conf lo), (hi.map (·.getD sc.zero), hi.map (·.isNone), conf hi)]

/-- `bbox(header)`: per component two points — per-dimension min and max over the component's observed points, for every frame and person; the box is missing
    (confidence 0) when the component has no observed point there, confidence 1 otherwise. `sizes`: points per component. -/
def bboxBody (sc : Scalar S) (isZero : S → Bool) [Inhabited S] (sizes : List Nat) (b : PBody S) : PBody S :=
  let D := numDimsBody b
  let data := (b.data.zip b.missing).map fun (fr, mfr) => (fr.zip mfr).map fun (pe, mpe) => (bboxBoxes sc sizes D pe mpe).map (·.1)
  let mask := (b.data.zip b.missing).map fun (fr, mfr) => (fr.zip mfr).map fun (pe, mpe) => (bboxBoxes sc sizes D pe mpe).map (·.2.1)
  let conf := (b.data.zip b.missing).map fun (fr, mfr) => (fr.zip mfr).map fun (pe, mpe) => (bboxBoxes sc sizes D pe mpe).map (·.2.2)
  mkBody .numpy isZero b.fps data conf (some mask)

end PoseVerif
