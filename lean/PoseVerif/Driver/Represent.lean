import PoseVerif.Model.Represent
import PoseVerif.Driver.Codec
import PoseVerif.Driver.Masked
/-! Driver: representation modules on point tuples (Float scalars) and the assembled layout. -/
namespace PoseVerif.Driver
open Lean

/-- a point: `{"v": [f64 bits …], "ok": bool}` → coordinates with the point's flag on every coordinate -/
def mvPointOfJson (j : Json) : R (List (MV Float)) := do
  let vs ← (← (← j.getObjVal? "v").getArr?).toList.mapM f64OfJson
  let ok ← j.getObjValAs? Bool "ok"
  pure (vs.map fun x => (x, ok))

/-- `{"tuples": [[p1, p2, p3] …]}` → per tuple the four scalar representations (torch semantics) -/
def runRepresent (j : Json) : R Json := do
  let tuples ← (← (← j.getObjVal? "tuples").getArr?).toList.mapM fun t => do (← t.getArr?).toList.mapM mvPointOfJson
  let out := tuples.map fun t =>
    let p1 := t.getD 0 []; let p2 := t.getD 1 []; let p3 := t.getD 2 []
    Json.mkObj [("distance", f64J (distanceRep floatScalar p1 p2)), ("angle", f64J (angleRep floatScalar Float.atan p1 p2)),
      ("inner_angle", f64J (innerAngleRep floatScalar Float.acos p1 p2 p3)), ("point_line", f64J (pointLineRep floatScalar p1 p2 p3))]
  pure (Json.mkObj [("ok", Json.bool true), ("values", Json.arr out.toArray)])

/-- header components + module counts → limb / triangle index lists and the advertised output size -/
def runRepLayout (j : Json) : R Json := do
  let comps ← (← (← j.getObjVal? "components").getArr?).toList.mapM compOfJson
  let (l1, l2) := limbPoints comps
  let tri := trianglePoints l1 l2
  let nat (k : String) : R Nat := do pure ((j.getObjValAs? Nat k).toOption.getD 0)
  let size := repOutputSize comps (← nat "n1") (← nat "n2") (← nat "n3")
  pure (Json.mkObj [("ok", Json.bool true), ("limbs", Json.arr #[Json.arr (l1.toArray.map natJ), Json.arr (l2.toArray.map natJ)]),
    ("triangles", Json.arr #[Json.arr (tri.toArray.map fun t => natJ t.1), Json.arr (tri.toArray.map fun t => natJ t.2.1), Json.arr (tri.toArray.map fun t => natJ t.2.2)]),
    ("output_size", natJ size)])

/-- the assembled representation end to end: `{"components", "n1", "m2": ["distance" | "angle" …], "m3": ["inner_angle" | "point_line" …], "shape": [B, L, N, C],
    "data": f64 bits row-major (B, L, N, C), "valid": 0/1 row-major (B, L, N)}` → `{"ok", "shape": [B, L, E], "values": f64 bits}` or `{"ok": false}` (constructor raises) -/
def runRepForward (j : Json) : R Json := do
  let comps ← (← (← j.getObjVal? "components").getArr?).toList.mapM compOfJson
  let n1 := (j.getObjValAs? Nat "n1").toOption.getD 0
  let m2 ← (← (← j.getObjVal? "m2").getArr?).toList.mapM fun m => do
    match (← m.getStr?) with
    | "distance" => pure Rep2.distance
    | "angle" => pure Rep2.angle
    | s => throw s!"unknown limb module {s}"
  let m3 ← (← (← j.getObjVal? "m3").getArr?).toList.mapM fun m => do
    match (← m.getStr?) with
    | "inner_angle" => pure Rep3.innerAngle
    | "point_line" => pure Rep3.pointLine
    | s => throw s!"unknown triple module {s}"
  let shape ← getNatArr (← j.getObjVal? "shape")
  let B := shape.getD 0 0; let L := shape.getD 1 0; let N := shape.getD 2 0; let C := shape.getD 3 0
  let data ← (← (← j.getObjVal? "data").getArr?).toList.mapM f64OfJson
  let valid ← getNatArr (← j.getObjVal? "valid")
  let dataA := data.toArray; let validA := valid.toArray
  -- (points, batch, len, dims) view
  let pts : List (List (List (List (MV Float)))) := (List.range N).map fun n => (List.range B).map fun b => (List.range L).map fun l =>
    (List.range C).map fun c => (dataA.getD (((b * L + l) * N + n) * C + c) 0.0, validA.getD ((b * L + l) * N + n) 0 != 0)
  match poseRepresentation floatScalar Float.atan Float.acos comps n1 m2 m3 pts B L with
  | none => pure (Json.mkObj [("ok", Json.bool false)])
  | some out =>
    let E := ((out.headD []).headD []).length
    pure (Json.mkObj [("ok", Json.bool true), ("shape", Json.arr #[natJ B, natJ L, natJ E]), ("values", Json.arr (out.flatten.flatten.toArray.map f64J))])

end PoseVerif.Driver
