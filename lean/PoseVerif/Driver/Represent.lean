import PoseVerif.Model.Represent
import PoseVerif.Driver.Codec
import PoseVerif.Driver.Masked
/-! Driver: representation modules on point tuples (Float scalars) and the assembled layout. -/
namespace PoseVerif.Driver
open Lean

/-- a point: `{"v": [f64 bits …], "ok": bool}` → coordinates with the point's flag on every coordinate -/
def mvPointOfJson (j : Json) : R (List (MV Float)) := do
  let vs ← (← (← j.getObjVal? "v").getArr?).toList.mapM f64OfJson
  let ok ← j.getObjValAs? Bool "ok"
  pure (vs.map fun x => (x, ok))

/-- `{"tuples": [[p1, p2, p3] …]}` → per tuple the four scalar representations (torch semantics) -/
def runRepresent (j : Json) : R Json := do
  let tuples ← (← (← j.getObjVal? "tuples").getArr?).toList.mapM fun t => do (← t.getArr?).toList.mapM mvPointOfJson
  let out := tuples.map fun t =>
    let p1 := t.getD 0 []; let p2 := t.getD 1 []; let p3 := t.getD 2 []
    Json.mkObj [("distance", f64J (distanceRep floatScalar p1 p2)), ("angle", f64J (angleRep floatScalar Float.atan p1 p2)),
      ("inner_angle", f64J (innerAngleRep floatScalar Float.acos p1 p2 p3)), ("point_line", f64J (pointLineRep floatScalar p1 p2 p3))]
  pure (Json.mkObj [("ok", Json.bool true), ("values", Json.arr out.toArray)])

/-- header components + module counts → limb / triangle index lists and the advertised output size -/
def runRepLayout (j : Json) : R Json := do
  let comps ← (← (← j.getObjVal? "components").getArr?).toList.mapM compOfJson
  let (l1, l2) := limbPoints comps
  let tri := trianglePoints l1 l2
  let nat (k : String) : R Nat := do pure ((j.getObjValAs? Nat k).toOption.getD 0)
  let size := repOutputSize comps (← nat "n1") (← nat "n2") (← nat "n3")
  pure (Json.mkObj [("ok", Json.bool true), ("limbs", Json.arr #[Json.arr (l1.toArray.map natJ), Json.arr (l2.toArray.map natJ)]),
    ("triangles", Json.arr #[Json.arr (tri.toArray.map fun t => natJ t.1), Json.arr (tri.toArray.map fun t => natJ t.2.1), Json.arr (tri.toArray.map fun t => natJ t.2.2)]),
    ("output_size", natJ size)])

end PoseVerif.Driver
