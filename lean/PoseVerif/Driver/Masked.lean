import Lean.Data.Json
import PoseVerif.Model.Masked
import PoseVerif.Driver.Codec
/-! Driver side of the masked-tensor model: Float scalars (binary64), JSON decoding of programs. Floats travel as their 64-bit patterns. -/
namespace PoseVerif.Driver
open Lean

def floatScalar : Scalar Float :=
  { zero := 0.0, add := (· + ·), sub := (· - ·), mul := (· * ·), div := (· / ·), pow := Float.pow, sqrt := Float.sqrt,
    ofNat := Float.ofNat, isFinite := fun x => !(x.isNaN || x.isInf), isNaN := Float.isNaN,
    lt := fun a b => a < b, neg := fun a => -a, ceilNat := fun a => (Float.ceil a).toUInt64.toNat }

def f64OfJson (j : Json) : R Float := do
  let n ← j.getNat?
  pure (Float.ofBits (UInt64.ofNat n))
def f64J (x : Float) : Json := natJ x.toBits.toNat

def intArr (j : Json) : R (List Int) := do (← j.getArr?).toList.mapM fun x => x.getInt?

def tensorOfJson (j : Json) : R (T Float) := do
  let shape ← getNatArr (← j.getObjVal? "shape")
  let data ← (← (← j.getObjVal? "data").getArr?).toList.mapM f64OfJson
  pure ⟨shape, data⟩

def mtOfJson (j : Json) : R (MT Float) := do
  let t ← tensorOfJson j
  let mask ← getNatArr (← j.getObjVal? "mask")
  pure ⟨t, ⟨t.shape, mask.map (· != 0)⟩⟩

def binOpOf (s : String) : R BinOp :=
  match s with
  | "add" => pure .add | "sub" => pure .sub | "mul" => pure .mul | "div" => pure .div
  | _ => throw s!"bad op {s}"

def instrOfJson (j : Json) : R (Instr Float) := do
  let k ← j.getObjValAs? String "k"
  let r := (j.getObjValAs? Nat "r").toOption.getD 0
  match k with
  | "index" => pure (.index r (← (← j.getObjVal? "i").getInt?))
  | "slice" => pure (.slice r (← getNat j "a") (← getNat j "b"))
  | "gather" => pure (.gather r (← getNatArr (← j.getObjVal? "ixs")))
  | "permute" => pure (.permute r (← getNatArr (← j.getObjVal? "perm")))
  | "transpose" => pure (.transpose r (← (← j.getObjVal? "d0").getInt?) (← (← j.getObjVal? "d1").getInt?))
  | "squeeze" => pure (.squeeze r (← (← j.getObjVal? "dim").getInt?))
  | "squeeze_all" => pure (.squeezeAll r)
  | "unsqueeze" => pure (.unsqueeze r (← (← j.getObjVal? "dim").getInt?))
  | "reshape" => pure (.reshape r (← intArr (← j.getObjVal? "shape")))
  | "narrow" => pure (.narrow r (← getNat j "axis") (← getNat j "start") (← getNat j "len"))
  | "cat" => pure (.cat (← getNatArr (← j.getObjVal? "rs")) (← (← j.getObjVal? "dim").getInt?))
  | "stack" => pure (.stack (← getNatArr (← j.getObjVal? "rs")) (← (← j.getObjVal? "dim").getInt?))
  | "bin" => pure (.bin (← binOpOf (← j.getObjValAs? String "f")) (← getNat j "r1") (← getNat j "r2"))
  | "bin_scalar" => pure (.binScalar (← binOpOf (← j.getObjValAs? String "f")) r (← f64OfJson (← j.getObjVal? "c")))
  | "pow_scalar" => pure (.powScalar r (← f64OfJson (← j.getObjVal? "c")))
  | "square" => pure (.unary .square r)
  | "sqrt" => pure (.unary .sqrt r)
  | "sum" => pure (.sum r (← (← j.getObjVal? "dim").getInt?))
  | "mean" => pure (.mean r (← getNat j "lead"))
  | "variance" => pure (.variance r (← getNat j "lead"))
  | "std" => pure (.std r (← getNat j "lead"))
  | "matmul" => pure (.matmul r (← tensorOfJson (← j.getObjVal? "m")))
  | "fix_nan" => pure (.fixNan r)
  | _ => throw s!"unknown instruction {k}"

def mtToJson (x : MT Float) : Json := Json.mkObj [
  ("shape", Json.arr (x.tensor.shape.toArray.map natJ)), ("mask_shape", Json.arr (x.mask.shape.toArray.map natJ)),
  ("data", Json.arr (x.tensor.data.toArray.map f64J)),
  ("mask", Json.arr (x.mask.data.toArray.map fun b => natJ (if b then 1 else 0))),
  ("zf", Json.arr ((zeroFilled floatScalar x.tensor x.mask).data.toArray.map f64J))]

def runMaskedProg (j : Json) : R Json := do
  let fw := if (j.getObjValAs? String "fw").toOption == some "tf" then Framework.tf else Framework.torch
  let env ← (← (← j.getObjVal? "env").getArr?).toList.mapM mtOfJson
  let prog ← (← (← j.getObjVal? "prog").getArr?).toList.mapM instrOfJson
  let (out, ok) := runMasked floatScalar fw prog env
  pure (Json.mkObj [("ok", Json.bool true), ("completed", Json.bool ok), ("steps", Json.arr ((out.drop env.length).toArray.map mtToJson))])

end PoseVerif.Driver
