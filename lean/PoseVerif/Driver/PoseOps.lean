import PoseVerif.Model.PoseOps
import PoseVerif.Model.Spatial
import PoseVerif.Model.Interp
import PoseVerif.Model.Normalize3D
import PoseVerif.Driver.Masked
import PoseVerif.Model.Helpers
/-! Driver: pose-body operations on the three backends (Float scalars; flat JSON ↔ nested arrays). -/
namespace PoseVerif.Driver
open Lean

def chunks {α : Type} (n : Nat) (count : Nat) (l : List α) : List (List α) :=
  (List.range count).map fun i => (l.drop (i * n)).take n

def nest4 {α : Type} (F P N D : Nat) (flat : List α) : A4 α :=
  (chunks (P * N * D) F flat).map fun fr => (chunks (N * D) P fr).map fun pe => chunks D N pe
def nest3 {α : Type} (F P N : Nat) (flat : List α) : A3 α :=
  (chunks (P * N) F flat).map fun fr => chunks N P fr

def floatIsZero (x : Float) : Bool := x == 0.0

def backendOf (s : String) : Backend := if s == "torch" then .torch else if s == "tf" then .tf else .numpy

def pbodyOfJson (be : Backend) (j : Json) : R (PBody Float) := do
  let shape ← getNatArr (← j.getObjVal? "shape")
  let (F, P, N, D) := (shape.getD 0 0, shape.getD 1 0, shape.getD 2 0, shape.getD 3 0)
  let data ← (← (← j.getObjVal? "data").getArr?).toList.mapM f64OfJson
  let conf ← (← (← j.getObjVal? "conf").getArr?).toList.mapM f64OfJson
  let fps ← f64OfJson (← j.getObjVal? "fps")
  pure (mkBody be floatIsZero fps (nest4 F P N D data) (nest3 F P N conf) none)

def pbodyToJson (b : PBody Float) : Json :=
  let F := b.conf.length
  let P := (b.conf.headD []).length
  let N := ((b.conf.headD []).headD []).length
  let D := (((b.data.headD []).headD []).headD []).length
  Json.mkObj [("fps", f64J b.fps), ("shape", Json.arr #[natJ F, natJ P, natJ N, natJ D]),
    ("conf", Json.arr (b.conf.flatten.flatten.toArray.map f64J)),
    ("missing", Json.arr (b.missing.flatten.flatten.flatten.toArray.map fun m => natJ (if m then 1 else 0))),
    ("data", Json.arr (b.data.flatten.flatten.flatten.toArray.map f64J)),
    ("zf", Json.arr ((zeroFill4 floatScalar b.data b.missing).flatten.flatten.flatten.toArray.map f64J))]

def runBodyOps (j : Json) : R Json := do
  let be := backendOf (← j.getObjValAs? String "backend")
  let mut b ← pbodyOfJson be (← j.getObjVal? "body")
  let mut out : Array Json := #[pbodyToJson b]
  for op in (← (← j.getObjVal? "ops").getArr?) do
    let k ← op.getObjValAs? String "k"
    let res : Option (PBody Float) ← match k with
      | "get_points" => do pure (getPoints be floatIsZero (← getNatArr (← op.getObjVal? "ixs")) b)
      | "select_frames" => do pure (selectFrames be floatIsZero (← getNatArr (← op.getObjVal? "ixs")) b)
      | "slice_step" => do pure (sliceStep be floatScalar floatIsZero (← getNat op "by") b)
      | "slice" => do
        let bound := fun (key : String) => match op.getObjVal? key with
          | .ok Json.null => (none : Option Int)
          | .ok v => (v.getInt?).toOption
          | .error _ => none
        let step := match op.getObjVal? "step" with
          | .ok Json.null => 1
          | .ok v => (v.getNat?).toOption.getD 1
          | .error _ => 1
        pure (sliceFrames be floatIsZero (bound "a") (bound "b") step b)
      | "zero_filled" => pure (some (zeroFilledBody floatScalar b))
      | "copy" => pure (some b)
      | "hide_points" => do pure (some (hidePoints floatScalar (← getNatArr (← op.getObjVal? "ixs")) b))
      | "correct_wrist" => do pure (some (correctWrist floatIsZero (← getNat op "hand") (← getNat op "body") b))
      | "matmul" => do
        let rows ← (← (← op.getObjVal? "m").getArr?).toList.mapM fun r => do (← r.getArr?).toList.mapM f64OfJson
        pure (some (matmulBody be floatScalar floatIsZero rows b))
      | "flip" => do pure (some (flipBody floatScalar floatIsZero (← getNat op "axis") b))
      | "bbox" => do pure (some (bboxBody floatScalar floatIsZero (← getNatArr (← op.getObjVal? "sizes")) b))
      | "focus" =>
        match focusBody floatScalar floatIsZero b with
        | some (b', w, h, d) =>
          out := out.push (Json.mkObj [("dimensions", Json.arr #[natJ w, natJ h, natJ d])])
          pure (some b')
        | none => pure none
      | "interpolate" => do pure (interpolateBody floatScalar floatIsZero (← f64OfJson (← op.getObjVal? "new_fps")) (← getNat op "new_frames") b)
      | "normalize" => do
        match normalizeBody floatScalar floatIsZero (← getNat op "p1") (← getNat op "p2") (← f64OfJson (← op.getObjVal? "scale")) b with
        | some (b', center, md) =>
          out := out.push (Json.mkObj [("center", Json.arr (center.toArray.map f64J)), ("mean_distance", f64J md)])
          pure (some b')
        | none => pure none
      | "normalize_distribution" => do
        let allPoints := (op.getObjValAs? Bool "all_points").toOption.getD false
        let (b', mu, sd) := normalizeDistribution floatScalar floatIsZero allPoints b
        let tab (t : List (List (Option Float))) : Json := Json.arr (t.toArray.map fun r => Json.arr (r.toArray.map fun x => match x with | some v => f64J v | none => Json.null))
        out := out.push (Json.mkObj [("mu", tab mu), ("std", tab sd)])
        let back := (op.getObjValAs? Bool "unnormalize").toOption.getD false
        pure (some (if back then unnormalizeDistribution floatScalar floatIsZero mu sd b' else b'))
      | "normalize_3d" => do
        let pl ← getNatArr (← op.getObjVal? "plane")
        let ln ← getNatArr (← op.getObjVal? "line")
        let info : Norm3DInfo := ⟨(pl.getD 0 0, pl.getD 1 0, pl.getD 2 0), (ln.getD 0 0, ln.getD 1 0)⟩
        match normalize3DBody floatScalar floatIsZero info (← f64OfJson (← op.getObjVal? "size")) b with
        | some (d, m) => pure (some { b with data := d, missing := m })
        | none => pure none
      | "flatten" =>
        out := out.push (Json.mkObj [("rows", Json.arr ((flattenBody floatScalar floatIsZero b).toArray.map fun r => Json.arr (r.toArray.map f64J)))])
        pure (some b)
      | _ => throw s!"unknown body op {k}"
    match res with
    | some b' =>
      b := b'
      if k != "flatten" then out := out.push (pbodyToJson b)
    | none => out := out.push (Json.mkObj [("error", Json.bool true)]); break
  pure (Json.mkObj [("ok", Json.bool true), ("steps", Json.arr out)])

end PoseVerif.Driver
