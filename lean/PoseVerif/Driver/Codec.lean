import Lean.Data.Json
import PoseVerif.Model.Stream
/-!
JSON (de)serialisation of model values for the correspondence driver. Not part of any theorem.
Strings travel as hex of their UTF-8 bytes, floats as integer bit patterns.
-/
namespace PoseVerif.Driver
open Lean

def hexDigit (n : Nat) : Char := if n < 10 then Char.ofNat (48 + n) else Char.ofNat (87 + n)
def toHex (b : Bytes) : String :=
  String.ofList (b.flatMap fun x => [hexDigit (x.toNat / 16), hexDigit (x.toNat % 16)])
def hexVal (c : Char) : Option Nat :=
  if '0' ≤ c ∧ c ≤ '9' then some (c.toNat - 48)
  else if 'a' ≤ c ∧ c ≤ 'f' then some (c.toNat - 87)
  else if 'A' ≤ c ∧ c ≤ 'F' then some (c.toNat - 55) else none
partial def fromHexAux : List Char → Array UInt8 → Option (Array UInt8)
  | [], acc => some acc
  | a :: b :: r, acc => do let x ← hexVal a; let y ← hexVal b; fromHexAux r (acc.push (UInt8.ofNat (x * 16 + y)))
  | _, _ => none
def fromHex (s : String) : Option Bytes := (fromHexAux s.toList #[]).map (·.toList)

abbrev R := Except String

def getStrHex (j : Json) (k : String) : R String := do
  let h ← j.getObjValAs? String k
  match fromHex h with
  | some b => match stringOfBytes? b with
    | some s => pure s
    | none => throw s!"field {k}: not UTF-8"
  | none => throw s!"field {k}: bad hex"
def getHex (j : Json) (k : String) : R Bytes := do
  let h ← j.getObjValAs? String k
  match fromHex h with
  | some b => pure b
  | none => throw s!"field {k}: bad hex"
def strHex (s : String) : Json := Json.str (toHex (bytesOfString s))

def getNat (j : Json) (k : String) : R Nat := j.getObjValAs? Nat k
def getNatArr (j : Json) : R (List Nat) := do
  let a ← j.getArr?
  a.toList.mapM fun x => x.getNat?
def getF32Arr (j : Json) (k : String) : R (List F32) := do
  let a ← (← j.getObjVal? k).getArr?
  a.toList.mapM fun x => do pure (UInt32.ofNat (← x.getNat?))
def f32Arr (l : List F32) : Json := Json.arr (l.toArray.map fun w => Json.num (JsonNumber.fromNat w.toNat))
def natJ (n : Nat) : Json := Json.num (JsonNumber.fromNat n)
def intJ (n : Int) : Json := Json.num (JsonNumber.fromInt n)

def compOfJson (j : Json) : R Comp := do
  let pts ← (← j.getObjVal? "points").getArr?
  let points ← pts.toList.mapM fun p => do
    let h ← p.getStr?
    match (fromHex h).bind stringOfBytes? with
    | some s => pure s
    | none => throw "bad point name"
  let limbs ← (← (← j.getObjVal? "limbs").getArr?).toList.mapM fun l => do
    match ← getNatArr l with
    | [a, b] => pure (a, b)
    | _ => throw "bad limb"
  let colors ← (← (← j.getObjVal? "colors").getArr?).toList.mapM fun l => do
    match ← getNatArr l with
    | [a, b, c] => pure (a, b, c)
    | _ => throw "bad colour"
  pure { name := ← getStrHex j "name", format := ← getStrHex j "format", points, limbs, colors }

def compToJson (c : Comp) : Json := Json.mkObj [
  ("name", strHex c.name), ("format", strHex c.format),
  ("points", Json.arr (c.points.toArray.map strHex)),
  ("limbs", Json.arr (c.limbs.toArray.map fun l => Json.arr #[natJ l.1, natJ l.2])),
  ("colors", Json.arr (c.colors.toArray.map fun l => Json.arr #[natJ l.1, natJ l.2.1, natJ l.2.2]))]

def headerOfJson (j : Json) : R Header := do
  let comps ← (← (← j.getObjVal? "components").getArr?).toList.mapM compOfJson
  pure { version := UInt32.ofNat (← getNat j "version"), width := ← getNat j "width", height := ← getNat j "height",
         depth := ← getNat j "depth", comps }

def headerToJson (h : Header) : Json := Json.mkObj [
  ("version", natJ h.version.toNat), ("width", natJ h.width), ("height", natJ h.height), ("depth", natJ h.depth),
  ("components", Json.arr (h.comps.toArray.map compToJson))]

def fpsOfJson (j : Json) : R Fps := do
  match j.getObjVal? "f32" with
  | .ok v => pure (.f32 (UInt32.ofNat (← v.getNat?)))
  | .error _ => pure (.int (← getNat j "int"))
def fpsToJson : Fps → Json
  | .f32 w => Json.mkObj [("f32", natJ w.toNat)]
  | .int n => Json.mkObj [("int", natJ n)]

def bodyOfJson (j : Json) : R Body := do
  pure { fps := ← fpsOfJson (← j.getObjVal? "fps"), frames := ← getNat j "frames", people := ← getNat j "people",
         points := ← getNat j "points", dims := ← getNat j "dims",
         data := ← getF32Arr j "data", conf := ← getF32Arr j "conf", missing := [] }

def bodyToJson (b : Body) : Json := Json.mkObj [
  ("fps", fpsToJson b.fps), ("frames", natJ b.frames), ("people", natJ b.people), ("points", natJ b.points), ("dims", natJ b.dims),
  ("data", f32Arr b.data), ("conf", f32Arr b.conf),
  ("missing", Json.arr (b.missing.toArray.map fun m => natJ (if m then 1 else 0)))]

def poseOfJson (j : Json) : R Pose := do
  pure { header := ← headerOfJson (← j.getObjVal? "header"), body := ← bodyOfJson (← j.getObjVal? "body") }
def poseToJson (p : Pose) : Json := Json.mkObj [("header", headerToJson p.header), ("body", bodyToJson p.body)]

def optInt (j : Json) (k : String) : R (Option Int) :=
  match j.getObjVal? k with
  | .ok Json.null => pure none
  | .ok v => do pure (some (← v.getInt?))
  | .error _ => pure none

def windowOfJson (j : Json) : R Window := do
  pure { startFrame := ← optInt j "start_frame", endFrame := ← optInt j "end_frame",
         startTime := ← optInt j "start_time", endTime := ← optInt j "end_time" }

end PoseVerif.Driver
