import PoseVerif.Model.Collate
import PoseVerif.Driver.Masked
/-! JSON codec for the collation model (driver only). -/
namespace PoseVerif.Driver
open Lean

partial def datumOfJson (j : Json) : R (Datum Float) := do
  match j.getObjVal? "masked" with
  | .ok v => return .masked (← mtOfJson v)
  | .error _ => pure ()
  match j.getObjVal? "plain" with
  | .ok v => return .plain (← tensorOfJson v)
  | .error _ => pure ()
  match j.getObjVal? "int" with
  | .ok v => return .int (← v.getInt?)
  | .error _ => pure ()
  match j.getObjVal? "str" with
  | .ok v => return .str (← v.getStr?)
  | .error _ => pure ()
  match j.getObjVal? "dict" with
  | .ok v =>
    let fs ← (← v.getArr?).toList.mapM fun kv => do
      let a ← kv.getArr?
      pure ((← (a[0]!).getStr?), (← datumOfJson a[1]!))
    return .dict fs
  | .error _ => pure ()
  match j.getObjVal? "tuple" with
  | .ok v => return .tuple (← (← v.getArr?).toList.mapM datumOfJson)
  | .error _ => throw "bad datum"

def tensorToJson (t : T Float) : Json := Json.mkObj [("shape", Json.arr (t.shape.toArray.map natJ)), ("data", Json.arr (t.data.toArray.map f64J))]
def maskedToJson (x : MT Float) : Json := Json.mkObj [("shape", Json.arr (x.tensor.shape.toArray.map natJ)), ("data", Json.arr (x.tensor.data.toArray.map f64J)),
  ("mask_shape", Json.arr (x.mask.shape.toArray.map natJ)), ("mask", Json.arr (x.mask.data.toArray.map fun b => natJ (if b then 1 else 0)))]

partial def datumToJson : Datum Float → Json
  | .masked x => Json.mkObj [("masked", maskedToJson x)]
  | .plain t => Json.mkObj [("plain", tensorToJson t)]
  | .int n => Json.mkObj [("int", intJ n)]
  | .str s => Json.mkObj [("str", Json.str s)]
  | .dict fs => Json.mkObj [("dict", Json.arr (fs.toArray.map fun kv => Json.arr #[Json.str kv.1, datumToJson kv.2]))]
  | .tuple is => Json.mkObj [("tuple", Json.arr (is.toArray.map datumToJson))]

partial def collatedToJson : Collated Float → Json
  | .masked x => Json.mkObj [("masked", maskedToJson x)]
  | .plain t => Json.mkObj [("plain", tensorToJson t)]
  | .ints ns => Json.mkObj [("ints", Json.arr (ns.toArray.map intJ))]
  | .list is => Json.mkObj [("list", Json.arr (is.toArray.map datumToJson))]
  | .dict fs => Json.mkObj [("dict", Json.arr (fs.toArray.map fun kv => Json.arr #[Json.str kv.1, collatedToJson kv.2]))]
  | .tuple is => Json.mkObj [("tuple", Json.arr (is.toArray.map collatedToJson))]

def runCollate (j : Json) : R Json := do
  let batch ← (← (← j.getObjVal? "batch").getArr?).toList.mapM datumOfJson
  let res := match j.getObjVal? "pad" with
    | .ok p => match f64OfJson p with
      | .ok v => collateTensors v 16 batch                         -- `collate_tensors(batch, pad_value=v)`
      | .error _ => zeroPadCollator (0.0 : Float) 16 batch
    | .error _ => zeroPadCollator (0.0 : Float) 16 batch
  match res with
  | some c => pure (Json.mkObj [("ok", Json.bool true), ("result", collatedToJson c)])
  | none => pure (Json.mkObj [("ok", Json.bool false)])

end PoseVerif.Driver
