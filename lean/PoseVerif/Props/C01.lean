import PoseVerif.Proofs.Pose
/-!
# C01 — write then read returns the same pose, or the write fails loudly

Property theorems only. `Pose.write?` models `Pose.write` (`none` = an exception), `readFull` models
`Pose.read(bytes)` with an empty header cache (cache independence is C03/C06).
`Body.Fits` is "the body has the shape its header describes" (the domain of the property);
`Pose.Rep` is "every count, length (in UTF-8 bytes), index, colour and dimension fits its field".
-/
namespace PoseVerif.Props.C01
open PoseVerif

/-- A successful write decodes to the same pose: header equal in every field (version = 0.2), fps/coordinates/confidences
    bit for bit, a point missing exactly where its confidence is ±0. Never bytes that decode to something else or not at all. -/
theorem write_ok_decodes (p : Pose) (hf : p.body.Fits p.header) (b : Bytes) (h : p.write? = some b) :
    ∃ w, p.body.fps.toF32? = some w ∧ readFull b = some (p.canon w) := by
  obtain ⟨w, c, hw, hr⟩ := runBR_rdPose_write p hf b [] h
  refine ⟨w, hw, ?_⟩
  simp only [List.append_nil] at hr
  simp [readFull, hr]

/-- Representable poses are written. -/
theorem read_write (p : Pose) (hf : p.body.Fits p.header) (hr : p.Rep) :
    ∃ b w, p.write? = some b ∧ p.body.fps.toF32? = some w ∧ readFull b = some (p.canon w) := by
  obtain ⟨b, hb⟩ := (Pose.write?_iff p hf.dims).mpr hr
  obtain ⟨w, hw, hread⟩ := write_ok_decodes p hf b hb
  exact ⟨b, w, hb, hw, hread⟩

/-- A pose that does not fit the format is refused (`struct.error` / `ValueError` in the implementation). -/
theorem write_fails_loudly (p : Pose) (hd : p.header.numDims? = some p.body.dims) (hr : ¬ p.Rep) : p.write? = none := by
  cases h : p.write? with
  | none => rfl
  | some b => exact absurd ((Pose.write?_iff p hd).mp ⟨b, h⟩) hr

/-- A header/body dimension mismatch is refused as well. -/
theorem write_dim_mismatch (p : Pose) (hd : p.header.numDims? ≠ some p.body.dims) : p.write? = none := by
  cases h : p.write? with
  | none => rfl
  | some b => exact absurd (Pose.write?_some h).1 hd

/-- The missing pattern of what is read back: exactly the points whose confidence is ±0. -/
theorem missing_iff_conf_zero (p : Pose) (hf : p.body.Fits p.header) (b : Bytes) (h : p.write? = some b) (q : Pose)
    (hq : readFull b = some q) : q.body.missing = p.body.conf.map F32.isZero := by
  obtain ⟨w, _, hr⟩ := write_ok_decodes p hf b h
  rw [hr] at hq; cases hq; rfl

/-! ### non-vacuity: a concrete pose with a 3-bytes-per-character name, NaN, −0.0 and a zero confidence meets the hypotheses -/

def samplePose : Pose :=
  { header := { version := 0, width := 640, height := 480, depth := 0,
                comps := [{ name := "手", format := "XYC", points := ["a", "é"], limbs := [(0, 1)], colors := [(255, 0, 65535)] }] },
    body := { fps := .f32 0x41C80000, frames := 1, people := 1, points := 2, dims := 2,
              data := [0x7FC00000, 0x80000000, 0x3F800000, 0x00000001], conf := [0x3F800000, 0x80000000], missing := [] } }

example : samplePose.body.Fits samplePose.header := ⟨by decide, by decide, by decide, by decide, by decide⟩
example : (samplePose.write?).isSome = true := by decide
example : (samplePose.write?.bind readFull).map (·.body.missing) = some [false, true] := by decide

/-! ### distinct poses never collide in bytes -/

/-- **No two poses share a file**: if two well-shaped poses are written to the same bytes, they are the same pose up to what the format stores
    (`canon`: the frame rate as the 32-bit float that is written, the missing pattern as derived from the confidences). -/
theorem write_injective (p q : Pose) (hfp : p.body.Fits p.header) (hfq : q.body.Fits q.header) (b : Bytes)
    (hp : p.write? = some b) (hq : q.write? = some b) :
    ∃ w w', p.body.fps.toF32? = some w ∧ q.body.fps.toF32? = some w' ∧ p.canon w = q.canon w' := by
  obtain ⟨w, hw, h1⟩ := write_ok_decodes p hfp b hp
  obtain ⟨w', hw', h2⟩ := write_ok_decodes q hfq b hq
  rw [h1] at h2
  exact ⟨w, w', hw, hw', Option.some.inj h2⟩
end PoseVerif.Props.C01
