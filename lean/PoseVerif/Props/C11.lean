import PoseVerif.Model.Select
import PoseVerif.Model.Helpers
import PoseVerif.Proofs.PoseOps
import PoseVerif.Proofs.C19Lemmas
import PoseVerif.Model.PoseSeq
import PoseVerif.Proofs.BodyRect
import PoseVerif.Proofs.BodyOps
/-!
# C11 — selecting, removing or hiding points by name affects exactly those points

Header-level model of `get_components` / `remove_components` / `get_point_index`; the body follows by `getPoints` on the flat index list (C08/C09).
-/
namespace PoseVerif.Props.C11
open PoseVerif

theorem indexOf?_some {l : List String} {x : String} {i : Nat} (h : indexOf? l x = some i) : i < l.length ∧ l[i]? = some x ∧ i = l.idxOf x := by
  unfold indexOf? at h
  simp only [] at h
  split at h
  · rename_i hlt
    simp only [Option.some.injEq] at h
    subst h
    exact ⟨hlt, by rw [List.getElem?_eq_getElem hlt, List.getElem_idxOf], rfl⟩
  · cases h

theorem mapM_indexOf {l : List String} : ∀ {pts : List String} {olds : List Nat}, pts.mapM (indexOf? l) = some olds →
    olds = pts.map (fun p => l.idxOf p) ∧ ∀ p ∈ pts, p ∈ l
  | [], olds, h => by simp at h; subst h; simp
  | p :: ps, olds, h => by
    simp only [List.mapM_cons, Option.bind_eq_bind, Option.bind_eq_some_iff, Option.pure_def, Option.some.injEq] at h
    obtain ⟨i, hi, rest, hrest, rfl⟩ := h
    obtain ⟨h1, h2⟩ := mapM_indexOf hrest
    obtain ⟨hlt, hget, heq⟩ := indexOf?_some hi
    refine ⟨by simp [h1, heq], ?_⟩
    intro q hq
    rcases List.mem_cons.mp hq with rfl | hq
    · exact List.mem_of_getElem? hget
    · exact h2 q hq

/-- Selecting points of a component: the new component carries exactly the requested names, the i-th selected point is the source point with that name
    (`offset + index of the name`), every requested name exists, colours and format are kept. -/
theorem select_component (c : Comp) (idx : Nat) (pts : List String) (c' : Comp) (ixs : List Nat) (h : selectComp c idx (some pts) = some (c', ixs)) :
    c'.points = pts ∧ c'.name = c.name ∧ c'.format = c.format ∧ c'.colors = c.colors ∧
    ixs = pts.map (fun p => idx + c.points.idxOf p) ∧ ∀ p ∈ pts, p ∈ c.points := by
  simp only [selectComp, Option.bind_eq_bind, Option.bind_eq_some_iff, Option.pure_def, Option.some.injEq, Prod.mk.injEq] at h
  obtain ⟨olds, holds, rfl, rfl⟩ := h
  obtain ⟨h1, h2⟩ := mapM_indexOf holds
  exact ⟨rfl, rfl, rfl, rfl, by simp [h1, List.map_map, Function.comp_def], h2⟩

/-- Requesting a component without a point list copies it as it is. -/
theorem select_component_all (c : Comp) (idx : Nat) : selectComp c idx none = some (c, (List.range c.points.length).map (idx + ·)) := rfl

/-- `get_point_index(component, point)`: for the first component with that name, its offset plus the index of the point name. -/
theorem pointIndex_go (pre : List Comp) (c : Comp) (post : List Comp) (point : String) (start : Nat) (hpre : ∀ d ∈ pre, d.name ≠ c.name) :
    pointIndex?.go c.name point (pre ++ c :: post) start = (indexOf? c.points point).map ((start + (pre.map (·.points.length)).sum) + ·) := by
  induction pre generalizing start with
  | nil => simp [pointIndex?.go]
  | cons d ds ih =>
    have hd : d.name ≠ c.name := hpre d (by simp)
    simp only [List.cons_append, pointIndex?.go, if_neg hd]
    rw [ih (start + d.points.length) (fun e he => hpre e (by simp [he]))]
    simp only [List.map_cons, List.sum_cons]
    congr 1
    funext i; omega

/-- Removing components / points is selecting the complement: by definition of the code, `remove_components` calls `get_components` with the kept
    component names (in header order) and, per kept component, its points minus the ones to remove (absent names are ignored). -/
theorem remove_eq_select_complement (comps : List Comp) (remove : List String) :
    removeComponents comps remove none =
      getComponents comps ((comps.filter fun c => !remove.contains c.name).map (·.name))
        (some ((comps.filter fun c => !remove.contains c.name).map fun c => (c.name, c.points))) := rfl

theorem remove_points_eq_select (comps : List Comp) (remove : List String) (ptr : List (String × List String)) :
    removeComponents comps remove (some ptr) =
      getComponents comps ((comps.filter fun c => !remove.contains c.name).map (·.name))
        (some ((comps.filter fun c => !remove.contains c.name).map fun c =>
          (c.name, c.points.filter fun p => !(((ptr.find? (·.1 == c.name)).map (·.2)).getD []).contains p))) := rfl

/-! non-vacuity: two components; select the second one first, with its points permuted and one dropped -/
def compA : Comp := { name := "A", format := "XYC", points := ["a0", "a1"], limbs := [(0, 1)], colors := [(1, 2, 3)] }
def compB : Comp := { name := "B", format := "XYC", points := ["b0", "b1", "b2"], limbs := [(0, 1), (1, 2), (0, 2)], colors := [(4, 5, 6)] }

example : (getComponents [compA, compB] ["B", "A"] (some [("B", ["b2", "b0"])])).map (fun r => (r.1.map (·.points), r.1.map (·.limbs), r.2))
    = some ([["b2", "b0"], ["a0", "a1"]], [[(1, 0)], [(0, 1)]], [4, 2, 0, 1]) := by decide +kernel
example : pointIndex? [compA, compB] "B" "b2" = some 4 := by decide +kernel
example : (removeComponents [compA, compB] ["A"] (some [("B", ["b1", "zzz"])])).map (fun r => (r.1.map (·.points), r.1.map (·.limbs), r.2))
    = some ([["b0", "b2"]], [[(0, 1)]], [2, 4]) := by decide +kernel

end PoseVerif.Props.C11

namespace PoseVerif.Props.C11
open PoseVerif

theorem find_rev_zipIdx {olds : List Nat} {old : Nat} {r : Nat × Nat} (h : olds.zipIdx.reverse.find? (·.1 == old) = some r) :
    olds[r.2]? = some old := by
  have hmem := List.mem_of_find?_eq_some h
  have hp := List.find?_some h
  simp only [List.mem_reverse] at hmem
  have hpair : r = (r.1, r.2) := rfl
  rw [hpair] at hmem
  have := List.mem_zipIdx_iff_getElem?.mp hmem
  simp only [beq_iff_eq] at hp
  simp only [Nat.sub_zero, Nat.zero_le, true_and] at this
  rw [this, hp]

/-- The limbs of the selection connect the same NAMED points as before: every new limb `(a, b)` comes from an old limb `(l1, l2)` whose end points carry the
    names of the new end points; limbs with a dropped end point do not appear. -/
theorem select_limbs_names (c : Comp) (idx : Nat) (pts : List String) (c' : Comp) (ixs : List Nat) (h : selectComp c idx (some pts) = some (c', ixs))
    (a b : Nat) (hab : (a, b) ∈ c'.limbs) :
    ∃ l1 l2, (l1, l2) ∈ c.limbs ∧ pts[a]? = c.points[l1]? ∧ pts[b]? = c.points[l2]? ∧ a < pts.length ∧ b < pts.length := by
  simp only [selectComp, Option.bind_eq_bind, Option.bind_eq_some_iff, Option.pure_def, Option.some.injEq, Prod.mk.injEq] at h
  obtain ⟨olds, holds, rfl, _⟩ := h
  obtain ⟨h1, h2⟩ := mapM_indexOf holds
  simp only [List.mem_filterMap, Option.bind_eq_some_iff, Option.map_eq_some_iff, Option.some.injEq, Prod.mk.injEq] at hab
  obtain ⟨⟨l1, l2⟩, hl, a', ⟨ra, hra, rfl⟩, b', ⟨rb, hrb, rfl⟩, rfl, rfl⟩ := hab
  have ga := find_rev_zipIdx hra
  have gb := find_rev_zipIdx hrb
  rw [h1] at ga gb
  simp only [List.getElem?_map, Option.map_eq_some_iff] at ga gb
  obtain ⟨pa, hpa, hia⟩ := ga
  obtain ⟨pb, hpb, hib⟩ := gb
  have hamem : pa ∈ c.points := h2 pa (List.mem_of_getElem? hpa)
  have hbmem : pb ∈ c.points := h2 pb (List.mem_of_getElem? hpb)
  refine ⟨l1, l2, hl, ?_, ?_, ?_, ?_⟩
  · rw [hpa, ← hia, List.getElem?_eq_getElem (List.idxOf_lt_length_of_mem hamem), List.getElem_idxOf]
  · rw [hpb, ← hib, List.getElem?_eq_getElem (List.idxOf_lt_length_of_mem hbmem), List.getElem_idxOf]
  · exact (List.getElem?_eq_some_iff.mp hpa).1
  · exact (List.getElem?_eq_some_iff.mp hpb).1

/-! ### known-format helpers: only the named points change -/

section helpers
variable {S : Type}

theorem getD_map_nil {α β : Type} (f : List α → List β) (hf : f [] = []) (l : List (List α)) (i : Nat) : (l.map f).getD i [] = f (l.getD i []) := by
  simp only [List.getD_eq_getElem?_getD, List.getElem?_map]
  cases l[i]? <;> simp [hf]

theorem getD_mapIdx {α : Type} (g : Nat → α → α) (l : List α) (i : Nat) (d : α) (hd : g i d = d) : (l.mapIdx g).getD i d = g i (l.getD i d) := by
  simp only [List.getD_eq_getElem?_getD, List.getElem?_mapIdx]
  cases l[i]? <;> simp [hd]

/-- **hiding changes only the points it names**: every other point keeps its coordinates, confidence and missing flags -/
theorem hidePoints_other [Inhabited S] (sc : Scalar S) (ixs : List Nat) (b : PBody S) (f p n : Nat) (hn : n ∉ ixs) :
    dataAt (hidePoints sc ixs b) f p n = dataAt b f p n ∧ confAt (hidePoints sc ixs b) f p n = confAt b f p n ∧ missAt (hidePoints sc ixs b) f p n = missAt b f p n := by
  have hc : ixs.contains n = false := by simpa using hn
  refine ⟨?_, ?_, ?_⟩
  · unfold dataAt hidePoints
    simp only []
    rw [getD_map_nil _ (by simp), getD_map_nil _ (by simp), getD_mapIdx _ _ _ _ (by simp [hn])]
    simp [hn]
  · unfold confAt hidePoints
    simp only []
    rw [getD_map_nil _ (by simp), getD_map_nil _ (by simp), getD_mapIdx _ _ _ _ (by simp [hn])]
    simp [hn]
  · unfold missAt hidePoints
    simp only []
    rw [getD_map_nil _ (by simp), getD_map_nil _ (by simp), getD_mapIdx _ _ _ _ (by simp [hn])]
    simp [hn]

/-- … and the named points become zeros with confidence 0 (and are no longer flagged: a plain assignment clears numpy's mask) -/
theorem hidePoints_hidden [Inhabited S] (sc : Scalar S) (hz : (default : S) = sc.zero) (ixs : List Nat) (b : PBody S) (f p n : Nat) (hn : n ∈ ixs) :
    dataAt (hidePoints sc ixs b) f p n = (dataAt b f p n).map (fun _ => sc.zero) ∧
    (f < b.conf.length → p < (b.conf.getD f []).length → n < ((b.conf.getD f []).getD p []).length → confAt (hidePoints sc ixs b) f p n = sc.zero) ∧
    missAt (hidePoints sc ixs b) f p n = (missAt b f p n).map (fun _ => false) := by
  have hc : ixs.contains n = true := by simpa using hn
  refine ⟨?_, ?_, ?_⟩
  · unfold dataAt hidePoints
    simp only []
    rw [getD_map_nil _ (by simp), getD_map_nil _ (by simp), getD_mapIdx _ _ _ _ (by simp)]
    simp [hn]
  · intro _ _ _
    unfold confAt hidePoints
    simp only []
    rw [getD_map_nil _ (by simp), getD_map_nil _ (by simp), getD_mapIdx _ _ _ _ (by simp [hz])]
    simp [hn]
  · unfold missAt hidePoints
    simp only []
    rw [getD_map_nil _ (by simp), getD_map_nil _ (by simp), getD_mapIdx _ _ _ _ (by simp)]
    simp [hn]

/-- the points `pose_hide_legs` touches are exactly the header indexes of the listed names that exist -/
theorem mem_namedIndexes (comps : List Comp) (pairs : List (String × String)) (n : Nat) :
    n ∈ namedIndexes comps pairs ↔ ∃ cp ∈ pairs, pointIndex? comps cp.1 cp.2 = some n := by
  simp [namedIndexes, List.mem_filterMap]



/-- frames × people agree in extent (the third level may hold anything) -/
abbrev Same2 {α β : Type} (a : List (List α)) (b : List (List β)) : Prop := F2 (fun (x : List α) (y : List β) => x.length = y.length) a b

theorem zip2_getD {α : Type} [Inhabited S] (g : List α → List S → List α) (hg : g [] [] = []) (a : List (List (List α))) (c : A3 S) (hs : Same2 a c) (f p : Nat) :
    ((List.zipWith (List.zipWith g) a c).getD f []).getD p [] = g ((a.getD f []).getD p []) ((c.getD f []).getD p []) := by
  have h1 := getD_zipWith' (List.zipWith g) a c hs.length_eq f [] []
  simp only [List.zipWith_nil_left] at h1
  rw [h1]
  have hs2 : (a.getD f []).length = (c.getD f []).length := hs.getD rfl f
  have h2 := getD_zipWith' g (a.getD f []) (c.getD f []) hs2 p [] []
  rw [hg] at h2
  exact h2

/-- **wrist correction changes only the body wrist**: every other point keeps its coordinates, confidence and missing flags -/
theorem correctWrist_other [Inhabited S] (isZero : S → Bool) (hw bw : Nat) (b : PBody S) (hd : Same2 b.data b.conf) (hm : Same2 b.missing b.conf) (f p n : Nat) (hn : n ≠ bw) :
    dataAt (correctWrist isZero hw bw b) f p n = dataAt b f p n ∧ confAt (correctWrist isZero hw bw b) f p n = confAt b f p n ∧
    missAt (correctWrist isZero hw bw b) f p n = missAt b f p n := by
  refine ⟨?_, ?_, ?_⟩
  · unfold dataAt correctWrist
    simp only []
    rw [zip2_getD _ (by simp) _ _ hd, getD_mapIdx _ _ _ _ (by simp [hn])]
    simp [hn]
  · unfold confAt correctWrist
    simp only []
    rw [getD_map_nil _ (by simp), getD_map_nil _ (by simp), getD_mapIdx _ _ _ _ (by simp [hn])]
    simp [hn]
  · unfold missAt correctWrist
    simp only []
    rw [zip2_getD _ (by simp) _ _ hm, getD_mapIdx _ _ _ _ (by simp [hn])]
    simp [hn]

/-- … and the body wrist takes the hand wrist's coordinates, confidence and flags exactly where the hand wrist's confidence is not 0 -/
theorem correctWrist_at [Inhabited S] (isZero : S → Bool) (hw bw : Nat) (b : PBody S) (hd : Same2 b.data b.conf) (hm : Same2 b.missing b.conf) (f p : Nat)
    (hbd : bw < ((b.data.getD f []).getD p []).length) (hbc : bw < ((b.conf.getD f []).getD p []).length) (hbm : bw < ((b.missing.getD f []).getD p []).length) :
    (isZero (confAt b f p hw) = true → dataAt (correctWrist isZero hw bw b) f p bw = dataAt b f p bw ∧ confAt (correctWrist isZero hw bw b) f p bw = confAt b f p bw ∧
      missAt (correctWrist isZero hw bw b) f p bw = missAt b f p bw) ∧
    (isZero (confAt b f p hw) = false → dataAt (correctWrist isZero hw bw b) f p bw = dataAt b f p hw ∧ confAt (correctWrist isZero hw bw b) f p bw = confAt b f p hw ∧
      missAt (correctWrist isZero hw bw b) f p bw = missAt b f p hw) := by
  have e1 : dataAt (correctWrist isZero hw bw b) f p bw = if isZero (confAt b f p hw) then dataAt b f p bw else dataAt b f p hw := by
    unfold dataAt confAt correctWrist
    simp only []
    rw [zip2_getD _ (by simp) _ _ hd]
    simp only [List.getD_eq_getElem?_getD] at hbd ⊢
    simp only [List.getElem?_mapIdx, List.getElem?_eq_getElem hbd, Option.map_some, Option.getD_some, if_true]
  have e2 : confAt (correctWrist isZero hw bw b) f p bw = if isZero (confAt b f p hw) then confAt b f p bw else confAt b f p hw := by
    unfold confAt correctWrist
    simp only []
    rw [getD_map_nil _ (by simp), getD_map_nil _ (by simp)]
    simp only [List.getD_eq_getElem?_getD] at hbc ⊢
    simp only [List.getElem?_mapIdx, List.getElem?_eq_getElem hbc, Option.map_some, Option.getD_some, if_true]
  have e3 : missAt (correctWrist isZero hw bw b) f p bw = if isZero (confAt b f p hw) then missAt b f p bw else missAt b f p hw := by
    unfold missAt confAt correctWrist
    simp only []
    rw [zip2_getD _ (by simp) _ _ hm]
    simp only [List.getD_eq_getElem?_getD] at hbm ⊢
    simp only [List.getElem?_mapIdx, List.getElem?_eq_getElem hbm, Option.map_some, Option.getD_some, if_true]
  constructor
  · intro h; rw [e1, e2, e3]; simp [h]
  · intro h; rw [e1, e2, e3]; simp [h]


/-! non-vacuity: hide point 1 of a two-point body; correct the "body wrist" 0 from the "hand wrist" 1 -/
def hbody : PBody Nat := ⟨25, [[[[1, 2], [3, 4]]]], [[[7, 9]]], [[[[false, false], [false, false]]]]⟩
example : (hidePoints C19.natSc [1] hbody).data = [[[[1, 2], [0, 0]]]] ∧ (hidePoints C19.natSc [1] hbody).conf = [[[7, 0]]] := by decide
example : (correctWrist (· == 0) 1 0 hbody).data = [[[[3, 4], [3, 4]]]] ∧ (correctWrist (· == 0) 1 0 hbody).conf = [[[9, 9]]] := by decide
example : (correctWrist (· == 0) 1 0 { hbody with conf := [[[7, 0]]] }).data = hbody.data := by decide
end helpers

/-! ### selection, end to end: the values of the selected points -/

section values
variable {S : Type}
theorem getD2_map_pick {α : Type} [Inhabited α] (ixs : List Nat) (a : List (List (List α))) (f q : Nat) (hf : f < a.length) (hq : q < (a.getD f []).length) :
    ((a.map (List.map (pickD ixs))).getD f []).getD q [] = pickD ixs ((a.getD f []).getD q []) := by
  simp only [List.getD_eq_getElem?_getD, List.getElem?_map, List.getElem?_eq_getElem hf, Option.map_some, Option.getD_some] at hq ⊢
  simp only [List.getElem?_map, List.getElem?_eq_getElem hq, Option.map_some, Option.getD_some]

theorem pickD_getD {α : Type} [Inhabited α] (ixs : List Nat) (l : List α) (i : Nat) (hi : i < ixs.length) : (pickD ixs l).getD i default = l.getD (ixs.getD i 0) default := by
  simp [pickD, List.getD_eq_getElem?_getD, List.getElem?_eq_getElem hi]

/-- **the body gather**: point `i` of `get_points(ixs)` carries, in every frame and person, the coordinates, confidence and missing flags of source point `ixs[i]` -/
theorem getPoints_cell [Inhabited S] (be : Backend) {isZero : S → Bool} {F P N D : Nat} {b r : PBody S} (h : BInv isZero F P N D b) (hF : 0 < F) (hP : 0 < P)
    (ixs : List Nat) (hr : getPoints be isZero ixs b = some r) (f q i : Nat) (hf : f < F) (hq : q < P) (hi : i < ixs.length) :
    dataAt r f q i = dataAt b f q (ixs.getD i 0) ∧ confAt r f q i = confAt b f q (ixs.getD i 0) ∧ missAt r f q i = missAt b f q (ixs.getD i 0) := by
  rw [h.eq_mkC, getPoints_spec _ _ _ _ _ _ h.sameShape] at hr
  split at hr
  · simp only [Option.some.injEq] at hr
    subst hr
    have hdl : b.data.length = F := h.data.1
    have hcl : b.conf.length = F := h.conf.1
    have hdq : ((b.data.getD f []).length) = P := (h.data.getD f [] hf).1
    have hcq : ((b.conf.getD f []).length) = P := (h.conf.getD f [] hf).1
    have hml : b.missing.length = F := by rw [h.consistent, deriveMissing_eq, List.length_zipWith, hdl, hcl, Nat.min_self]
    refine ⟨?_, ?_, ?_⟩
    · unfold dataAt
      simp only [mkC_data]
      rw [getD2_map_pick ixs b.data f q (by omega) (by omega)]
      exact pickD_getD ixs _ i hi
    · unfold confAt
      simp only [mkC_conf]
      rw [getD2_map_pick ixs b.conf f q (by omega) (by omega)]
      exact pickD_getD ixs _ i hi
    · unfold missAt
      simp only [mkC_missing]
      rw [C08.derive_getPoints isZero b.data b.conf h.sameShape ixs, ← h.consistent]
      have hmq : ((b.missing.getD f []).length) = P := by
        rw [h.consistent, deriveMissing_eq]
        have := getD_zipWith' (List.zipWith (List.zipWith (kpt isZero))) b.data b.conf (by omega) f [] []
        simp only [List.zipWith_nil_left] at this
        rw [this, List.length_zipWith, hdq, hcq, Nat.min_self]
      rw [getD2_map_pick ixs b.missing f q (by omega) (by omega)]
      exact pickD_getD ixs _ i hi
  · cases hr

/-- **selection, end to end**: after `get_components(request, points)` the new header is the one `getComponents` computes, with its list `ixs` of source indexes (characterised
    name by name by `select_component`), and point `i` of the new body carries for every frame and person the coordinates, confidence and missing flags of source point `ixs[i]` -/
theorem getComponents_values [Inhabited S] (sc : Scalar S) {isZero : S → Bool} {F P N D : Nat} (p p' : PPose S) (hinv : BInv isZero F P N D p.body) (hF : 0 < F) (hP : 0 < P)
    (req : List String) (pts : Option (List (String × List String))) (happ : (POp.getComponents req pts).apply sc isZero p = some p') :
    ∃ ixs, getComponents p.comps req pts = some (p'.comps, ixs) ∧ ∀ f q i, f < F → q < P → i < ixs.length →
      dataAt p'.body f q i = dataAt p.body f q (ixs.getD i 0) ∧ confAt p'.body f q i = confAt p.body f q (ixs.getD i 0) ∧ missAt p'.body f q i = missAt p.body f q (ixs.getD i 0) := by
  simp only [POp.apply, Option.bind_eq_bind, Option.bind_eq_some_iff] at happ
  obtain ⟨⟨comps', ixs⟩, hg, body', hb, hp'⟩ := happ
  simp only [Option.pure_def, Option.some.injEq] at hp'
  subst hp'
  exact ⟨ixs, hg, fun f q i hf hq hi => getPoints_cell .numpy hinv hF hP ixs hb f q i hf hq hi⟩

/-- the same for `remove_components` (which, by `remove_eq_select_complement` / `remove_points_eq_select`, is the selection of the complement) -/
theorem removeComponents_values [Inhabited S] (sc : Scalar S) {isZero : S → Bool} {F P N D : Nat} (p p' : PPose S) (hinv : BInv isZero F P N D p.body) (hF : 0 < F) (hP : 0 < P)
    (rm : List String) (pts : Option (List (String × List String))) (happ : (POp.removeComponents rm pts).apply sc isZero p = some p') :
    ∃ ixs, removeComponents p.comps rm pts = some (p'.comps, ixs) ∧ ∀ f q i, f < F → q < P → i < ixs.length →
      dataAt p'.body f q i = dataAt p.body f q (ixs.getD i 0) ∧ confAt p'.body f q i = confAt p.body f q (ixs.getD i 0) ∧ missAt p'.body f q i = missAt p.body f q (ixs.getD i 0) := by
  simp only [POp.apply, Option.bind_eq_bind, Option.bind_eq_some_iff] at happ
  obtain ⟨⟨comps', ixs⟩, hg, body', hb, hp'⟩ := happ
  simp only [Option.pure_def, Option.some.injEq] at hp'
  subst hp'
  exact ⟨ixs, hg, fun f q i hf hq hi => getPoints_cell .numpy hinv hF hP ixs hb f q i hf hq hi⟩
end values

end PoseVerif.Props.C11

/-! ### `reduce_holistic` -/

namespace PoseVerif.Props.C11
open PoseVerif

theorem isInfix_iff (n h : List Char) : isInfix n h = true ↔ ∃ pre post, h = pre ++ n ++ post := by
  induction h with
  | nil =>
    simp only [isInfix, List.isPrefixOf_iff_prefix]
    constructor
    · rintro ⟨post, hp⟩
      exact ⟨[], post, by simpa using hp.symm⟩
    · rintro ⟨pre, post, hp⟩
      have : n = [] := by
        have := congrArg List.length hp
        simp at this
        exact List.eq_nil_of_length_eq_zero (by omega)
      subst this
      exact ⟨[], rfl⟩
  | cons c cs ih =>
    simp only [isInfix, Bool.or_eq_true, List.isPrefixOf_iff_prefix, ih]
    constructor
    · rintro (⟨post, hp⟩ | ⟨pre, post, rfl⟩)
      · exact ⟨[], post, by simpa using hp.symm⟩
      · exact ⟨c :: pre, post, by simp⟩
    · rintro ⟨pre, post, hp⟩
      cases pre with
      | nil => exact Or.inl ⟨post, by simpa using hp.symm⟩
      | cons d pre =>
        simp only [List.cons_append, List.cons.injEq] at hp
        exact Or.inr ⟨pre, post, hp.2⟩

/-- "the points it names": a body point is dropped exactly when one of the ignore names occurs in it; the others are kept, in source order. -/
theorem reduceKeep_iff (ignore points : List String) (p : String) :
    p ∈ reduceKeep ignore points ↔ p ∈ points ∧ ∀ i ∈ ignore, ¬ ∃ pre post, p.toList = pre ++ i.toList ++ post := by
  unfold reduceKeep
  simp only [List.mem_filter, List.all_eq_true, Bool.not_eq_true', ← Bool.not_eq_true, isInfix_iff]

theorem reduceKeep_sublist (ignore points : List String) : (reduceKeep ignore points).Sublist points := List.filter_sublist

/-- Holistic reduction is a selection: whatever the selection theorems (`select_component`, `select_limbs_names`, `getComponents_values`) say about
    `get_components` with this request holds of it — in particular nothing but the named points is dropped, and the kept ones carry their source values. -/
theorem reduceHolistic_is_selection (ignore contours : List String) (comps : List Comp) (body : Comp) (hb : comps.find? (·.name == "POSE_LANDMARKS") = some body) :
    reduceHolistic ignore contours comps =
      getComponents comps ((comps.filter (·.name != "POSE_WORLD_LANDMARKS")).map (·.name)) (some [("FACE_LANDMARKS", contours), ("POSE_LANDMARKS", reduceKeep ignore body.points)]) := by
  simp [reduceHolistic, hb]

/-- without a body component the helper raises -/
theorem reduceHolistic_no_body (ignore contours : List String) (comps : List Comp) (hb : comps.find? (·.name == "POSE_LANDMARKS") = none) :
    reduceHolistic ignore contours comps = none := by
  simp [reduceHolistic, hb]

def demoHol : List Comp :=
  [{ name := "POSE_LANDMARKS", format := "XYZC", points := ["NOSE", "LEFT_SHOULDER", "LEFT_HIP", "LEFT_KNEE", "RIGHT_WRIST"], limbs := [(1, 2), (2, 3)], colors := [(1, 2, 3)] },
   { name := "FACE_LANDMARKS", format := "XYZC", points := ["0", "1", "7"], limbs := [], colors := [] },
   { name := "LEFT_HAND_LANDMARKS", format := "XYZC", points := ["WRIST", "THUMB_TIP"], limbs := [(0, 1)], colors := [] },
   { name := "POSE_WORLD_LANDMARKS", format := "XYZC", points := ["NOSE"], limbs := [], colors := [] }]

example : (reduceHolistic ["NOSE", "KNEE"] ["0", "7"] demoHol).map (fun r => (r.1.map (·.name), r.1.map (·.points))) =
    some (["POSE_LANDMARKS", "FACE_LANDMARKS", "LEFT_HAND_LANDMARKS"], [["LEFT_SHOULDER", "LEFT_HIP", "RIGHT_WRIST"], ["0", "7"], ["WRIST", "THUMB_TIP"]]) := by decide +kernel
example : (reduceHolistic ["NOSE", "KNEE"] ["0", "7"] demoHol).map (fun r => (r.1.map (·.limbs), r.2)) = some ([[(0, 1)], [], [(0, 1)]], [1, 2, 4, 5, 7, 8, 9]) := by decide +kernel
example : reduceHolistic ["NOSE"] ["0", "99"] demoHol = none := by decide +kernel          -- a contour point the face component lacks: ValueError

end PoseVerif.Props.C11
