import PoseVerif.Proofs.C09ReprLemmas
/-!
# C09 (feature representations) — the representations do not look under the mask

`mkPoint a ok`: a point whose coordinates all carry the point's validity flag (how pose bodies build their masks); `PtAgree a a' ok`: two fillings of that
point — as many coordinates, the same ones when the point is observed. `mkPts raw`: the `(points, batch, len, dims)` input of the assembled representation
built from stored coordinates and per-point flags; `PtRel`-related inputs differ only in what is stored at missing points.
No law of arithmetic is used: the scalar type and its operations are arbitrary (NaN, ±inf included).
-/
namespace PoseVerif.Props.C09Repr
open PoseVerif PoseVerif.Props.C17
variable {S : Type}

/-- the limb modules (distance, X/Y angle): the same value for any two fillings of the missing points -/
theorem rep2_ni (sc : Scalar S) [Inhabited S] (atanF : S → S) (m : Rep2) (a a' b b' : List S) (oka okb : Bool) (ha : PtAgree a a' oka) (hb : PtAgree b b' okb)
    (hne : 0 < min a.length b.length) :
    m.apply sc atanF (mkPoint a oka) (mkPoint b okb) = m.apply sc atanF (mkPoint a' oka) (mkPoint b' okb) := by
  cases h : (oka && okb)
  · cases m
    · show distanceRep _ _ _ = distanceRep _ _ _
      rw [distance_missing_zero sc a b oka okb hne h, distance_missing_zero sc a' b' oka okb (by rw [← ha.1, ← hb.1]; exact hne) h]
    · show angleRep _ _ _ _ = angleRep _ _ _ _
      rw [angle_missing sc atanF a b oka okb h, angle_missing sc atanF a' b' oka okb h]
  · simp only [Bool.and_eq_true] at h
    rw [ha.2 h.1, hb.2 h.2]

/-- the joint-triple modules (inner angle, point–line distance): the same value for any two fillings of the missing points -/
theorem rep3_ni (sc : Scalar S) (acosF : S → S) (m : Rep3) (a a' b b' c c' : List S) (oka okb okc : Bool) (ha : PtAgree a a' oka) (hb : PtAgree b b' okb) (hc : PtAgree c c' okc)
    (hne : 0 < min a.length (min b.length c.length)) :
    m.apply sc acosF (mkPoint a oka) (mkPoint b okb) (mkPoint c okc) = m.apply sc acosF (mkPoint a' oka) (mkPoint b' okb) (mkPoint c' okc) := by
  have hne' : 0 < min a'.length (min b'.length c'.length) := by rw [← ha.1, ← hb.1, ← hc.1]; exact hne
  cases h : (oka && okb && okc)
  · cases m
    · show innerAngleRep _ _ _ _ _ = innerAngleRep _ _ _ _ _
      rw [innerAngle_missing sc acosF a b c oka okb okc hne h, innerAngle_missing sc acosF a' b' c' oka okb okc hne' h]
    · show pointLineRep _ _ _ _ = pointLineRep _ _ _ _
      rw [pointLine_missing_zero sc a b c oka okb okc hne h, pointLine_missing_zero sc a' b' c' oka okb okc hne' h]
  · simp only [Bool.and_eq_true] at h
    rw [ha.2 h.1.1, hb.2 h.1.2, hc.2 h.2]

/-- the points module: the same rows -/
theorem pointsRepRows_ni (sc : Scalar S) [Inhabited S] (raw raw' : RawPts S) (h : F2 (F2 (F2 PtRel)) raw raw') (dims : Nat) :
    pointsRepRows sc (mkPts raw) dims = pointsRepRows sc (mkPts raw') dims := by
  unfold pointsRepRows mkPts
  induction h with
  | nil => rfl
  | cons hxy _ ih =>
    simp only [List.map_cons, List.flatMap_cons, ih]
    congr 1
    apply List.map_congr_left
    intro d _
    simp only [List.map_map]
    apply F2_map_eq hxy
    intro r r' hr
    simp only [Function.comp, List.map_map]
    apply F2_map_eq hr
    intro t t' ht
    simp only [Function.comp, mvZeroFilled, mkPoint, List.getD_eq_getElem?_getD, List.getElem?_map]
    obtain ⟨hf, hl, hv⟩ := ht
    cases hok : t.2
    · rw [← hf, hok]
      cases t.1[d]? <;> cases t'.1[d]? <;> simp
    · rw [← hv hok, ← hf, hok]

/-- **the assembled representation does not look under the mask**: two inputs that differ only in what is stored at missing points give the same output -/
theorem forward_ni (sc : Scalar S) (atanF acosF : S → S) [Inhabited S] (comps : List Comp) (n1 : Nat) (m2 : List Rep2) (m3 : List Rep3)
    (raw raw' : RawPts S) (B L : Nat) (hrel : F2 (F2 (F2 PtRel)) raw raw') (hN : raw.length = totalPts comps)
    (hlimbs : ∀ c ∈ comps, ∀ l ∈ c.limbs, l.1 < c.points.length ∧ l.2 < c.points.length)
    (hdims : ∀ i b l, i < raw.length → b < B → l < L → 0 < (rawCell raw i b l).1.length) :
    poseRepresentation sc atanF acosF comps n1 m2 m3 (mkPts raw) B L = poseRepresentation sc atanF acosF comps n1 m2 m3 (mkPts raw') B L := by
  obtain ⟨hr1, hr2, _⟩ := limbPoints_in_range comps hlimbs
  unfold poseRepresentation
  simp only []
  rw [pointsRepRows_ni sc raw raw' hrel]
  have e2 : ∀ m ∈ m2, rep2Rows (m.apply sc atanF) (mkPts raw) (limbPoints comps).1 (limbPoints comps).2 B L =
      rep2Rows (m.apply sc atanF) (mkPts raw') (limbPoints comps).1 (limbPoints comps).2 B L := by
    intro m _
    unfold rep2Rows
    apply List.map_congr_left
    intro ij hij
    have hi := hr1 _ (List.of_mem_zip hij).1
    have hj := hr2 _ (List.of_mem_zip hij).2
    apply List.map_congr_left; intro b hb
    apply List.map_congr_left; intro l hl
    rw [cellPt_mkPts, cellPt_mkPts, cellPt_mkPts, cellPt_mkPts]
    have r1 := rawCell_rel raw raw' hrel ij.1 b l
    have r2 := rawCell_rel raw raw' hrel ij.2 b l
    rw [← r1.1, ← r2.1]
    exact rep2_ni sc atanF m _ _ _ _ _ _ r1.2 r2.2 (by
      have := hdims ij.1 b l (by omega) (List.mem_range.mp hb) (List.mem_range.mp hl)
      have := hdims ij.2 b l (by omega) (List.mem_range.mp hb) (List.mem_range.mp hl)
      omega)
  have e3 : ∀ m ∈ m3, rep3Rows (m.apply sc acosF) (mkPts raw) (trianglePoints (limbPoints comps).1 (limbPoints comps).2) B L =
      rep3Rows (m.apply sc acosF) (mkPts raw') (trianglePoints (limbPoints comps).1 (limbPoints comps).2) B L := by
    intro m _
    unfold rep3Rows
    apply List.map_congr_left
    intro t ht
    obtain ⟨x, hx, y, hy, _, rfl⟩ := (mem_trianglePoints _ _ t).mp ht
    have h1 := hr1 _ (List.of_mem_zip hx).1
    have h2 := hr2 _ (List.of_mem_zip hx).2
    have h3 := hr2 _ (List.of_mem_zip hy).2
    apply List.map_congr_left; intro b hb
    apply List.map_congr_left; intro l hl
    simp only [cellPt_mkPts]
    have r1 := rawCell_rel raw raw' hrel x.1 b l
    have r2 := rawCell_rel raw raw' hrel x.2 b l
    have r3 := rawCell_rel raw raw' hrel y.2 b l
    rw [← r1.1, ← r2.1, ← r3.1]
    exact rep3_ni sc acosF m _ _ _ _ _ _ _ _ _ r1.2 r2.2 r3.2 (by
      have := hdims x.1 b l (by omega) (List.mem_range.mp hb) (List.mem_range.mp hl)
      have := hdims x.2 b l (by omega) (List.mem_range.mp hb) (List.mem_range.mp hl)
      have := hdims y.2 b l (by omega) (List.mem_range.mp hb) (List.mem_range.mp hl)
      omega)
  rw [List.map_congr_left e2, List.map_congr_left e3]

end PoseVerif.Props.C09Repr
