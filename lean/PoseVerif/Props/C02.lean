import PoseVerif.Proofs.Trunc
import PoseVerif.Proofs.Spec
import PoseVerif.Props.C01
/-!
# C02 — written files follow the published v0.2 byte layout exactly

`specFile` is the reference encoder: a total function written from `docs/specs/v0.2.md`, field by field
(little-endian, `u16`-length-prefixed UTF-8, `f32` fps, `u32` frames, `u16` people, frame-major coordinate block, confidence block).
-/
namespace PoseVerif.Props.C02
open PoseVerif

/-- Writer direction: whatever `Pose.write` produces is exactly the documented layout. -/
theorem write_layout (p : Pose) (b : Bytes) (h : p.write? = some b) :
    ∃ w, p.body.fps.toF32? = some w ∧ b = specFile p w := by
  obtain ⟨_, hb, bb, hhb, hbb, rfl⟩ := Pose.write?_some h
  obtain ⟨d, n, cs, hd, hn, hcs, rfl⟩ := encHeaderAny?_some hhb
  obtain ⟨w, nf, np, hw, hnf, hnp, rfl⟩ := encBody?_some hbb
  obtain ⟨_, _, _, rfl⟩ := pack3U16?_some hd
  obtain ⟨_, rfl⟩ := packU16?_some hn
  obtain ⟨_, rfl⟩ := packU32?_some hnf
  obtain ⟨_, rfl⟩ := packU16?_some hnp
  refine ⟨w, hw, ?_⟩
  rw [mapM_flatten _ specComp _ _ encComp_spec hcs]
  simp [specFile, specHeader, putF32s, List.append_assoc]

/-- Reader direction: any file the reference encoder produces for a representable, well-shaped pose is read to exactly the content it encodes. -/
theorem read_of_reference (p : Pose) (hf : p.body.Fits p.header) (hr : p.Rep) :
    ∃ w, p.body.fps.toF32? = some w ∧ readFull (specFile p w) = some (p.canon w) := by
  obtain ⟨b, hb⟩ := (Pose.write?_iff p hf.dims).mpr hr
  obtain ⟨w, hw, rfl⟩ := write_layout p b hb
  obtain ⟨w', c, hw', hrun⟩ := runBR_rdPose_write p hf _ [] hb
  rw [hw] at hw'; cases hw'
  rw [List.append_nil] at hrun
  exact ⟨w, hw, by simp [readFull, hrun]⟩

/-- Re-writing a pose that was just read from a file whose version field is the 0.2 pattern reproduces the bytes consumed, byte for byte. -/
theorem rewrite_identity (f : Bytes) (p : Pose) (c : Option CacheEntry) (n : Nat)
    (hr : runBR (rdPose none {}) f 0 = some ((p, c), n)) (hv : p.header.version = v02bits) :
    p.write? = some (f.take n) :=
  (rdPose_rewrite f p c n hr hv).2.1

/-- …in particular a written file: read then write gives the file back. -/
theorem write_read_write (p : Pose) (hf : p.body.Fits p.header) (b : Bytes) (h : p.write? = some b) :
    ∃ q, readFull b = some q ∧ q.write? = some b := by
  obtain ⟨w, c, _, hrun⟩ := runBR_rdPose_write p hf b [] h
  rw [List.append_nil] at hrun
  refine ⟨p.canon w, by simp [readFull, hrun], ?_⟩
  have := rewrite_identity b (p.canon w) c b.length hrun rfl
  rwa [List.take_length] at this

/-! non-vacuity: the sample pose of C01 is representable and well shaped, and its file is the 79 documented bytes -/
example : (specFile C01.samplePose 0x41C80000).length = 79 := by decide
example : C01.samplePose.write? = some (specFile C01.samplePose 0x41C80000) := by decide

end PoseVerif.Props.C02
